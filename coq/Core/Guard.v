(* Property C13 - validation front of the SI request handlers.
   `guard` is a transcription of the guards (only the guards, in code order) that decide whether a request is
   refused, as a function of the OBSERVED pre-state:
     context.go    processAllocations (partition lookup, conversion failure), processNodes/addNode/updateNode,
                   handleRMUpdateApplicationEvent (partition, convertUGI, AddApplication: duplicate id),
                   processAllocationReleases
     partition.go  UpdateAllocation (application, node, zero / negative resources, node of an existing allocation),
                   handleForeignAllocation (no node, unknown node, negative resources), removeAllocation (unknown
                   application), removeForeignAllocation, removeApplication, AddNode/addNodeToList (duplicate)
     security/usergroup.go ConvertUGI (no user and not forced)
   `invalid` is the SPECIFICATION: what the property text calls an invalid request. The theorems of
   Core/GuardProofs.v say that every invalid request is refused by the guards with the matching answer and that a
   refused request leaves the (model) state untouched; correspondence kind 139x compares the verdict of the
   implementation on every allocation / release / node / application request with `guard`.
   Definitions only. *)
From Coq Require Import List ZArith NArith Bool.
From YK Require Import Base.Res Core.Obs.
Import ListNotations.
Open Scope N_scope.

Inductive verdict :=
| VAccept            (* passes the guards: the handler goes on (it may still have no effect) *)
| VReject            (* refused and answered: RejectedAllocation / RejectedApplication / RejectedNode *)
| VIgnore            (* refused without answer: the protocol has no rejection message for this request *)
| VDecide            (* passes the guards modelled here; a later stage (placement, ACL, queue checks) accepts or rejects *)
| VCrash.            (* the handler dereferences nil: the event goroutine panics *)

Definition node_known (s : ostate) (n : N) : bool := match find_node s n with Some _ => true | None => false end.
Definition app_known (s : ostate) (a : N) : bool := match find_app s a with Some _ => true | None => false end.

Definition res_has_negative (r : res) : bool := existsb (fun kv => (snd kv <? 0)%Z) r.

(* `fixed` selects the code after (true) or before (false) the fix: commits bea76fa, 5223894, e73171d, 32d9a1c found
   by this property; the correspondence run uses fixed = true, the theorems show what each fix repaired *)
(* ---- UpdateAllocation and its callers ---- *)
Definition alloc_guard_gen (fixed : bool) (s : ostate) (r : oreq) : verdict :=
  (* processAllocations: partition lookup *)
  if negb (rq_partition_ok r) then VReject else
  (* NewAllocationFromSI returns nil for a placeholder without task group; UpdateAllocation(nil) returns no error:
     before e73171d the request vanished without an answer *)
  if rq_ph r && (rq_tg r =? 0) then (if fixed then VReject else VIgnore) else
  if rq_foreign r then
    (* handleForeignAllocation *)
    if rq_node r =? 0 then VReject else
    if negb (node_known s (rq_node r)) then VReject else
    if fixed && res_has_negative (oget (rq_res r)) then VReject else      (* 32d9a1c *)
    VAccept
  else
    match find_app s (rq_app r) with
    | None => VReject                                              (* failed to find application *)
    | Some a =>
        if negb (rq_node r =? 0) && negb (node_known s (rq_node r)) then VReject else
        if IsZero (rq_res r) then VReject else                        (* allocation contains no resources *)
        if negb (StrictlyGreaterThanZero (rq_res r)) then VReject else (* negative resources *)
        match find_alloc (ap_requests a) (rq_key r) with
        | None => VAccept                                          (* new ask / recovered allocation *)
        | Some ex =>
            if oa_allocated ex && negb (node_known s (oa_node ex)) then VReject  (* node of the existing allocation is gone *)
            else VAccept
        end
    end.
Definition alloc_guard := alloc_guard_gen true.

(* ---- processAllocationReleases / removeAllocation ---- *)
Definition release_guard_gen (fixed : bool) (s : ostate) (app key ty : N) : verdict :=
  if app =? 0 then
    (* foreign: removeForeignAllocation, a missing key is logged only *)
    if memN key (map oa_key (s_foreign s)) then VAccept else VIgnore
  else
    match find_app s app with
    | None => VIgnore                                              (* application not found: nothing to do *)
    | Some a =>
        (* before bea76fa: a PLACEHOLDER_REPLACED release of an allocation without a linked replacement read
           alloc.GetRelease() == nil and dereferenced it (the node of the allocation must exist to get there) *)
        if negb fixed && (ty =? TT_PlaceholderReplaced) &&
           match find_alloc (ap_allocs a) key with Some x => (oa_release x =? 0) && node_known s (oa_node x) | None => false end
        then VCrash else
        if (key =? 0) || memN key (map oa_key (ap_allocs a)) || memN key (map oa_key (ap_requests a)) then VAccept
        else VIgnore
    end.
Definition release_guard (s : ostate) (app key : N) : verdict := release_guard_gen true s app key 0.

(* ---- processNodes ---- *)
Definition node_add_guard (s : ostate) (id : N) : verdict := if node_known s id then VReject else VAccept.
Definition node_upd_guard (s : ostate) (id : N) : verdict := if node_known s id then VAccept else VIgnore.

(* ---- handleRMUpdateApplicationEvent ---- *)
Definition app_add_guard_gen (fixed : bool) (s : ostate) (id : N) (forced nougi : bool) : verdict :=
  (* ConvertUGI: no user and not forced -> "empty user cannot resolve"; forced -> anonymous user, which before 5223894
     was written through the nil pointer *)
  if nougi && negb forced then VReject else
  if nougi && forced && negb fixed then VCrash else
  if app_known s id then VReject else               (* AddApplication: application already existed *)
  VDecide.
Definition app_add_guard := app_add_guard_gen true.
Definition app_remove_guard (s : ostate) (id : N) : verdict := if app_known s id then VAccept else VIgnore.

Definition guard_gen (fixed : bool) (s : ostate) (op : oop) : verdict :=
  match op with
  | OpAlloc r => alloc_guard_gen fixed s r
  | OpRelease app key ty => release_guard_gen fixed s app key ty
  | OpNodeAdd id _ _ => node_add_guard s id
  | OpNodeUpdate id _ | OpNodeDrain id | OpNodeUndrain id | OpNodeRemove id => node_upd_guard s id
  | OpAppAdd id _ _ forced nougi _ _ _ _ => app_add_guard_gen fixed s id forced nougi
  | OpAppRemove id => app_remove_guard s id
  | _ => VAccept
  end.
Definition guard := guard_gen true.

(* the rejection message the protocol has for a request *)
Definition answer_of (op : oop) : option oevent :=
  match op with
  | OpAlloc r => Some (EAllocRejected (rq_key r) (rq_app r))
  | OpNodeAdd id _ _ => Some (ENodeRejected id)
  | OpAppAdd id _ _ _ _ _ _ _ _ => Some (EAppRejected id)
  | _ => None
  end.

(* ---- specification: requests the property calls invalid (unknown, duplicate or empty ids, unset sub-messages,
        zero or negative resources, releases of things that do not exist, updates for removed nodes or
        terminated applications) ---- *)
Definition res_invalid (o : ores) : bool :=
  match o with
  | None => true                                                   (* unset sub-message *)
  | Some r => forallb (fun kv => (snd kv =? 0)%Z) r || res_has_negative r   (* empty, all zero, or some negative *)
  end.
Definition invalid_core (s : ostate) (op : oop) : bool :=
  match op with
  | OpAlloc r =>
      negb (rq_partition_ok r) ||
      (rq_ph r && (rq_tg r =? 0)) ||
      (if rq_foreign r
       then (rq_node r =? 0) || negb (node_known s (rq_node r)) || res_has_negative (oget (rq_res r))
       else negb (app_known s (rq_app r)) || res_invalid (rq_res r) || (negb (rq_node r =? 0) && negb (node_known s (rq_node r))))
  | OpRelease app key _ =>
      if app =? 0 then negb (memN key (map oa_key (s_foreign s)))
      else match find_app s app with
           | None => true
           | Some a => negb (key =? 0) && negb (memN key (map oa_key (ap_allocs a))) && negb (memN key (map oa_key (ap_requests a)))
           end
  | OpNodeAdd id _ _ => node_known s id
  | OpNodeUpdate id _ | OpNodeDrain id | OpNodeUndrain id | OpNodeRemove id => negb (node_known s id)
  | OpAppAdd id _ _ forced nougi _ _ _ _ => app_known s id || (nougi && negb forced)
  | OpAppRemove id => negb (app_known s id)
  | _ => false
  end.

(* an update of an existing foreign allocation that names another node than the one it is on (an allocation does not
   move): the property wants it refused; the code accepts it (Core/GuardProofs.foreign_move_not_refused) *)
Definition foreign_moved (s : ostate) (op : oop) : bool :=
  match op with
  | OpAlloc r => rq_foreign r && rq_partition_ok r &&
                 match find_alloc (s_foreign s) (rq_key r) with Some x => negb (oa_node x =? rq_node r) | None => false end
  | _ => false
  end.
Definition invalid (s : ostate) (op : oop) : bool := invalid_core s op || foreign_moved s op.

(* ---- the front as a step function: a refused request returns the state it was given ---- *)
Inductive front_result := Refused (s : ostate) (answer : option oevent) | Passed | Crash.
Definition front_gen (fixed : bool) (s : ostate) (op : oop) : front_result :=
  match guard_gen fixed s op with
  | VReject => Refused s (answer_of op)
  | VIgnore => Refused s None
  | VAccept | VDecide => Passed
  | VCrash => Crash
  end.
Definition front := front_gen true.

(* the verdict the implementation gave, read off the messages of the step *)
Definition impl_rejected (st : ostep) : bool :=
  match answer_of (st_op st) with
  | Some (EAllocRejected k a) => existsb (fun e => match e with EAllocRejected k' a' => (k' =? k) && (a' =? a) | _ => false end) (st_events st)
  | Some (ENodeRejected n) => existsb (fun e => match e with ENodeRejected n' => n' =? n | _ => false end) (st_events st)
  | Some (EAppRejected a) => existsb (fun e => match e with EAppRejected a' => a' =? a | _ => false end) (st_events st)
  | _ => false
  end.
