(* C09 over the operational model, part 6: the steps of the first fragment ([m_step], Core/Model.v) never write a
   reservation view: they preserve the reservation invariant. *)
From Coq Require Import List ZArith NArith Bool Lia ZifyBool ZifyN.
From YK Require Import Base.Int64 Base.Res Core.Obs Core.Model Core.Model2 Core.Ledger Core.Model4 Core.NodeProofs Core.QueueProofs Core.StepProofs
  Core.Model4ProofsF Core.Model4ProofsR1 Core.Model4ProofsR2 Core.Model4ProofsR3 Core.Model4ProofsR4 Core.Model4ProofsR5.
Import ListNotations.
Open Scope N_scope.
Set Default Timeout 30.

Lemma part_update_total_nf e s d : NF e e s (part_update_total s d).
Proof. unfold part_update_total. eapply NF_queues; [reflexivity|reflexivity|reflexivity|].
  intros q. destruct (q_parent q =? 0); split; reflexivity. Qed.
Lemma set_foreign_nf e s l : NF e e s (set_foreign s l).
Proof. apply NF_same; reflexivity. Qed.
Lemma add_counts_nf e s a b : NF e e s (add_counts s a b).
Proof. apply NF_same; reflexivity. Qed.

(* a node record replaced by one with the same identity and reservations *)
Lemma NF_set_node e s id n n' : Ids0 s -> find_node s id = Some n -> on_id n' = on_id n -> on_reservations n' = on_reservations n ->
  NF e e s (upd_node s id (fun _ => n')).
Proof. intros HI En E1 E2. destruct (find_node_in _ _ _ En) as [Hn Eid]. apply NF_upd_node. intros m Hm Em.
  assert (m = n) by (apply (nodup_key_eq on_id (s_nodes s)); auto; [apply (id0_nodes s HI)|congruence]). subst m. auto. Qed.

Lemma n_set_capacity_res n c : on_reservations (fst (n_set_capacity n c)) = on_reservations n.
Proof. unfold n_set_capacity. destruct (Equals _ _); reflexivity. Qed.
Lemma n_add_res n x force n' : n_add n x force = Some n' -> on_id n' = on_id n /\ on_reservations n' = on_reservations n.
Proof. intros H. destruct (n_add_id _ _ _ _ H) as (I1 & _ & _ & I4). auto. Qed.
Lemma n_update_foreign_res n x : on_id (n_update_foreign n x) = on_id n /\ on_reservations (n_update_foreign n x) = on_reservations n.
Proof. unfold n_update_foreign. destruct (find_alloc (on_foreign n) (oa_key x)); split; reflexivity. Qed.

(* ------------------------------------------------------------------ nodes *)
Lemma m_node_add_rinv s id cap drain s' : m_node_add s id cap drain = Some s' -> RInv s -> RInv s'.
Proof. unfold m_node_add. intros H HR. destruct (find_node s id); apply Some_inj in H; subst s'; [exact HR|].
  eapply NF_rinv; [apply part_update_total_nf|]. eapply (add_node_rinv s _ (new_node id cap drain) HR); reflexivity. Qed.
Lemma m_node_update_rinv s id cap s' : m_node_update s id cap = Some s' -> Ids0 s -> RInv s -> RInv s'.
Proof. unfold m_node_update. intros H HI HR. destruct (find_node s id) as [n|] eqn:En; [|apply Some_inj in H; subst; exact HR].
  destruct cap as [c|]; [|apply Some_inj in H; subst; exact HR].
  pose proof (n_set_capacity_id n c) as I1. pose proof (n_set_capacity_res n c) as I2. destruct (n_set_capacity n c) as [n' delta]. cbn [fst] in I1, I2.
  apply Some_inj in H. subst s'. assert (F : NF None None s (upd_node s id (fun _ => n'))) by (eapply NF_set_node; eassumption).
  destruct delta; [eapply NF_rinv; [eapply NF_trans; [exact F|apply part_update_total_nf]|exact HR]|eapply NF_rinv; eassumption]. Qed.
Lemma m_node_sched_rinv s id b s' : m_node_sched s id b = Some s' -> RInv s -> RInv s'.
Proof. unfold m_node_sched. intros H HR. apply Some_inj in H. subst s'. eapply NF_rinv; [|exact HR]. apply NF_upd_node. intros m _ _. split; reflexivity. Qed.

(* ------------------------------------------------------------------ asks and allocations sent by the shim *)
Lemma in_put_alloc_keep x l y : In y l -> oa_key y <> oa_key x -> In y (put_alloc x l).
Proof. apply in_put_alloc_other. Qed.

(* the record of an application gains a request under a key it does not hold *)
Lemma app_keeps_new_key e' b b' x : ap_id b' = ap_id b -> ap_queue b' = ap_queue b -> ap_reservations b' = ap_reservations b ->
  ap_requests b' = put_alloc x (ap_requests b) -> find_alloc (ap_requests b) (oa_key x) = None -> app_keeps e' b b'.
Proof. intros E1 E2 E3 E4 Hf. assert (K : forall y, In y (ap_requests b) -> In y (ap_requests b')).
  { intros y Hy. rewrite E4. apply in_put_alloc_other; [exact Hy|]. intros C. pose proof (find_none _ _ Hf y Hy) as D. cbv beta in D. rewrite C, N.eqb_refl in D. discriminate. }
  apply app_keeps_sub; auto.
  - intros y Hy _ _. exists y. auto.
  - intros y nid Hy Hq _. exists y. auto. Qed.

Lemma m_new_ask_rinv s a x : Ids s -> RInv s -> In a (s_apps s) -> find_alloc (ap_requests a) (oa_key x) = None -> RInv (m_new_ask s a x).
Proof. intros HI HR Ha Hf. unfold m_new_ask. cbv zeta.
  match goal with |- RInv (q_inc_pending (upd_app s (ap_id a) (fun _ => ?A2)) _ _) => set (a2 := A2) end.
  destruct (q_inc_pending_shape (upd_app s (ap_id a) (fun _ => a2)) (ap_queue a) (oa_res x)) as (g & Eg & Kg).
  eapply NF_rinv; [|exact HR]. apply (one_app_only None s _ a a2 g HI Ha); [reflexivity|reflexivity|exact Eg|exact Kg|].
  match goal with a2 := ap_with (ap_event a ?st) _ _ _ _ _ _ _ |- _ => destruct (ap_event_fields a st) as (E1 & E2 & E3 & E4 & E5) end.
  apply (app_keeps_new_key None a a2 x); unfold a2; cbn [ap_with ap_id ap_queue ap_reservations ap_requests]; rewrite ?E1, ?E2, ?E3, ?E4; auto. Qed.

Lemma m_recovered_rinv s a n x s' : Ids s -> RInv s -> In a (s_apps s) -> In n (s_nodes s) -> find_alloc (ap_requests a) (oa_key x) = None ->
  m_recovered s a n x = Some s' -> RInv s'.
Proof. intros HI HR Ha Hn Hf H. unfold m_recovered in H. destruct (oa_ph x); [discriminate|]. destruct (n_add n x true) as [n'|] eqn:En; [|discriminate].
  cbv zeta in H. apply Some_inj in H. subst s'. destruct (n_add_res _ _ _ _ En) as [I1 I2].
  match goal with |- RInv (add_counts (upd_app _ _ (fun _ => ?A3)) _ _) => set (a3 := A3) end.
  destruct (q_inc_shape s (ap_queue a) (oa_res x)) as (g & Eg & Kg).
  eapply NF_rinv; [|exact HR].
  apply (one_app_one_node None s _ a a3 (on_id n) n' g HI Ha); [reflexivity|reflexivity|exact Eg|exact Kg| |].
  - (* the record: two FSM events, then the request and the allocation are stored *)
    unfold a3. set (a1 := ap_event a (if ap_state a =? ST_New then fsm_run (ap_state a) else ap_state a)).
    destruct (ap_event_fields a (if ap_state a =? ST_New then fsm_run (ap_state a) else ap_state a)) as (E1 & E2 & E3 & E4 & _). fold a1 in E1, E2, E3, E4.
    destruct (ap_event_fields a1 (fsm_run (ap_state a1))) as (G1 & G2 & G3 & G4 & _).
    apply (app_keeps_new_key None a _ x); cbn [ap_with ap_id ap_queue ap_reservations ap_requests]; rewrite ?G1, ?G2, ?G3, ?G4, ?E1, ?E2, ?E3, ?E4; auto.
  - intros m Hm E. assert (m = n) by (apply (nodup_key_eq on_id (s_nodes s)); auto; apply (id_nodes s HI)). subst m. auto. Qed.

Lemma m_alloc_rinv s r s' : m_alloc s r = Some s' -> Ids s -> RInv s -> RInv s'.
Proof. unfold m_alloc. intros H HI HR. destruct (negb (rq_partition_ok r)); [apply Some_inj in H; subst; exact HR|].
  destruct (rq_foreign r).
  - destruct (rq_node r =? 0); [apply Some_inj in H; subst; exact HR|].
    destruct (find_node s (rq_node r)) as [n|] eqn:En; [|apply Some_inj in H; subst; exact HR]. destruct (find_node_in _ _ _ En) as [Hn Enid].
    destruct (find_alloc (s_foreign s) (rq_key r)).
    + apply Some_inj in H. subst s'. eapply NF_rinv; [|exact HR]. destruct (n_update_foreign_res n (alloc_of_req r)) as [I1 I2].
      eapply (NF_set_node None s (on_id n) n); [apply ids_ids0; exact HI|rewrite Enid; exact En|exact I1|exact I2].
    + destruct (n_add n (alloc_of_req r) true) as [n'|] eqn:Ea; [|discriminate]. apply Some_inj in H. subst s'. destruct (n_add_res _ _ _ _ Ea) as [I1 I2].
      eapply NF_rinv; [|exact HR]. eapply NF_trans; [apply (set_foreign_nf None s (s_foreign s ++ [alloc_of_req r]))|].
      eapply (NF_set_node None _ (on_id n) n); [apply ids_ids0; eapply Ids_same; [| | |exact HI]; reflexivity|rewrite Enid; exact En|exact I1|exact I2].
  - destruct (find_app s (rq_app r)) as [a|] eqn:Eapp; [|apply Some_inj in H; subst; exact HR]. destruct (find_app_in _ _ _ Eapp) as [Ha _].
    destruct (negb (rq_node r =? 0) && _); [apply Some_inj in H; subst; exact HR|].
    destruct (IsZero (rq_res r) || _); [apply Some_inj in H; subst; exact HR|].
    destruct (find_alloc (ap_requests a) (rq_key r)) eqn:Ef; [discriminate|].
    destruct (rq_node r =? 0).
    + destruct (rq_ph r); [discriminate|]. destruct (_ || _); [|discriminate]. apply Some_inj in H. subst s'. apply m_new_ask_rinv; assumption.
    + destruct (find_node s (rq_node r)) as [n|] eqn:En; [|apply Some_inj in H; subst; exact HR]. destruct (find_node_in _ _ _ En) as [Hn _].
      apply (m_recovered_rinv s a n (alloc_of_req r) s' HI HR Ha Hn Ef H). Qed.

(* an application without reservations: whatever happens to its requests *)
Lemma app_keeps_nores e' b b' : ap_reservations b = [] -> ap_id b' = ap_id b -> ap_queue b' = ap_queue b -> ap_reservations b' = ap_reservations b -> app_keeps e' b b'.
Proof. intros E0 E1 E2 E3. unfold app_keeps. rewrite E0. repeat (split; [first [assumption|congruence]|]). split; intros; contradiction. Qed.

Lemma m_release_rinv s app key ttype s' : m_release s app key ttype = Some s' -> Ids s -> RInv s -> RInv s'.
Proof. unfold m_release. intros H HI HR. destruct (app =? 0).
  - destruct (find_alloc (s_foreign s) key) as [f|]; [|apply Some_inj in H; subst; exact HR]. apply Some_inj in H. subst s'.
    destruct (find_node (set_foreign s (del_alloc key (s_foreign s))) (oa_node f)) as [n|] eqn:En.
    + eapply NF_rinv; [|exact HR]. eapply NF_trans; [apply (set_foreign_nf None s (del_alloc key (s_foreign s)))|].
      destruct (find_node_in _ _ _ En) as [Hn Enid].
      eapply (NF_set_node None _ (on_id n) n); [apply ids_ids0; eapply Ids_same; [| | |exact HI]; reflexivity|rewrite Enid; exact En|apply n_remove_id|apply n_remove_res].
    + eapply NF_rinv; [apply set_foreign_nf|exact HR].
  - destruct (find_app s app) as [a|] eqn:Eapp; [|apply Some_inj in H; subst; exact HR]. destruct (find_app_in _ _ _ Eapp) as [Ha _].
    destruct (_ || _); [discriminate|]. destruct (find_alloc (ap_allocs a) key) as [x|].
    + assert (Hnr : ap_reservations a = []) by (unfold m_release_alloc in H; destruct (ap_reservations a); [reflexivity|rewrite !orb_true_r in H; discriminate]).
      destruct (m_release_alloc_shape _ _ _ _ _ H) as (n & g & En & Ea & Enn & Eq & G). destruct (find_node_in _ _ _ En) as [Hn _].
      destruct (rel_app_fields a x ttype) as (F1 & F2 & F3 & _).
      eapply NF_rinv; [|exact HR]. apply (one_app_one_node None s s' a (rel_app a x ttype) (on_id n) (n_remove n (oa_key x)) g HI Ha Ea Enn Eq G).
      * apply app_keeps_nores; assumption.
      * intros m Hm E. assert (m = n) by (apply (nodup_key_eq on_id (s_nodes s)); auto; apply (id_nodes s HI)). subst m. split; [apply n_remove_id|apply n_remove_res].
    + destruct (find_alloc (ap_requests a) key) as [x|]; [|apply Some_inj in H; subst; exact HR].
      destruct (ttype =? TT_Timeout); [apply Some_inj in H; subst; exact HR|].
      assert (Hnr : ap_reservations a = []) by (unfold m_release_ask in H; destruct (ap_reservations a); [reflexivity|rewrite orb_true_r in H; discriminate]).
      destruct (m_release_ask_shape _ _ _ _ H) as (a2 & g & Eap & Enn & Eq & G & F1 & F2 & F3 & F4).
      eapply NF_rinv; [|exact HR]. apply (one_app_only None s s' a a2 g HI Ha Eap Enn Eq G). apply app_keeps_nores; assumption. Qed.

Lemma m_sched_alloc_bind deny s a k nid s' : m_sched_alloc deny s a k nid = Some s' ->
  exists ask n, find_alloc (ap_requests a) k = Some ask /\ find_node s nid = Some n /\ ap_reservations a = [] /\ m_bind s a ask n nid = Some s'.
Proof. unfold m_sched_alloc. intros H. destruct (find_alloc (ap_requests a) k) as [ask|]; [|discriminate]. destruct (find_node s nid) as [n|]; [|discriminate].
  destruct (oa_allocated ask); [discriminate|]. destruct (oa_ph ask); [discriminate|]. destruct (ap_reservations a) eqn:Er; [|discriminate]. cbn [orb negb] in H.
  destruct (negb (oa_reqnode ask =? 0) || _); [discriminate|]. destruct (negb (m_node_guard deny n ask)); [discriminate|].
  exists ask, n. repeat (split; [reflexivity|]). exact H. Qed.

Lemma unexempt s a k : Ids0 s -> In a (s_apps s) -> ap_reservations a = [] -> RInvE (Some (ap_id a, k)) s -> RInv s.
Proof. intros HI Ha Hn [H1 H2 H3 H4 H5 H6 H7 H8 H9]. constructor; auto. intros b nid k0 Hb Hr _. apply (H5 b nid k0 Hb Hr). intros [C1 C2]. cbn [fst snd] in *.
  assert (b = a) by (apply (nodup_key_eq ap_id (s_apps s)); auto; apply (id0_apps s HI)). subst b. rewrite Hn in Hr. contradiction. Qed.

Lemma m_sched_alloc_rinv deny s a k nid s' : m_sched_alloc deny s a k nid = Some s' -> Ids s -> RInv s -> In a (s_apps s) -> RInv s'.
Proof. intros H HI HR Ha. destruct (m_sched_alloc_bind _ _ _ _ _ _ H) as (ask & n & Eask & En & Hnr & Eb).
  apply find_alloc_some in Eask. destruct Eask as [Hask Ek]. destruct (find_node_in _ _ _ En) as [Hn Enid]. subst nid.
  destruct (m_bind_ok s a ask n s' HI HR Ha Hn Hask Eb) as [HI1 HR1].
  destruct (m_bind_shape _ _ _ _ _ _ Eb) as (n' & a2 & g & _ & _ & _ & Ea & A1 & _ & A3 & _).
  assert (Ha2 : In a2 (s_apps s')) by (rewrite Ea; apply in_map_iff; exists a; rewrite N.eqb_refl; auto).
  apply (unexempt s' a2 (oa_key ask) (ids_ids0 _ HI1) Ha2); [congruence|rewrite A1; exact HR1]. Qed.

(* C09d.3: the first fragment *)
Theorem m_step_rinv deny s st s' : m_step deny s st = Some s' -> Ids s -> RInv s -> RInv s'.
Proof. unfold m_step. intros H HI HR. destruct (st_panic st); [discriminate|]. destruct (st_op st); try discriminate.
  - eapply m_node_add_rinv; eassumption.
  - eapply m_node_update_rinv; [exact H|apply ids_ids0; exact HI|exact HR].
  - eapply m_node_sched_rinv; eassumption.
  - eapply m_node_sched_rinv; eassumption.
  - eapply m_alloc_rinv; eassumption.
  - eapply m_release_rinv; eassumption.
  - destruct (st_events st) as [|ev evs].
    + destruct (Z.eqb _ _); [|discriminate]. apply Some_inj in H. subst. exact HR.
    + destruct (negb _); [discriminate|]. destruct (is_new_alloc_for (ev :: evs)) as [[[k a] nid]|]; [|discriminate].
      destruct (find_app s a) as [ap|] eqn:Eapp; [|discriminate]. destruct (find_app_in _ _ _ Eapp) as [Ha _].
      eapply m_sched_alloc_rinv; eassumption. Qed.
