(* C03 over mixed runs of [m_step3] (Core/Model3.v): the run theorem.
     [m_step2_G]          every step [m_step2] answers preserves [InvG2] and [BooksG] when started from an [InvG2] state (not only from an
                          [Inv] state): the missing ingredient between Props/C03.v / C03b.v (old invariant) and Props/C03c.v (gang invariant);
     [StepOK3e]           ONE step hypothesis for [m_step3]: [Bounded3] + [StepOK3m] where [m_step2] answers, [StepOK3g] where the gang fragment answers;
     [m_step3_books]      one step of [m_step3];
     [books_reachable3]   every state a run of [m_step3] visits satisfies [InvG2] and [Books] (= [c03_state s = []], the oracle);
     [run_ok3_b]          the boolean checker of the run hypotheses, sound ([run_ok3_b_spec]);
     [inv_to_invg2]       states of the old invariant [Inv] (in particular the empty partition) enter.
   Every operation of [m_step] / [m_step2] is proved in full under [InvG2]; the only `_partial` aspect is inherited from [StepOK3g]
   (Props/C03c.v: [NoTerminal] for an OpNodeRemove answered by the gang fragment). *)
From Coq Require Import List ZArith NArith Bool Lia ZifyBool.
From YK Require Import Base.Int64 Base.Res Base.ResSpec Base.ResLemmas Core.Obs Core.Model Core.Model2 Core.Model3 Core.Ledger
  Core.BooksLemmas Core.BooksDefs Core.BooksProofs Core.BooksCheck Core.Model3ProofsD Core.Model3ProofsD2 Core.Model3ProofsG1 Core.Model3ProofsG4
  Core.Model3ProofsA2 Core.Model3ProofsO2b Core.Model3ProofsC1 Core.Model3ProofsC2 Core.Model3ProofsT Core.Model3ProofsT2
  Core.Model3ProofsR1 Core.Model3ProofsR2 Core.Model3ProofsR3 Core.Model3ProofsR4 Core.Model3ProofsR4b Oracles.CoreC01.
Import ListNotations.
Open Scope Z_scope.
Set Default Timeout 60.

(* ================================================================== the step hypothesis where [m_step2] answers *)
(* OpAlloc: [ReqOK3] (resource wf / bounded; a key new to the application is new among requests AND allocations of every application),
            [RecOK3] (no placeholder is linked to a recovered key), [ForeignFresh3] (a new foreign key is no application's key),
            [UpdOK3r] (update of a known real key: an allocated ask that is resized is listed as allocation; a pending ask that is placed:
            no placeholder is linked to its key, the intermediate state is bounded);
   OpSched: [BindOK3] (the ask that is bound carries no link, no placeholder is linked to its key);
   everything else ([OpNodeAdd/Update/Drain/Undrain], [OpRelease], [OpAppAdd], [OpAppRemove], [OpNodeRemove], [OpFireState], [OpFirePh]): nothing. *)
Definition StepOK3m (s : ostate) (st : ostep) : Prop :=
  match st_op st with
  | OpAlloc r => AllocOK3m s r /\ UpdOK3r s r
  | OpSched => BindOK3 s st
  | _ => True
  end.

Theorem m_step2_G deny s st s' : InvG2 s -> BooksG s -> Bounded3 s -> StepOK3m s st ->
  m_step2 deny s st = Some s' -> InvG2 s' /\ BooksG s'.
Proof. intros HI2 HB HBd Hok H. unfold m_step2 in H. destruct (m_step deny s st) as [s1|] eqn:E1.
  - inversion H; subst s1. apply (m_step_G deny s st s' HI2 HB HBd); [| |exact E1]; unfold StepOK3m in Hok.
    + intros r Er. rewrite Er in Hok. apply Hok.
    + intros Er. rewrite Er in Hok. exact Hok.
  - destruct (st_panic st); [discriminate|]. unfold StepOK3m in Hok. destruct (st_op st) eqn:Eop; try discriminate.
    + eapply m_node_remove_stepG; eassumption.
    + eapply m_app_add_stepG; eassumption.
    + eapply m_app_remove_stepG; eassumption.
    + destruct Hok as [(H1 & _) H2]. eapply m_alloc2_stepG; eassumption.
    + destruct (find_app s app) as [a|]; [|discriminate]. destruct (ap_phtimer a); [discriminate|]. inversion H; subst s'. split; assumption.
    + eapply m_fire_state_stepG; eassumption. Qed.

(* ================================================================== one step of [m_step3] *)
Definition StepOK3e (deny : list (N * N)) (s : ostate) (st : ostep) : Prop :=
  Bounded3 s /\ match m_step2 deny s st with Some _ => StepOK3m s st | None => StepOK3g s st end.

Theorem m_step3_G deny s st s' : InvG2 s -> BooksG s -> StepOK3e deny s st -> m_step3 deny s st = Some s' -> InvG2 s' /\ BooksG s'.
Proof. intros HI2 HB [HBd Hok] H. unfold m_step3 in H. destruct (m_step2 deny s st) as [s2|] eqn:E2.
  - inversion H; subst s2. apply (m_step2_G deny s st s' HI2 HB HBd Hok E2).
  - apply (gang_step_G deny s st s' HI2 HB HBd Hok H). Qed.

Theorem m_step3_books deny s st s' : InvG2 s -> Books s -> StepOK3e deny s st -> m_step3 deny s st = Some s' -> InvG2 s' /\ Books s'.
Proof. intros HI2 HB Hok H. pose proof (G_of_books s (ig2_inv s HI2) HB) as HG.
  destruct (m_step3_G deny s st s' HI2 HG Hok H) as [HI' HG']. split; [exact HI'|apply (books_of_G s' (ig2_inv s' HI') HG')]. Qed.

(* ================================================================== runs *)
(* the states a run goes through (the start included; the run stops where the model does not cover a step) *)
Fixpoint m_run3_states (deny : list (N * N)) (s : ostate) (steps : list ostep) : list ostate :=
  s :: match steps with
       | [] => []
       | st :: t => match m_step3 deny s st with Some s' => m_run3_states deny s' t | None => [] end
       end.
(* the carried hypotheses: in every state the run goes through, the next step satisfies the hypotheses of its fragment *)
Fixpoint RunOK3e (deny : list (N * N)) (s : ostate) (steps : list ostep) : Prop :=
  match steps with
  | [] => True
  | st :: t => StepOK3e deny s st /\ match m_step3 deny s st with Some s' => RunOK3e deny s' t | None => True end
  end.

Theorem books_reachable3 deny : forall steps s0, InvG2 s0 -> Books s0 -> RunOK3e deny s0 steps ->
  forall s, In s (m_run3_states deny s0 steps) -> InvG2 s /\ Books s.
Proof. induction steps as [|st t IH]; intros s0 HI HB HR s Hs; cbn [m_run3_states] in Hs.
  - destruct Hs as [<-|[]]. auto.
  - destruct Hs as [<-|Hs]; [auto|]. cbn [RunOK3e] in HR. destruct HR as [Hok HR].
    destruct (m_step3 deny s0 st) as [s1|] eqn:E; [|contradiction].
    destruct (m_step3_books deny s0 st s1 HI HB Hok E) as [HI1 HB1]. apply (IH s1 HI1 HB1 HR s Hs). Qed.

(* theorem and oracle are the same predicate: [Books s <-> c03_state s = []] ([books_reflect], Core/BooksDefs.v) *)
Corollary c03_run3_oracle deny steps s0 : InvG2 s0 -> Books s0 -> RunOK3e deny s0 steps ->
  forall s, In s (m_run3_states deny s0 steps) -> c03_state s = [].
Proof. intros HI HB HR s Hs. apply books_reflect. apply (books_reachable3 deny steps s0 HI HB HR s Hs). Qed.

(* the last state of the run is one of the visited states *)
Lemma m_run3_in_states deny : forall steps s0, In (m_run3 deny s0 steps) (m_run3_states deny s0 steps).
Proof. induction steps as [|st t IH]; intros s0; cbn [m_run3 m_run3_states]; [left; reflexivity|].
  destruct (m_step3 deny s0 st) as [s1|]; [right; apply IH|left; reflexivity]. Qed.
Corollary books_reachable3_final deny steps s0 : InvG2 s0 -> Books s0 -> RunOK3e deny s0 steps ->
  InvG2 (m_run3 deny s0 steps) /\ Books (m_run3 deny s0 steps).
Proof. intros HI HB HR. apply (books_reachable3 deny steps s0 HI HB HR). apply m_run3_in_states. Qed.

(* ================================================================== entering from the old invariant *)
Theorem inv_to_invg2 s : Inv s -> Books0 s ->
  (forall a x, In a (s_apps s) -> In x (app_records a) -> positive (oa_res x)) ->
  (forall a, In a (s_apps s) -> wf (ap_phalloc a)) -> InvG2 s /\ BooksG s.
Proof. intros HI HB Hpos Hph. destruct (inv_to_invg s HI HB Hpos Hph) as [I B]. split; [|exact B]. constructor; [exact I|].
  apply no_links_linkok. split.
  - intros n y Hn Hy. apply (nk_node s n (inv_nodes s HI n Hn) y Hy).
  - intros a x Ha Hx. apply (ao_link _ x (aw_alloc a (inv_app_wf s HI a Ha) x Hx)). Qed.

Corollary books_reachable3_from_inv deny steps s0 : Inv s0 -> Books s0 ->
  (forall a x, In a (s_apps s0) -> In x (app_records a) -> positive (oa_res x)) ->
  (forall a, In a (s_apps s0) -> wf (ap_phalloc a)) -> RunOK3e deny s0 steps ->
  forall s, In s (m_run3_states deny s0 steps) -> InvG2 s /\ Books s.
Proof. intros HI HB Hpos Hph HR. destruct (inv_to_invg2 s0 HI (proj1 HB) Hpos Hph) as [HI2 _].
  apply (books_reachable3 deny steps s0 HI2 HB HR). Qed.

(* the empty partition *)
Corollary books_reachable3_init deny steps qs : TreeOK (init_state qs) -> (forall q, In q qs -> q_alloc q = [] /\ q_pending q = []) ->
  RunOK3e deny (init_state qs) steps -> forall s, In s (m_run3_states deny (init_state qs) steps) -> InvG2 s /\ Books s.
Proof. intros HT Hz. apply (books_reachable3_from_inv deny steps (init_state qs) (inv_init qs HT Hz) (books_init qs Hz)); [intros a x []|intros a []]. Qed.

(* ================================================================== the boolean checker *)
Definition foreign_fresh3_b (s : ostate) (r : oreq) : bool :=
  negb (rq_foreign r) ||
  match find_alloc (s_foreign s) (rq_key r) with
  | Some _ => true
  | None => forallb (fun a => forallb (fun y => negb (oa_key y =? rq_key r)%N) (app_records a)) (s_apps s)
  end.
Lemma foreign_fresh3_b_spec s r : foreign_fresh3_b s r = true -> ForeignFresh3 s r.
Proof. unfold foreign_fresh3_b, ForeignFresh3. intros H Hfo En a y Ha Hy. rewrite Hfo, En in H. cbn [negb orb] in H.
  pose proof (fa_in _ _ y (fa_in _ _ a H Ha) Hy) as H0. cbn beta in H0. apply negb_true_iff, N.eqb_neq in H0. exact H0. Qed.

Definition upd_ok3r_b (s : ostate) (r : oreq) : bool :=
  match find_app s (rq_app r) with
  | None => true
  | Some a =>
      match find_alloc (ap_requests a) (rq_key r) with
      | None => true
      | Some x =>
          oa_ph x ||
          (if oa_allocated x
           then negb (res_changed (oget (rq_res r)) x) || inb x (ap_allocs a)
           else (rq_node r =? 0)%N || (unlinked_b (ap_allocs a) (oa_key x) && bounded3_b (g_upd_mid s a x (oget (rq_res r)))))
      end
  end.
Lemma upd_ok3r_b_spec s r : upd_ok3r_b s r = true -> UpdOK3r s r.
Proof. unfold upd_ok3r_b, UpdOK3r. intros H a x Ea Ex Xph. rewrite Ea, Ex, Xph in H. cbn [orb] in H. split.
  - intros Xal Ech. rewrite Xal, Ech in H. cbn [negb orb] in H. apply inb_spec. exact H.
  - intros Xal En. rewrite Xal in H. apply N.eqb_neq in En. rewrite En in H. cbn [orb] in H.
    rewrite andb_true_iff in H. destruct H as [H1 H2]. split; [apply unlinked_b_spec; exact H1|apply bounded3_b_spec; exact H2]. Qed.

Definition bind_ok3_b (s : ostate) (st : ostep) : bool :=
  match is_new_alloc_for (st_events st) with
  | Some (k, app, _) =>
      match find_app s app with
      | Some a => match find_alloc (ap_requests a) k with Some ask => (oa_release ask =? 0)%N | None => true end && unlinked_b (ap_allocs a) k
      | None => true
      end
  | None => true
  end.
Lemma bind_ok3_b_spec s st : bind_ok3_b s st = true -> BindOK3 s st.
Proof. unfold bind_ok3_b, BindOK3. intros H k app nid a En Ea. rewrite En, Ea in H. apply andb_true_iff in H. destruct H as [H1 H2]. split.
  - intros ask Eask. rewrite Eask in H1. apply N.eqb_eq. exact H1.
  - apply unlinked_b_spec. exact H2. Qed.

Definition step_ok3m_b (s : ostate) (st : ostep) : bool :=
  match st_op st with
  | OpAlloc r => req_ok3_b s r && rec_ok3_b s r && foreign_fresh3_b s r && upd_ok3r_b s r
  | OpSched => bind_ok3_b s st
  | _ => true
  end.
Lemma step_ok3m_b_spec s st : step_ok3m_b s st = true -> StepOK3m s st.
Proof. unfold step_ok3m_b, StepOK3m. destruct (st_op st); auto.
  - rewrite !andb_true_iff. intros [[[H1 H2] H3] H4]. split; [split; [apply req_ok3_b_spec; exact H1|split; [apply rec_ok3_b_spec; exact H2|apply foreign_fresh3_b_spec; exact H3]]|].
    apply upd_ok3r_b_spec. exact H4.
  - apply bind_ok3_b_spec. Qed.

Definition step_ok3e_b (deny : list (N * N)) (s : ostate) (st : ostep) : bool :=
  bounded3_b s && match m_step2 deny s st with Some _ => step_ok3m_b s st | None => step_ok3g_b s st end.
Lemma step_ok3e_b_spec deny s st : step_ok3e_b deny s st = true -> StepOK3e deny s st.
Proof. unfold step_ok3e_b, StepOK3e. rewrite andb_true_iff. intros [H1 H2]. split; [apply bounded3_b_spec; exact H1|].
  destruct (m_step2 deny s st); [apply step_ok3m_b_spec|apply step_ok3g_b_spec]; exact H2. Qed.

(* ONE checker for the hypotheses of the run theorem (hypotheses only: the conclusions are what the theorem gives) *)
Fixpoint run_ok3_b (deny : list (N * N)) (s : ostate) (steps : list ostep) : bool :=
  match steps with
  | [] => true
  | st :: t => step_ok3e_b deny s st && match m_step3 deny s st with Some s' => run_ok3_b deny s' t | None => true end
  end.
Theorem run_ok3_b_spec deny : forall steps s, run_ok3_b deny s steps = true -> RunOK3e deny s steps.
Proof. induction steps as [|st t IH]; intros s H; [exact I|]. cbn [run_ok3_b RunOK3e] in *. rewrite andb_true_iff in H. destruct H as [H1 H2].
  split; [apply step_ok3e_b_spec; exact H1|]. destruct (m_step3 deny s st); auto. Qed.

(* everything boolean: start state checked by [invg2_b] and the oracle, run checked by [run_ok3_b]; conclusion in the oracle's terms *)
Theorem books_reachable3_b deny steps s0 : invg2_b s0 = true -> c03_state s0 = [] -> run_ok3_b deny s0 steps = true ->
  forall s, In s (m_run3_states deny s0 steps) -> InvG2 s /\ c03_state s = [].
Proof. intros HI HB HR s Hs.
  destruct (books_reachable3 deny steps s0 (invg2_b_spec s0 HI) (proj2 (books_reflect s0) HB) (run_ok3_b_spec deny steps s0 HR) s Hs) as [H1 H2].
  split; [exact H1|apply books_reflect; exact H2]. Qed.
