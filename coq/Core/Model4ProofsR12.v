(* C09 over the operational model, part 12: removeApplication and the release of all allocations of an application in states
   with reservations; the step theorem for [m_step4] with the remaining side condition. *)
From Coq Require Import List ZArith NArith Bool Lia ZifyBool ZifyN.
From YK Require Import Base.Int64 Base.Res Core.Obs Core.Model Core.Model2 Core.Ledger Core.Model4 Core.NodeProofs Core.QueueProofs Core.StepProofs
  Core.Model4ProofsF Core.Model4ProofsR1 Core.Model4ProofsR2 Core.Model4ProofsR3 Core.Model4ProofsR4 Core.Model4ProofsR5 Core.Model4ProofsR6
  Core.Model4ProofsR7 Core.Model4ProofsR8 Core.Model4ProofsR10 Core.Model4ProofsR11.
Import ListNotations.
Open Scope N_scope.
Set Default Timeout 30.

(* an application without requests holds no reservation *)
Lemma no_requests_no_res s a : RInv s -> In a (s_apps s) -> ap_requests a = [] -> ap_reservations a = [].
Proof. intros HR Ha Hn. destruct (ap_reservations a) as [|[nid k] t] eqn:Er; [reflexivity|]. exfalso.
  destruct (r_out _ s HR a nid k Ha) as (x & Hx & _); [rewrite Er; left; reflexivity|apply exempt_none|]. rewrite Hn in Hx. contradiction. Qed.

Theorem m_app_remove4_rinv s id s' : Ids s -> RInv s -> m_app_remove4 s id = Some s' -> RInv s'.
Proof. intros HI HR H. unfold m_app_remove4 in H. destruct (find_app s id) as [a|] eqn:Ea; [|apply Some_inj in H; subst; exact HR].
  destruct (negb (plain_allocs a)); [discriminate|]. cbv zeta in H. destruct (find_app_in _ _ _ Ea) as [Ha Eid]. subst id.
  set (s1 := if nilb (ap_requests a) then s else r_cancel_all s a) in *.
  assert (H1 : Ids0 s1 /\ RInv s1 /\ (forall b, In b (s_apps s1) -> ap_id b = ap_id a -> ap_reservations b = [])).
  { unfold s1. destruct (ap_requests a) eqn:Erq; cbn [nilb]; [|apply r_cancel_all_rinv; [apply ids_ids0; exact HI|exact HR|exact Ha]].
    split; [apply ids_ids0; exact HI|]. split; [exact HR|]. intros b Hb Eb.
    assert (b = a) by (apply (nodup_key_eq ap_id (s_apps s)); auto; apply (id_apps s HI)). subst b. apply (no_requests_no_res s a HR Ha Erq). }
  destruct H1 as (HI1 & HR1 & Nr1).
  match type of H with m_app_remove (hide_res ?S2 _) _ = _ => set (s2 := S2) in * end.
  assert (F2 : NF None None s1 s2) by (unfold s2; destruct (IsZero _); [apply NF_refl|apply NF_dec_preempting]).
  pose proof (NF_rinv _ _ _ _ F2 HR1) as HR2.
  assert (Nr2 : forall b, In b (s_apps s2) -> ap_id b = ap_id a -> ap_reservations b = []).
  { destruct F2 as (fa & fn & fq & F2). intros b Hb Eb. rewrite (nf_apps _ _ _ _ _ _ _ F2) in Hb. apply in_map_iff in Hb. destruct Hb as (b1 & <- & Hb1).
    rewrite (nf_ares _ _ _ _ _ _ _ F2 b1 Hb1). apply (Nr1 b1 Hb1). rewrite <- (nf_aid _ _ _ _ _ _ _ F2 b1 Hb1). exact Eb. }
  rewrite (hide_res_same s2 (ap_id a) Nr2) in H.
  eapply m_app_remove_rinv; [exact H| |exact HR2].
  eapply LFrame_ids; [|exact HI]. unfold s2, s1. eapply LFrame_trans.
  - instantiate (1 := if nilb (ap_requests a) then s else r_cancel_all s a). destruct (nilb _); [apply LFrame_refl|apply LFrame_cancel_all].
  - destruct (IsZero _); [apply LFrame_refl|apply LFrame_dec_preempting]. Qed.

Lemma m_remove_all_asks4_rinv s a : Ids0 s -> RInv s -> find_app s (ap_id a) = Some a -> RInv (m_remove_all_asks4 s (ap_id a)).
Proof. intros HI HR Ea. unfold m_remove_all_asks4. rewrite Ea. destruct (nilb (ap_requests a)); [exact HR|]. destruct (find_app_in _ _ _ Ea) as [Ha _].
  destruct (r_cancel_all_rinv s a HI HR Ha) as (HI1 & HR1 & Nr). set (s1 := r_cancel_all s a) in *.
  set (s2 := upd_app s1 (ap_id a) (fun b => ap_with b (ap_state b) [] (ap_allocated b) (ap_phalloc b) [] (ap_allocs b) (ap_statelog b))).
  assert (F2 : NF None None s1 s2).
  { unfold s2. exists (fun b => if ap_id b =? ap_id a then ap_with b (ap_state b) [] (ap_allocated b) (ap_phalloc b) [] (ap_allocs b) (ap_statelog b) else b), (fun m => m), (fun q => q).
    constructor; auto; try (symmetry; apply map_id); try reflexivity.
    - intros b _. destruct (ap_id b =? ap_id a); reflexivity.
    - intros b _. destruct (ap_id b =? ap_id a); reflexivity.
    - intros b _. destruct (ap_id b =? ap_id a); reflexivity.
    - intros b nid k Hb Hr _ Ho. destruct (N.eqb_spec (ap_id b) (ap_id a)) as [E|E]; [|exact Ho]. rewrite (Nr b Hb E) in Hr. contradiction.
    - intros p (b & x & Hb & E1 & Hx & E2 & E3) (b0 & nid & Hb0 & E4 & Hr).
      assert (b0 = b) by (apply (nodup_key_eq ap_id (s_apps s1)); auto; [apply (id0_apps s1 HI1)|congruence]). subst b0.
      destruct (N.eqb_spec (ap_id b) (ap_id a)) as [E|E]; [rewrite (Nr b Hb E) in Hr; contradiction|].
      exists b, x. cbn [upd_app s_apps]. split; [apply in_map_iff; exists b; apply N.eqb_neq in E; rewrite E; auto|auto]. }
  destruct (q_dec_pending_shape s2 (ap_queue a) (ap_pending a)) as (g & Eg & Kg).
  eapply NF_rinv; [|exact HR1]. apply (NF_trans None None None s1 s2 _ F2).
  apply (NF_trans None None None s2 (q_dec_pending s2 (ap_queue a) (ap_pending a)) _); [apply (NF_queues None s2 _ g); [reflexivity|reflexivity|exact Eg|exact Kg]|apply ask_state_check_nf]. Qed.

Theorem m_release_all4_rinv s a ttype s' : Ids s -> RInv s -> find_app s (ap_id a) = Some a -> m_release_all4 s a ttype = Some s' -> RInv s'.
Proof. intros HI HR Ea H. unfold m_release_all4 in H. destruct (negb (plain_allocs a)); [discriminate|]. cbv zeta in H. apply Some_inj in H. subst s'.
  destruct (find_app_in _ _ _ Ea) as [Ha _].
  match goal with |- RInv (if _ then ?S5 else _) => set (s5 := S5) end.
  assert (F5 : NF None None s s5).
  { unfold s5. eapply NF_trans; [|apply add_counts_nf].
    match goal with |- NF _ _ s (if _ then q_dec_preempting ?S3 _ _ else _) => assert (F3 : NF None None s S3) end.
    { match goal with |- NF _ _ s (if _ then q_dec ?S2 _ _ else _) => assert (F2 : NF None None s S2) end.
      { match goal with |- NF _ _ s (remove_allocs_from_nodes (upd_app s _ (fun _ => ?A2)) _) => set (a2 := A2) end.
        assert (F1 : NF None None s (upd_app s (ap_id a) (fun _ => a2))).
        { apply (one_app_only None s _ a a2 (fun q => q) HI Ha); [reflexivity|reflexivity|symmetry; apply map_id|apply QKeep_id|].
          unfold a2. match goal with |- context [ap_event a ?st] => destruct (ap_event_fields a st) as (E1 & E2 & E3 & E4 & _) end.
          apply app_keeps_same_requests; cbn [ap_with ap_id ap_queue ap_reservations ap_requests]; assumption. }
        eapply NF_trans; [exact F1|]. apply rafn_nf. eapply NF_ids0; [exact F1|apply ids_ids0; exact HI]. }
      match goal with |- NF _ _ s (if ?c then q_dec _ _ _ else _) => destruct c; [|exact F2] end.
      match goal with |- NF _ _ s (q_dec ?S2 ?L ?R) => destruct (q_dec_shape S2 L R) as (g & Eg & Kg & Ea' & En'); apply (NF_trans None None None s S2 _ F2); apply (NF_queues None S2 _ g); assumption end. }
    match goal with |- NF _ _ s (if ?c then q_dec_preempting ?S3 _ _ else _) => destruct c; [apply (NF_trans None None None s S3 _ F3); apply NF_dec_preempting|exact F3] end. }
  pose proof (NF_rinv _ _ _ _ F5 HR) as HR5.
  destruct (ttype =? TT_Timeout); [exact HR5|].
  pose proof (NF_ids0 _ _ _ _ F5 (ids_ids0 _ HI)) as HI5. destruct F5 as (fa & fn & fq & F5).
  assert (Ha5 : In (fa a) (s_apps s5)) by (rewrite (nf_apps _ _ _ _ _ _ _ F5); apply in_map; exact Ha).
  pose proof (nf_aid _ _ _ _ _ _ _ F5 a Ha) as E5. rewrite <- E5.
  apply m_remove_all_asks4_rinv; [exact HI5|exact HR5|apply find_app_of; assumption]. Qed.

(* ------------------------------------------------------------------ C09d.5': the step theorem with the remaining side condition *)
(* the shim places (or resizes) an ask of an application that holds reservations: [unReserveAllocatedAsk] - not proved *)
Definition alloc_ok9 (s : ostate) (st : ostep) : Prop :=
  match st_op st with OpAlloc r => forall a, find_app s (rq_app r) = Some a -> ap_reservations a = [] | _ => True end.
Record step_ok9' (s : ostate) (st : ostep) : Prop := mkSO9' { so9_fire' : fire_ok9 s st; so9_release' : release_ok9 s st; so9_alloc' : alloc_ok9 s st }.

Theorem m_step4_rinv_partial' deny s st s' : m_step4 deny s st = Some s' -> Ids s -> RInv s -> step_ok9' s st -> RInv s'.
Proof. unfold m_step4. intros H HI HR [Hf Hrel Hal]. destruct (m_step2 deny s st) as [s1|] eqn:E2.
  - apply Some_inj in H. subst s1. eapply m_step2_rinv; eassumption.
  - unfold m_step_resv in H. destruct (st_panic st) eqn:Hp; [discriminate|]. destruct (known_trigger s st); [discriminate|].
    unfold alloc_ok9, release_ok9 in *. destruct (st_op st) eqn:Eop; try discriminate.
    + eapply m_node_remove4_rinv; eassumption.
    + eapply m_app_remove4_rinv; eassumption.
    + exfalso. eapply m_alloc4_contra; try eassumption. apply ids_ids0. exact HI.
    + unfold m_release4 in H. destruct (app =? 0); [discriminate|]. destruct (find_app s app) as [a|] eqn:Ea; [|discriminate].
      destruct (find_app_in _ _ _ Ea) as [Ha Eid]. subst app. destruct (N.eqb_spec key 0) as [Ek|Ek].
      * eapply m_release_all4_rinv; eassumption.
      * destruct (find_alloc (ap_allocs a) key) as [x|] eqn:Ex.
        -- apply find_alloc_some in Ex as Ex'. destruct Ex' as [_ Ekx]. eapply m_release_alloc4_rinv; try eassumption. rewrite Ekx. apply (Hrel a x eq_refl Ex).
        -- destruct (find_alloc (ap_requests a) key) as [x|]; [|apply Some_inj in H; subst; exact HR].
           destruct (ttype =? TT_Timeout); [apply Some_inj in H; subst; exact HR|]. eapply m_release_ask4_rinv; eassumption.
    + eapply m_sched4_rinv; eassumption. Qed.

(* ------------------------------------------------------------------ histories, independent of C03: [Ids] carried per visited state *)
Fixpoint m_run4s (deny : list (N * N)) (s : ostate) (steps : list ostep) : ostate :=
  match steps with
  | [] => s
  | st :: t => match m_step4 deny s st with Some s' => m_run4s deny s' t | None => s end
  end.
Fixpoint Run9i (deny : list (N * N)) (s : ostate) (steps : list ostep) : Prop :=
  match steps with
  | [] => True
  | st :: t => Ids s /\ step_ok9' s st /\ match m_step4 deny s st with Some s' => Run9i deny s' t | None => True end
  end.
Theorem rinv_run_ids deny : forall steps s0, RInv s0 -> Run9i deny s0 steps -> RInv (m_run4s deny s0 steps).
Proof. induction steps as [|st t IH]; intros s0 HR H; [exact HR|]. cbn [m_run4s Run9i] in *. destruct H as (HI & Hok & H).
  destruct (m_step4 deny s0 st) as [s1|] eqn:E; [|exact HR]. apply IH; [|exact H]. eapply m_step4_rinv_partial'; eassumption. Qed.

(* boolean form of [Ids] *)
Fixpoint nodupN_b (l : list N) : bool := match l with [] => true | x :: t => negb (memN x t) && nodupN_b t end.
Lemma nodupN_b_sound l : nodupN_b l = true -> NoDup l.
Proof. induction l as [|x t IH]; intros H; [constructor|]. cbn [nodupN_b] in H. apply andb_true_iff in H. destruct H as [H1 H2]. constructor; [|auto].
  intros C. apply negb_true_iff in H1. unfold memN in H1. assert (X : existsb (N.eqb x) t = true); [|congruence]. apply existsb_exists. exists x. split; [exact C|apply N.eqb_refl]. Qed.
Definition ids_b (s : ostate) : bool :=
  nodupN_b (map ap_id (s_apps s)) && nodupN_b (map on_id (s_nodes s)) && nodupN_b (map q_id (s_queues s)) &&
  nodupN_b (flat_map (fun a => map oa_key (ap_requests a)) (s_apps s)).
Lemma NoDup_app_l {A} (l1 l2 : list A) : NoDup (l1 ++ l2) -> NoDup l1.
Proof. induction l1 as [|x t IH]; intros H; [constructor|]. cbn [app] in H. inversion H as [|? ? Hn Ht]; subst. constructor; [|auto].
  intros C. apply Hn. apply in_or_app. left. exact C. Qed.
Lemma NoDup_app_r {A} (l1 l2 : list A) : NoDup (l1 ++ l2) -> NoDup l2.
Proof. induction l1 as [|x t IH]; intros H; [exact H|]. cbn [app] in H. inversion H; subst. auto. Qed.
Lemma NoDup_app_disj {A} (l1 l2 : list A) k : NoDup (l1 ++ l2) -> In k l1 -> In k l2 -> False.
Proof. induction l1 as [|x t IH]; intros H H1 H2; [contradiction|]. cbn [app] in H. inversion H as [|? ? Hn Ht]; subst.
  destruct H1 as [<-|H1]; [apply Hn; apply in_or_app; right; exact H2|apply IH; assumption]. Qed.
Lemma NoDup_flat_map_same {A} (h : A -> list N) l : NoDup (flat_map h l) -> forall a1 a2 k, In a1 l -> In a2 l -> In k (h a1) -> In k (h a2) -> a1 = a2.
Proof. induction l as [|a t IH]; intros H a1 a2 k H1 H2 K1 K2; [contradiction|]. cbn [flat_map] in H.
  destruct H1 as [<-|H1]; destruct H2 as [<-|H2]; [reflexivity| | |].
  - exfalso. apply (NoDup_app_disj _ _ k H K1). apply in_flat_map. exists a2. auto.
  - exfalso. apply (NoDup_app_disj _ _ k H K2). apply in_flat_map. exists a1. auto.
  - apply (IH (NoDup_app_r _ _ H) a1 a2 k); assumption. Qed.
Lemma NoDup_flat_map_each {A} (h : A -> list N) l : NoDup (flat_map h l) -> forall a, In a l -> NoDup (h a).
Proof. induction l as [|a t IH]; intros H b Hb; [contradiction|]. cbn [flat_map] in H.
  destruct Hb as [<-|Hb]; [eapply NoDup_app_l; exact H|apply IH; [eapply NoDup_app_r; exact H|exact Hb]]. Qed.
Lemma ids_b_sound s : ids_b s = true -> Ids s.
Proof. unfold ids_b. rewrite !andb_true_iff. intros [[[H1 H2] H3] H4]. apply nodupN_b_sound in H1, H2, H3, H4. constructor; auto.
  - intros a1 a2 x1 x2 Ha1 Ha2 Hx1 Hx2 Ek. f_equal. apply (NoDup_flat_map_same (fun a => map oa_key (ap_requests a)) (s_apps s) H4 a1 a2 (oa_key x1)); auto; [apply in_map; exact Hx1|rewrite Ek; apply in_map; exact Hx2].
  - intros a Ha. apply (NoDup_flat_map_each (fun a => map oa_key (ap_requests a)) (s_apps s) H4 a Ha). Qed.

Fixpoint run9i_b (step_ok : ostate -> ostep -> bool) (deny : list (N * N)) (s : ostate) (steps : list ostep) : bool :=
  match steps with
  | [] => true
  | st :: t => ids_b s && step_ok s st && match m_step4 deny s st with Some s' => run9i_b step_ok deny s' t | None => true end
  end.
Lemma run9i_b_sound step_ok deny : (forall s st, step_ok s st = true -> step_ok9' s st) -> forall steps s, run9i_b step_ok deny s steps = true -> Run9i deny s steps.
Proof. intros Hs. induction steps as [|st t IH]; intros s H; [exact I|]. cbn [run9i_b Run9i] in *. rewrite !andb_true_iff in H. destruct H as [[H1 H2] H3].
  split; [apply ids_b_sound; exact H1|]. split; [apply Hs; exact H2|]. destruct (m_step4 deny s st); auto. Qed.
