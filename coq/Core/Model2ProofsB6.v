(* C03 over the second fragment, part 6: every step [m_step2] covers preserves the books and the invariant; all
   histories ([books_reachable2]); nothing leaks (after removing every application all ledgers are zero);
   executable forms of the carried hypotheses. *)
From Coq Require Import List ZArith NArith Bool Lia ZifyBool.
From YK Require Import Base.Int64 Base.Res Base.ResSpec Base.ResLemmas Base.ResLaws Base.ResLaws2 Base.ResLawsPred
  Core.Obs Core.Model Core.Model2 Core.Ledger
  Core.BooksLemmas Core.BooksDefs Core.BooksTree Core.BooksQueue Core.BooksApp Core.BooksState Core.BooksDrain Core.BooksStep
  Core.BooksOps Core.BooksOps2 Core.BooksOps3 Core.BooksOps4 Core.BooksProofs Core.BooksCheck
  Core.Model2ProofsB1 Core.Model2ProofsB2 Core.Model2ProofsB3 Core.Model2ProofsB4 Core.Model2ProofsB5 Oracles.CoreC01.
Import ListNotations.
Open Scope Z_scope.
Set Default Timeout 30.

(* environment assumptions of a step of the second fragment:
   OpAlloc: [ReqOK] as before (vector well formed and bounded; an unknown key is new in the partition) and [UpdOK]
   (an ALLOCATED ask that is updated is backed by the allocation record the application lists - the TIMEOUT release
   and removeNode leave allocated asks without allocation behind: [update_stale_allocated_refuted]; when a pending ask is
   resized AND placed in one request the bound holds in between);
   OpFireState: the allocations the application still lists have a positive size. *)
Definition StepOK2 (s : ostate) (st : ostep) : Prop :=
  match st_op st with
  | OpAlloc r => ReqOK s r /\ UpdOK s r
  | OpFireState id => forall a, find_app s id = Some a -> allocs_positive a
  | _ => True
  end.
Lemma StepOK2_1 s st : StepOK2 s st -> StepOK s st.
Proof. unfold StepOK2, StepOK. destruct (st_op st); tauto. Qed.

Theorem m_step2_preserves deny s st s' : Books s -> Inv s -> Bounded s -> StepOK2 s st ->
  m_step2 deny s st = Some s' -> Inv s' /\ Books s'.
Proof. intros HB HI HBd HS H. unfold m_step2 in H. destruct (m_step deny s st) as [s1|] eqn:E1.
  - inversion H; subst s1. apply (m_step_preserves deny s st s' HB HI HBd (StepOK2_1 s st HS) E1).
  - destruct (st_panic st); [discriminate|]. unfold StepOK2 in HS. destruct (st_op st) eqn:Eop; try discriminate.
    + apply (node_remove_step s s' id HI HB HBd H).
    + apply (app_add_step s s' id queue user forced nougi phask tagmaxapps tagmax HI HB H).
    + apply (app_remove_step s s' id HI HB HBd H).
    + destruct HS as [RO UO]. apply (alloc2_step s s' r HI HB HBd RO UO H).
    + apply (fire_ph_step s s' app HI HB H).
    + apply (fire_state_step s s' app HI HB HS H). Qed.

Theorem m_step2_books deny s st s' : Books s -> Inv s -> Bounded s -> StepOK2 s st -> m_step2 deny s st = Some s' -> Books s'.
Proof. intros HB HI HBd HS H. apply (m_step2_preserves deny s st s' HB HI HBd HS H). Qed.
Theorem m_step2_inv deny s st s' : Books s -> Inv s -> Bounded s -> StepOK2 s st -> m_step2 deny s st = Some s' -> Inv s'.
Proof. intros HB HI HBd HS H. apply (m_step2_preserves deny s st s' HB HI HBd HS H). Qed.

(* ------------------------------------------------------------------ histories *)
Fixpoint m_run2 (deny : list (N * N)) (s : ostate) (steps : list ostep) : ostate :=
  match steps with
  | [] => s
  | st :: t => match m_step2 deny s st with Some s' => m_run2 deny s' t | None => s end
  end.
Fixpoint RunOK2 (deny : list (N * N)) (s : ostate) (steps : list ostep) : Prop :=
  match steps with
  | [] => True
  | st :: t => Bounded s /\ StepOK2 s st /\ match m_step2 deny s st with Some s' => RunOK2 deny s' t | None => True end
  end.

Theorem books_reachable2 deny : forall steps s0, Books s0 -> Inv s0 -> RunOK2 deny s0 steps ->
  Books (m_run2 deny s0 steps) /\ Inv (m_run2 deny s0 steps).
Proof. induction steps as [|st t IH]; intros s0 HB HI HR; [auto|]. cbn [m_run2 RunOK2] in *. destruct HR as (HBd & HS & HR).
  destruct (m_step2 deny s0 st) as [s1|] eqn:E; [|auto].
  destruct (m_step2_preserves deny s0 st s1 HB HI HBd HS E) as [HI1 HB1]. apply IH; assumption. Qed.

Theorem c03_run2_oracle deny steps s0 : Books s0 -> Inv s0 -> RunOK2 deny s0 steps -> c03_state (m_run2 deny s0 steps) = [].
Proof. intros HB HI HR. apply books_reflect. apply (books_reachable2 deny steps s0 HB HI HR). Qed.

(* ------------------------------------------------------------------ nothing leaks *)
(* removeApplication takes the application off the live list ... *)
Lemma m_app_remove_apps s id s' : m_app_remove s id = Some s' -> s_apps s' = filter (fun b => negb (ap_id b =? id)%N) (s_apps s).
Proof. unfold m_app_remove. intros H. destruct (find_app s id) as [a|] eqn:Ea.
  - destruct (negb (no_res a) || negb (plain_allocs a)); [discriminate|]. inversion H; subst s'; clear H.
    cbn [add_counts set_apps s_apps]. rewrite (proj1 (rafn_other _ _)). f_equal.
    destruct (forallb _ (ap_allocated a)); destruct (forallb _ (ap_pending a)); try reflexivity;
      match goal with |- s_apps (q_dec ?S ?L ?R) = _ => rewrite (proj1 (q_dec_other S L R)) end; reflexivity.
  - inversion H; subst s'. symmetry. apply filter_all. intros b Hb. apply negb_true_iff, N.eqb_neq. intros C.
    unfold find_app in Ea. apply (find_none _ _ Ea) in Hb. rewrite C, N.eqb_refl in Hb. discriminate. Qed.

(* ... and once the last application is gone, every queue ledger, every node ledger and the counter are exactly zero:
   removal (of applications and of nodes) returned exactly what the removed objects held *)
Theorem books_reachable2_drained deny steps s0 : Books s0 -> Inv s0 -> RunOK2 deny s0 steps -> s_apps (m_run2 deny s0 steps) = [] ->
  let s := m_run2 deny s0 steps in
  (forall q, In q (s_queues s) -> forall k, getz (q_alloc q) k = 0 /\ getz (q_pending q) k = 0) /\
  (forall n, In n (s_nodes s) -> on_allocs n = [] /\ forall k, getz (on_allocated n) k = 0) /\
  s_nallocs s = 0.
Proof. intros HB HI HR Hno. destruct (books_reachable2 deny steps s0 HB HI HR) as [[HB' _] HI'].
  apply (drain_to_zero_pointwise _ HB' HI' Hno). Qed.

(* ------------------------------------------------------------------ executable forms of the hypotheses *)
Definition oalloc_eq_dec : forall x y : oalloc, {x = y} + {x <> y}.
Proof. decide equality; try apply N.eq_dec; try apply Z.eq_dec; try apply bool_dec.
  apply list_eq_dec. decide equality; [apply Z.eq_dec|apply N.eq_dec]. Defined.
Definition in_alloc_b (x : oalloc) (l : list oalloc) : bool := existsb (fun y => if oalloc_eq_dec x y then true else false) l.
Lemma in_alloc_b_spec x l : in_alloc_b x l = true -> In x l.
Proof. unfold in_alloc_b. rewrite existsb_exists. intros (y & Hy & E). destruct (oalloc_eq_dec x y); [subst; assumption|discriminate]. Qed.

Definition upd_ok_b (s : ostate) (r : oreq) : bool :=
  match find_app s (rq_app r) with
  | Some a => match find_alloc (ap_requests a) (rq_key r) with
              | Some x => if oa_allocated x then in_alloc_b x (ap_allocs a)
                          else (rq_node r =? 0)%N || bounded_b (upd_mid s a x (oget (rq_res r)))
              | None => true end
  | None => true
  end.
Lemma upd_ok_b_spec s r : upd_ok_b s r = true -> UpdOK s r.
Proof. unfold upd_ok_b. intros H a x Ea Ex. rewrite Ea, Ex in H. destruct (oa_allocated x).
  - split; [intros _; apply in_alloc_b_spec; assumption|discriminate].
  - split; [discriminate|]. intros _ Hne. apply orb_true_iff in H. destruct H as [H|H]; [apply N.eqb_eq in H; contradiction|].
    apply bounded_b_spec. assumption. Qed.

Definition fire_ok_b (s : ostate) (id : N) : bool :=
  match find_app s id with
  | Some a => forallb (fun x => existsb (fun kv : tid * Z => 0 <? snd kv) (oa_res x)) (ap_allocs a)
  | None => true
  end.
Lemma fire_ok_b_spec s id : fire_ok_b s id = true -> forall a, find_app s id = Some a -> allocs_positive a.
Proof. unfold fire_ok_b. intros H a Ea. rewrite Ea in H. rewrite forallb_forall in H. intros x Hx. specialize (H x Hx).
  apply existsb_exists in H. destruct H as (kv & Hkv & Hp). exists kv. split; [assumption|lia]. Qed.

Definition step_ok2_b (s : ostate) (st : ostep) : bool :=
  match st_op st with
  | OpAlloc r => req_ok_b s r && upd_ok_b s r
  | OpFireState id => fire_ok_b s id
  | _ => true
  end.
Lemma step_ok2_b_spec s st : step_ok2_b s st = true -> StepOK2 s st.
Proof. unfold step_ok2_b, StepOK2. destruct (st_op st); auto.
  - rewrite andb_true_iff. intros [H1 H2]. split; [apply req_ok_b_spec|apply upd_ok_b_spec]; assumption.
  - apply fire_ok_b_spec. Qed.

Fixpoint run_ok2_b (deny : list (N * N)) (s : ostate) (steps : list ostep) : bool :=
  match steps with
  | [] => true
  | st :: t => bounded_b s && step_ok2_b s st &&
               match m_step2 deny s st with Some s' => run_ok2_b deny s' t | None => true end
  end.
Lemma run_ok2_b_spec deny : forall steps s, run_ok2_b deny s steps = true -> RunOK2 deny s steps.
Proof. induction steps as [|st t IH]; intros s H; [exact I|]. cbn [run_ok2_b RunOK2] in *. rewrite !andb_true_iff in H.
  destruct H as [[H1 H2] H3]. split; [apply bounded_b_spec; assumption|]. split; [apply step_ok2_b_spec; assumption|].
  destruct (m_step2 deny s st); auto. Qed.

Fixpoint m_run2_len (deny : list (N * N)) (s : ostate) (steps : list ostep) : nat :=
  match steps with
  | [] => O
  | st :: t => match m_step2 deny s st with Some s' => S (m_run2_len deny s' t) | None => O end
  end.
