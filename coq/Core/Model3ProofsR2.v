(* C03 over mixed runs of [m_step3]: the steps answered by the frozen fragment [m_step] (Core/Model.v) re-proved under the
   gang invariant [InvG2].  Part 2: operations on one application.
     [pend_only_step]       generic: only the request list / pending ledger of one application and the pending ledgers on its queue
                            path move; nodes, allocation lists, usage untouched;
     [m_new_ask_stepG]      AddAllocationAsk for a new key (real ask of an application in New / Accepted / Running / Completing);
     [m_release_ask_stepG]  removeAsksInternal(key) for a pending ask;
     [m_recovered_stepG]    "new allocation already assigned" for a real allocation;
     [m_release_alloc_stepG] removeAllocation of a real allocation without link;
     [m_alloc_stepG], [m_release_stepG], [m_sched_stepG], [m_step_G]   the dispatchers of [m_step].
   The application records of Core/Model.v ([new_ask_app], [release_ask_app], [recovered_app], [release_alloc_app] of
   Core/BooksApp.v) differ from the records of Core/Model3.v only in state / timers / placeholder data, which the invariants
   do not read: the record lemmas of Core/Model3ProofsA*.v are transferred with [same_ledgers]. *)
From Coq Require Import List ZArith NArith Bool Lia ZifyBool.
From YK Require Import Base.Int64 Base.Res Base.ResSpec Base.ResLemmas Base.ResLaws Base.ResLaws2 Base.ResLawsPred
  Core.Obs Core.Model Core.Model2 Core.Model3 Core.Ledger
  Core.BooksLemmas Core.BooksDefs Core.BooksTree Core.BooksQueue Core.BooksApp Core.BooksState Core.BooksDrain Core.BooksOps
  Core.BooksOps2 Core.Model2ProofsB2 Core.Model3ProofsD Core.Model3ProofsD2 Core.Model3ProofsG1 Core.Model3ProofsG2
  Core.Model3ProofsG5 Core.Model3ProofsG6 Core.Model3ProofsA1 Core.Model3ProofsA2 Core.Model3ProofsA3
  Core.Model3ProofsO1 Core.Model3ProofsO1b Core.Model3ProofsO2 Core.Model3ProofsO2b Core.Model3ProofsO4 Core.Model3ProofsR1.
Import ListNotations.
Open Scope Z_scope.
Set Default Timeout 60.

(* ================================================================== only the request side of one application moves *)
Section PendOnlyG.
  Variables (s s' : ostate) (a a' : oapp) (F : oqueue -> oqueue) (dP : tid -> Z).
  Hypothesis HI2 : InvG2 s.
  Hypothesis HB : BooksG s.
  Hypothesis Ha : In a (s_apps s).
  Hypothesis Eapps : s_apps s' = updk ap_id (s_apps s) (ap_id a) (fun _ => a').
  Hypothesis Enodes : s_nodes s' = s_nodes s.
  Hypothesis Eq : s_queues s' = path_map s (ap_queue a) F.
  Hypothesis Ef : s_foreign s' = s_foreign s.
  Hypothesis Ec : s_nallocs s' = s_nallocs s.
  Hypothesis Fid : forall q, q_id (F q) = q_id q.
  Hypothesis Fpar : forall q, q_parent (F q) = q_parent q.
  Hypothesis Fleaf : forall q, q_leaf (F q) = q_leaf q.
  Hypothesis QF : forall q, In q (s_queues s) -> In (q_id q) (path_ids s (ap_queue a)) -> QFacts q (F q) zero3 dP.
  Hypothesis Eid : ap_id a' = ap_id a.
  Hypothesis Equeue : ap_queue a' = ap_queue a.
  Hypothesis Ba' : AppBooks a'.
  Hypothesis Wa' : AppWF3 a'.
  Hypothesis Eal : ap_allocs a' = ap_allocs a.
  Hypothesis Ealed : ap_allocated a' = ap_allocated a.
  Hypothesis Eph : ap_phalloc a' = ap_phalloc a.
  Hypothesis HdP : forall k, getz (ap_pending a') k = getz (ap_pending a) k + dP k.
  Hypothesis Hkeys : RecKeysOK s a a'.
  (* an allocated request stays, none appears *)
  Hypothesis Hkeep : forall r, In r (ap_requests a) -> oa_allocated r = true -> In r (ap_requests a').
  Hypothesis Hback : forall r, In r (ap_requests a') -> oa_allocated r = true -> In r (ap_requests a).

  Theorem pend_only_step : InvG2 s' /\ BooksG s'.
  Proof. pose proof (ig2_inv s HI2) as HI.
    assert (G : InvG s' /\ BooksG s').
    { apply (gang_step s s' a a' F zero3 dP HI HB Ha Eapps Eq Ef Fid Fpar Fleaf QF Eid Equeue Ba' Wa' Hkeys).
      - intros k. rewrite Ealed, Eph. unfold zero3. lia.
      - exact HdP.
      - rewrite Enodes. apply (ig_node_ids s HI).
      - rewrite Enodes. apply (ig_nodes s HI).
      - apply (owned_nodes_same s s' a a' HI Ha Eapps Eid Enodes). intros n y Hn Hy. apply (ownedby_reqs a a' y Eal).
        intros Hr _ Hal. apply (Hkeep y Hr Hal).
      - apply (onnode_nodes_same s s' a a' HI Ha Eapps Enodes). rewrite Eal. apply incl_refl.
      - apply (g_count_step s s' a a' HI Ha Eapps 0); [rewrite Eal; lia|rewrite Ec; lia].
      - intros k. rewrite (node_records_same s s' Enodes). unfold zero3. lia. }
    destruct G as [I' B']. split; [|exact B']. constructor; [exact I'|].
    apply (linkok_app_upd s s' a a' HI Ha Eapps Eid Enodes Eal); [|apply (ig2_link s HI2)].
    intros r Hr _ Hal. apply (Hback r Hr Hal). Qed.
End PendOnlyG.

Lemma same_ledgers_sym a b : same_ledgers a b -> same_ledgers b a.
Proof. intros [S1 S2 S3 S4 S5 S6 S7]. constructor; congruence. Qed.

(* ================================================================== AddAllocationAsk for a new key, Core/Model.v *)
Lemma new_ask_app_same a x : same_ledgers (new_ask_app3 a x) (new_ask_app a x).
Proof. pose proof (new_ask3_same_alloc a x) as (E1 & E2 & E3). constructor.
  - rewrite new_ask3_id. apply new_ask_id.
  - rewrite new_ask3_queue. apply new_ask_queue.
  - rewrite new_ask3_pending. apply new_ask_pending_eq.
  - rewrite E1. apply new_ask_allocated.
  - rewrite E2. apply new_ask_phalloc.
  - rewrite new_ask3_requests. apply new_ask_requests.
  - rewrite E3. apply new_ask_allocs. Qed.

Theorem m_new_ask_stepG s a x : InvG2 s -> BooksG s -> Bounded3 s -> In a (s_apps s) -> AllocOK3 (ap_id a) x -> rb (oa_res x) ->
  oa_allocated x = false -> KeyFresh3 s (oa_key x) -> InvG2 (m_new_ask s a x) /\ BooksG (m_new_ask s a x).
Proof. intros HI2 HB HBd Ha Xok Xb Xna Xfr. pose proof (ig2_inv s HI2) as HI.
  pose proof (ig_app_wf s HI a Ha) as W. pose proof (bg_apps s HB a Ha) as B.
  pose proof (proj2 (proj1 (AppBounded3_sides a) (bounded3_app s a HBd Ha))) as Bd.
  assert (Xfreq : ~ In (oa_key x) (akeys (ap_requests a))).
  { intros C. unfold akeys in C. apply in_map_iff in C. destruct C as (z & E & Hz). apply (proj1 Xfr a z Ha); [apply in_records; auto|assumption]. }
  assert (Xfal : ~ In (oa_key x) (akeys (ap_allocs a))).
  { intros C. unfold akeys in C. apply in_map_iff in C. destruct C as (z & E & Hz). apply (proj1 Xfr a z Ha); [apply in_records; auto|assumption]. }
  pose proof (new_ask_app_same a x) as SL. pose proof SL as [S1 S2 S3 S4 S5 S6 S7].
  destruct (new_ask3_ok a x W (AppBooks_pend a B) Bd Xok Xb Xna Xfreq Xfal) as (_ & W3 & D3).
  pose proof (new_ask3_books a x W B Bd Xok Xb Xna Xfreq Xfal) as B3.
  set (a' := new_ask_app a x) in *.
  apply (pend_only_step s (m_new_ask s a x) a a' (F_inc_pending (oa_res x)) (getz (oa_res x)) HI2 HB Ha); try reflexivity.
  - unfold m_new_ask. apply g_q_inc_pending_queues. reflexivity.
  - intros q Hq _. apply F_inc_pending_Q_nn; [apply (g_qok s q HI HB HBd Hq)|apply (a3_wf _ x Xok)|exact Xb|apply (a3_nn _ x Xok)].
  - apply new_ask_id.
  - apply new_ask_queue.
  - apply (same_ledgers_books _ _ SL B3).
  - apply (same_ledgers_wf3 _ _ SL W3).
  - apply new_ask_allocs.
  - apply new_ask_allocated.
  - apply new_ask_phalloc.
  - intros k. rewrite S3. apply D3.
  - intros r' Hr'. apply in_records in Hr'. unfold a' in Hr'. rewrite new_ask_allocs, new_ask_requests in Hr'. destruct Hr' as [Hr'|Hr'].
    + apply in_put_alloc in Hr'. destruct Hr' as [->|[Hr' _]]; [right; exact Xfr|left; exists r'; split; [apply in_records; auto|reflexivity]].
    + left. exists r'. split; [apply in_records; auto|reflexivity].
  - intros r Hr _. unfold a'. rewrite new_ask_requests. apply in_put_alloc. right. split; [assumption|]. intros C. apply Xfreq. rewrite <- C.
    apply in_map. assumption.
  - intros r Hr Hal. unfold a' in Hr. rewrite new_ask_requests in Hr. apply in_put_alloc in Hr. destruct Hr as [->|[Hr _]]; [congruence|assumption]. Qed.

(* ================================================================== removeAsksInternal(key) for a pending ask, Core/Model.v *)
Lemma release_ask_app_same a x : In x (ap_requests a) -> NoDup (akeys (ap_requests a)) -> oa_allocated x = false ->
  same_ledgers (remove_ask_rec a (oa_key x)) (release_ask_app a x) /\ remove_ask_delta a (oa_key x) = oa_res x.
Proof. intros Hx Hnd Xna. unfold remove_ask_rec, remove_ask_delta. rewrite (find_alloc_in _ x Hnd Hx), Xna. split; [constructor; reflexivity|reflexivity]. Qed.

Section ReleaseAskG.
  Variables (s s' : ostate) (a a' : oapp) (x : oalloc).
  Hypothesis HI2 : InvG2 s.
  Hypothesis HB : BooksG s.
  Hypothesis HBd : Bounded3 s.
  Hypothesis Ha : In a (s_apps s).
  Hypothesis Hx : In x (ap_requests a).
  Hypothesis Xna : oa_allocated x = false.
  Hypothesis SL : same_ledgers (release_ask_app a x) a'.
  Hypothesis Eapps : s_apps s' = updk ap_id (s_apps s) (ap_id a) (fun _ => a').
  Hypothesis Enodes : s_nodes s' = s_nodes s.
  Hypothesis Eq : s_queues s' = path_map s (ap_queue a) (F_dec_pending (oa_res x)).
  Hypothesis Ef : s_foreign s' = s_foreign s.
  Hypothesis Ec : s_nallocs s' = s_nallocs s.

  Lemma release_ask_coreG : InvG2 s' /\ BooksG s'.
  Proof. pose proof (ig2_inv s HI2) as HI. pose proof (ig_app_wf s HI a Ha) as W. pose proof (bg_apps s HB a Ha) as B.
    pose proof (proj2 (proj1 (AppBounded3_sides a) (bounded3_app s a HBd Ha))) as Bd.
    destruct (release_ask_app_same a x Hx (w3_req_keys a W) Xna) as [SR ED].
    pose proof (same_ledgers_trans _ _ _ SR SL) as ST. pose proof ST as [S1 S2 S3 S4 S5 S6 S7].
    destruct (remove_ask_ok a (oa_key x) W (AppBooks_pend a B) Bd) as (_ & W3 & _ & D3). rewrite ED in D3.
    pose proof (remove_ask_books a (oa_key x) W B Bd) as B3.
    pose proof (remove_ask_same_alloc a (oa_key x)) as (A1 & A2 & A3).
    destruct (w3_req a W x Hx) as [Wx Nx _ _ _].
    apply (pend_only_step s s' a a' (F_dec_pending (oa_res x)) (fun k => - getz (oa_res x) k) HI2 HB Ha Eapps Enodes Eq Ef Ec); try reflexivity.
    - intros q Hq Hin. apply F_dec_pending_Q; [apply (g_qok s q HI HB HBd Hq)|exact Wx|apply (proj2 Bd x Hx)|].
      apply (sched_le s a x q HI HB Ha Hx Xna Hq Hin).
    - rewrite S1. apply remove_ask_id.
    - rewrite S2. apply remove_ask_queue.
    - apply (same_ledgers_books _ _ ST B3).
    - apply (same_ledgers_wf3 _ _ ST W3).
    - rewrite S7. exact A3.
    - rewrite S4. exact A1.
    - rewrite S5. exact A2.
    - intros k. rewrite S3, D3. lia.
    - apply rec_keys_incl. unfold app_records, akeys. rewrite S6, S7, A3, remove_ask_requests, !map_app. apply incl_app; [|apply incl_appr, incl_refl].
      apply incl_appl. apply incl_map. apply incl_filter.
    - intros r Hr Hal. rewrite S6, remove_ask_requests. apply in_del_alloc. split; [assumption|]. intros C.
      assert (r = x) by (apply (nodup_key_inj oa_key (ap_requests a)); auto; apply (w3_req_keys a W)). congruence.
    - intros r Hr _. rewrite S6, remove_ask_requests in Hr. apply in_del_alloc in Hr. tauto. Qed.
End ReleaseAskG.

Theorem m_release_ask_stepG s s' a x : InvG2 s -> BooksG s -> Bounded3 s -> In a (s_apps s) -> In x (ap_requests a) ->
  m_release_ask s a x = Some s' -> InvG2 s' /\ BooksG s'.
Proof. intros HI2 HB HBd Ha Hx H. unfold m_release_ask in H. destruct (oa_allocated x) eqn:Xna; [discriminate|]. cbn [orb] in H.
  destruct (negb match ap_reservations a with [] => true | _ :: _ => false end); [discriminate|].
  fold (release_ask_app a x) in H. set (a1 := release_ask_app a x) in *.
  set (s1 := q_dec_pending (upd_app s (ap_id a) (fun _ => a1)) (ap_queue a) (oa_res x)) in *.
  assert (Eq1 : s_queues s1 = path_map s (ap_queue a) (F_dec_pending (oa_res x))) by (unfold s1; apply g_q_dec_pending_queues; reflexivity).
  match type of H with Some (if ?c then _ else _) = _ => destruct c end; inversion H; subst s'; clear H.
  - apply (release_ask_coreG s _ a (ap_event a1 (fsm_complete (ap_state a1))) x HI2 HB HBd Ha Hx Xna); try assumption; try reflexivity.
    + apply same_ledgers_event.
    + change (s_apps (upd_app s1 (ap_id a) (fun b => ap_event b (fsm_complete (ap_state b)))))
        with (updk ap_id (updk ap_id (s_apps s) (ap_id a) (fun _ => a1)) (ap_id a) (fun b => ap_event b (fsm_complete (ap_state b)))).
      apply (BooksOps.updk_updk_const ap_id (s_apps s) (ap_id a) a1 (fun b => ap_event b (fsm_complete (ap_state b)))). reflexivity.
  - apply (release_ask_coreG s s1 a a1 x HI2 HB HBd Ha Hx Xna); try assumption; try reflexivity. apply same_ledgers_refl.
Qed.

(* ================================================================== a recovered real allocation, Core/Model.v *)
Lemma recovered_app_same a x : oa_ph x = false -> same_ledgers (recovered_app3 a x) (recovered_app a x).
Proof. intros Xph. pose proof (recovered_pre_same_alloc a x) as (E1 & E2 & E3). unfold recovered_app3. constructor.
  - rewrite app_add_alloc_id, recovered_pre_id. apply recovered_id.
  - rewrite app_add_alloc_queue, recovered_pre_queue. apply recovered_queue.
  - rewrite app_add_alloc_pending, recovered_pre_pending. apply recovered_pending_eq.
  - rewrite app_add_alloc_allocated, Xph, E1. apply recovered_allocated_eq.
  - rewrite app_add_alloc_phalloc, Xph, E2. apply recovered_phalloc.
  - rewrite app_add_alloc_requests, recovered_pre_requests. apply recovered_requests.
  - rewrite app_add_alloc_allocs, E3. apply recovered_allocs. Qed.

Theorem m_recovered_stepG s s' a n x : InvG2 s -> BooksG s -> Bounded3 s -> In a (s_apps s) -> In n (s_nodes s) ->
  AllocOK3 (ap_id a) x -> rb (oa_res x) -> oa_allocated x = true -> oa_node x = on_id n -> oa_release x = 0%N ->
  KeyFresh3 s (oa_key x) -> unlinked (ap_allocs a) (oa_key x) ->
  m_recovered s a n x = Some s' -> InvG2 s' /\ BooksG s'.
Proof. intros HI2 HB HBd Ha Hn Xok Xb Xal Xnode Xl Xfresh Xu H. pose proof (ig2_inv s HI2) as HI.
  unfold m_recovered in H. destruct (oa_ph x) eqn:Xph; [discriminate|].
  destruct (n_add n x true) as [n'|] eqn:Eadd; [|discriminate]. apply n_add_native in Eadd; [|apply (a3_native _ _ Xok)]. subst n'.
  fold (recovered_app a x) in H. inversion H; subst s'; clear H.
  pose proof (ig_app_wf s HI a Ha) as W. pose proof (bg_apps s HB a Ha) as B.
  assert (Bd3 : AppBounded3 a) by (split; [apply (bd_apps s (b3_base s HBd) a Ha)|apply (b3_ph s HBd a Ha)]).
  assert (Xfr : ~ In (oa_key x) (akeys (ap_requests a))).
  { intros C. unfold akeys in C. apply in_map_iff in C. destruct C as (z & E & Hz). apply (proj1 Xfresh a z Ha); [apply in_records; auto|assumption]. }
  assert (Xfa : ~ In (oa_key x) (akeys (ap_allocs a))).
  { intros C. unfold akeys in C. apply in_map_iff in C. destruct C as (z & E & Hz). apply (proj1 Xfresh a z Ha); [apply in_records; auto|assumption]. }
  destruct (recovered3_ok a x W B Bd3 Xok Xb Xal Xfr Xfa Xl Xu) as (B1 & W1 & E1 & E2 & E3 & E4 & E5 & D).
  pose proof (recovered_app_same a x Xph) as SL. pose proof SL as [S1 S2 S3 S4 S5 S6 S7].
  apply (bind_op_step s _ a (recovered_app a x) n x (F_inc (oa_res x)) zero3 HI2 HB HBd Ha Hn Xok Xb Xnode Xl); try reflexivity; auto.
  - apply (fresh_key_not_on_node s (oa_key x) HI Xfresh).
  - intros q Hq _. apply F_inc_Q_nn; [apply (g_qok s q HI HB HBd Hq)|apply (a3_wf _ _ Xok)|exact Xb|apply (a3_nn _ _ Xok)].
  - apply recovered_id.
  - apply recovered_queue.
  - apply (same_ledgers_books _ _ SL B1).
  - apply (same_ledgers_wf3 _ _ SL W1).
  - apply recovered_allocs.
  - apply recovered_requests.
  - intros k. rewrite S4, S5. destruct (D k) as (D2 & D3). rewrite D2, D3, Xph. lia.
  - intros k. rewrite S3, E5. unfold zero3. lia. Qed.

(* ================================================================== removeAllocation of a real allocation without link, Core/Model.v *)
Section ReleaseAllocRec.
  Variables (a : oapp) (x : oalloc) (ttype : N).
  Hypothesis W : AppWF3 a.
  Hypothesis B : AppBooks a.
  Hypothesis Bd : AppBounded3 a.
  Hypothesis Hx : In x (ap_allocs a).
  Hypothesis Xph : oa_ph x = false.
  Let b := release_alloc_app a x ttype.

  Lemma rar_same_alloc : same_alloc (app_remove_alloc a x ttype) b.
  Proof. unfold b. split; [|split].
    - rewrite app_remove_alloc_allocated, Xph. apply rel_alloc_allocated_eq.
    - rewrite app_remove_alloc_phalloc, Xph. apply rel_alloc_phalloc.
    - rewrite app_remove_alloc_allocs. apply rel_alloc_allocs. Qed.
  (* the request under the key of an allocation is an allocated one *)
  Lemma rar_req_allocated r : In r (ap_requests a) -> oa_key r = oa_key x -> oa_allocated r = true.
  Proof. intros Hr E. destruct (oa_allocated r) eqn:Al; [reflexivity|]. exfalso. apply (w3_pending_fresh a W r Hr Al). rewrite E. apply in_map. exact Hx. Qed.
  Lemma rar_pend_sum k : asum (filter is_pending (ap_requests b)) k = asum (filter is_pending (ap_requests a)) k.
  Proof. unfold b. rewrite rel_alloc_requests. destruct (ttype =? TT_Timeout)%N; [reflexivity|].
    destruct (find_alloc (ap_requests a) (oa_key x)) as [r|] eqn:E.
    - apply find_alloc_some in E. destruct E as [Hr Ek]. rewrite <- Ek, asum_filter_del_in by (try assumption; apply (w3_req_keys a W)).
      unfold is_pending. rewrite (rar_req_allocated r Hr Ek). cbn [negb]. lia.
    - apply find_alloc_none in E. rewrite del_alloc_fresh by assumption. reflexivity. Qed.
  Lemma rar_req_incl : incl (ap_requests b) (ap_requests a).
  Proof. unfold b. rewrite rel_alloc_requests. destruct (ttype =? TT_Timeout)%N; [apply incl_refl|apply incl_filter]. Qed.
  Lemma rar_req_keep y : In y (ap_requests a) -> oa_key y <> oa_key x -> In y (ap_requests b).
  Proof. intros Hy Hne. unfold b. rewrite rel_alloc_requests. destruct (ttype =? TT_Timeout)%N; [assumption|]. apply in_del_alloc. auto. Qed.

  Lemma rar_books : AppBooks b.
  Proof. pose proof (proj1 (AppBounded3_sides a) Bd) as [BdA BdP]. pose proof (proj1 (AppBooks_sides a) B) as [BA BP].
    apply AppBooks_sides. split.
    - apply (same_alloc_books _ _ rar_same_alloc). apply remove_alloc_alloc_books; assumption.
    - unfold PendBooks, b. rewrite rel_alloc_pending_eq. apply (LBk_same _ _ (ap_requests a)); [exact rar_pend_sum|exact BP]. Qed.
  Lemma rar_wf : AppWF3 b.
  Proof. pose proof (AppWF3_raw a W) as R. pose proof rar_same_alloc as (E1 & E2 & E3).
    apply (AppWF3_intro b (ap_id a) (ap_requests b) (del_alloc (oa_key x) (ap_allocs a))).
    - apply rel_alloc_id.
    - reflexivity.
    - apply rel_alloc_allocs.
    - unfold b. rewrite rel_alloc_requests. destruct (ttype =? TT_Timeout)%N; [apply WF3_del_alloc; exact R|].
      apply WF3_del_req. apply WF3_del_alloc. exact R.
    - unfold b. rewrite rel_alloc_pending_eq. apply (w3_pending a W).
    - unfold b. rewrite rel_alloc_allocated_eq. apply Prune_wf, Sub_wf. apply (w3_allocated a W).
    - unfold b. rewrite rel_alloc_phalloc. apply (w3_phalloc a W). Qed.
  Lemma rar_delta k : getz (ap_allocated b) k = getz (ap_allocated a) k - getz (oa_res x) k /\ getz (ap_phalloc b) k = getz (ap_phalloc a) k.
  Proof. pose proof (proj1 (AppBounded3_sides a) Bd) as [BdA BdP]. pose proof rar_same_alloc as (E1 & E2 & E3).
    destruct (remove_alloc_delta a x ttype k W BdA Hx) as [D1 D2]. rewrite E1, E2, D1, D2, Xph. split; lia. Qed.
End ReleaseAllocRec.

Lemma positive_sgtz r : wf r -> rnonneg r -> positive r -> StrictlyGreaterThanZero (Some r) = true.
Proof. intros Wr Nr Pr. destruct (StrictlyGreaterThanZero (Some r)) eqn:E; [reflexivity|]. exfalso.
  destruct (positive_getz r Wr Pr) as (k & Hk). rewrite (not_sgtz_zero r Nr E k) in Hk. lia. Qed.

Theorem m_release_alloc_stepG s s' a x ttype : InvG2 s -> BooksG s -> Bounded3 s -> In a (s_apps s) -> In x (ap_allocs a) ->
  m_release_alloc s a x ttype = Some s' -> InvG2 s' /\ BooksG s'.
Proof. intros HI2 HB HBd Ha Hx H. pose proof (ig2_inv s HI2) as HI. unfold m_release_alloc in H. destruct (oa_ph x) eqn:Xph; [discriminate|]. cbn [orb] in H.
  match type of H with (if ?c then None else _) = _ => destruct c; [discriminate|] end.
  destruct (find_node s (oa_node x)) as [n|] eqn:En; [|discriminate]. apply find_node_some in En. destruct En as [Hn Enid].
  fold (release_alloc_app a x ttype) in H.
  pose proof (ig_app_wf s HI a Ha) as W. pose proof (bg_apps s HB a Ha) as B. pose proof (bounded3_app s a HBd Ha) as Bd3.
  destruct (w3_alloc a W x Hx) as [Wx Nx Px _ _].
  rewrite (positive_sgtz _ Wx Nx Px) in H. inversion H; subst s'; clear H.
  set (a' := release_alloc_app a x ttype).
  assert (Hdom : dominated s (ap_queue a) (oa_res x)).
  { intros c oc Hc Ec k. destruct (find_queue_some s c oc Ec) as [Hoc Eid]. subst c.
    pose proof (g_alloc_le_allocated a x k W B Hx Xph). pose proof (g_allocated_dominated s a HI HB Ha oc k Hoc Hc). lia. }
  set (s2 := upd_node (upd_app s (ap_id a) (fun _ => a')) (on_id n) (fun _ => n_remove n (oa_key x))).
  pose proof (q_dec_same s2 (ap_queue a) (oa_res x)) as SQ.
  assert (G : InvG2 (add_counts (q_dec s2 (ap_queue a) (oa_res x)) (-1) 0) /\ BooksG (add_counts (q_dec s2 (ap_queue a) (oa_res x)) (-1) 0) /\
              Bounded3 (add_counts (q_dec s2 (ap_queue a) (oa_res x)) (-1) 0)).
  { apply (unbind_step s _ a a' n x HI2 HB HBd Ha Hn Hx (eq_sym Enid)).
    - intros m y Hm Hy Hi Eapp C. destruct (lk_1 s (ig2_link s HI2) m y Hm Hy Hi) as (b & ph & Hb & Eb & Hph & Pph & Ek & _).
      assert (b = a) by (apply (g_same_app s a b HI Ha Hb); congruence). subst b.
      assert (ph = x) by (apply (nodup_key_inj oa_key (ap_allocs a)); auto; [apply (w3_alloc_keys a W)|congruence]). congruence.
    - cbn [add_counts s_apps]. rewrite (sq_apps _ _ SQ). reflexivity.
    - cbn [add_counts s_nodes]. rewrite (sq_nodes _ _ SQ). reflexivity.
    - cbn [add_counts s_queues]. apply (g_q_dec_queues s s2 (ap_queue a) (oa_res x) eq_refl Wx Hdom).
    - cbn [add_counts s_foreign]. rewrite (sq_foreign _ _ SQ). reflexivity.
    - cbn [add_counts s_nallocs]. rewrite (sq_nallocs _ _ SQ). reflexivity.
    - apply rel_alloc_id.
    - apply rel_alloc_queue.
    - apply rel_alloc_allocs.
    - apply (rar_req_incl a x ttype).
    - apply (rar_req_keep a x ttype).
    - apply (rar_books a x ttype W B Bd3 Hx Xph).
    - apply (rar_wf a x ttype W Xph).
    - intros k. rewrite Xph. apply (rar_delta a x ttype W Bd3 Hx Xph k).
    - intros k. rewrite Xph. destruct (rar_delta a x ttype W Bd3 Hx Xph k) as [_ D]. unfold a'. lia.
    - apply rel_alloc_pending_eq. }
  destruct G as (G1 & G2 & _). auto. Qed.

(* ================================================================== the dispatchers of [m_step] *)
Theorem m_alloc_stepG s s' r : InvG2 s -> BooksG s -> Bounded3 s -> ReqOK3 s r -> RecOK3 s r -> ForeignFresh3 s r ->
  m_alloc s r = Some s' -> InvG2 s' /\ BooksG s'.
Proof. intros HI2 HB HBd RO RK FF H. assert (Same : InvG2 s /\ BooksG s) by (split; assumption). destruct (rq_partition_ok r) eqn:Hp.
  2:{ unfold m_alloc in H. rewrite Hp in H. inversion H; subst s'. exact Same. }
  destruct (rq_foreign r) eqn:Hfo; [apply (foreign_alloc_stepG s s' r HI2 HB FF Hp Hfo H)|].
  unfold m_alloc in H. rewrite Hp, Hfo in H. cbn [negb] in H.
  destruct (find_app s (rq_app r)) as [a|] eqn:Ea; [|inversion H; subst s'; exact Same].
  match type of H with (if ?c then _ else _) = _ => destruct c; [inversion H; subst s'; exact Same|] end.
  destruct (IsZero (rq_res r) || negb (StrictlyGreaterThanZero (rq_res r))) eqn:Ez; [inversion H; subst s'; exact Same|].
  apply orb_false_iff in Ez. destruct Ez as [_ Ez]. apply negb_false_iff in Ez.
  destruct (find_alloc (ap_requests a) (rq_key r)) eqn:Ereq; [discriminate|].
  pose proof (proj2 (proj2 RO) a Ea Ereq) as Xfresh.
  destruct (find_app_some s _ a Ea) as [Ha Eid].
  destruct (Model3ProofsO2.alloc_of_req_ok3 s r a RO Hfo Eid Ez) as [Xok Xb].
  destruct (rq_node r =? 0)%N eqn:Enode.
  - destruct (rq_ph r); [discriminate|]. match type of H with (if ?c then _ else _) = _ => destruct c; [|discriminate] end.
    inversion H; subst s'; clear H. apply (m_new_ask_stepG s a (alloc_of_req r) HI2 HB HBd Ha Xok Xb); [|exact Xfresh].
    cbn [alloc_of_req oa_allocated]. rewrite Enode. reflexivity.
  - destruct (find_node s (rq_node r)) as [n|] eqn:En; [|inversion H; subst s'; exact Same].
    apply find_node_some in En. destruct En as [Hn Enid].
    apply (m_recovered_stepG s s' a n (alloc_of_req r) HI2 HB HBd Ha Hn Xok Xb); auto.
    + cbn [alloc_of_req oa_allocated]. rewrite Enode. reflexivity.
    + apply (RK a Ea Ereq). apply N.eqb_neq. exact Enode. Qed.

Theorem m_release_stepG s s' app key ttype : InvG2 s -> BooksG s -> Bounded3 s -> m_release s app key ttype = Some s' -> InvG2 s' /\ BooksG s'.
Proof. intros HI2 HB HBd H. assert (Same : InvG2 s /\ BooksG s) by (split; assumption).
  destruct (N.eq_dec app 0) as [->|Hne]; [apply (foreign_release_stepG s s' key ttype HI2 HB H)|].
  unfold m_release in H. destruct (N.eqb_spec app 0); [contradiction|].
  destruct (find_app s app) as [a|] eqn:Ea; [|inversion H; subst s'; exact Same].
  destruct (find_app_some s _ a Ea) as [Ha Eid].
  match type of H with (if ?c then None else _) = _ => destruct c; [discriminate|] end.
  destruct (find_alloc (ap_allocs a) key) as [x|] eqn:Ex.
  - apply find_alloc_some in Ex. apply (m_release_alloc_stepG s s' a x ttype HI2 HB HBd Ha (proj1 Ex) H).
  - destruct (find_alloc (ap_requests a) key) as [x|] eqn:Er; [|inversion H; subst s'; exact Same].
    destruct (ttype =? TT_Timeout)%N; [inversion H; subst s'; exact Same|].
    apply find_alloc_some in Er. apply (m_release_ask_stepG s s' a x HI2 HB HBd Ha (proj1 Er) H). Qed.

(* a scheduling cycle that binds an ask: the ask carries no link and no allocated placeholder is linked to its key
   (the second part of [SchedOK3], Core/Model3ProofsT.v, for a cycle without cancellations) *)
Definition BindOK3 (s : ostate) (st : ostep) : Prop :=
  forall k app nid a, is_new_alloc_for (st_events st) = Some (k, app, nid) -> find_app s app = Some a ->
    (forall ask, find_alloc (ap_requests a) k = Some ask -> oa_release ask = 0%N) /\ unlinked (ap_allocs a) k.

(* what a step answered by [m_step] / [m_step2] needs from the environment in a gang state *)
Definition AllocOK3m (s : ostate) (r : oreq) : Prop := ReqOK3 s r /\ RecOK3 s r /\ ForeignFresh3 s r.

Theorem m_step_G deny s st s' : InvG2 s -> BooksG s -> Bounded3 s ->
  (forall r, st_op st = OpAlloc r -> AllocOK3m s r) -> (st_op st = OpSched -> BindOK3 s st) ->
  m_step deny s st = Some s' -> InvG2 s' /\ BooksG s'.
Proof. intros HI2 HB HBd HA HS H. unfold m_step in H. destruct (st_panic st); [discriminate|].
  destruct (st_op st) eqn:Eop; try discriminate.
  - eapply node_add_stepG; eassumption.
  - eapply node_update_stepG; eassumption.
  - eapply node_sched_stepG; eassumption.
  - eapply node_sched_stepG; eassumption.
  - destruct (HA _ eq_refl) as (H1 & H2 & H3). eapply m_alloc_stepG; eassumption.
  - eapply m_release_stepG; eassumption.
  - destruct (st_events st) as [|e evs] eqn:Eev.
    + destruct (Z.eqb _ _); [|discriminate]. inversion H; subst s'. split; assumption.
    + destruct (negb (no_release_events (e :: evs))); [discriminate|].
      destruct (is_new_alloc_for (e :: evs)) as [[[k app] nid]|] eqn:En; [|discriminate].
      destruct (find_app s app) as [a|] eqn:Ea; [|discriminate]. destruct (find_app_some _ _ _ Ea) as [Ha _].
      specialize (HS eq_refl). unfold BindOK3 in HS. rewrite Eev in HS. destruct (HS k app nid a En Ea) as [Hl Hu].
      eapply m_sched_alloc_stepG; eassumption. Qed.
