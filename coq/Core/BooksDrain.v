(* C03: nothing leaks.  In a state whose books agree and that has no application left, every queue ledger and
   every node's allocated ledger is exactly zero ([drained_ok]).  Leaves are sums over no application; parents
   follow by induction on the height of the tree (measured by the length of the ancestor path). Also the root
   clause and the queue clause for steps that do not touch the ledgers. *)
From Coq Require Import List ZArith NArith Bool Lia ZifyBool.
From YK Require Import Base.Int64 Base.Res Base.ResSpec Base.ResLemmas Core.Obs Core.Model Core.Ledger
  Core.BooksLemmas Core.BooksDefs Core.BooksTree Core.BooksState.
Import ListNotations.
Open Scope Z_scope.

Section Depth.
  Variable s : ostate.
  Hypothesis HT : TreeOK s.

  Lemma path_le_queues q : In q (s_queues s) -> (length (path_ids s (q_id q)) <= length (s_queues s))%nat.
  Proof. intros Hq. destruct (tk_path s HT q Hq) as [Hnd _]. rewrite <- (map_length q_id (s_queues s)).
    apply NoDup_incl_length; [assumption|]. intros c Hc. destruct (path_member s c _ Hc) as (oc & _ & Hoc & <-).
    apply in_map. assumption. Qed.

  Lemma child_depth c q : In c (s_queues s) -> In q (s_queues s) -> q_parent c = q_id q ->
    length (path_ids s (q_id c)) = S (length (path_ids s (q_id q))).
  Proof. intros Hc Hq Ep. destruct (tk_path s HT c Hc) as [_ Hcomp].
    pose proof (tk_nz s HT q Hq) as Hnz.
    unfold path_ids in *. set (N := length (s_queues s)) in *.
    change (path_ids_fuel (S N) s (q_id c)) with
      (match find_queue s (q_id c) with None => [] | Some oq => q_id c :: (if (q_parent oq =? 0)%N then [] else path_ids_fuel N s (q_parent oq)) end) in *.
    rewrite (find_queue_in s c HT Hc) in *. rewrite Ep in *. destruct (N.eqb_spec (q_id q) 0) as [C|_]; [contradiction|].
    cbn [length]. f_equal.
    assert (Hne : path_ids_fuel N s (q_id q) <> []).
    { intros C. rewrite C in Hcomp. unfold complete in Hcomp. cbn [last] in Hcomp. rewrite (parent_of_queue s HT c Hc) in Hcomp. congruence. }
    rewrite (path_fuel_stable N s (q_id q) Hne); [reflexivity|].
    unfold complete in *. destruct (path_ids_fuel N s (q_id q)) as [|h t]; [congruence|]. exact Hcomp. Qed.
End Depth.

(* the queue part of "nothing leaks" *)
Lemma queues_zero s : TreeOK s -> (forall q, In q (s_queues s) -> QueueBooks s q) -> s_apps s = [] ->
  forall q, In q (s_queues s) -> (forall k, getz (q_alloc q) k = 0) /\ (forall k, getz (q_pending q) k = 0).
Proof. intros HT HB Hno.
  assert (H : forall n q, In q (s_queues s) -> (length (s_queues s) + 1 <= length (path_ids s (q_id q)) + n)%nat ->
              (forall k, getz (q_alloc q) k = 0) /\ (forall k, getz (q_pending q) k = 0)).
  { induction n as [|n IH]; intros q Hq Hd.
    - pose proof (path_le_queues s HT q Hq). lia.
    - destruct (HB q Hq) as [B1 B2 B3 B4 B5 B6]. destruct (q_leaf q) eqn:El.
      + split; intros k; [rewrite (B3 eq_refl k)|rewrite (B4 eq_refl k)]; unfold app_usage, apps_of_queue; rewrite Hno; reflexivity.
      + assert (Hc : forall c, In c (children_of s (q_id q)) -> (forall k, getz (q_alloc c) k = 0) /\ (forall k, getz (q_pending c) k = 0)).
        { intros c Hc. apply (in_children s) in Hc. destruct Hc as [Hcq Ep]. apply (IH c Hcq).
          rewrite (child_depth s HT c q Hcq Hq Ep). lia. }
        split; intros k; [rewrite (B5 eq_refl k)|rewrite (B6 eq_refl k)]; apply sumz_all_zero; intros r Hr;
          apply in_map_iff in Hr; destruct Hr as (c & <- & Hcin); apply (Hc c Hcin). }
  intros q Hq. apply (H (length (s_queues s) + 1)%nat q Hq). lia. Qed.

Theorem drain_to_zero s : Books0 s -> Inv s -> drained_ok s = true.
Proof. intros [B1 B2 B3 B4 B5] HI. unfold drained_ok. destruct (s_apps s) as [|a0 t] eqn:Hno; [|reflexivity].
  rewrite !andb_true_iff. split; [split|].
  - apply forallb_forall. intros q Hq. destruct (queues_zero s (inv_tree s HI) B2 Hno q Hq) as [Z1 Z2].
    destruct (inv_q_wf s HI q Hq) as [W1 W2]. rewrite !all_zero_of_getz; auto.
  - apply forallb_forall. intros n Hn. pose proof (inv_nodes s HI n Hn) as K.
    assert (E : on_allocs n = []).
    { destruct (on_allocs n) as [|y l] eqn:E; [reflexivity|]. exfalso.
      assert (Hy : In y (on_allocs n)) by (rewrite E; left; reflexivity).
      destruct (owned_P_of s HI B3 n y Hn Hy) as (ap & Hap & _). rewrite Hno in Hap. contradiction. }
    rewrite E. rewrite andb_true_r. apply all_zero_of_getz; [apply (nk_wf s n K)|]. intros k.
    rewrite (nk_ledger s n K k), E. reflexivity.
  - rewrite (inv_count s HI). unfold all_allocs. rewrite Hno. reflexivity. Qed.

(* explicit pointwise form *)
Theorem drain_to_zero_pointwise s : Books0 s -> Inv s -> s_apps s = [] ->
  (forall q, In q (s_queues s) -> forall k, getz (q_alloc q) k = 0 /\ getz (q_pending q) k = 0) /\
  (forall n, In n (s_nodes s) -> on_allocs n = [] /\ forall k, getz (on_allocated n) k = 0) /\
  s_nallocs s = 0.
Proof. intros HB HI Hno. pose proof (drain_to_zero s HB HI) as D. unfold drained_ok in D. rewrite Hno in D.
  rewrite !andb_true_iff, !forallb_forall in D. destruct D as [[D1 D2] D3]. split; [|split].
  - intros q Hq k. specialize (D1 q Hq). rewrite andb_true_iff in D1. destruct D1. split; apply all_zero_getz; assumption.
  - intros n Hn. specialize (D2 n Hn). rewrite andb_true_iff in D2. destruct D2 as [Z E]. split.
    + destruct (on_allocs n); [reflexivity|discriminate].
    + intros k. apply all_zero_getz. assumption.
  - lia. Qed.

(* ------------------------------------------------------------------ the root clause *)
Lemma root_step s s' g (d : tid -> Z) : Inv s -> Inv s' ->
  s_queues s' = map g (s_queues s) -> (forall q, q_parent (g q) = q_parent q) ->
  (forall r, root_queue s = Some r -> forall k, getz (q_alloc (g r)) k = getz (q_alloc r) k + d k) ->
  (forall k, sumz (map on_allocated (s_nodes s')) k = sumz (map on_allocated (s_nodes s)) k + d k) ->
  root_matches_nodes s = true -> root_matches_nodes s' = true.
Proof. intros HI HI' Eq Gpar Hroot Hnodes H0. pose proof (proj1 (root_matches_spec s HI) H0) as H. apply (proj2 (root_matches_spec s' HI')).
  intros r' Er' k. rewrite (root_queue_map s s' g Eq Gpar) in Er'. destruct (root_queue s) as [r|] eqn:Er; [|discriminate].
  cbn in Er'. inversion Er'; subst r'. rewrite (Hroot r eq_refl k), (H r eq_refl k), Hnodes. reflexivity. Qed.

(* ------------------------------------------------------------------ the queue clause when no ledger moves *)
Lemma queue_books_frame s s' g : s_apps s' = s_apps s -> s_queues s' = map g (s_queues s) ->
  (forall q, q_id (g q) = q_id q) -> (forall q, q_parent (g q) = q_parent q) -> (forall q, q_leaf (g q) = q_leaf q) ->
  (forall q, q_alloc (g q) = q_alloc q) -> (forall q, q_pending (g q) = q_pending q) ->
  (forall q, In q (s_queues s) -> QueueBooks s q) -> forall q', In q' (s_queues s') -> QueueBooks s' q'.
Proof. intros Ea Eq G1 G2 G3 G4 G5 HB q' Hq'. rewrite Eq in Hq'. apply in_map_iff in Hq'. destruct Hq' as (q & <- & Hq).
  destruct (HB q Hq) as [B1 B2 B3 B4 B5 B6].
  assert (Ec : forall id, map q_alloc (children_of s' id) = map q_alloc (children_of s id) /\
                          map q_pending (children_of s' id) = map q_pending (children_of s id)).
  { intros id. unfold children_of. rewrite Eq, (filter_map_comm _ g) by (intros x; rewrite G2; reflexivity).
    rewrite !map_map. split; apply map_ext; auto. }
  assert (Eap : forall id, apps_of_queue s' id = apps_of_queue s id) by (intros id; unfold apps_of_queue; rewrite Ea; reflexivity).
  constructor; rewrite ?G1, ?G3, ?G4, ?G5; auto.
  - unfold app_usage. rewrite Eap. assumption.
  - rewrite Eap. assumption.
  - rewrite (proj1 (Ec _)). assumption.
  - rewrite (proj2 (Ec _)). assumption. Qed.
