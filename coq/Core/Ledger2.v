(* Further accounting triggers (known findings), kept apart from Core/Ledger.v so that the operational model and its
   proofs (which mention Ledger.known_trigger) are not disturbed. The oracles use [known_trigger_ext].
   7: the shim resizes a PLACEHOLDER whose replacement is in flight (sibling of trigger 1, which is about the real ask):
      UpdateAllocationResources books the delta on placeholder usage, queue and node; the confirmation then computes
      delta = real - placeholder with the new size, finds no negative value, charges nothing to the queue, while
      Node.ReplaceAllocation adds the difference to the node ("unexpected increase in node usage" is only logged):
      leaf queue <> sum of applications and root <> sum of nodes from then on. Found by the gang fragment of the
      operational model (Props/C03c.v linked_placeholder_resize_refuted), confirmed on the real code.
   8: a release with termination type PLACEHOLDER_REPLACED addressed to the key of the REAL ask of a cross-node in-flight
      swap removes the ask while its node keeps the allocation until the placeholder's confirmation re-adds it through the
      dangling link (same family as trigger 5, whose predicate excludes that termination type). *)
From Coq Require Import List ZArith NArith Bool.
From YK Require Import Base.Res Core.Obs Core.Ledger.
Import ListNotations.
Open Scope N_scope.

Definition linked_placeholder_resize (pre : ostate) (st : ostep) : bool :=
  match st_op st with
  | OpAlloc r =>
      match find_app pre (rq_app r) with
      | Some a => match find_alloc (ap_allocs a) (rq_key r) with
                  | Some x => oa_ph x && negb (oa_release x =? 0) && negb (res_eqz (oa_res x) (oget (rq_res r)))
                  | None => false end
      | None => false
      end
  | _ => false
  end.

Definition xnode_real_replaced_release (pre : ostate) (st : ostep) : bool :=
  match st_op st with
  | OpRelease app key ttype =>
      match find_app pre app with
      | Some a => negb (key =? 0) && (ttype =? TT_PlaceholderReplaced) &&
                  existsb (fun x => oa_key x =? key) (xnode_inflight_reals a)
      | None => false
      end
  | _ => false
  end.

(* 9: the placeholder timeout of a gang application (timeoutPlaceholderProcessing: every ask is removed through
      removeAsksInternal("")) while the real half of one of its swaps is bound on ANOTHER node than the placeholder and not
      confirmed yet: the real ask disappears from the application, its allocation stays on that node for ever. Third
      removal path of the defect behind trigger 5 (found by the thorough tier once the gangdeep generator used two task
      groups and explicit denials on both nodes). *)
Definition xnode_timeout_trigger (pre : ostate) (st : ostep) : bool :=
  match st_op st with
  | OpFirePh id =>
      match find_app pre id with
      | Some a => ap_phtimer a && match xnode_inflight_reals a with [] => false | _ => true end
      | None => false
      end
  | _ => false
  end.

(* 10: a release with an EMPTY allocation key and termination type PLACEHOLDER_REPLACED for an application that has a
       placeholder with a replacement in flight: removeAllocation "confirms" the swap (the real allocation is put on the
       node and announced) while the same request drops every allocation and ask of the application (finding
       C04-release-all-replaced seen by the accounting properties) *)
Definition release_all_replaced_trigger (pre : ostate) (st : ostep) : bool :=
  match st_op st with
  | OpRelease app key ty =>
      (key =? 0) && (ty =? TT_PlaceholderReplaced) &&
      match find_app pre app with
      | Some a => existsb (fun p => oa_ph p && negb (oa_release p =? 0)) (ap_allocs a)
      | None => false
      end
  | _ => false
  end.

(* 11: the shim sends an allocation WITH a node for a key that the application still lists as a bound allocation while
       the request of that key was dropped by the placeholder timeout (removeAsksInternal("") removes the requests of
       allocated placeholders too): the core finds no request, takes the message for a recovered allocation and adds it
       over the bound one (same key): the old allocation's usage is never given back (application ledger <> sum of its
       allocations; node and queue likewise). Same defect as finding C04-update-after-timeout-duplicates-key. *)
Definition bound_without_request_trigger (pre : ostate) (st : ostep) : bool :=
  match st_op st with
  | OpAlloc r =>
      negb (rq_foreign r) && negb (rq_node r =? 0) &&
      match find_app pre (rq_app r) with
      | Some a => existsb (fun x => oa_key x =? rq_key r) (ap_allocs a) &&
                  negb (existsb (fun x => oa_key x =? rq_key r) (ap_requests a))
      | None => false
      end
  | _ => false
  end.

Definition known_trigger_ext (pre : ostate) (st : ostep) : option N :=
  match known_trigger pre st with
  | Some p => Some p
  | None => if linked_placeholder_resize pre st then Some 7
            else if xnode_real_replaced_release pre st then Some 8
            else if xnode_timeout_trigger pre st then Some 9
            else if release_all_replaced_trigger pre st then Some 10
            else if bound_without_request_trigger pre st then Some 11 else None
  end.
