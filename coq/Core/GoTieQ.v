(* Shared by Core/GoTieC02.v and Core/GoTieC03.v: how a Go queue carries the ledgers of a model queue
   (Core/Obs.v oqueue). Mentions only record fields of Generated/GoObjects.v, no generated function. *)
From Coq Require Import List ZArith NArith Bool.
From YK Require Import Base.Res Core.Obs Generated.GoPrelude Generated.GoResources Generated.GoObjects Base.GoTieRep.
Import ListNotations.

Definition qres_rep (sq : GoObjects.Queue) (q : oqueue) : Prop :=
  Queue_maxResource sq = toR (q_max q) /\ Queue_allocatedResource sq = Some (mkR (q_alloc q)) /\
  Queue_pending sq = Some (mkR (q_pending q)) /\ is_nil (Queue_parent sq) = (q_parent q =? 0)%N.
