(* C03 over the gang fragment: the invariant of the replacement protocol.
   [InvG] (Core/Model3ProofsD.v) says what every record is; [LinkOK] says how the two halves of an in-flight replacement
   relate, which is what makes the confirmation (and node removal) keep the books:
     L1  a record a node lists as the real half of an in-flight replacement ([infl]) is linked BOTH WAYS with an
         allocated placeholder of its application that sits on ANOTHER node (a same-node replacement puts nothing on
         the node before the confirmation);
     L2  for an allocated placeholder whose link names an allocated real request of the application: the request links
         back; it is not larger than the placeholder (guard of tryPlaceholderAllocate; resizing an in-flight ask is known
         finding trigger 1); when both name the same node no node lists the request's key yet; when they name different
         nodes the request's node lists exactly this record.
   Both clauses were validated on the observed states of the real scheduler (every state with clean books outside the
   histories poisoned by a known-finding trigger).  [InvG2] is the invariant the gang step theorems use. *)
From Coq Require Import List ZArith NArith Bool Lia ZifyBool.
From YK Require Import Base.Int64 Base.Res Base.ResSpec Base.ResLemmas Core.Obs Core.Model Core.Model2 Core.Model3 Core.Ledger
  Core.BooksLemmas Core.BooksDefs Core.Model3ProofsD.
Import ListNotations.
Open Scope Z_scope.

Definition LinkL1 (s : ostate) : Prop :=
  forall n y, In n (s_nodes s) -> In y (on_allocs n) -> infl y = true ->
    exists a ph, In a (s_apps s) /\ ap_id a = oa_app y /\ In ph (ap_allocs a) /\ oa_ph ph = true /\
                 oa_key ph = oa_release y /\ oa_release ph = oa_key y /\ oa_node ph <> oa_node y.

Definition LinkL2 (s : ostate) : Prop :=
  forall a ph r, In a (s_apps s) -> In ph (ap_allocs a) -> oa_ph ph = true -> oa_release ph <> 0%N ->
    In r (ap_requests a) -> oa_key r = oa_release ph -> oa_ph r = false -> oa_allocated r = true ->
    oa_release r = oa_key ph /\
    (forall k, getz (oa_res r) k <= getz (oa_res ph) k) /\
    (oa_node r = oa_node ph -> forall n y, In n (s_nodes s) -> In y (on_allocs n) -> oa_key y <> oa_key r) /\
    (oa_node r <> oa_node ph -> exists n, In n (s_nodes s) /\ on_id n = oa_node r /\ In r (on_allocs n)).

Record LinkOK (s : ostate) : Prop := mkLK { lk_1 : LinkL1 s; lk_2 : LinkL2 s }.

Record InvG2 (s : ostate) : Prop := mkInvG2 { ig2_inv : InvG s; ig2_link : LinkOK s }.

(* a state without any link satisfies LinkOK trivially *)
Definition no_links (s : ostate) : Prop :=
  (forall n y, In n (s_nodes s) -> In y (on_allocs n) -> oa_release y = 0%N) /\
  (forall a x, In a (s_apps s) -> In x (ap_allocs a) -> oa_release x = 0%N).
Lemma no_links_linkok s : no_links s -> LinkOK s.
Proof. intros [H1 H2]. split.
  - intros n y Hn Hy Hi. unfold infl in Hi. rewrite (H1 n y Hn Hy) in Hi. cbn in Hi. rewrite andb_false_r in Hi. discriminate.
  - intros a ph r Ha Hph _ Hl. exfalso. apply Hl. apply (H2 a ph Ha Hph). Qed.
