(* C01 at the level of scheduler steps: the node ledger (and the well-formedness invariants it needs) is preserved
   by every step [m_step] of the operational model covers, hence holds in every state a run reaches; bind safety of
   every scheduling decision the model accepts; negative available entries only after forced changes.
   State hypotheses: [SInv] (ledger + well-formedness, PROVED invariant), [Bounded] (carried per visited state: a
   fixed bound is not inductive because usages are sums).  Step hypotheses: [inputs_ok] (request vectors are Go maps
   within the bound), [bind_key_fresh] (an allocation key is bound to a node at most once: allocation keys are pod
   UIDs), [foreign_update_known] (excludes the recorded known finding C01-foreign-moved). *)
From Coq Require Import List ZArith NArith Bool Lia ZifyBool.
From YK Require Import Base.Int64 Base.Int64Laws Base.Res Base.ResSpec Base.ResLemmas Base.ResLaws Base.ResLaws2
  Base.ResLawsPred Core.Obs Core.Model Core.Ledger Core.NodeProofs Core.QueueProofs Oracles.CoreC01.
Import ListNotations.
Open Scope Z_scope.

(* ------------------------------------------------------------------ lookups *)
Lemma Some_inj {A} (a b : A) : Some a = Some b -> a = b.
Proof. intros H. inversion H. reflexivity. Qed.
Lemma find_node_some s id n : find_node s id = Some n -> In n (s_nodes s) /\ on_id n = id.
Proof. unfold find_node. intros H. apply find_some in H. destruct H as [H1 H2]. apply N.eqb_eq in H2. auto. Qed.
Lemma find_app_some s id a : find_app s id = Some a -> In a (s_apps s) /\ ap_id a = id.
Proof. unfold find_app. intros H. apply find_some in H. destruct H as [H1 H2]. apply N.eqb_eq in H2. auto. Qed.

Definition set_node (l : list onode) (id : N) (n' : onode) : list onode :=
  map (fun m => if (on_id m =? id)%N then n' else m) l.
Lemma upd_node_nodes s id n' : s_nodes (upd_node s id (fun _ => n')) = set_node (s_nodes s) id n'.
Proof. reflexivity. Qed.
Lemma set_node_forall (P : onode -> Prop) l id n' : (forall m, In m l -> P m) -> P n' -> forall m, In m (set_node l id n') -> P m.
Proof. intros Hl Hn m Hin. unfold set_node in Hin. apply in_map_iff in Hin. destruct Hin as (m0 & E & Hin).
  destruct (on_id m0 =? id)%N; subst m; auto. Qed.

Definition reqs_from (P : oalloc -> Prop) (s : ostate) : Prop :=
  forall a x, In a (s_apps s) -> In x (ap_requests a) -> P x.
(* an ask: its resource is a Go map, and it is not a foreign allocation *)
Definition req_ok (x : oalloc) : Prop := wf (oa_res x) /\ oa_foreign x = false.
Definition req_small (x : oalloc) : Prop := rsmall (oa_res x).
Lemma reqs_upd_app (P : oalloc -> Prop) s id f : reqs_from P s ->
  (forall b x, In b (s_apps s) -> ap_id b = id -> In x (ap_requests (f b)) -> P x) -> reqs_from P (upd_app s id f).
Proof. intros H Hf a x Ha Hx. cbn [upd_app s_apps] in Ha. apply in_map_iff in Ha. destruct Ha as (b & E & Hb).
  destruct (N.eqb_spec (ap_id b) id) as [Eid|]; subst a; [eapply Hf|eapply H]; eassumption. Qed.
Lemma reqs_same (P : oalloc -> Prop) s s' : s_apps s' = s_apps s -> reqs_from P s -> reqs_from P s'.
Proof. unfold reqs_from. intros ->. auto. Qed.
Lemma in_put_alloc x l y : In y (put_alloc x l) -> y = x \/ In y l.
Proof. intros [<-|H]; [auto|]. apply filter_In in H. tauto. Qed.
Lemma in_del_alloc key l y : In y (del_alloc key l) -> In y l.
Proof. intros H. apply filter_In in H. tauto. Qed.
Lemma ap_event_requests a st : ap_requests (ap_event a st) = ap_requests a.
Proof. unfold ap_event. destruct (st =? ap_state a)%N; reflexivity. Qed.
Lemma ap_event_id a st : ap_id (ap_event a st) = ap_id a.
Proof. unfold ap_event. destruct (st =? ap_state a)%N; reflexivity. Qed.

(* ------------------------------------------------------------------ invariants and hypotheses *)
Record SInv (s : ostate) : Prop := mkSI {
  si_ledger : forall n, In n (s_nodes s) -> NodeLedger n;
  si_wf : forall n, In n (s_nodes s) -> NodeWF n;
  si_reqs : reqs_from req_ok s }.

Record Bounded (s : ostate) : Prop := mkBd {
  bd_nodes : forall n, In n (s_nodes s) -> NodeSmall n;
  bd_reqs : reqs_from req_small s;
  bd_queues : forall q, In q (s_queues s) -> rsmall (q_alloc q) }.

Definition inputs_ok (st : ostep) : Prop :=
  match st_op st with
  | OpNodeAdd _ cap _ => wf cap
  | OpNodeUpdate _ (Some cap) => wf cap /\ rsmall cap
  | OpAlloc r => wf (oget (rq_res r)) /\ rsmall (oget (rq_res r))
  | _ => True
  end.
(* the key a step binds to a node is not yet listed by that node *)
Definition bind_key_fresh (s : ostate) (st : ostep) : Prop :=
  match st_op st with
  | OpAlloc r => forall n, find_node s (rq_node r) = Some n ->
      if rq_foreign r then find_alloc (s_foreign s) (rq_key r) = None -> ~ In (rq_key r) (akeys (on_foreign n))
      else ~ In (rq_key r) (akeys (on_allocs n))
  | OpSched => forall k a nid n, is_new_alloc_for (st_events st) = Some (k, a, nid) -> find_node s nid = Some n ->
      ~ In k (akeys (on_allocs n))
  | _ => True
  end.
(* a foreign allocation the partition knows is updated on a node that lists it: excludes known finding C01-foreign-moved *)
Definition foreign_update_known (s : ostate) (st : ostep) : Prop :=
  match st_op st with
  | OpAlloc r => rq_foreign r = true -> forall n f, find_node s (rq_node r) = Some n ->
      find_alloc (s_foreign s) (rq_key r) = Some f -> In (rq_key r) (akeys (on_foreign n))
  | _ => True
  end.
Record step_ok (s : ostate) (st : ostep) : Prop := mkSO {
  so_inputs : inputs_ok st; so_fresh : bind_key_fresh s st; so_known : foreign_update_known s st }.

Lemma SInv_same s s' : s_nodes s' = s_nodes s -> s_apps s' = s_apps s -> SInv s -> SInv s'.
Proof. intros En Ea [H1 H2 H3]. split; [rewrite En; assumption|rewrite En; assumption|]. eapply reqs_same; eassumption. Qed.
Lemma SInv_set_node s s' id n' : s_nodes s' = set_node (s_nodes s) id n' -> NodeLedger n' -> NodeWF n' -> reqs_from req_ok s' ->
  SInv s -> SInv s'.
Proof. intros En L W R [H1 H2 H3]. split; [rewrite En; apply set_node_forall; assumption|rewrite En; apply set_node_forall; assumption|assumption]. Qed.

(* ------------------------------------------------------------------ inversion of a scheduling decision *)
Definition limits_same (g : oqueue -> oqueue) : Prop :=
  forall q, q_id (g q) = q_id q /\ q_parent (g q) = q_parent q /\ q_max (g q) = q_max q /\ q_alloc (g q) = q_alloc q.

Lemma q_dec_pending_queues s leaf r : exists g, s_queues (q_dec_pending s leaf r) = map g (s_queues s) /\ limits_same g.
Proof. unfold q_dec_pending. eexists. split; [apply on_path_queues|]. intros q. cbv beta.
  destruct (memN (q_id q) (path_ids s leaf)); [|repeat split]. destruct (SubErrorNegative _ _) as [p err]. repeat split. Qed.

Lemma m_sched_alloc_inv deny s a k nid s' : m_sched_alloc deny s a k nid = Some s' ->
  exists ask n n' s1 a2,
    find_alloc (ap_requests a) k = Some ask /\ find_node s nid = Some n /\
    oa_allocated ask = false /\ oa_ph ask = false /\ ap_reservations a = [] /\ oa_reqnode ask = 0%N /\ on_reservations n = [] /\
    m_node_guard deny n ask = true /\
    n_add n (oa_bound ask nid) false = Some n' /\
    q_try_inc s (ap_queue a) (oa_res ask) = Some s1 /\
    s_nodes s' = set_node (s_nodes s) nid n' /\
    s_apps s' = s_apps (upd_app s (ap_id a) (fun _ => a2)) /\ ap_requests a2 = put_alloc (oa_bound ask nid) (ap_requests a) /\
    (exists g, s_queues s' = map g (s_queues s1) /\ limits_same g).
Proof. unfold m_sched_alloc. intros H.
  destruct (find_alloc (ap_requests a) k) as [ask|] eqn:Eask; [|discriminate].
  destruct (find_node s nid) as [n|] eqn:En; [|discriminate].
  destruct (oa_allocated ask) eqn:E1; [discriminate|]. destruct (oa_ph ask) eqn:E2; [discriminate|].
  destruct (ap_reservations a) eqn:E3; [|discriminate]. destruct (oa_reqnode ask =? 0)%N eqn:E4; [|discriminate].
  destruct (on_reservations n) eqn:E5; [|discriminate]. cbn [orb negb] in H.
  destruct (m_node_guard deny n ask) eqn:E6; [|discriminate]. cbn [negb] in H.
  destruct (n_add n (oa_bound ask nid) false) as [n'|] eqn:E7; [|discriminate].
  destruct (q_try_inc s (ap_queue a) (oa_res ask)) as [s1|] eqn:E8; [|discriminate].
  inversion H; subst s'; clear H. apply N.eqb_eq in E4.
  destruct (q_try_inc_only_path _ _ _ _ E8) as (_ & Hn1 & Ha1 & _).
  eexists ask, n, n', s1, _. repeat (split; [first [reflexivity|assumption]|]).
  split; [cbn [add_counts upd_app q_dec_pending on_path upd_queues upd_node s_nodes]; rewrite Hn1; reflexivity|].
  split; [cbn [add_counts upd_app q_dec_pending on_path upd_queues upd_node s_apps]; rewrite Ha1; reflexivity|].
  split; [cbn [ap_with ap_requests]; rewrite ap_event_requests; reflexivity|].
  destruct (q_dec_pending_queues (upd_node s1 nid (fun _ => n')) (ap_queue a) (oa_res ask)) as (g & Eg & Hg).
  exists g. split; [|assumption]. exact Eg. Qed.

(* C01.4: every scheduling decision the model accepts passes the property's binding checks on the pre-state *)
Theorem sched_bind_safe deny s a k nid s' : m_sched_alloc deny s a k nid = Some s' ->
  find_app s (ap_id a) = Some a -> (forall n, In n (s_nodes s) -> NodeLedger n) ->
  exists ask, find_ask s (ap_id a) k = Some ask /\
              bind_check deny s (ap_id a) k nid (oa_res ask) (oa_reqnode ask) = BindOk.
Proof. intros H Ha HL. destruct (m_sched_alloc_inv _ _ _ _ _ _ H) as (ask & n & n' & s1 & a2 & Eask & En & _ & _ & _ & Erq & Eres & Eg & Eadd & _).
  exists ask. unfold find_ask. rewrite Ha. split; [assumption|]. unfold bind_check. rewrite En.
  destruct (find_node_some _ _ _ En) as [Hin Hid].
  assert (F : fits_free n (oa_res ask) = true) by (apply (n_add_fits n (oa_bound ask nid) n' Eadd); auto).
  rewrite F, Erq. unfold blocking_reservations. cbn [negb N.eqb andb orb]. rewrite Eres. cbn [negb N.eqb orb]. unfold m_node_guard in Eg. rewrite !andb_true_iff in Eg.
  destruct Eg as [[[[G1 _] _] _] G2]. rewrite Hid in G2. destruct (find_alloc_some _ _ _ Eask) as [_ Ek]. rewrite Ek in G2. apply negb_true_iff in G2. rewrite G2, G1. reflexivity. Qed.

(* ------------------------------------------------------------------ C01.5: every covered step preserves the invariant *)
Lemma reqs_set_app (P : oalloc -> Prop) s s' id a2 : s_apps s' = s_apps (upd_app s id (fun _ => a2)) ->
  (forall y, In y (ap_requests a2) -> P y) -> reqs_from P s -> reqs_from P s'.
Proof. intros E H2 H. eapply reqs_same; [exact E|]. apply reqs_upd_app; [assumption|]. intros b x _ _ Hx. apply H2. assumption. Qed.
Lemma in_upd_node s id f m : In m (s_nodes (upd_node s id f)) -> exists m0, In m0 (s_nodes s) /\ (m = m0 \/ m = f m0).
Proof. cbn [upd_node s_nodes]. intros H. apply in_map_iff in H. destruct H as (m0 & E & Hin). exists m0. split; [assumption|].
  destruct (on_id m0 =? id)%N; auto. Qed.
Lemma q_dec_frame s leaf r : s_nodes (q_dec s leaf r) = s_nodes s /\ s_apps (q_dec s leaf r) = s_apps s.
Proof. unfold q_dec. destruct (forallb _ _); split; reflexivity. Qed.

Lemma m_node_add_sinv s id cap drain s' : m_node_add s id cap drain = Some s' -> wf cap -> SInv s -> SInv s'.
Proof. unfold m_node_add. intros H W HI. destruct (find_node s id); inversion H; subst s'; clear H; [assumption|].
  destruct HI as [H1 H2 H3]. split.
  - intros n Hin. change (In n (s_nodes s ++ [new_node id cap drain])) in Hin. apply in_app_or in Hin.
    destruct Hin as [Hin|[<-|[]]]; [auto|apply new_node_ledger].
  - intros n Hin. change (In n (s_nodes s ++ [new_node id cap drain])) in Hin. apply in_app_or in Hin.
    destruct Hin as [Hin|[<-|[]]]; [auto|apply new_node_wf; assumption].
  - exact H3. Qed.

Lemma m_node_update_sinv s id cap s' : m_node_update s id cap = Some s' ->
  match cap with Some c => wf c /\ rsmall c | None => True end -> SInv s -> Bounded s -> SInv s'.
Proof. unfold m_node_update. intros H Hc HI HB. destruct (find_node s id) as [n|] eqn:En; [|inversion H; subst; assumption].
  destruct cap as [c|]; [|inversion H; subst; assumption]. destruct Hc as [Wc Sc].
  destruct (find_node_some _ _ _ En) as [Hin Hid].
  pose proof (n_set_capacity_ledger n c (si_ledger _ HI n Hin) (si_wf _ HI n Hin) (bd_nodes _ HB n Hin) Wc Sc) as L.
  pose proof (n_set_capacity_wf n c (si_wf _ HI n Hin) Wc) as W.
  destruct (n_set_capacity n c) as [n' delta]. cbn [fst] in L, W. inversion H; subst s'; clear H.
  eapply (SInv_set_node s _ id n'); [|exact L|exact W| |exact HI].
  - destruct delta; reflexivity.
  - eapply reqs_same; [|apply HI]. destruct delta; reflexivity. Qed.

Lemma m_node_sched_sinv s id b s' : m_node_sched s id b = Some s' -> SInv s -> SInv s'.
Proof. unfold m_node_sched. intros H [H1 H2 H3]. inversion H; subst s'; clear H. split; [| |exact H3].
  - intros m Hin. apply in_upd_node in Hin. destruct Hin as (m0 & Hin & [->| ->]); [auto|].
    destruct (H1 m0 Hin) as [L1 L2 L3]. split; assumption.
  - intros m Hin. apply in_upd_node in Hin. destruct Hin as (m0 & Hin & [->| ->]); [auto|].
    destruct (H2 m0 Hin) as [Wt Wo Wa Wv Wl Wf Kl Kf]. split; assumption. Qed.

Lemma m_alloc_sinv s r s' : m_alloc s r = Some s' -> SInv s -> Bounded s ->
  wf (oget (rq_res r)) -> rsmall (oget (rq_res r)) ->
  (forall n, find_node s (rq_node r) = Some n ->
      if rq_foreign r then find_alloc (s_foreign s) (rq_key r) = None -> ~ In (rq_key r) (akeys (on_foreign n))
      else ~ In (rq_key r) (akeys (on_allocs n))) ->
  (rq_foreign r = true -> forall n f, find_node s (rq_node r) = Some n ->
      find_alloc (s_foreign s) (rq_key r) = Some f -> In (rq_key r) (akeys (on_foreign n))) ->
  SInv s'.
Proof. unfold m_alloc. intros H HI HB Wr Sr Hf Hk.
  destruct (negb (rq_partition_ok r)); [inversion H; subst; assumption|].
  destruct (rq_foreign r) eqn:Efor.
  - destruct (rq_node r =? 0)%N; [inversion H; subst; assumption|].
    destruct (find_node s (rq_node r)) as [n|] eqn:En; [|inversion H; subst; assumption].
    destruct (find_node_some _ _ _ En) as [Hin Hid]. specialize (Hf n eq_refl).
    destruct (find_alloc (s_foreign s) (rq_key r)) as [f|] eqn:Efa.
    + inversion H; subst s'; clear H. specialize (Hk eq_refl n f eq_refl eq_refl).
      destruct (find_alloc (on_foreign n) (rq_key r)) as [old|] eqn:Eold; [|exfalso; eapply find_alloc_not_none; eassumption].
      eapply (SInv_set_node s _ (on_id n) (n_update_foreign n (alloc_of_req r))); [reflexivity| | | |exact HI].
      * eapply n_update_foreign_ledger; [apply HI; assumption|apply HI; assumption|apply HB; assumption|exact Eold|exact Wr|exact Sr].
      * apply n_update_foreign_wf; [apply HI; assumption|exact Wr].
      * eapply reqs_same; [|apply HI]. reflexivity.
    + destruct (n_add n (alloc_of_req r) true) as [n'|] eqn:Ea; [|discriminate]. inversion H; subst s'; clear H.
      eapply (SInv_set_node s _ (on_id n) n'); [reflexivity| | | |exact HI].
      * eapply n_add_ledger; [exact Ea|apply HI; assumption|apply HI; assumption|apply HB; assumption|exact Wr|exact Sr|].
        unfold alloc_list_of. cbn [alloc_of_req oa_foreign oa_key]. rewrite Efor. apply Hf. reflexivity.
      * eapply n_add_wf; [exact Ea|apply HI; assumption|exact Wr].
      * eapply reqs_same; [|apply HI]. reflexivity.
  - destruct (find_app s (rq_app r)) as [a|] eqn:Eapp; [|inversion H; subst; assumption].
    destruct (find_app_some _ _ _ Eapp) as [Hina Hida].
    destruct (negb (rq_node r =? 0)%N && match find_node s (rq_node r) with None => true | _ => false end);
      [inversion H; subst; assumption|].
    destruct (IsZero (rq_res r) || negb (StrictlyGreaterThanZero (rq_res r))); [inversion H; subst; assumption|].
    destruct (find_alloc (ap_requests a) (rq_key r)); [discriminate|].
    destruct (rq_node r =? 0)%N.
    + destruct (rq_ph r); [discriminate|].
      destruct ((ap_state a =? ST_New)%N || (ap_state a =? ST_Accepted)%N || (ap_state a =? ST_Running)%N || (ap_state a =? ST_Completing)%N);
        [|discriminate].
      inversion H; subst s'; clear H. destruct HI as [H1 H2 H3]. split; [exact H1|exact H2|].
      eapply (reqs_set_app req_ok s _ (ap_id a)); [reflexivity| |exact H3].
      intros y Hy. cbn [ap_with ap_requests] in Hy. apply in_put_alloc in Hy. rewrite ap_event_requests in Hy.
      destruct Hy as [->|Hy]; [split; [exact Wr|exact Efor]|]. eapply H3; eassumption.
    + destruct (find_node s (rq_node r)) as [n|] eqn:En; [|inversion H; subst; assumption].
      destruct (find_node_some _ _ _ En) as [Hin Hid]. specialize (Hf n eq_refl). cbv beta iota in Hf.
      unfold m_recovered in H. destruct (oa_ph (alloc_of_req r)); [discriminate|].
      destruct (n_add n (alloc_of_req r) true) as [n'|] eqn:Ea; [|discriminate]. inversion H; subst s'; clear H.
      eapply (SInv_set_node s _ (on_id n) n'); [reflexivity| | | |exact HI].
      * eapply n_add_ledger; [exact Ea|apply HI; assumption|apply HI; assumption|apply HB; assumption|exact Wr|exact Sr|].
        unfold alloc_list_of. cbn [alloc_of_req oa_foreign oa_key]. rewrite Efor. exact Hf.
      * eapply n_add_wf; [exact Ea|apply HI; assumption|exact Wr].
      * eapply (reqs_set_app req_ok s _ (ap_id a)); [reflexivity| |apply HI].
        intros y Hy. cbn [ap_with ap_requests] in Hy. apply in_put_alloc in Hy. rewrite !ap_event_requests in Hy.
        destruct Hy as [->|Hy]; [split; [exact Wr|exact Efor]|]. eapply (si_reqs _ HI); eassumption. Qed.

Lemma m_release_alloc_nodes s a x ttype s' : m_release_alloc s a x ttype = Some s' ->
  exists n a2, find_node s (oa_node x) = Some n /\ s_nodes s' = set_node (s_nodes s) (on_id n) (n_remove n (oa_key x)) /\
               s_apps s' = s_apps (upd_app s (ap_id a) (fun _ => a2)) /\
               (forall y, In y (ap_requests a2) -> In y (ap_requests a)).
Proof. unfold m_release_alloc. intros H.
  destruct (oa_ph x || negb (oa_release x =? 0)%N || negb match ap_reservations a with [] => true | _ => false end); [discriminate|].
  destruct (find_node s (oa_node x)) as [n|] eqn:En; [|discriminate]. apply Some_inj in H. subst s'.
  eexists n, _. split; [reflexivity|]. split; [|split].
  - destruct (StrictlyGreaterThanZero (Some (oa_res x))); [|reflexivity].
    cbn [add_counts s_nodes]. rewrite (proj1 (q_dec_frame _ _ _)). reflexivity.
  - destruct (StrictlyGreaterThanZero (Some (oa_res x))); [|reflexivity].
    cbn [add_counts s_apps]. rewrite (proj2 (q_dec_frame _ _ _)). reflexivity.
  - intros y Hy. cbn [ap_with ap_requests] in Hy. destruct (ttype =? TT_Timeout)%N; [|apply in_del_alloc in Hy];
      rewrite ap_event_requests in Hy; exact Hy. Qed.

Lemma m_release_ask_frame s a x s' : m_release_ask s a x = Some s' ->
  s_nodes s' = s_nodes s /\ forall P : oalloc -> Prop, In a (s_apps s) -> reqs_from P s -> reqs_from P s'.
Proof. unfold m_release_ask. intros H.
  destruct (oa_allocated x || negb match ap_reservations a with [] => true | _ => false end); [discriminate|].
  inversion H; subst s'; clear H. split; [destruct (_ && _); reflexivity|]. intros P Hina HR.
  assert (R1 : reqs_from P (q_dec_pending (upd_app s (ap_id a) (fun _ =>
            ap_with a (ap_state a) (Prune (Sub (Some (ap_pending a)) (Some (oa_res x)))) (ap_allocated a) (ap_phalloc a)
                    (del_alloc (oa_key x) (ap_requests a)) (ap_allocs a) (ap_statelog a))) (ap_queue a) (oa_res x))).
  { eapply reqs_set_app; [reflexivity| |exact HR]. intros y Hy. cbn [ap_with ap_requests] in Hy. apply in_del_alloc in Hy.
    eapply HR; eassumption. }
  destruct (_ && _); [|exact R1]. apply reqs_upd_app; [exact R1|]. intros b y Hb _ Hy. rewrite ap_event_requests in Hy.
  eapply R1; eassumption. Qed.

Lemma m_release_sinv s app key ttype s' : m_release s app key ttype = Some s' -> SInv s -> Bounded s -> SInv s'.
Proof. unfold m_release. intros H HI HB. destruct (app =? 0)%N.
  - destruct (find_alloc (s_foreign s) key) as [f|]; [|inversion H; subst; assumption]. inversion H; subst s'; clear H.
    destruct (find_node (set_foreign s (del_alloc key (s_foreign s))) (oa_node f)) as [n|] eqn:En.
    + destruct (find_node_some _ _ _ En) as [Hin Hid]. change (In n (s_nodes s)) in Hin.
      eapply (SInv_set_node s _ (on_id n) (n_remove n key)); [reflexivity| | | |exact HI].
      * apply n_remove_ledger; [apply HI|apply HI|apply HB]; assumption.
      * apply n_remove_wf. apply HI. assumption.
      * eapply reqs_same; [|apply HI]. reflexivity.
    + eapply SInv_same; [| |exact HI]; reflexivity.
  - destruct (find_app s app) as [a|] eqn:Eapp; [|inversion H; subst; assumption].
    destruct (find_app_some _ _ _ Eapp) as [Hina Hida].
    destruct ((key =? 0)%N || (ttype =? TT_PlaceholderReplaced)%N); [discriminate|].
    destruct (find_alloc (ap_allocs a) key) as [x|] eqn:Ex.
    + destruct (m_release_alloc_nodes _ _ _ _ _ H) as (n & a2 & En & Enodes & Eapps & Hreq).
      destruct (find_node_some _ _ _ En) as [Hin Hid].
      eapply (SInv_set_node s _ (on_id n) (n_remove n (oa_key x))); [exact Enodes| | | |exact HI].
      * apply n_remove_ledger; [apply HI|apply HI|apply HB]; assumption.
      * apply n_remove_wf. apply HI. assumption.
      * eapply reqs_set_app; [exact Eapps| |apply HI]. intros y Hy. eapply (si_reqs _ HI); [exact Hina|]. apply Hreq. exact Hy.
    + destruct (find_alloc (ap_requests a) key) as [x|]; [|inversion H; subst; assumption].
      destruct (ttype =? TT_Timeout)%N; [inversion H; subst; assumption|].
      destruct (m_release_ask_frame _ _ _ _ H) as [En HR]. destruct HI as [H1 H2 H3].
      split; [rewrite En; exact H1|rewrite En; exact H2|]. apply HR; assumption. Qed.

Lemma m_sched_sinv deny s a k nid s' : m_sched_alloc deny s a k nid = Some s' -> In a (s_apps s) ->
  SInv s -> Bounded s -> (forall n, find_node s nid = Some n -> ~ In k (akeys (on_allocs n))) -> SInv s'.
Proof. intros H Hina HI HB Hf.
  destruct (m_sched_alloc_inv _ _ _ _ _ _ H) as (ask & n & n' & s1 & a2 & Eask & En & _ & _ & _ & _ & _ & _ & Eadd & _ & Enodes & Eapps & Ereq & _).
  destruct (find_node_some _ _ _ En) as [Hin Hid]. destruct (find_alloc_some _ _ _ Eask) as [Hask Ek].
  assert (Rk : req_ok ask) by (eapply (si_reqs _ HI); eassumption). destruct Rk as [Wr Efor].
  assert (Sr : rsmall (oa_res ask)) by (eapply (bd_reqs _ HB); eassumption).
  eapply (SInv_set_node s _ nid n'); [exact Enodes| | | |exact HI].
  - eapply n_add_ledger; [exact Eadd|apply HI; assumption|apply HI; assumption|apply HB; assumption|exact Wr|exact Sr|].
    unfold alloc_list_of. cbn [oa_bound oa_foreign oa_key]. rewrite Efor, Ek. apply Hf. exact En.
  - eapply n_add_wf; [exact Eadd|apply HI; assumption|exact Wr].
  - eapply reqs_set_app; [exact Eapps| |apply HI]. intros y Hy. rewrite Ereq in Hy. apply in_put_alloc in Hy.
    destruct Hy as [->|Hy]; [split; [exact Wr|exact Efor]|]. eapply (si_reqs _ HI); eassumption. Qed.

Theorem m_step_inv deny s st s' : m_step deny s st = Some s' -> SInv s -> Bounded s -> step_ok s st -> SInv s'.
Proof. unfold m_step. intros H HI HB [Hi Hf Hk]. unfold inputs_ok, bind_key_fresh, foreign_update_known in *.
  destruct (st_panic st); [discriminate|]. revert H Hi Hf Hk. destruct (st_op st) as [id cap drain|id cap|id|id|id| | |r|app key ttype| | | | |];
    intros H Hi Hf Hk; try discriminate.
  - eapply m_node_add_sinv; eassumption.
  - eapply m_node_update_sinv; eassumption.
  - eapply m_node_sched_sinv; eassumption.
  - eapply m_node_sched_sinv; eassumption.
  - destruct Hi as [Wr Sr]. eapply m_alloc_sinv; eassumption.
  - eapply m_release_sinv; eassumption.
  - destruct (st_events st) as [|e evs].
    + destruct (Z.eqb _ _); [|discriminate]. inversion H; subst; assumption.
    + destruct (negb (no_release_events (e :: evs))); [discriminate|].
      destruct (is_new_alloc_for (e :: evs)) as [[[k a] nid]|] eqn:Enew; [|discriminate].
      destruct (find_app s a) as [ap|] eqn:Eapp; [|discriminate]. destruct (find_app_some _ _ _ Eapp) as [Hina _].
      eapply m_sched_sinv; [exact H|exact Hina|exact HI|exact HB|]. intros n En. eapply Hf; [reflexivity|exact En]. Qed.

(* C01.5 in the oracle's terms *)
Theorem m_step_nodes_ledger deny s st s' :
  nodes_ledger_ok s = true -> (forall n, In n (s_nodes s) -> NodeWF n) -> reqs_from req_ok s -> Bounded s -> step_ok s st ->
  m_step deny s st = Some s' -> nodes_ledger_ok s' = true.
Proof. intros HL HW HR HB Hok H. apply nodes_ledger_reflect. apply (si_ledger s'). eapply m_step_inv; try eassumption.
  split; [apply nodes_ledger_reflect; assumption|assumption|assumption]. Qed.

(* runs: the states visited by a list of steps, stopping at the first step outside the modelled fragment *)
Fixpoint m_run (deny : list (N * N)) (s : ostate) (steps : list ostep) : list ostate :=
  match steps with
  | [] => []
  | st :: t => match m_step deny s st with Some s' => s' :: m_run deny s' t | None => [] end
  end.
(* the per-step hypotheses along the run: the bound (not inductive) and the step conditions *)
Fixpoint run_ok (deny : list (N * N)) (s : ostate) (steps : list ostep) : Prop :=
  match steps with
  | [] => True
  | st :: t => Bounded s /\ step_ok s st /\ match m_step deny s st with Some s' => run_ok deny s' t | None => True end
  end.

Theorem m_run_inv deny steps : forall s, SInv s -> run_ok deny s steps -> forall s', In s' (m_run deny s steps) -> SInv s'.
Proof. induction steps as [|st t IH]; intros s HI Hok s' Hin; [destruct Hin|]. cbn [m_run run_ok] in *.
  destruct Hok as (HB & Hst & Hrest). destruct (m_step deny s st) as [s1|] eqn:E; [|destruct Hin].
  assert (HI1 : SInv s1) by (eapply m_step_inv; eassumption). destruct Hin as [<-|Hin]; [assumption|]. eapply IH; eassumption. Qed.

Theorem m_run_nodes_ledger deny steps s : SInv s -> run_ok deny s steps ->
  forall s', In s' (m_run deny s steps) -> nodes_ledger_ok s' = true.
Proof. intros HI Hok s' Hin. apply nodes_ledger_reflect. apply (si_ledger s'). eapply m_run_inv; eassumption. Qed.

(* ------------------------------------------------------------------ C01.6: negative available only after forced changes *)
Definition no_negative (s : ostate) : Prop := forall n, In n (s_nodes s) -> node_has_negative n = false.
Definition allocs_nonneg (s : ostate) : Prop :=
  forall n x, In n (s_nodes s) -> In x (on_allocs n) \/ In x (on_foreign n) -> res_nonnegP (oa_res x).

Definition NN (n : onode) : Prop := wf (on_available n) /\ res_nonnegP (on_available n).
Lemma NN_of s : SInv s -> no_negative s -> forall n, In n (s_nodes s) -> NN n.
Proof. intros HI Hn n Hin. pose proof (nw_avail _ (si_wf _ HI n Hin)) as W. split; [exact W|].
  exact (proj1 (node_has_negative_spec n W) (Hn n Hin)). Qed.
Lemma no_negative_of s : (forall n, In n (s_nodes s) -> NN n) -> no_negative s.
Proof. intros H n Hin. destruct (H n Hin) as [W Hn]. exact (proj2 (node_has_negative_spec n W) Hn). Qed.
Lemma NN_set_node s s' id n' : s_nodes s' = set_node (s_nodes s) id n' -> NN n' -> (forall n, In n (s_nodes s) -> NN n) ->
  forall n, In n (s_nodes s') -> NN n.
Proof. intros E Hn' H. rewrite E. apply set_node_forall; assumption. Qed.
Lemma NN_remove s n key : SInv s -> Bounded s -> allocs_nonneg s -> In n (s_nodes s) -> NN n -> NN (n_remove n key).
Proof. intros HI HB Ha Hin [W Hn]. split; [apply (nw_avail _ (n_remove_wf n key (si_wf _ HI n Hin)))|].
  apply n_remove_nonneg; [apply HI; assumption|apply HB; assumption| |assumption]. intros x Hx. eapply Ha; eassumption. Qed.

Theorem negative_only_forced deny s st s' : m_step deny s st = Some s' -> SInv s -> Bounded s -> allocs_nonneg s ->
  match st_op st with OpNodeAdd _ cap _ => wf cap /\ res_nonnegP cap | _ => True end ->
  forced_node_change (st_op st) = false -> no_negative s -> no_negative s'.
Proof. unfold m_step. intros H HI HB Ha Hc Hforced Hneg. apply no_negative_of. pose proof (NN_of s HI Hneg) as HN. clear Hneg.
  destruct (st_panic st); [discriminate|]. revert H Hc Hforced.
  destruct (st_op st) as [id cap drain|id cap|id|id|id| | |r|app key ttype| | | | |]; intros H Hc Hforced; try discriminate.
  - unfold m_node_add in H. destruct (find_node s id); apply Some_inj in H; subst s'; [assumption|]. destruct Hc as [Wc Nc].
    intros n Hin. change (In n (s_nodes s ++ [new_node id cap drain])) in Hin. apply in_app_or in Hin.
    destruct Hin as [Hin|[<-|[]]]; [auto|]. split; [apply (nw_avail _ (new_node_wf id cap drain Wc))|apply new_node_nonneg; assumption].
  - unfold m_node_sched in H. apply Some_inj in H; subst s'. intros m Hin. apply in_upd_node in Hin.
    destruct Hin as (m0 & Hin & [->| ->]); [auto|]. exact (HN m0 Hin).
  - unfold m_node_sched in H. apply Some_inj in H; subst s'. intros m Hin. apply in_upd_node in Hin.
    destruct Hin as (m0 & Hin & [->| ->]); [auto|]. exact (HN m0 Hin).
  - unfold m_release in H. destruct (app =? 0)%N.
    + destruct (find_alloc (s_foreign s) key) as [f|]; [|apply Some_inj in H; subst; assumption]. apply Some_inj in H; subst s'.
      destruct (find_node (set_foreign s (del_alloc key (s_foreign s))) (oa_node f)) as [n|] eqn:En; [|exact HN].
      destruct (find_node_some _ _ _ En) as [Hin Hid]. change (In n (s_nodes s)) in Hin.
      eapply (NN_set_node s _ (on_id n) (n_remove n key)); [reflexivity| |exact HN]. apply (NN_remove s); auto.
    + destruct (find_app s app) as [a|] eqn:Eapp; [|apply Some_inj in H; subst; assumption].
      destruct ((key =? 0)%N || (ttype =? TT_PlaceholderReplaced)%N); [discriminate|].
      destruct (find_alloc (ap_allocs a) key) as [x|] eqn:Ex.
      * destruct (m_release_alloc_nodes _ _ _ _ _ H) as (n & a2 & En & Enodes & _).
        destruct (find_node_some _ _ _ En) as [Hin Hid].
        eapply (NN_set_node s _ (on_id n) (n_remove n (oa_key x))); [exact Enodes| |exact HN]. apply (NN_remove s); auto.
      * destruct (find_alloc (ap_requests a) key) as [x|]; [|apply Some_inj in H; subst; assumption].
        destruct (ttype =? TT_Timeout)%N; [apply Some_inj in H; subst; assumption|].
        destruct (m_release_ask_frame _ _ _ _ H) as [En _]. rewrite En. exact HN.
  - destruct (st_events st) as [|e evs].
    + destruct (Z.eqb _ _); [|discriminate]. apply Some_inj in H; subst; assumption.
    + destruct (negb (no_release_events (e :: evs))); [discriminate|].
      destruct (is_new_alloc_for (e :: evs)) as [[[k a] nid]|] eqn:Enew; [|discriminate].
      destruct (find_app s a) as [ap|] eqn:Eapp; [|discriminate]. destruct (find_app_some _ _ _ Eapp) as [Hina _].
      destruct (m_sched_alloc_inv _ _ _ _ _ _ H) as (ask & n & n' & s1 & a2 & Eask & En & _ & _ & _ & _ & _ & _ & Eadd & _ & Enodes & _).
      destruct (find_node_some _ _ _ En) as [Hin Hid]. destruct (find_alloc_some _ _ _ Eask) as [Hask Ek].
      assert (Rk : req_ok ask) by (eapply (si_reqs _ HI); eassumption). destruct Rk as [Wr Efor].
      assert (Sr : rsmall (oa_res ask)) by (eapply (bd_reqs _ HB); eassumption).
      eapply (NN_set_node s _ nid n'); [exact Enodes| |exact HN]. destruct (HN n Hin) as [W Hn]. split.
      * apply (nw_avail _ (n_add_wf _ _ _ _ Eadd (si_wf _ HI n Hin) Wr)).
      * eapply n_add_unforced_nonneg; [exact Eadd|exact W|exact Wr|apply HB; assumption|exact Sr|exact Hn]. Qed.
