(* Third fragment of the operational model: gang scheduling (placeholders and their replacement).
   [m_step_gang] handles the observed steps that [m_step2] (Core/Model2.v) rejects because they involve
   placeholders or an in-flight placeholder replacement; [m_step3] tries [m_step2] first.
   Every function transcribes the ledger updates of the Go function named in its comment, in code order
   (pkg/scheduler/objects/application.go, node.go, pkg/scheduler/partition.go, context.go).

   The Go maps Application.requests, Application.allocations and Node.allocations share ONE Allocation object per
   key; the observation holds a copy per map.  A flag / link / node change of the object is therefore applied to every
   copy ([obj_upd]).

   The scheduler's choice is never predicted: which placeholder is swapped with which ask on which node, and which
   placeholders are cancelled, is read from the events of the step (and, for the replacement, from the links of the
   observed post-state) and every guard on the path is re-computed.

   Definitions only.  [None] = outside the modelled fragment (reported as uncovered by the correspondence run). *)
From Coq Require Import List ZArith NArith Bool.
From YK Require Import Base.Int64 Base.Res Core.Obs Core.Model Core.Model2 Core.Ledger.
Import ListNotations.
Open Scope N_scope.

(* ---------- record updaters ---------- *)
Definition oa_set_released (x : oalloc) (b : bool) : oalloc :=
  mkOA (oa_key x) (oa_app x) (oa_node x) (oa_res x) (oa_ph x) (oa_tg x) (oa_allocated x) b (oa_preempted x)
       (oa_release x) (oa_reqnode x) (oa_prio x) (oa_foreign x) (oa_orig x) (oa_preemptself x) (oa_preemptother x).
Definition oa_set_link (x : oalloc) (k : N) : oalloc :=
  mkOA (oa_key x) (oa_app x) (oa_node x) (oa_res x) (oa_ph x) (oa_tg x) (oa_allocated x) (oa_released x) (oa_preempted x)
       k (oa_reqnode x) (oa_prio x) (oa_foreign x) (oa_orig x) (oa_preemptself x) (oa_preemptother x).
Definition oa_set_allocated (x : oalloc) (b : bool) : oalloc :=
  mkOA (oa_key x) (oa_app x) (oa_node x) (oa_res x) (oa_ph x) (oa_tg x) b (oa_released x) (oa_preempted x)
       (oa_release x) (oa_reqnode x) (oa_prio x) (oa_foreign x) (oa_orig x) (oa_preemptself x) (oa_preemptother x).

Definition set_completed (s : ostate) (l : list oapp) : ostate :=
  mkOS (s_nodes s) (s_apps s) (s_queues s) (s_total s) (s_nallocs s) (s_nph s) (s_nres s) (s_foreign s) l (s_rejected s) (s_ugm s).

(* the fields [ap_with] keeps: placeholder data, timers, hasPlaceholderAlloc *)
Definition ap_with_ph (a : oapp) (pd : list (N * (Z * (Z * Z)))) (phtimer statetimer hasph : bool) : oapp :=
  mkOApp (ap_id a) (ap_queue a) (ap_state a) (ap_user a) (ap_pending a) (ap_allocated a) (ap_phalloc a) (ap_phask a)
         (ap_requests a) (ap_allocs a) (ap_reservations a) pd (ap_statelog a) phtimer statetimer (ap_forced a) hasph.
Definition ap_set_lists (a : oapp) (reqs allocs : list oalloc) : oapp :=
  ap_with a (ap_state a) (ap_pending a) (ap_allocated a) (ap_phalloc a) reqs allocs (ap_statelog a).

Definition map_key (k : N) (f : oalloc -> oalloc) (l : list oalloc) : list oalloc :=
  map (fun y => if oa_key y =? k then f y else y) l.

(* a change of the shared Allocation object (app, k): every copy follows *)
Definition obj_upd (s : ostate) (app k : N) (f : oalloc -> oalloc) : ostate :=
  let s1 := upd_app s app (fun a => ap_set_lists a (map_key k f (ap_requests a)) (map_key k f (ap_allocs a))) in
  set_nodes s1 (map (fun n => n_with n (on_occupied n) (on_allocated n) (on_available n)
                                     (map (fun y => if (oa_key y =? k) && (oa_app y =? app) then f y else y) (on_allocs n))
                                     (on_foreign n)) (s_nodes s1)).

(* ---------- placeholder data (Application.placeholderData) ---------- *)
Definition pd_has (d : list (N * (Z * (Z * Z)))) (tg : N) : bool := existsb (fun e => fst e =? tg) d.
Definition pd_upd (tg : N) (f : Z * (Z * Z) -> Z * (Z * Z)) (d : list (N * (Z * (Z * Z)))) :=
  map (fun e => if fst e =? tg then (fst e, f (snd e)) else e) d.
(* addPlaceholderData *)
Definition pd_add (tg : N) (d : list (N * (Z * (Z * Z)))) :=
  pd_upd tg (fun c => (fst c + 1, snd c)%Z) (if pd_has d tg then d else d ++ [(tg, (0, (0, 0)))%Z]).
Definition pd_replaced (tg : N) d := pd_upd tg (fun c => (fst c, (fst (snd c) + 1, snd (snd c)))%Z) d.
Definition pd_timedout (tg : N) d := pd_upd tg (fun c => (fst c, (fst (snd c), snd (snd c) + 1))%Z) d.

(* ---------- the application FSM with its callbacks (objects/application_state.go) ---------- *)
Inductive aev := AvRun | AvComplete | AvFail | AvResume.
Definition fsm3 (st : N) (e : aev) : option N :=
  match e with
  | AvRun => if (st =? ST_New) || (st =? ST_Resuming) then Some ST_Accepted
             else if (st =? ST_Accepted) || (st =? ST_Running) || (st =? ST_Completing) then Some ST_Running else None
  | AvComplete => if (st =? ST_Accepted) || (st =? ST_Running) then Some ST_Completing
                  else if st =? ST_Completing then Some ST_Completed else None
  | AvFail => if (st =? ST_New) || (st =? ST_Accepted) || (st =? ST_Running) then Some ST_Failing
              else if st =? ST_Failing then Some ST_Failed else None
  | AvResume => if (st =? ST_New) || (st =? ST_Accepted) then Some ST_Resuming else None
  end.
Definition is_terminal (st : N) : bool := (st =? ST_Completed) || (st =? ST_Failed).
(* HandleApplicationEvent: an event that is not allowed, or whose destination is the current state, changes nothing;
   leave_state: clearStateTimer; enter_Completing / Completed / Failed: setStateTimer;
   enter_Completed: clearPlaceholderTimer; enter_Completed / enter_Failed: cleanupAsks *)
Definition app_fire (a : oapp) (e : aev) : oapp :=
  match fsm3 (ap_state a) e with
  | None => a
  | Some st' =>
      if st' =? ap_state a then a else
      mkOApp (ap_id a) (ap_queue a) st' (ap_user a) (ap_pending a) (ap_allocated a) (ap_phalloc a) (ap_phask a)
             (if is_terminal st' then [] else ap_requests a) (ap_allocs a) (ap_reservations a) (ap_phdata a)
             (ap_statelog a ++ [st'])
             (if st' =? ST_Completed then false else ap_phtimer a)
             ((st' =? ST_Completing) || is_terminal st')
             (ap_forced a) (ap_hasph a)
  end.

Definition ap_set_ledgers (a : oapp) (pending allocated phalloc : res) : oapp :=
  ap_with a (ap_state a) pending allocated phalloc (ap_requests a) (ap_allocs a) (ap_statelog a).

(* addAllocationInternal(allocType, alloc); [replaced] = (allocType == Replaced) *)
Definition app_add_alloc (a : oapp) (replaced : bool) (x : oalloc) : oapp :=
  if oa_ph x then
    (* first placeholder: hasPlaceholderAlloc, initPlaceholderTimer (only in Accepted, only when not armed) *)
    let a1 := if IsZero (Some (ap_phalloc a))
              then ap_with_ph a (ap_phdata a) (ap_phtimer a || (ap_state a =? ST_Accepted)) (ap_statetimer a) true
              else a in
    let a2 := ap_set_ledgers a1 (ap_pending a1) (ap_allocated a1) (Add (Some (ap_phalloc a1)) (Some (oa_res x))) in
    let a3 := if Equals (Some (ap_phalloc a2)) (Some (ap_phask a2)) then app_fire a2 AvRun else a2 in
    ap_set_lists a3 (ap_requests a3) (put_alloc x (ap_allocs a3))
  else
    let a1 := if negb replaced || negb (IsZero (Some (ap_allocated a))) || (ap_state a =? ST_Completing)
              then app_fire a AvRun else a in
    let a2 := ap_set_ledgers a1 (ap_pending a1) (Add (Some (ap_allocated a1)) (Some (oa_res x))) (ap_phalloc a1) in
    ap_set_lists a2 (ap_requests a2) (put_alloc x (ap_allocs a2)).

(* removeAllocationInternal(key, releaseType) for the listed allocation x *)
Definition app_remove_alloc (a : oapp) (x : oalloc) (ttype : N) : oapp :=
  if oa_ph x then
    let pd := if pd_has (ap_phdata a) (oa_tg x)
              then (if ttype =? TT_PlaceholderReplaced then pd_replaced (oa_tg x) (ap_phdata a) else pd_timedout (oa_tg x) (ap_phdata a))
              else ap_phdata a in
    let ph' := Prune (Sub (Some (ap_phalloc a)) (Some (oa_res x))) in
    let a1 := ap_set_ledgers (ap_with_ph a pd (ap_phtimer a) (ap_statetimer a) (ap_hasph a)) (ap_pending a) (ap_allocated a) ph' in
    let a2 :=
      if IsZero (Some ph') then
        let b := ap_with_ph a1 (ap_phdata a1) false (ap_statetimer a1) false in     (* clearPlaceholderTimer *)
        if ((ap_state b =? ST_Completing) && negb (ap_statetimer b)) || (ap_state b =? ST_Failing) || (ap_state b =? ST_Resuming)
           || (IsZero (Some (ap_pending b)) && IsZero (Some (ap_allocated b)))
        then app_fire b (if ap_state b =? ST_Failing then AvFail else if ap_state b =? ST_Resuming then AvRun else AvComplete)
        else b
      else a1 in
    ap_set_lists a2 (ap_requests a2) (del_alloc (oa_key x) (ap_allocs a2))
  else
    let al' := Prune (Sub (Some (ap_allocated a)) (Some (oa_res x))) in
    let a1 := ap_set_ledgers a (ap_pending a) al' (ap_phalloc a) in
    let a2 := if IsZero (Some (ap_pending a1)) && IsZero (Some al') then app_fire a1 AvComplete else a1 in
    ap_set_lists a2 (ap_requests a2) (del_alloc (oa_key x) (ap_allocs a2)).

(* the state check at the end of removeAsksInternal *)
Definition asks_state_check (a : oapp) : oapp :=
  if IsZero (Some (ap_pending a)) && IsZero (Some (ap_allocated a)) && negb (ap_state a =? ST_Failing)
     && negb (ap_state a =? ST_Completing) && negb (existsb oa_ph (ap_allocs a))
  then app_fire a AvComplete else a.

(* removeAsksInternal(key), key <> "" (application without reservations) *)
Definition app_remove_ask (s : ostate) (id key : N) : option ostate :=
  match find_app s id with
  | None => Some s
  | Some a =>
      if negb (no_res a) then None else
      match ap_requests a with
      | [] => Some s                                  (* shortcut: no requests *)
      | _ =>
          let '(delta, a1) :=
            match find_alloc (ap_requests a) key with
            | None => ([], a)
            | Some x =>
                let delta := if oa_allocated x then [] else oa_res x in
                let pending' := if oa_allocated x then ap_pending a else Prune (Sub (Some (ap_pending a)) (Some (oa_res x))) in
                (delta, ap_set_lists (ap_set_ledgers a pending' (ap_allocated a) (ap_phalloc a)) (del_alloc key (ap_requests a)) (ap_allocs a))
            end in
          let s1 := q_dec_pending (upd_app s id (fun _ => a1)) (ap_queue a) delta in
          Some (upd_app s1 id asks_state_check)
      end
  end.

(* removeAsksInternal("") (application without reservations) *)
Definition app_remove_all_asks (s : ostate) (id : N) : option ostate :=
  match find_app s id with
  | None => Some s
  | Some a =>
      if negb (no_res a) then None else
      match ap_requests a with
      | [] => Some s
      | _ =>
          let a1 := ap_set_lists (ap_set_ledgers a [] (ap_allocated a) (ap_phalloc a)) [] (ap_allocs a) in
          let s1 := q_dec_pending (upd_app s id (fun _ => a1)) (ap_queue a) (ap_pending a) in
          Some (upd_app s1 id asks_state_check)
      end
  end.

(* moveTerminatedApp (asynchronous terminated callback, awaited by the harness): UnSetQueue -> Queue.RemoveApplication
   gives back what the application still holds, the application moves to the completed list *)
Definition terminate_if_done (s : ostate) (id : N) : ostate :=
  match find_app s id with
  | None => s
  | Some a =>
      if negb (is_terminal (ap_state a)) then s else
      let s1 := if IsZero (Some (ap_pending a)) then s else q_dec_pending s (ap_queue a) (ap_pending a) in
      let s2 := if IsZero (Some (ap_allocated a)) then s1 else q_dec s1 (ap_queue a) (ap_allocated a) in
      let s3 := if IsZero (Some (ap_phalloc a)) then s2 else q_dec s2 (ap_queue a) (ap_phalloc a) in
      set_completed (set_apps s3 (filter (fun b => negb (ap_id b =? id)) (s_apps s3))) (s_completed s3 ++ [a])
  end.

(* ---------- Node.ReplaceAllocation(key, replace, delta): nil dereference when the node does not list the key ---------- *)
Definition n_replace (n : onode) (k : N) (x : oalloc) (delta : res) : option onode :=
  match find_alloc (on_allocs n) k with
  | None => None
  | Some _ => Some (n_with n (on_occupied n) (addTo (on_allocated n) delta) (Prune (subFrom (on_available n) delta))
                           (put_alloc x (del_alloc k (on_allocs n))) (on_foreign n))
  end.

Definition denied (deny : list (N * N)) (k nid : N) : bool := existsb (fun p => (fst p =? k) && (snd p =? nid)) deny.
Definition node_unreserved (n : onode) : bool := match on_reservations n with [] => true | _ => false end.

(* ---------- new asks (AddAllocationAsk): placeholder asks in any live state; real asks in Failing / Resuming ---------- *)
Definition g_new_ask (s : ostate) (a : oapp) (x : oalloc) : ostate :=
  let a1 := if (ap_state a =? ST_New) || (ap_state a =? ST_Completing) then app_fire a AvRun else a in
  let a2 := ap_set_lists a1 (put_alloc x (ap_requests a1)) (ap_allocs a1) in
  let a3 := if oa_ph x then ap_with_ph a2 (pd_add (oa_tg x) (ap_phdata a2)) (ap_phtimer a2) (ap_statetimer a2) (ap_hasph a2) else a2 in
  let a4 := ap_set_ledgers a3 (Prune (Add (Some (ap_pending a3)) (Some (oa_res x)))) (ap_allocated a3) (ap_phalloc a3) in
  q_inc_pending (upd_app s (ap_id a) (fun _ => a4)) (ap_queue a) (oa_res x).

(* "new allocation already assigned" branch of UpdateAllocation for a placeholder *)
Definition g_recovered (s : ostate) (a : oapp) (n : onode) (x : oalloc) : option ostate :=
  match n_add n x true with
  | None => None
  | Some n' =>
      let s1 := q_inc s (ap_queue a) (oa_res x) in
      let s2 := upd_node s1 (on_id n) (fun _ => n') in
      (* RecoverAllocationAsk *)
      let a1 := ap_set_lists a (put_alloc x (ap_requests a)) (ap_allocs a) in
      let a2 := ap_with_ph a1 (pd_add (oa_tg x) (ap_phdata a1)) (ap_phtimer a1) (ap_statetimer a1) (ap_hasph a1) in
      let a3 := if ap_state a2 =? ST_New then app_fire a2 AvRun else a2 in
      (* AddAllocation *)
      let a4 := app_add_alloc a3 false x in
      Some (add_counts (upd_app s2 (ap_id a) (fun _ => a4)) 1 1)
  end.

(* UpdateAllocation for a key the application already holds as a placeholder (Model2.m_update_existing covers real ones) *)
Definition g_update_existing (s : ostate) (a : oapp) (x : oalloc) (r : oreq) : option ostate :=
  if negb (oa_ph x) || negb (no_res a) then None else
  let newres := oget (rq_res r) in
  let delta := Prune (Sub (Some newres) (Some (oa_res x))) in
  if oa_allocated x && match find_node s (oa_node x) with None => true | _ => false end then Some s else
  let changed := negb (IsZero (Some delta)) && negb (IsZero (Some newres)) in
  let s1 :=
    if negb changed then s else
    if oa_allocated x then
      (* UpdateAllocationResources, allocated placeholder: allocatedPlaceholder, queue, then the node *)
      let a1 := ap_set_lists (ap_set_ledgers a (ap_pending a) (ap_allocated a) (Prune (Add (Some (ap_phalloc a)) (Some delta))))
                             (map_key (oa_key x) (fun y => oa_with_res y newres) (ap_requests a))
                             (map_key (oa_key x) (fun y => oa_with_res y newres) (ap_allocs a)) in
      let s0 := q_inc (upd_app s (ap_id a) (fun _ => a1)) (ap_queue a) delta in
      match find_node s0 (oa_node x) with
      | Some n => upd_node s0 (on_id n) (fun _ => n_update_alloc n (oa_key x) newres delta)
      | None => s0 end
    else
      let a1 := ap_set_lists (ap_set_ledgers a (Prune (Add (Some (ap_pending a)) (Some delta))) (ap_allocated a) (ap_phalloc a))
                             (map_key (oa_key x) (fun y => oa_with_res y newres) (ap_requests a)) (ap_allocs a) in
      q_inc_pending (upd_app s (ap_id a) (fun _ => a1)) (ap_queue a) delta in
  if oa_allocated x || (rq_node r =? 0) then Some s1 else
  (* requested -> allocated: AllocateAsk, IncAllocatedResource, Node.AddAllocation (forced), AddAllocation *)
  match find_app s1 (ap_id a), find_node s1 (rq_node r) with
  | Some a1, Some n =>
      match find_alloc (ap_requests a1) (oa_key x) with
      | None => None
      | Some ask =>
          let bound := oa_bound ask (rq_node r) in
          match n_add n bound true with
          | None => None
          | Some n' =>
              let a2 := ap_set_lists (ap_set_ledgers a1 (Prune (Sub (Some (ap_pending a1)) (Some (oa_res ask)))) (ap_allocated a1) (ap_phalloc a1))
                                     (put_alloc bound (ap_requests a1)) (ap_allocs a1) in
              let s2 := q_dec_pending (upd_app s1 (ap_id a) (fun _ => a2)) (ap_queue a) (oa_res ask) in
              let s3 := q_inc s2 (ap_queue a) (oa_res ask) in
              let s4 := upd_node s3 (on_id n) (fun _ => n') in
              Some (add_counts (upd_app s4 (ap_id a) (fun b => app_add_alloc b false bound)) 1 1)
          end
      end
  | _, _ => None
  end.

Definition live_for_ask (st : N) : bool :=
  (st =? ST_New) || (st =? ST_Accepted) || (st =? ST_Running) || (st =? ST_Completing) || (st =? ST_Failing) || (st =? ST_Resuming).
Definition m1_state (st : N) : bool :=
  (st =? ST_New) || (st =? ST_Accepted) || (st =? ST_Running) || (st =? ST_Completing).

Definition g_alloc (s : ostate) (r : oreq) : option ostate :=
  if negb (rq_partition_ok r) || rq_foreign r then None else
  (* NewAllocationFromSI refuses a placeholder without a task group: rejected, nothing changes *)
  if rq_ph r && (rq_tg r =? 0) then Some s else
  match find_app s (rq_app r) with
  | None => None
  | Some a =>
      if negb (rq_node r =? 0) && match find_node s (rq_node r) with None => true | _ => false end then None else
      if IsZero (rq_res r) || negb (StrictlyGreaterThanZero (rq_res r)) then None else
      let x := alloc_of_req r in
      match find_alloc (ap_requests a) (rq_key r) with
      | None =>
          if rq_node r =? 0 then
            (if live_for_ask (ap_state a) && (rq_ph r || negb (m1_state (ap_state a))) then Some (g_new_ask s a x) else None)
          else if rq_ph r then match find_node s (rq_node r) with Some n => g_recovered s a n x | None => None end
          else None
      | Some x0 =>
          (* the real ask of an in-flight replacement, addressed without a resource change: nothing happens *)
          if negb (oa_ph x0) && negb (oa_release x0 =? 0) && oa_allocated x0 && res_eqz (oa_res x0) (oget (rq_res r))
             && match find_node s (oa_node x0) with Some _ => true | None => false end
          then Some s
          else g_update_existing s a x0 r
      end
  end.

(* ---------- scheduling of a placeholder ask: tryAllocate / tryNodes / tryNode + partition.allocate ---------- *)
Definition g_sched_ph (deny : list (N * N)) (s : ostate) (a : oapp) (k nid : N) : option ostate :=
  match find_alloc (ap_requests a) k, find_node s nid with
  | Some ask, Some n =>
      if oa_allocated ask || negb (oa_ph ask) || negb (no_res a) || negb (oa_reqnode ask =? 0) || negb (node_unreserved n) then None else
      if negb (m_node_guard deny n ask) then None else
      let x := oa_bound ask nid in
      match n_add n x false with
      | None => None
      | Some n' =>
          match q_try_inc s (ap_queue a) (oa_res ask) with
          | None => None
          | Some s1 =>
              let s2 := upd_node s1 nid (fun _ => n') in
              let s3 := q_dec_pending s2 (ap_queue a) (oa_res ask) in
              (* allocateAsk *)
              let a1 := ap_set_lists (ap_set_ledgers a (Prune (Sub (Some (ap_pending a)) (Some (oa_res ask)))) (ap_allocated a) (ap_phalloc a))
                                     (put_alloc x (ap_requests a)) (ap_allocs a) in
              (* addAllocationInternal *)
              let a2 := app_add_alloc a1 false x in
              Some (add_counts (upd_app s3 (ap_id a) (fun _ => a2)) 1 1)
          end
      end
  | _, _ => None
  end.

(* ---------- tryPlaceholderAllocate ---------- *)
(* a placeholder cancelled because a pending real ask of its task group is larger (announced TIMEOUT): only the
   released flag changes, the accounting follows when the shim confirms *)
Definition g_cancel_larger (s : ostate) (app k : N) : option ostate :=
  match find_app s app with
  | None => None
  | Some a =>
      match find_alloc (ap_allocs a) k with
      | None => None
      | Some ph =>
          if oa_ph ph && negb (oa_released ph) && negb (oa_preempted ph) && negb (IsZero (Some (ap_phalloc a))) &&
             existsb (fun r => negb (oa_ph r) && negb (oa_tg r =? 0) && negb (oa_allocated r) && (oa_tg r =? oa_tg ph) &&
                               HasNegativeValue (Some (Sub (Some (oa_res ph)) (Some (oa_res r))))) (ap_requests a)
          then Some (obj_upd s app k (fun y => oa_set_released y true))
          else None
      end
  end.

(* the start of a replacement.  The pair (placeholder, real ask) and the node are the observed decision:
   the announcement names the placeholder, the links / node of the post-state name the ask and the node. *)
Definition g_swap_start (deny : list (N * N)) (s obs : ostate) (app phk : N) : option ostate :=
  match find_app s app, find_app obs app with
  | Some a, Some a' =>
      if negb (no_res a) then None else
      match find_alloc (ap_allocs a) phk, find_alloc (ap_allocs a') phk with
      | Some ph, Some ph' =>
          let rk := oa_release ph' in
          match find_alloc (ap_requests a) rk, find_alloc (ap_requests a') rk with
          | Some real, Some real' =>
              let target := oa_node real' in
              if IsZero (Some (ap_phalloc a)) then None else
              if oa_ph real || (oa_tg real =? 0) || oa_allocated real then None else
              if negb (oa_ph ph) || oa_released ph || oa_preempted ph || negb (oa_tg real =? oa_tg ph) then None else
              if HasNegativeValue (Some (Sub (Some (oa_res ph)) (Some (oa_res real)))) then None else
              let real1 := oa_set_link (oa_bound real target) phk in
              (* allocateAsk, SetRelease both ways, SetReleased(placeholder), SetNodeID(real) *)
              let a1 := ap_set_lists (ap_set_ledgers a (Prune (Sub (Some (ap_pending a)) (Some (oa_res real)))) (ap_allocated a) (ap_phalloc a))
                                     (map_key rk (fun _ => real1) (ap_requests a)) (ap_allocs a) in
              let s1 := q_dec_pending (upd_app s app (fun _ => a1)) (ap_queue a) (oa_res real) in
              let s2 := obj_upd s1 app phk (fun y => oa_set_released (oa_set_link y rk) true) in
              if target =? oa_node ph then
                (* first loop: the placeholder's node exists and the reserve-time predicate accepts the ask *)
                match find_node s target with
                | Some _ => if denied deny rk target then None else Some s2
                | None => None
                end
              else
                (* second loop: the pair is the first fit, which the first loop did not take on the placeholder's node *)
                if match find_node s (oa_node ph) with Some _ => negb (denied deny rk (oa_node ph)) | None => false end then None else
                match find_node s target with
                | None => None
                | Some n =>
                    if negb (on_sched n && StrictlyGreaterThanZero (Some (oa_res real)) && node_unreserved n
                             && FitIn (Some (on_available n)) (Some (oa_res real)) && negb (denied deny rk target)) then None else
                    (* TryAddAllocation: the node only, no queue update *)
                    match n_add n real1 false with
                    | Some n' => Some (upd_node s2 target (fun _ => n'))
                    | None => None
                    end
                end
          | _, _ => None
          end
      | _, _ => None
      end
  | _, _ => None
  end.

Definition releases_of (evs : list oevent) : list (N * N * N) :=
  flat_map (fun e => match e with ERelease k a t => [(k, a, t)] | _ => [] end) evs.
Definition newallocs_of (evs : list oevent) : list (N * N * N) :=
  flat_map (fun e => match e with ENewAlloc k a n _ _ => [(k, a, n)] | _ => [] end) evs.

Fixpoint g_cancel_all (s : ostate) (l : list (N * N * N)) : option ostate :=
  match l with
  | [] => Some s
  | (k, app, _) :: t => match g_cancel_larger s app k with Some s1 => g_cancel_all s1 t | None => None end
  end.

(* one scheduling cycle with gang activity: cancelled placeholders (TIMEOUT), then at most one result:
   a replacement (PLACEHOLDER_REPLACED announced), a placeholder allocation, or a normal allocation *)
Definition g_sched (deny : list (N * N)) (s : ostate) (st : ostep) : option ostate :=
  let rels := releases_of (st_events st) in
  let touts := filter (fun p => snd p =? TT_Timeout) rels in
  let repl := filter (fun p => snd p =? TT_PlaceholderReplaced) rels in
  if negb (Nat.eqb (length rels) (length touts + length repl)) then None else
  match g_cancel_all s touts with
  | None => None
  | Some s1 =>
      match repl, newallocs_of (st_events st) with
      | [(phk, app, _)], [] => g_swap_start deny s1 (st_obs st) app phk
      | [], [(k, app, nid)] =>
          match find_app s1 app with
          | Some a =>
              match find_alloc (ap_requests a) k with
              | Some ask => if oa_ph ask then g_sched_ph deny s1 a k nid
                            else match touts with [] => None | _ => m_sched_alloc deny s1 a k nid end
              | None => None
              end
          | None => None
          end
      | [], [] => match touts with
                  | [] => None
                  | _ => if Z.eqb (s_nres s) (s_nres (st_obs st)) then Some s1 else None
                  end
      | _, _ => None
      end
  end.

(* ---------- PartitionContext.removeAllocation for one key of a live application ---------- *)
Definition g_release (s : ostate) (app key ttype : N) : option ostate :=
  match find_app s app with
  | None => None
  | Some a =>
      if (key =? 0) || negb (no_res a) then None else
      match find_alloc (ap_allocs a) key with
      | None =>
          (* nothing released; the ask (pending, or a stale allocated one) is removed unless TIMEOUT *)
          if ttype =? TT_Timeout then Some s else app_remove_ask s app key
      | Some x =>
          if oa_preempted x then None else
          let confirm := (ttype =? TT_PlaceholderReplaced) && negb (oa_release x =? 0) in
          if negb (oa_ph x) && negb (oa_release x =? 0) then None else
          match find_node s (oa_node x) with
          | None => None
          | Some n =>
              (* processAllocationRelease: ReplaceAllocation / RemoveAllocation *)
              let a1 := app_remove_alloc a x ttype in
              if confirm then
                match find_alloc (ap_requests a) (oa_release x) with
                | None => None
                | Some real0 =>
                    if oa_ph real0 || negb (oa_allocated real0) then None else
                    let real := oa_set_link real0 0 in
                    let a2 := app_add_alloc a1 true real in
                    let a3 := ap_set_lists a2 (map_key (oa_key real) (fun _ => real) (ap_requests a2)) (ap_allocs a2) in
                    let s1 := upd_app s app (fun _ => a3) in
                    let delta := Sub (Some (oa_res real)) (Some (oa_res x)) in
                    let total := if HasNegativeValue (Some delta) then subFrom [] delta else [] in
                    let s2 :=
                      if oa_node real =? oa_node x
                      then match n_replace n key real delta with
                           | Some n' => Some (upd_node s1 (on_id n) (fun _ => n'))
                           | None => None end
                      else (* the real allocation is on its node already: clear its link there, drop the placeholder here *)
                           Some (obj_upd (upd_node s1 (on_id n) (fun _ => n_remove n key)) app (oa_key real) (fun y => oa_set_link y 0)) in
                    match s2 with
                    | None => None
                    | Some s2 =>
                        let s3 := if StrictlyGreaterThanZero (Some total) then q_dec s2 (ap_queue a) total else s2 in
                        let s4 := add_counts s3 0 (-1) in
                        match app_remove_ask s4 app key with
                        | Some s5 => Some (terminate_if_done s5 app)
                        | None => None
                        end
                    end
                end
              else
                let s1 := upd_app s app (fun _ => a1) in
                let onnode := match find_alloc (on_allocs n) key with Some _ => true | None => false end in
                let s2 := upd_node s1 (on_id n) (fun _ => n_remove n key) in
                let s3 := if onnode && StrictlyGreaterThanZero (Some (oa_res x)) then q_dec s2 (ap_queue a) (oa_res x) else s2 in
                let s4 := add_counts s3 (-1) (if oa_ph x then -1 else 0) in
                match (if ttype =? TT_Timeout then Some s4 else app_remove_ask s4 app key) with
                | Some s5 => Some (terminate_if_done s5 app)
                | None => None
                end
          end
      end
  end.

(* ---------- timers ---------- *)
Definition release_marks (s : ostate) (app : N) (l : list oalloc) : ostate :=
  fold_left (fun acc x => if oa_preempted x then acc else obj_upd acc app (oa_key x) (fun y => oa_set_released y true)) l s.
Definition has_link (l : list oalloc) : bool := existsb (fun x => negb (oa_release x =? 0)) l.
Definition has_state_event (evs : list oevent) (id st : N) : bool :=
  existsb (fun e => match e with EAppUpdated a s' => (a =? id) && (s' =? st) | _ => false end) evs.

Definition listed_on_node (s : ostate) (x : oalloc) : bool :=
  match find_node s (oa_node x) with
  | Some n => match find_alloc (on_allocs n) (oa_key x) with Some _ => true | None => false end
  | None => false
  end.

(* removeAllocation with an empty allocation key: RemoveAllAllocations, then every released allocation leaves its
   node, ONE DecAllocatedResource with the total, all asks removed unless TIMEOUT *)
Definition g_release_all (s : ostate) (app ttype : N) : option ostate :=
  match find_app s app with
  | None => None
  | Some a =>
      if negb (no_res a) || existsb oa_preempted (ap_allocs a) then None else
      if (ttype =? TT_PlaceholderReplaced) && has_link (ap_allocs a) then None else
      let allocs := ap_allocs a in
      (* RemoveAllAllocations *)
      let pd := fold_left (fun d x => if oa_ph x && pd_has d (oa_tg x) then pd_timedout (oa_tg x) d else d) allocs (ap_phdata a) in
      let a1 := ap_set_lists (ap_set_ledgers (ap_with_ph a pd (ap_phtimer a) (ap_statetimer a) (ap_hasph a)) (ap_pending a) [] [])
                             (ap_requests a) [] in
      let a2 := if IsZero (Some (ap_pending a1)) then app_fire a1 AvComplete else a1 in
      let a3 := ap_with_ph a2 (ap_phdata a2) false false (ap_hasph a2) in      (* clearPlaceholderTimer, clearStateTimer *)
      let s1 := upd_app s app (fun _ => a3) in
      (* every released allocation leaves its node; what the nodes really listed is given back to the queue
         (the keys of an application's allocations are distinct: Go map) *)
      let total := fold_left (fun tot x => if listed_on_node s1 x then addTo tot (oa_res x) else tot) allocs [] in
      let s2 := remove_allocs_from_nodes s1 allocs in
      let s3 := if StrictlyGreaterThanZero (Some total) then q_dec s2 (ap_queue a) total else s2 in
      let s4 := add_counts s3 (- Z.of_nat (length allocs)) (- Z.of_nat (length (filter oa_ph allocs))) in
      match (if ttype =? TT_Timeout then Some s4 else app_remove_all_asks s4 app) with
      | Some s5 => Some (terminate_if_done s5 app)
      | None => None
      end
  end.

(* timeoutPlaceholderProcessing *)
Definition g_fire_ph (s : ostate) (evs : list oevent) (id : N) : option ostate :=
  match find_app s id with
  | None => None
  | Some a =>
      if negb (ap_phtimer a) then None else
      if ((ap_state a =? ST_Running) || (ap_state a =? ST_Completing)) && negb (IsZero (Some (ap_phalloc a))) then
        (* case 1: the placeholders that are not being replaced are released (flag only), timer cleared *)
        let s1 := release_marks s id (filter (fun x => oa_ph x && negb (oa_released x)) (ap_allocs a)) in
        Some (upd_app s1 id (fun b => ap_with_ph b (ap_phdata b) false (ap_statetimer b) (ap_hasph b)))
      else
        if negb (no_res a) || has_link (ap_requests a) || has_link (ap_allocs a) then None else
        (* case 2: the gang style is not observed: it is read from the announced state change *)
        let ev := if has_state_event evs id ST_Failing then Some AvFail
                  else if has_state_event evs id ST_Resuming then Some AvResume else None in
        let ok := match ev with
                  | Some e => match fsm3 (ap_state a) e with Some st' => negb (st' =? ap_state a) | None => false end
                  | None => match fsm3 (ap_state a) AvFail, fsm3 (ap_state a) AvResume with Some _, Some _ => false | _, _ => true end
                  end in
        if negb ok then None else
        let a1 := match ev with Some e => app_fire a e | None => a end in
        let s1 := upd_app s id (fun _ => a1) in
        let s2 := release_marks s1 id (ap_allocs a1) in
        let pend := filter (fun x => negb (oa_allocated x) && negb (oa_preempted x)) (ap_requests a1) in
        let s3 := release_marks s2 id pend in
        let pd := fold_left (fun d x => if pd_has d (oa_tg x) then pd_timedout (oa_tg x) d else d) pend (ap_phdata a1) in
        let s4 := upd_app s3 id (fun b => ap_with_ph b pd (ap_phtimer b) (ap_statetimer b) (ap_hasph b)) in
        match app_remove_all_asks s4 id with
        | Some s5 => Some (upd_app s5 id (fun b => ap_with_ph b (ap_phdata b) false (ap_statetimer b) (ap_hasph b)))
        | None => None
        end
  end.

(* timeoutStateTimer for a Completing application that still holds placeholders *)
Definition g_fire_state (s : ostate) (id : N) : option ostate :=
  match find_app s id with
  | None => None
  | Some a =>
      if negb (ap_statetimer a) then None else
      if (ap_state a =? ST_Completing) && negb (IsZero (Some (ap_phalloc a))) then
        let s1 := release_marks s id (filter (fun x => oa_ph x && negb (oa_released x)) (ap_allocs a)) in
        Some (upd_app s1 id (fun b => ap_with_ph b (ap_phdata b) (ap_phtimer b) false (ap_hasph b)))
      else None
  end.

(* timers of an application that is not in the live list: a terminated application expires (Completed / Failed ->
   Expired, nothing else changes); a rejected or unknown one changes nothing that is observed *)
Definition g_fire_state_dead (s : ostate) (id : N) : option ostate :=
  match find (fun a => ap_id a =? id) (s_completed s) with
  | None => Some s
  | Some a =>
      if negb (ap_statetimer a) then Some s else
      if is_terminal (ap_state a) then
        let a' := mkOApp (ap_id a) (ap_queue a) ST_Expired (ap_user a) (ap_pending a) (ap_allocated a) (ap_phalloc a) (ap_phask a)
                         (ap_requests a) (ap_allocs a) (ap_reservations a) (ap_phdata a) (ap_statelog a ++ [ST_Expired])
                         (ap_phtimer a) false (ap_forced a) (ap_hasph a) in
        Some (set_completed s (map (fun b => if ap_id b =? id then a' else b) (s_completed s)))
      else None
  end.
Definition g_fire_ph_dead (s : ostate) (id : N) : option ostate :=
  match find (fun a => ap_id a =? id) (s_completed s) with
  | None => Some s
  | Some a => if ap_phtimer a then None else Some s
  end.

(* ---------- removeApplication for an application with placeholders / same-node in-flight replacements ---------- *)
Definition g_app_remove (s : ostate) (id : N) : option ostate :=
  match find_app s id with
  | None => None
  | Some a =>
      if negb (no_res a) then None else
      (* RemoveAllocationAsk("") *)
      match app_remove_all_asks s id with
      | None => None
      | Some s0 =>
          match find_app s0 id with
          | None => None
          | Some a0 =>
              (* Queue.RemoveApplication: pending, allocated, placeholder usage *)
              let s1 := if IsZero (Some (ap_pending a0)) then s0 else q_dec_pending s0 (ap_queue a0) (ap_pending a0) in
              let s2 := if IsZero (Some (ap_allocated a0)) then s1 else q_dec s1 (ap_queue a0) (ap_allocated a0) in
              let s3 := if IsZero (Some (ap_phalloc a0)) then s2 else q_dec s2 (ap_queue a0) (ap_phalloc a0) in
              (* RemoveAllAllocations + node cleanup; the partition no longer lists the application *)
              let s4 := remove_allocs_from_nodes s3 (ap_allocs a0) in
              let s5 := set_apps s4 (filter (fun b => negb (ap_id b =? id)) (s_apps s4)) in
              Some (add_counts s5 (- Z.of_nat (length (ap_allocs a0))) 0)
          end
      end
  end.

(* ---------- removeNodeAllocations with placeholders and in-flight replacements ---------- *)
Definition find_obj (a : oapp) (k : N) : option oalloc :=
  match find_alloc (ap_allocs a) k with Some x => Some x | None => find_alloc (ap_requests a) k end.

(* DeallocateAsk(key) *)
Definition app_deallocate (s : ostate) (a : oapp) (k : N) : ostate :=
  match find_alloc (ap_requests a) k with
  | Some r =>
      if oa_allocated r then
        let s1 := obj_upd s (ap_id a) k (fun y => oa_set_allocated y false) in
        let s2 := upd_app s1 (ap_id a) (fun b => ap_set_ledgers b (Add (Some (ap_pending b)) (Some (oa_res r))) (ap_allocated b) (ap_phalloc b)) in
        q_inc_pending s2 (ap_queue a) (oa_res r)
      else s
  | None => s
  end.

(* the plain part of the loop body: app.RemoveAllocation(key, UNKNOWN), queue.DecAllocatedResource *)
Definition g_node_remove_plain (s : ostate) (app key : N) : ostate * Z * Z :=
  match find_app s app with
  | None => (s, 0%Z, 0%Z)
  | Some a =>
      match find_alloc (ap_allocs a) key with
      | None => (s, 0%Z, 0%Z)
      | Some x =>
          let s1 := upd_app s app (fun _ => app_remove_alloc a x TT_Unknown) in
          (q_dec s1 (ap_queue a) (oa_res x), (-1)%Z, (if oa_ph x then -1 else 0)%Z)
      end
  end.

Fixpoint g_remove_node_allocs (s : ostate) (l : list oalloc) : option (ostate * Z * Z) :=
  match l with
  | [] => Some (s, 0%Z, 0%Z)
  | y :: t =>
      match find_app s (oa_app y) with
      | None => g_remove_node_allocs s t
      | Some a =>
          if negb (no_res a) || oa_preempted y then None else
          let step1 :=
            if oa_release y =? 0 then Some (s, false) else
            match find_obj a (oa_release y) with
            | None => None
            | Some r =>
                if oa_ph y && negb (oa_node y =? oa_node r) then
                  (* placeholder here, real allocation on another node: confirm the replacement *)
                  match find_alloc (ap_allocs a) (oa_key y) with
                  | None => None
                  | Some x =>
                      if oa_ph r || negb (oa_allocated r) then None else
                      let real := oa_set_link r 0 in
                      let a1 := app_remove_alloc a x TT_PlaceholderReplaced in
                      let a2 := app_add_alloc a1 true real in
                      let a3 := ap_set_lists a2 (map_key (oa_key real) (fun _ => real) (ap_requests a2)) (ap_allocs a2) in
                      let s1 := obj_upd (upd_app s (ap_id a) (fun _ => a3)) (ap_id a) (oa_key real) (fun z => oa_set_link z 0) in
                      let delta := Sub (Some (oa_res r)) (Some (oa_res y)) in
                      let s2 := if HasNegativeValue (Some delta)
                                then match q_try_inc s1 (ap_queue a) delta with Some s' => s' | None => s1 end
                                else s1 in
                      Some (s2, true)
                  end
                else
                  (* unlink, give the real ask back to the scheduler *)
                  let askk := if oa_ph y then oa_key r else oa_key y in
                  let s1 := obj_upd (obj_upd s (ap_id a) (oa_key r) (fun z => oa_set_link z 0)) (ap_id a) (oa_key y) (fun z => oa_set_link z 0) in
                  match find_app s1 (ap_id a) with
                  | Some a1 => Some (app_deallocate s1 a1 askk, false)
                  | None => None
                  end
            end in
          match step1 with
          | None => None
          | Some (s1, true) => g_remove_node_allocs s1 t      (* confirmed: released +1, confirmed +1 *)
          | Some (s1, false) =>
              let '(s2, da, dph) := g_node_remove_plain s1 (oa_app y) (oa_key y) in
              match g_remove_node_allocs s2 t with
              | Some (s3, da', dph') => Some (s3, (da + da')%Z, (dph + dph')%Z)
              | None => None
              end
          end
      end
  end.

(* removeNodeAllocations walks a Go map: the order is not determined, and the outcome can depend on it (an application
   whose last real allocation goes before the in-flight real ask is given back moves to Completing, the other way round
   it does not).  The order is part of the observed decision: the allocations are processed in the order of their
   release announcements; allocations that are not announced (in-flight real halves) go first, and are accepted only
   when they are the only allocation of their application on the node. *)
Definition node_remove_order (evs : list oevent) (l : list oalloc) : option (list oalloc) :=
  let ks := map (fun p => fst (fst p)) (releases_of evs) in
  let silent := filter (fun y => negb (memN (oa_key y) ks)) l in
  let announced := flat_map (fun k => filter (fun y => oa_key y =? k) l) ks in
  if forallb (fun y => Nat.eqb (length (filter (fun z => oa_app z =? oa_app y) l)) 1) silent
  then Some (silent ++ announced) else None.

Definition g_node_remove (s : ostate) (evs : list oevent) (id : N) : option ostate :=
  match find_node s id with
  | None => None
  | Some n =>
      if negb (node_unreserved n) then None else
      match node_remove_order evs (on_allocs n) with
      | None => None
      | Some order =>
          let s0 := set_nodes s (filter (fun m => negb (on_id m =? id)) (s_nodes s)) in
          match g_remove_node_allocs s0 order with
          | None => None
          | Some (s1, da, dph) =>
              let s2 := part_update_total s1 (Multiply (Some (on_total n)) (-1)) in
              let s3 := add_counts s2 da dph in
              Some (fold_left (fun acc y => terminate_if_done acc (oa_app y)) (on_allocs n) s3)
          end
      end
  end.

(* ---------- AddApplication with a gang request ---------- *)
(* Queue.GetMaxQueueSet along the path leaf .. root (the root itself contributes nothing) *)
Fixpoint max_queue_set (s : ostate) (path : list N) : ores :=
  match path with
  | [] => None
  | qid :: rest =>
      match find_queue s qid with
      | None => None
      | Some q =>
          if q_parent q =? 0 then None else
          match max_queue_set s rest, q_max q with
          | None, m => m
          | Some p, None => Some p
          | Some p, Some m => ComponentWiseMin (Some p) (Some m)
          end
      end
  end.

Definition has_accept (evs : list oevent) (id : N) : bool :=
  existsb (fun e => match e with EAppAccepted a => a =? id | _ => false end) evs.
Definition has_reject (evs : list oevent) (id : N) : bool :=
  existsb (fun e => match e with EAppRejected a => a =? id | _ => false end) evs.

Definition g_app_add (s : ostate) (evs : list oevent) (id queue user : N) (forced nougi : bool) (phask : ores) (tagmaxapps : N) (tagmax : ores) : option ostate :=
  match find_app s id with
  | Some _ => None
  | None =>
      if nougi || forced || IsZero phask || negb (tagmaxapps =? 0) || negb (is_nil tagmax) then None else
      match find_queue s queue with
      | Some q =>
          if q_leaf q && (q_state q =? QS_Active) && negb (q_parent q =? 0) then
            if has_accept evs id then
              (* accepted: the task group request fits the maximum set on the queue hierarchy *)
              if match max_queue_set s (path_ids s queue) with Some m => FitInMaxUndef (Some m) phask | None => true end
              then Some (set_apps s (s_apps s ++ [mkOApp id queue ST_New user [] [] [] (oget phask) [] [] [] [] [] false false forced false]))
              else None
            else if has_reject evs id then Some s      (* sort policy (not observed) or maximum: rejected, nothing changes *)
            else None
          else None
      | None => None
      end
  end.

(* ---------- the step ---------- *)
Definition m_step_gang (deny : list (N * N)) (s : ostate) (st : ostep) : option ostate :=
  if st_panic st then None else
  match known_trigger s st with
  | Some _ => None
  | None =>
      match st_op st with
      | OpAppAdd id queue user forced nougi phask hard tagmaxapps tagmax => g_app_add s (st_events st) id queue user forced nougi phask tagmaxapps tagmax
      | OpAlloc r => g_alloc s r
      | OpRelease app key ttype => if app =? 0 then None else if key =? 0 then g_release_all s app ttype else g_release s app key ttype
      | OpSched => g_sched deny s st
      | OpFirePh id => match find_app s id with Some _ => g_fire_ph s (st_events st) id | None => g_fire_ph_dead s id end
      | OpFireState id => match find_app s id with Some _ => g_fire_state s id | None => g_fire_state_dead s id end
      | OpAppRemove id => g_app_remove s id
      | OpNodeRemove id => g_node_remove s (st_events st) id
      | _ => None
      end
  end.

Definition m_step3 (deny : list (N * N)) (s : ostate) (st : ostep) : option ostate :=
  match m_step2 deny s st with
  | Some r => Some r
  | None => m_step_gang deny s st
  end.
