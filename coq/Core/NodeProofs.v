(* C01, node level: the node ledger predicate of Core/Ledger.v (the oracle) is reflected as a pointwise
   statement, and every node operation of the operational model Core/Model.v (transcriptions of
   objects/node.go) preserves it.  Hypotheses used, and why:
     wf        (Base/ResSpec.v) no duplicate resource types in a vector: a Go map has none; the association
               list model needs it for "the loop visits every type once";
     small     every ledger entry / allocation size is within +-2^60, so that the saturating int64
               addVal / subVal the code uses are exact for the (at most three) additions one operation chains;
     NoDup of the allocation keys a node lists (a Go map keyed by allocation key). *)
From Coq Require Import List ZArith NArith Bool Lia ZifyBool.
From YK Require Import Base.Int64 Base.Int64Laws Base.Res Base.ResSpec Base.ResLemmas Base.ResLaws Base.ResLaws2
  Base.ResLawsPred Core.Obs Core.Model Core.Ledger.
Import ListNotations.
Open Scope Z_scope.

(* ------------------------------------------------------------------ vectors as functions *)
Lemma getz_notin r k : ~ In k (keys r) -> getz r k = 0.
Proof. intros H. apply get_none_iff in H. unfold getz. rewrite H. reflexivity. Qed.

Lemma sumz_cons r l k : sumz (r :: l) k = getz r k + sumz l k.
Proof. reflexivity. Qed.
Lemma sumz_app l1 l2 k : sumz (l1 ++ l2) k = sumz l1 k + sumz l2 k.
Proof. induction l1 as [|r t IH]; [reflexivity|]. rewrite <- app_comm_cons, !sumz_cons, IH. lia. Qed.
Lemma sumz_notin l k : ~ In k (res_keys l) -> sumz l k = 0.
Proof. induction l as [|r t IH]; [reflexivity|]. intros H. rewrite sumz_cons.
  unfold res_keys in H. cbn [flat_map] in H. rewrite getz_notin, IH; [reflexivity| |];
    intros C; apply H; apply in_or_app; auto. Qed.

(* the executable check [res_is_sum] (Core/Obs.v) says: r is the component-wise sum of l *)
Lemma res_is_sum_spec r l : res_is_sum r l = true <-> forall k, getz r k = sumz l k.
Proof. unfold res_is_sum. rewrite forallb_forall. split.
  - intros H k. destruct (in_dec N.eq_dec k (keys r ++ res_keys l)) as [Hin|Hni].
    + apply Z.eqb_eq. apply H. assumption.
    + rewrite getz_notin, sumz_notin; [reflexivity| |]; intros C; apply Hni; apply in_or_app; auto.
  - intros H k _. apply Z.eqb_eq. apply H. Qed.

(* ------------------------------------------------------------------ exact arithmetic under the bound *)
Definition lim : Z := 2^60.
Definition small (z : Z) : Prop := - lim <= z <= lim.
Definition rsmall (r : res) : Prop := forall k, small (getz r k).

Ltac sm := unfold small, lim, in_range, MIN, MAX in *; lia.

Lemma small_0 : small 0. Proof. sm. Qed.
Lemma rsmall_nil : rsmall []. Proof. intros k. apply small_0. Qed.

Lemma addTo_getz l r k : wf r -> in_range (getz l k) -> in_range (getz r k) -> in_range (getz l k + getz r k) ->
  getz (addTo l r) k = getz l k + getz r k.
Proof. intros Hwf Hl Hr Hs. rewrite !getz_get in *. rewrite addTo_get by assumption.
  destruct (get r k) as [y|]; cbn [oz] in *; [|lia]. apply addVal_exact; assumption. Qed.
Lemma subFrom_getz l r k : wf r -> in_range (getz l k) -> in_range (getz r k) -> in_range (getz l k - getz r k) ->
  getz (subFrom l r) k = getz l k - getz r k.
Proof. intros Hwf Hl Hr Hs. rewrite !getz_get in *. rewrite subFrom_get by assumption.
  destruct (get r k) as [y|]; cbn [oz] in *; [|lia]. apply subVal_exact; assumption. Qed.
Lemma addTo_wf l r : wf l -> wf (addTo l r).
Proof. intros H. unfold addTo. apply (fold_upd_wf addVal). assumption. Qed.
Lemma subFrom_wf l r : wf l -> wf (subFrom l r).
Proof. intros H. unfold subFrom. apply (fold_upd_wf subVal). assumption. Qed.
(* a type the right operand does not have is untouched *)
Lemma addTo_get_none l r k : wf r -> get r k = None -> get (addTo l r) k = get l k.
Proof. intros Hwf H. rewrite addTo_get, H by assumption. reflexivity. Qed.
Lemma subFrom_get_none l r k : wf r -> get r k = None -> get (subFrom l r) k = get l k.
Proof. intros Hwf H. rewrite subFrom_get, H by assumption. reflexivity. Qed.

(* entries of a well-formed vector are its function values *)
Lemma wf_entry_getz r k v : wf r -> In (k, v) r -> getz r k = v.
Proof. intros Hwf Hin. unfold getz. rewrite (in_get r k v Hwf Hin). reflexivity. Qed.
Lemma get_getz r k v : get r k = Some v -> getz r k = v.
Proof. intros H. unfold getz. rewrite H. reflexivity. Qed.

(* ------------------------------------------------------------------ allocation lists *)
Definition akeys (l : list oalloc) : list N := map oa_key l.
Definition asum (l : list oalloc) (k : tid) : Z := sumz (map oa_res l) k.

Lemma find_alloc_none l key : ~ In key (akeys l) -> find_alloc l key = None.
Proof. induction l as [|y t IH]; [reflexivity|]. cbn [akeys map In]. intros H. unfold find_alloc. cbn [find].
  destruct (N.eqb_spec (oa_key y) key) as [E|E]; [exfalso; auto|]. apply IH. auto. Qed.
Lemma find_alloc_some l key x : find_alloc l key = Some x -> In x l /\ oa_key x = key.
Proof. unfold find_alloc. intros H. apply find_some in H. destruct H as [H1 H2]. apply N.eqb_eq in H2. auto. Qed.
Lemma find_alloc_in_keys l key x : find_alloc l key = Some x -> In key (akeys l).
Proof. intros H. apply find_alloc_some in H. destruct H as [H1 <-]. apply in_map. assumption. Qed.
Lemma find_alloc_not_none l key : In key (akeys l) -> find_alloc l key <> None.
Proof. intros H C. unfold akeys in H. apply in_map_iff in H. destruct H as (x & E & Hin).
  unfold find_alloc in C. apply (find_none _ _ C) in Hin. rewrite E, N.eqb_refl in Hin. discriminate. Qed.

Lemma del_alloc_fresh l key : ~ In key (akeys l) -> del_alloc key l = l.
Proof. induction l as [|y t IH]; [reflexivity|]. cbn [akeys map In]. intros H. unfold del_alloc. cbn [filter].
  destruct (N.eqb_spec (oa_key y) key) as [E|E]; [exfalso; auto|]. cbn [negb]. f_equal. apply IH. auto. Qed.
Lemma akeys_del l key k' : In k' (akeys (del_alloc key l)) <-> In k' (akeys l) /\ k' <> key.
Proof. unfold akeys, del_alloc. rewrite !in_map_iff. split.
  - intros (x & E & Hin). apply filter_In in Hin. destruct Hin as [Hin Hne]. split; [eauto|].
    subst k'. intros C. rewrite C, N.eqb_refl in Hne. discriminate.
  - intros [(x & E & Hin) Hne]. exists x. split; [assumption|]. apply filter_In. split; [assumption|].
    subst k'. destruct (N.eqb_spec (oa_key x) key); [contradiction|reflexivity]. Qed.
Lemma NoDup_map_filter {A B} (g : A -> B) (f : A -> bool) l : NoDup (map g l) -> NoDup (map g (filter f l)).
Proof. induction l as [|y t IH]; [auto|]. cbn [map filter]. intros H. inversion H as [|? ? Hni Hnd]; subst.
  destruct (f y); [|auto]. cbn [map]. constructor; [|auto]. intros C. apply Hni.
  apply in_map_iff in C. destruct C as (x & E & Hin). apply filter_In in Hin. rewrite <- E. apply in_map. tauto. Qed.
Lemma akeys_del_nodup l key : NoDup (akeys l) -> NoDup (akeys (del_alloc key l)).
Proof. apply NoDup_map_filter. Qed.
Lemma akeys_put_nodup l x : NoDup (akeys l) -> NoDup (akeys (put_alloc x l)).
Proof. intros H. change (put_alloc x l) with (x :: del_alloc (oa_key x) l). cbn [akeys map]. constructor.
  - intros C. apply (akeys_del l (oa_key x) (oa_key x)) in C. tauto.
  - apply akeys_del_nodup. assumption. Qed.

Lemma asum_cons x l k : asum (x :: l) k = getz (oa_res x) k + asum l k.
Proof. reflexivity. Qed.
(* removing a key removes exactly the resource of the allocation stored under it *)
Lemma asum_del l key k : NoDup (akeys l) ->
  asum (del_alloc key l) k = asum l k - match find_alloc l key with Some x => getz (oa_res x) k | None => 0 end.
Proof. induction l as [|y t IH]; [reflexivity|]. cbn [akeys map]. intros H. inversion H as [|? ? Hni Hnd]; subst.
  unfold del_alloc, find_alloc. cbn [filter find]. destruct (N.eqb_spec (oa_key y) key) as [E|E]; cbn [negb].
  - subst key. fold (del_alloc (oa_key y) t). rewrite del_alloc_fresh by assumption. rewrite asum_cons. lia.
  - fold (del_alloc key t) (find_alloc t key). rewrite !asum_cons, IH by assumption. lia. Qed.
Lemma asum_put l x k : NoDup (akeys l) ->
  asum (put_alloc x l) k = asum l k + getz (oa_res x) k
                           - match find_alloc l (oa_key x) with Some y => getz (oa_res y) k | None => 0 end.
Proof. intros H. change (put_alloc x l) with (x :: del_alloc (oa_key x) l). rewrite asum_cons, asum_del by assumption. lia. Qed.
(* changing the resource of the allocation stored under a key *)
Definition set_res (key : N) (newres : res) (l : list oalloc) : list oalloc :=
  map (fun y => if (oa_key y =? key)%N then oa_with_res y newres else y) l.
Lemma akeys_set_res key newres l : akeys (set_res key newres l) = akeys l.
Proof. unfold akeys, set_res. rewrite map_map. apply map_ext. intros y. destruct (oa_key y =? key)%N; reflexivity. Qed.
Lemma asum_set_res l key newres k : NoDup (akeys l) ->
  asum (set_res key newres l) k =
  asum l k + match find_alloc l key with Some y => getz newres k - getz (oa_res y) k | None => 0 end.
Proof. induction l as [|y t IH]; [reflexivity|]. cbn [akeys map]. intros H. inversion H as [|? ? Hni Hnd]; subst.
  unfold set_res, find_alloc. cbn [map find]. fold (set_res key newres t) (find_alloc t key).
  rewrite !asum_cons, IH by assumption. destruct (N.eqb_spec (oa_key y) key) as [E|E].
  - subst key. rewrite (find_alloc_none t) by assumption. cbn [oa_with_res oa_res]. lia.
  - lia. Qed.

(* ------------------------------------------------------------------ C01.1: reflection of the oracle *)
Record NodeLedger (n : onode) : Prop := mkNL {
  nl_alloc : forall k, getz (on_allocated n) k = asum (on_allocs n) k;
  nl_occ : forall k, getz (on_occupied n) k = asum (on_foreign n) k;
  nl_avail : forall k, getz (on_available n) k = getz (on_total n) k - getz (on_allocated n) k - getz (on_occupied n) k }.

Theorem node_ledger_reflect n : node_ledger_ok n = true <-> NodeLedger n.
Proof. unfold node_ledger_ok. rewrite !andb_true_iff, !res_is_sum_spec, forallb_forall. split.
  - intros [[H1 H2] H3]. split; [exact H1|exact H2|]. intros k. fold (node_free n k).
    destruct (in_dec N.eq_dec k (keys (on_available n) ++ keys (on_total n) ++ keys (on_allocated n) ++ keys (on_occupied n)))
      as [Hin|Hni].
    + apply Z.eqb_eq. apply H3. assumption.
    + unfold node_free. rewrite !getz_notin; [reflexivity| | | |]; intros C; apply Hni; rewrite !in_app_iff; auto.
  - intros [H1 H2 H3]. split; [split; assumption|]. intros k _. apply Z.eqb_eq. apply H3. Qed.

Theorem nodes_ledger_reflect s : nodes_ledger_ok s = true <-> forall n, In n (s_nodes s) -> NodeLedger n.
Proof. unfold nodes_ledger_ok. rewrite forallb_forall. split; intros H n Hin; apply node_ledger_reflect; auto. Qed.

(* ------------------------------------------------------------------ side conditions on a node *)
Definition allocs_wf (l : list oalloc) : Prop := forall x, In x l -> wf (oa_res x).
Definition allocs_small (l : list oalloc) : Prop := forall x, In x l -> rsmall (oa_res x).

Record NodeWF (n : onode) : Prop := mkNW {
  nw_total : wf (on_total n); nw_occ : wf (on_occupied n); nw_alloc : wf (on_allocated n); nw_avail : wf (on_available n);
  nw_allocs : allocs_wf (on_allocs n); nw_foreign : allocs_wf (on_foreign n);
  nw_keys : NoDup (akeys (on_allocs n)); nw_fkeys : NoDup (akeys (on_foreign n)) }.
(* Bounded, node part *)
Record NodeSmall (n : onode) : Prop := mkNS {
  ns_total : rsmall (on_total n); ns_occ : rsmall (on_occupied n); ns_alloc : rsmall (on_allocated n);
  ns_avail : rsmall (on_available n);
  ns_allocs : allocs_small (on_allocs n); ns_foreign : allocs_small (on_foreign n) }.

Ltac nproj := cbn [n_with n_refresh on_id on_total on_occupied on_allocated on_available on_sched on_allocs on_foreign
                   on_reservations].

Lemma allocs_wf_put x l : wf (oa_res x) -> allocs_wf l -> allocs_wf (put_alloc x l).
Proof. intros Hx Hl y [<-|Hin]; [assumption|]. apply Hl. apply filter_In in Hin. tauto. Qed.
Lemma allocs_wf_del key l : allocs_wf l -> allocs_wf (del_alloc key l).
Proof. intros Hl y Hin. apply Hl. apply filter_In in Hin. tauto. Qed.
Lemma allocs_wf_find l key x : allocs_wf l -> find_alloc l key = Some x -> wf (oa_res x).
Proof. intros Hl H. apply Hl. apply find_alloc_some in H. tauto. Qed.

(* ------------------------------------------------------------------ refreshAvailableResource *)
Lemma n_refresh_avail n k : wf (on_total n) -> wf (on_allocated n) -> wf (on_occupied n) ->
  in_range (getz (on_total n) k) -> in_range (getz (on_allocated n) k) -> in_range (getz (on_occupied n) k) ->
  in_range (getz (on_total n) k - getz (on_allocated n) k) ->
  in_range (getz (on_total n) k - getz (on_allocated n) k - getz (on_occupied n) k) ->
  getz (on_available (n_refresh n)) k = getz (on_total n) k - getz (on_allocated n) k - getz (on_occupied n) k.
Proof. intros Wt Wa Wo Rt Ra Ro R1 R2. nproj.
  assert (E1 : getz (subFrom (on_total n) (on_allocated n)) k = getz (on_total n) k - getz (on_allocated n) k)
    by (apply subFrom_getz; assumption).
  rewrite Prune_getz by (apply subFrom_wf, subFrom_wf; assumption).
  rewrite subFrom_getz; rewrite ?E1; try assumption. reflexivity. Qed.

Lemma n_refresh_ledger n : wf (on_total n) -> wf (on_allocated n) -> wf (on_occupied n) ->
  rsmall (on_total n) -> (forall k, - 2 * lim <= getz (on_allocated n) k <= 2 * lim) ->
  (forall k, - 3 * lim <= getz (on_occupied n) k <= 3 * lim) ->
  (forall k, getz (on_allocated n) k = asum (on_allocs n) k) -> (forall k, getz (on_occupied n) k = asum (on_foreign n) k) ->
  NodeLedger (n_refresh n).
Proof. intros Wt Wa Wo St Sa So H1 H2. split; [exact H1|exact H2|]. intros k.
  rewrite n_refresh_avail; try assumption; [reflexivity|..]; specialize (St k); specialize (Sa k); specialize (So k); sm. Qed.
Lemma n_refresh_wf n : NodeWF n -> NodeWF (n_refresh n).
Proof. intros [Wt Wo Wa Wv Wl Wf Kl Kf]. split; nproj; try assumption.
  apply Prune_wf, subFrom_wf, subFrom_wf. assumption. Qed.

(* ------------------------------------------------------------------ C01.2: addAllocationInternal *)
Definition alloc_list_of (n : onode) (x : oalloc) : list oalloc := if oa_foreign x then on_foreign n else on_allocs n.

Theorem n_add_ledger n x force n' :
  n_add n x force = Some n' -> NodeLedger n -> NodeWF n -> NodeSmall n -> wf (oa_res x) -> rsmall (oa_res x) ->
  ~ In (oa_key x) (akeys (alloc_list_of n x)) ->
  NodeLedger n'.
Proof. unfold n_add, alloc_list_of. intros H [L1 L2 L3] [Wt Wo Wa Wv Wl Wf Kl Kf] [St So Sa Sv _ _] Wx Sx Hfresh.
  destruct (force || FitIn (Some (on_available n)) (Some (oa_res x))); [|discriminate].
  inversion H; subst n'; clear H. destruct (oa_foreign x); split; nproj; intros k;
    specialize (St k); specialize (So k); specialize (Sa k); specialize (Sv k); specialize (Sx k).
  - apply L1.
  - cbn [Add oget]. rewrite addTo_getz, asum_put, (find_alloc_none _ _ Hfresh), L2; try assumption; try sm.
  - cbn [Add oget]. rewrite Prune_getz by (apply subFrom_wf; assumption).
    rewrite subFrom_getz, addTo_getz, L3; try assumption; try sm.
  - rewrite addTo_getz, asum_put, (find_alloc_none _ _ Hfresh), L1; try assumption; try sm.
  - apply L2.
  - rewrite Prune_getz by (apply subFrom_wf; assumption).
    rewrite subFrom_getz, addTo_getz, L3; try assumption; try sm. Qed.

Lemma n_add_wf n x force n' : n_add n x force = Some n' -> NodeWF n -> wf (oa_res x) -> NodeWF n'.
Proof. unfold n_add. intros H [Wt Wo Wa Wv Wl Wf Kl Kf] Wx.
  destruct (force || FitIn (Some (on_available n)) (Some (oa_res x))); [|discriminate].
  inversion H; subst n'; clear H. destruct (oa_foreign x); split; nproj; try assumption;
    try (apply Prune_wf, subFrom_wf; assumption); try (apply allocs_wf_put; assumption); try (apply akeys_put_nodup; assumption).
  - cbn [Add oget]. apply addTo_wf. assumption.
  - apply addTo_wf. assumption. Qed.
Lemma n_add_id n x force n' : n_add n x force = Some n' -> on_id n' = on_id n /\ on_sched n' = on_sched n /\ on_total n' = on_total n /\ on_reservations n' = on_reservations n.
Proof. unfold n_add. intros H. destruct (force || FitIn (Some (on_available n)) (Some (oa_res x))); [|discriminate].
  inversion H; subst n'. destruct (oa_foreign x); repeat split. Qed.

(* C01.3: the scheduler's own (unforced) binding fits what is free: capacity - occupied - allocated *)
Theorem n_add_fits n x n' : n_add n x false = Some n' -> NodeLedger n -> fits_free n (oa_res x) = true.
Proof. unfold n_add. cbn [orb]. intros H [_ _ L3]. destruct (FitIn (Some (on_available n)) (Some (oa_res x))) eqn:E; [|discriminate].
  clear H. unfold FitIn, fitIn in E. cbn [oget] in E. unfold fits_free. rewrite forallb_forall in *. intros [k v] Hin.
  specialize (E _ Hin). cbn [fst snd] in *. unfold node_free. rewrite <- L3. unfold getz.
  destruct (get (on_available n) k) as [lv|]; [rewrite zmax_max in E|]; lia. Qed.

(* ------------------------------------------------------------------ RemoveAllocation *)
Theorem n_remove_ledger n key : NodeLedger n -> NodeWF n -> NodeSmall n -> NodeLedger (n_remove n key).
Proof. unfold n_remove. intros [L1 L2 L3] [Wt Wo Wa Wv Wl Wf Kl Kf] [St So Sa Sv Sl Sf].
  destruct (find_alloc (on_allocs n) key) as [x|] eqn:E1; [|destruct (find_alloc (on_foreign n) key) as [x|] eqn:E2].
  - assert (Wx := allocs_wf_find _ _ _ Wl E1). assert (Sx : rsmall (oa_res x)) by (apply Sl; apply (find_alloc_some _ _ _ E1)).
    split; nproj; intros k; specialize (St k); specialize (So k); specialize (Sa k); specialize (Sv k); specialize (Sx k).
    + rewrite Prune_getz by (apply subFrom_wf; assumption).
      rewrite subFrom_getz, asum_del, E1, L1; try assumption; try sm.
    + apply L2.
    + rewrite Prune_getz by (apply subFrom_wf; assumption).
      rewrite addTo_getz, subFrom_getz, L3; try assumption; try sm.
  - assert (Wx := allocs_wf_find _ _ _ Wf E2). assert (Sx : rsmall (oa_res x)) by (apply Sf; apply (find_alloc_some _ _ _ E2)).
    split; nproj; intros k; specialize (St k); specialize (So k); specialize (Sa k); specialize (Sv k); specialize (Sx k).
    + apply L1.
    + cbn [Sub oget]. rewrite subFrom_getz, asum_del, E2, L2; try assumption; try sm.
    + cbn [Sub oget]. rewrite addTo_getz, subFrom_getz, L3; try assumption; try sm.
  - split; assumption. Qed.
Lemma n_remove_wf n key : NodeWF n -> NodeWF (n_remove n key).
Proof. unfold n_remove. intros [Wt Wo Wa Wv Wl Wf Kl Kf].
  destruct (find_alloc (on_allocs n) key) as [x|] eqn:E1; [|destruct (find_alloc (on_foreign n) key) as [x|] eqn:E2].
  - split; nproj; try assumption; [apply Prune_wf, subFrom_wf; assumption|apply addTo_wf; assumption|
      apply allocs_wf_del; assumption|apply akeys_del_nodup; assumption].
  - split; nproj; try assumption; [cbn [Sub oget]; apply subFrom_wf; assumption|apply addTo_wf; assumption|
      apply allocs_wf_del; assumption|apply akeys_del_nodup; assumption].
  - split; assumption. Qed.
Lemma n_remove_id n key : on_id (n_remove n key) = on_id n.
Proof. unfold n_remove. destruct (find_alloc (on_allocs n) key); [reflexivity|]. destruct (find_alloc (on_foreign n) key); reflexivity. Qed.

(* ------------------------------------------------------------------ SetCapacity *)
Theorem n_set_capacity_ledger n cap : NodeLedger n -> NodeWF n -> NodeSmall n -> wf cap -> rsmall cap ->
  NodeLedger (fst (n_set_capacity n cap)).
Proof. unfold n_set_capacity. intros [L1 L2 L3] [Wt Wo Wa Wv Wl Wf Kl Kf] [St So Sa Sv Sl Sf] Wc Sc.
  destruct (Equals (Some (on_total n)) (Some cap)); cbn [fst]; [split; assumption|].
  apply n_refresh_ledger; cbn [on_total on_allocated on_occupied on_allocs on_foreign]; try assumption.
  - apply Prune_wf. assumption.
  - intros k. rewrite Prune_getz by assumption. apply Sc.
  - intros k. specialize (Sa k). sm.
  - intros k. specialize (So k). sm. Qed.
Lemma n_set_capacity_wf n cap : NodeWF n -> wf cap -> NodeWF (fst (n_set_capacity n cap)).
Proof. unfold n_set_capacity. intros W Wc. destruct (Equals (Some (on_total n)) (Some cap)); cbn [fst]; [assumption|].
  apply n_refresh_wf. destruct W as [Wt Wo Wa Wv Wl Wf Kl Kf]. split; cbn [on_total on_allocated on_occupied on_available on_allocs on_foreign];
    try assumption. apply Prune_wf. assumption. Qed.
Lemma n_set_capacity_id n cap : on_id (fst (n_set_capacity n cap)) = on_id n.
Proof. unfold n_set_capacity. destruct (Equals (Some (on_total n)) (Some cap)); reflexivity. Qed.

(* ------------------------------------------------------------------ UpdateAllocatedResource *)
(* delta = newres - old as functions, for the allocation [old] the node lists under the key *)
Theorem n_update_alloc_ledger n key newres delta old :
  NodeLedger n -> NodeWF n -> NodeSmall n -> find_alloc (on_allocs n) key = Some old ->
  wf delta -> rsmall delta -> (forall k, getz delta k = getz newres k - getz (oa_res old) k) ->
  NodeLedger (n_update_alloc n key newres delta).
Proof. unfold n_update_alloc. intros [L1 L2 L3] [Wt Wo Wa Wv Wl Wf Kl Kf] [St So Sa Sv Sl Sf] E Wd Sd Hd.
  change (map (fun y => if (oa_key y =? key)%N then oa_with_res y newres else y) (on_allocs n)) with (set_res key newres (on_allocs n)).
  assert (G : forall k, getz (Prune (addTo (on_allocated n) delta)) k = getz (on_allocated n) k + getz delta k).
  { intros k. specialize (Sa k); specialize (Sd k). rewrite Prune_getz by (apply addTo_wf; assumption).
    apply addTo_getz; try assumption; sm. }
  apply n_refresh_ledger; nproj; try assumption.
  - apply Prune_wf, addTo_wf. assumption.
  - intros k. rewrite G. specialize (Sa k); specialize (Sd k). sm.
  - intros k. specialize (So k). sm.
  - intros k. rewrite G, asum_set_res, E, L1, Hd by assumption. reflexivity. Qed.

(* ------------------------------------------------------------------ UpdateForeignAllocation *)
Theorem n_update_foreign_ledger n x old :
  NodeLedger n -> NodeWF n -> NodeSmall n -> find_alloc (on_foreign n) (oa_key x) = Some old ->
  wf (oa_res x) -> rsmall (oa_res x) ->
  NodeLedger (n_update_foreign n x).
Proof. unfold n_update_foreign. intros [L1 L2 L3] [Wt Wo Wa Wv Wl Wf Kl Kf] [St So Sa Sv Sl Sf] E Wx Sx. rewrite E.
  assert (Wold := allocs_wf_find _ _ _ Wf E). assert (Sold : rsmall (oa_res old)) by (apply Sf; apply (find_alloc_some _ _ _ E)).
  cbn [Sub oget]. set (delta := Prune (subFrom (oa_res x) (oa_res old))).
  assert (Wd : wf delta) by (apply Prune_wf, subFrom_wf; assumption).
  assert (Gd : forall k, getz delta k = getz (oa_res x) k - getz (oa_res old) k).
  { intros k. unfold delta. rewrite Prune_getz by (apply subFrom_wf; assumption). specialize (Sx k); specialize (Sold k).
    apply subFrom_getz; try assumption; sm. }
  assert (G : forall k, getz (Prune (addTo (on_occupied n) delta)) k = getz (on_occupied n) k + getz delta k).
  { intros k. rewrite Prune_getz by (apply addTo_wf; assumption). specialize (Gd k). specialize (Sx k); specialize (Sold k); specialize (So k).
    apply addTo_getz; try assumption; sm. }
  apply n_refresh_ledger; nproj; try assumption.
  - apply Prune_wf, addTo_wf. assumption.
  - intros k. specialize (Sa k). sm.
  - intros k. rewrite G, Gd. specialize (Sx k); specialize (Sold k); specialize (So k). sm.
  - intros k. rewrite G, Gd, asum_put, E, L2 by assumption. lia. Qed.
Lemma n_update_foreign_wf n x : NodeWF n -> wf (oa_res x) -> NodeWF (n_update_foreign n x).
Proof. unfold n_update_foreign. intros [Wt Wo Wa Wv Wl Wf Kl Kf] Wx. destruct (find_alloc (on_foreign n) (oa_key x)) as [old|] eqn:E.
  - apply n_refresh_wf. split; nproj; try assumption; [|apply allocs_wf_put; assumption|apply akeys_put_nodup; assumption].
    apply Prune_wf, addTo_wf. assumption.
  - split; nproj; try assumption; [apply allocs_wf_put; assumption|apply akeys_put_nodup; assumption]. Qed.
Lemma n_update_foreign_id n x : on_id (n_update_foreign n x) = on_id n.
Proof. unfold n_update_foreign. destruct (find_alloc (on_foreign n) (oa_key x)); reflexivity. Qed.

(* the recorded known finding C01-foreign-moved: UpdateForeignAllocation stores the object before it checks that
   the node lists the allocation; for an allocation NOT on the node nothing is accounted and the ledger breaks *)
Definition wit_node : onode := mkON 1%N [(1%N, 10)] [] [] [(1%N, 10)] true [] [] [].
Definition wit_foreign : oalloc := mkOA 7%N 0%N 1%N [(1%N, 3)] false 0%N true false false 0%N 0%N 0 true false false false.
Theorem n_update_foreign_unknown_refuted :
  exists n x, node_ledger_ok n = true /\ find_alloc (on_foreign n) (oa_key x) = None /\ wf (oa_res x) /\ rsmall (oa_res x) /\
              node_ledger_ok (n_update_foreign n x) = false.
Proof. exists wit_node, wit_foreign. split; [vm_compute; reflexivity|]. split; [vm_compute; reflexivity|].
  split; [repeat constructor; cbn; tauto|]. split; [|vm_compute; reflexivity].
  intros k. unfold getz. cbn. destruct (k =? 1)%N; sm. Qed.

(* ------------------------------------------------------------------ negative available entries *)
Lemma node_has_negative_spec n : wf (on_available n) ->
  (node_has_negative n = false <-> forall k, 0 <= getz (on_available n) k).
Proof. intros W. change (node_has_negative n) with (HasNegativeValue (Some (on_available n))).
  pose proof (HasNegativeValue_spec (Some (on_available n)) W) as H. cbn [oget] in H. split.
  - intros E k. destruct (Z.ltb_spec (getz (on_available n) k) 0) as [C|]; [|assumption].
    assert (T : HasNegativeValue (Some (on_available n)) = true) by (apply H; eauto). congruence.
  - intros E. apply not_true_is_false. intros T. apply H in T. destruct T as [k T]. specialize (E k). lia. Qed.

Definition res_nonnegP (r : res) : Prop := forall k, 0 <= getz r k.

(* an unforced addition never drives an entry negative *)
Lemma n_add_unforced_nonneg n x n' : n_add n x false = Some n' -> wf (on_available n) -> wf (oa_res x) ->
  rsmall (on_available n) -> rsmall (oa_res x) ->
  res_nonnegP (on_available n) -> res_nonnegP (on_available n').
Proof. unfold n_add. cbn [orb]. intros H Wv Wx Sv Sx Hn.
  destruct (FitIn (Some (on_available n)) (Some (oa_res x))) eqn:E; [|discriminate].
  assert (G : forall k, getz (Prune (subFrom (on_available n) (oa_res x))) k = getz (on_available n) k - getz (oa_res x) k).
  { intros k. rewrite Prune_getz by (apply subFrom_wf; assumption). specialize (Sv k); specialize (Sx k).
    apply subFrom_getz; try assumption; sm. }
  assert (F : forall k, getz (oa_res x) k <= Z.max 0 (getz (on_available n) k)).
  { intros k. unfold getz at 1. destruct (get (oa_res x) k) as [v|] eqn:Eg; [|lia].
    apply (FitIn_spec (Some (on_available n)) (Some (oa_res x)) Wx) with (k := k) (v := v) in E; assumption. }
  inversion H; subst n'. intros k. specialize (F k). specialize (Hn k).
  destruct (oa_foreign x); nproj; rewrite G; lia. Qed.


Lemma n_remove_nonneg n key : NodeWF n -> NodeSmall n ->
  (forall x, In x (on_allocs n) \/ In x (on_foreign n) -> res_nonnegP (oa_res x)) ->
  res_nonnegP (on_available n) -> res_nonnegP (on_available (n_remove n key)).
Proof. unfold n_remove. intros [Wt Wo Wa Wv Wl Wf Kl Kf] [St So Sa Sv Sl Sf] Hx Hn.
  destruct (find_alloc (on_allocs n) key) as [x|] eqn:E1; [|destruct (find_alloc (on_foreign n) key) as [x|] eqn:E2];
    [| |assumption].
  - assert (Wx := allocs_wf_find _ _ _ Wl E1). apply find_alloc_some in E1. destruct E1 as [E1 _].
    intros k. nproj. specialize (Sl x E1 k). specialize (Hx x (or_introl E1) k). specialize (Sv k). specialize (Hn k).
    rewrite addTo_getz; try assumption; sm.
  - assert (Wx := allocs_wf_find _ _ _ Wf E2). apply find_alloc_some in E2. destruct E2 as [E2 _].
    intros k. nproj. specialize (Sf x E2 k). specialize (Hx x (or_intror E2) k). specialize (Sv k). specialize (Hn k).
    rewrite addTo_getz; try assumption; sm. Qed.

Lemma new_node_ledger id cap drain : NodeLedger (new_node id cap drain).
Proof. split; cbn [new_node on_allocated on_allocs on_occupied on_foreign on_available on_total]; intros k;
  [reflexivity|reflexivity|]. change (getz [] k) with 0. lia. Qed.
Lemma new_node_wf id cap drain : wf cap -> NodeWF (new_node id cap drain).
Proof. intros W. split; cbn [new_node on_allocated on_allocs on_occupied on_foreign on_available on_total];
  try (apply Prune_wf; assumption); try apply wf_nil; try (intros x []); constructor. Qed.
Lemma new_node_nonneg id cap drain : wf cap -> res_nonnegP cap -> res_nonnegP (on_available (new_node id cap drain)).
Proof. intros W H k. cbn [new_node on_available]. rewrite Prune_getz by assumption. apply H. Qed.

(* ------------------------------------------------------------------ the hypotheses are satisfiable *)
Definition ex_alloc (key : N) (r : res) (foreign : bool) : oalloc :=
  mkOA key 1%N 1%N r false 0%N true false false 0%N 0%N 0 foreign false false false.
Definition ex_node : onode :=
  mkON 1%N [(1%N, 100); (2%N, 8)] [(1%N, 5)] [(1%N, 30); (2%N, 3)] [(1%N, 65); (2%N, 5)] true
       [ex_alloc 11%N [(1%N, 10); (2%N, 1)] false; ex_alloc 12%N [(1%N, 20); (2%N, 2)] false]
       [ex_alloc 21%N [(1%N, 5)] true] [].

Lemma rsmall_check r : forallb (fun kv => (- lim <=? snd kv) && (snd kv <=? lim)) r = true -> rsmall r.
Proof. intros H k. unfold getz. destruct (get r k) as [v|] eqn:E; [|apply small_0].
  apply get_some_in in E. rewrite forallb_forall in H. specialize (H _ E). cbn [snd] in H. unfold small. lia. Qed.
Lemma wf_check r : (fix nd (l : list N) := match l with [] => true | a :: t => negb (memN a t) && nd t end) (keys r) = true -> wf r.
Proof. unfold wf. induction (keys r) as [|a t IH]; [constructor|]. rewrite andb_true_iff, negb_true_iff. intros [H1 H2].
  constructor; [|auto]. intros C. assert (T : memN a t = true); [|congruence].
  unfold memN. apply existsb_exists. exists a. split; [assumption|apply N.eqb_refl]. Qed.

Example ex_node_ok : NodeLedger ex_node /\ NodeWF ex_node /\ NodeSmall ex_node.
Proof. split; [apply node_ledger_reflect; vm_compute; reflexivity|]. split.
  - split; try (apply wf_check; vm_compute; reflexivity);
      try (intros x Hin; cbn in Hin; repeat (destruct Hin as [<-|Hin]; [apply wf_check; vm_compute; reflexivity|]); destruct Hin);
      cbn; repeat constructor; cbn; intuition discriminate.
  - split; try (apply rsmall_check; vm_compute; reflexivity);
      intros x Hin; cbn in Hin; repeat (destruct Hin as [<-|Hin]; [apply rsmall_check; vm_compute; reflexivity|]); destruct Hin. Qed.
(* every operation is exercised on the example node, and the executable oracle agrees *)
Example ex_node_ops :
  node_ledger_ok ex_node = true /\
  match n_add ex_node (ex_alloc 13%N [(1%N, 60); (2%N, 5)] false) false with Some n' => node_ledger_ok n' | None => false end = true /\
  n_add ex_node (ex_alloc 13%N [(1%N, 66)] false) false = None /\
  match n_add ex_node (ex_alloc 13%N [(1%N, 66)] false) true with Some n' => node_ledger_ok n' && node_has_negative n' | None => false end = true /\
  node_ledger_ok (n_remove ex_node 11%N) = true /\ node_ledger_ok (n_remove ex_node 21%N) = true /\
  node_ledger_ok (fst (n_set_capacity ex_node [(1%N, 20)])) = true /\
  node_ledger_ok (n_update_alloc ex_node 11%N [(1%N, 12); (2%N, 1)] [(1%N, 2)]) = true /\
  node_ledger_ok (n_update_foreign ex_node (ex_alloc 21%N [(1%N, 9)] true)) = true.
Proof. vm_compute. repeat split. Qed.
