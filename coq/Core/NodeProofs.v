(* C01, node level: the node ledger predicate of Core/Ledger.v (the oracle) is reflected as a pointwise
   statement, and every node operation of the operational model Core/Model.v (transcriptions of
   objects/node.go) preserves it.  Hypotheses used, and why:
     wf        (Base/ResSpec.v) no duplicate resource types in a vector: a Go map has none; the association
               list model needs it for "the loop visits every type once";
     small     every ledger entry / allocation size is within +-2^60, so that the saturating int64
               addVal / subVal the code uses are exact for the (at most three) additions one operation chains;
     NoDup of the allocation keys a node lists (a Go map keyed by allocation key). *)
From Coq Require Import List ZArith NArith Bool Lia ZifyBool.
From YK Require Import Base.Int64 Base.Int64Laws Base.Res Base.ResSpec Base.ResLemmas Base.ResLaws Base.ResLaws2
  Base.ResLawsPred Core.Obs Core.Model Core.Ledger.
Import ListNotations.
Open Scope Z_scope.

(* ------------------------------------------------------------------ vectors as functions *)
Lemma getz_notin r k : ~ In k (keys r) -> getz r k = 0.
Proof. intros H. apply get_none_iff in H. unfold getz. rewrite H. reflexivity. Qed.

Lemma sumz_cons r l k : sumz (r :: l) k = getz r k + sumz l k.
Proof. reflexivity. Qed.
Lemma sumz_app l1 l2 k : sumz (l1 ++ l2) k = sumz l1 k + sumz l2 k.
Proof. induction l1 as [|r t IH]; [reflexivity|]. rewrite <- app_comm_cons, !sumz_cons, IH. lia. Qed.
Lemma sumz_notin l k : ~ In k (res_keys l) -> sumz l k = 0.
Proof. induction l as [|r t IH]; [reflexivity|]. intros H. rewrite sumz_cons.
  unfold res_keys in H. cbn [flat_map] in H. rewrite getz_notin, IH; [reflexivity| |];
    intros C; apply H; apply in_or_app; auto. Qed.

(* the executable check [res_is_sum] (Core/Obs.v) says: r is the component-wise sum of l *)
Lemma res_is_sum_spec r l : res_is_sum r l = true <-> forall k, getz r k = sumz l k.
Proof. unfold res_is_sum. rewrite forallb_forall. split.
  - intros H k. destruct (in_dec N.eq_dec k (keys r ++ res_keys l)) as [Hin|Hni].
    + apply Z.eqb_eq. apply H. assumption.
    + rewrite getz_notin, sumz_notin; [reflexivity| |]; intros C; apply Hni; apply in_or_app; auto.
  - intros H k _. apply Z.eqb_eq. apply H. Qed.

(* ------------------------------------------------------------------ exact arithmetic under the bound *)
Definition lim : Z := 2^60.
Definition small (z : Z) : Prop := - lim <= z <= lim.
Definition rsmall (r : res) : Prop := forall k, small (getz r k).

Ltac sm := unfold small, lim, in_range, MIN, MAX in *; lia.

Lemma small_0 : small 0. Proof. sm. Qed.
Lemma rsmall_nil : rsmall []. Proof. intros k. apply small_0. Qed.

Lemma addTo_getz l r k : wf r -> in_range (getz l k) -> in_range (getz r k) -> in_range (getz l k + getz r k) ->
  getz (addTo l r) k = getz l k + getz r k.
Proof. intros Hwf Hl Hr Hs. rewrite !getz_get in *. rewrite addTo_get by assumption.
  destruct (get r k) as [y|]; cbn [oz] in *; [|lia]. apply addVal_exact; assumption. Qed.
Lemma subFrom_getz l r k : wf r -> in_range (getz l k) -> in_range (getz r k) -> in_range (getz l k - getz r k) ->
  getz (subFrom l r) k = getz l k - getz r k.
Proof. intros Hwf Hl Hr Hs. rewrite !getz_get in *. rewrite subFrom_get by assumption.
  destruct (get r k) as [y|]; cbn [oz] in *; [|lia]. apply subVal_exact; assumption. Qed.
Lemma addTo_wf l r : wf l -> wf (addTo l r).
Proof. intros H. unfold addTo. apply (fold_upd_wf addVal). assumption. Qed.
Lemma subFrom_wf l r : wf l -> wf (subFrom l r).
Proof. intros H. unfold subFrom. apply (fold_upd_wf subVal). assumption. Qed.
(* a type the right operand does not have is untouched *)
Lemma addTo_get_none l r k : wf r -> get r k = None -> get (addTo l r) k = get l k.
Proof. intros Hwf H. rewrite addTo_get, H by assumption. reflexivity. Qed.
Lemma subFrom_get_none l r k : wf r -> get r k = None -> get (subFrom l r) k = get l k.
Proof. intros Hwf H. rewrite subFrom_get, H by assumption. reflexivity. Qed.

(* entries of a well-formed vector are its function values *)
Lemma wf_entry_getz r k v : wf r -> In (k, v) r -> getz r k = v.
Proof. intros Hwf Hin. unfold getz. rewrite (in_get r k v Hwf Hin). reflexivity. Qed.
Lemma get_getz r k v : get r k = Some v -> getz r k = v.
Proof. intros H. unfold getz. rewrite H. reflexivity. Qed.

(* ------------------------------------------------------------------ allocation lists *)
Definition akeys (l : list oalloc) : list N := map oa_key l.
Definition asum (l : list oalloc) (k : tid) : Z := sumz (map oa_res l) k.

Lemma find_alloc_none l key : ~ In key (akeys l) -> find_alloc l key = None.
Proof. induction l as [|y t IH]; [reflexivity|]. cbn [akeys map In]. intros H. unfold find_alloc. cbn [find].
  destruct (N.eqb_spec (oa_key y) key) as [E|E]; [exfalso; auto|]. apply IH. auto. Qed.
Lemma find_alloc_some l key x : find_alloc l key = Some x -> In x l /\ oa_key x = key.
Proof. unfold find_alloc. intros H. apply find_some in H. destruct H as [H1 H2]. apply N.eqb_eq in H2. auto. Qed.
Lemma find_alloc_in_keys l key x : find_alloc l key = Some x -> In key (akeys l).
Proof. intros H. apply find_alloc_some in H. destruct H as [H1 <-]. apply in_map. assumption. Qed.
Lemma find_alloc_not_none l key : In key (akeys l) -> find_alloc l key <> None.
Proof. intros H C. unfold akeys in H. apply in_map_iff in H. destruct H as (x & E & Hin).
  unfold find_alloc in C. apply (find_none _ _ C) in Hin. rewrite E, N.eqb_refl in Hin. discriminate. Qed.

Lemma del_alloc_fresh l key : ~ In key (akeys l) -> del_alloc key l = l.
Proof. induction l as [|y t IH]; [reflexivity|]. cbn [akeys map In]. intros H. unfold del_alloc. cbn [filter].
  destruct (N.eqb_spec (oa_key y) key) as [E|E]; [exfalso; auto|]. cbn [negb]. f_equal. apply IH. auto. Qed.
Lemma akeys_del l key k' : In k' (akeys (del_alloc key l)) <-> In k' (akeys l) /\ k' <> key.
Proof. unfold akeys, del_alloc. rewrite !in_map_iff. split.
  - intros (x & E & Hin). apply filter_In in Hin. destruct Hin as [Hin Hne]. split; [eauto|].
    subst k'. intros C. rewrite C, N.eqb_refl in Hne. discriminate.
  - intros [(x & E & Hin) Hne]. exists x. split; [assumption|]. apply filter_In. split; [assumption|].
    subst k'. destruct (N.eqb_spec (oa_key x) key); [contradiction|reflexivity]. Qed.
Lemma NoDup_map_filter {A B} (g : A -> B) (f : A -> bool) l : NoDup (map g l) -> NoDup (map g (filter f l)).
Proof. induction l as [|y t IH]; [auto|]. cbn [map filter]. intros H. inversion H as [|? ? Hni Hnd]; subst.
  destruct (f y); [|auto]. cbn [map]. constructor; [|auto]. intros C. apply Hni.
  apply in_map_iff in C. destruct C as (x & E & Hin). apply filter_In in Hin. rewrite <- E. apply in_map. tauto. Qed.
Lemma akeys_del_nodup l key : NoDup (akeys l) -> NoDup (akeys (del_alloc key l)).
Proof. apply NoDup_map_filter. Qed.
Lemma akeys_put_nodup l x : NoDup (akeys l) -> NoDup (akeys (put_alloc x l)).
Proof. intros H. change (put_alloc x l) with (x :: del_alloc (oa_key x) l). cbn [akeys map]. constructor.
  - intros C. apply (akeys_del l (oa_key x) (oa_key x)) in C. tauto.
  - apply akeys_del_nodup. assumption. Qed.

Lemma asum_cons x l k : asum (x :: l) k = getz (oa_res x) k + asum l k.
Proof. reflexivity. Qed.
(* removing a key removes exactly the resource of the allocation stored under it *)
Lemma asum_del l key k : NoDup (akeys l) ->
  asum (del_alloc key l) k = asum l k - match find_alloc l key with Some x => getz (oa_res x) k | None => 0 end.
Proof. induction l as [|y t IH]; [reflexivity|]. cbn [akeys map]. intros H. inversion H as [|? ? Hni Hnd]; subst.
  unfold del_alloc, find_alloc. cbn [filter find]. destruct (N.eqb_spec (oa_key y) key) as [E|E]; cbn [negb].
  - subst key. fold (del_alloc (oa_key y) t). rewrite del_alloc_fresh by assumption. rewrite asum_cons. lia.
  - fold (del_alloc key t) (find_alloc t key). rewrite !asum_cons, IH by assumption. lia. Qed.
Lemma asum_put l x k : NoDup (akeys l) ->
  asum (put_alloc x l) k = asum l k + getz (oa_res x) k
                           - match find_alloc l (oa_key x) with Some y => getz (oa_res y) k | None => 0 end.
Proof. intros H. change (put_alloc x l) with (x :: del_alloc (oa_key x) l). rewrite asum_cons, asum_del by assumption. lia. Qed.
(* changing the resource of the allocation stored under a key *)
Definition set_res (key : N) (newres : res) (l : list oalloc) : list oalloc :=
  map (fun y => if (oa_key y =? key)%N then oa_with_res y newres else y) l.
Lemma akeys_set_res key newres l : akeys (set_res key newres l) = akeys l.
Proof. unfold akeys, set_res. rewrite map_map. apply map_ext. intros y. destruct (oa_key y =? key)%N; reflexivity. Qed.
Lemma asum_set_res l key newres k : NoDup (akeys l) ->
  asum (set_res key newres l) k =
  asum l k + match find_alloc l key with Some y => getz newres k - getz (oa_res y) k | None => 0 end.
Proof. induction l as [|y t IH]; [reflexivity|]. cbn [akeys map]. intros H. inversion H as [|? ? Hni Hnd]; subst.
  unfold set_res, find_alloc. cbn [map find]. fold (set_res key newres t) (find_alloc t key).
  rewrite !asum_cons, IH by assumption. destruct (N.eqb_spec (oa_key y) key) as [E|E].
  - subst key. rewrite (find_alloc_none t) by assumption. cbn [oa_with_res oa_res]. lia.
  - lia. Qed.

(* ------------------------------------------------------------------ C01.1: reflection of the oracle *)
Record NodeLedger (n : onode) : Prop := mkNL {
  nl_alloc : forall k, getz (on_allocated n) k = asum (on_allocs n) k;
  nl_occ : forall k, getz (on_occupied n) k = asum (on_foreign n) k;
  nl_avail : forall k, getz (on_available n) k = getz (on_total n) k - getz (on_allocated n) k - getz (on_occupied n) k }.

Theorem node_ledger_reflect n : node_ledger_ok n = true <-> NodeLedger n.
Proof. unfold node_ledger_ok. rewrite !andb_true_iff, !res_is_sum_spec, forallb_forall. split.
  - intros [[H1 H2] H3]. split; [exact H1|exact H2|]. intros k. fold (node_free n k).
    destruct (in_dec N.eq_dec k (keys (on_available n) ++ keys (on_total n) ++ keys (on_allocated n) ++ keys (on_occupied n)))
      as [Hin|Hni].
    + apply Z.eqb_eq. apply H3. assumption.
    + unfold node_free. rewrite !getz_notin; [reflexivity| | | |]; intros C; apply Hni; rewrite !in_app_iff; auto.
  - intros [H1 H2 H3]. split; [split; assumption|]. intros k _. apply Z.eqb_eq. apply H3. Qed.

Theorem nodes_ledger_reflect s : nodes_ledger_ok s = true <-> forall n, In n (s_nodes s) -> NodeLedger n.
Proof. unfold nodes_ledger_ok. rewrite forallb_forall. split; intros H n Hin; apply node_ledger_reflect; auto. Qed.

(* ------------------------------------------------------------------ side conditions on a node *)
Definition allocs_wf (l : list oalloc) : Prop := forall x, In x l -> wf (oa_res x).
Definition allocs_small (l : list oalloc) : Prop := forall x, In x l -> rsmall (oa_res x).

Record NodeWF (n : onode) : Prop := mkNW {
  nw_total : wf (on_total n); nw_occ : wf (on_occupied n); nw_alloc : wf (on_allocated n); nw_avail : wf (on_available n);
  nw_allocs : allocs_wf (on_allocs n); nw_foreign : allocs_wf (on_foreign n);
  nw_keys : NoDup (akeys (on_allocs n)); nw_fkeys : NoDup (akeys (on_foreign n)) }.
(* Bounded, node part *)
Record NodeSmall (n : onode) : Prop := mkNS {
  ns_total : rsmall (on_total n); ns_occ : rsmall (on_occupied n); ns_alloc : rsmall (on_allocated n);
  ns_avail : rsmall (on_available n) }.

Ltac nproj := cbn [n_with n_refresh on_id on_total on_occupied on_allocated on_available on_sched on_allocs on_foreign
                   on_reservations].

Lemma allocs_wf_put x l : wf (oa_res x) -> allocs_wf l -> allocs_wf (put_alloc x l).
Proof. intros Hx Hl y [<-|Hin]; [assumption|]. apply Hl. apply filter_In in Hin. tauto. Qed.
Lemma allocs_wf_del key l : allocs_wf l -> allocs_wf (del_alloc key l).
Proof. intros Hl y Hin. apply Hl. apply filter_In in Hin. tauto. Qed.
Lemma allocs_wf_find l key x : allocs_wf l -> find_alloc l key = Some x -> wf (oa_res x).
Proof. intros Hl H. apply Hl. apply find_alloc_some in H. tauto. Qed.

(* ------------------------------------------------------------------ refreshAvailableResource *)
Lemma n_refresh_avail n k : wf (on_total n) -> wf (on_allocated n) -> wf (on_occupied n) ->
  in_range (getz (on_total n) k) -> in_range (getz (on_allocated n) k) -> in_range (getz (on_occupied n) k) ->
  in_range (getz (on_total n) k - getz (on_allocated n) k) ->
  in_range (getz (on_total n) k - getz (on_allocated n) k - getz (on_occupied n) k) ->
  getz (on_available (n_refresh n)) k = getz (on_total n) k - getz (on_allocated n) k - getz (on_occupied n) k.
Proof. intros Wt Wa Wo Rt Ra Ro R1 R2. nproj.
  assert (E1 : getz (subFrom (on_total n) (on_allocated n)) k = getz (on_total n) k - getz (on_allocated n) k)
    by (apply subFrom_getz; assumption).
  rewrite Prune_getz by (apply subFrom_wf, subFrom_wf; assumption).
  rewrite subFrom_getz; rewrite ?E1; try assumption. reflexivity. Qed.

Lemma n_refresh_ledger n : wf (on_total n) -> wf (on_allocated n) -> wf (on_occupied n) ->
  rsmall (on_total n) -> (forall k, - 2 * lim <= getz (on_allocated n) k <= 2 * lim) ->
  (forall k, - 3 * lim <= getz (on_occupied n) k <= 3 * lim) ->
  (forall k, getz (on_allocated n) k = asum (on_allocs n) k) -> (forall k, getz (on_occupied n) k = asum (on_foreign n) k) ->
  NodeLedger (n_refresh n).
Proof. intros Wt Wa Wo St Sa So H1 H2. split; [exact H1|exact H2|]. intros k.
  rewrite n_refresh_avail; try assumption; [reflexivity|..]; specialize (St k); specialize (Sa k); specialize (So k); sm. Qed.
Lemma n_refresh_wf n : NodeWF n -> NodeWF (n_refresh n).
Proof. intros [Wt Wo Wa Wv Wl Wf Kl Kf]. split; nproj; try assumption.
  apply Prune_wf, subFrom_wf, subFrom_wf. assumption. Qed.
