(* Operational model of the scheduler core's ledger updates (yunikorn-core pkg/scheduler), written over
   the observation records of Core/Obs.v: a model state IS an [ostate]. Every function below transcribes the
   ledger updates of the Go function named in its comment, in the same order, using the resource operations of
   Base/Res.v (saturating int64 arithmetic, Prune where the code prunes).

   Scheduling nondeterminism: the model never predicts which ask/node the scheduler picks; [m_step] receives the
   observed decision (the events of the step) and validates / applies it.

   [m_step] returns [None] for steps outside the modelled fragment (gang swaps, reservations, preemption, reload,
   dynamic queue creation, node removal with in-flight swaps, timers): those steps are not validated and are
   reported as uncovered by the correspondence check. *)
From Coq Require Import List ZArith NArith Bool.
From YK Require Import Base.Int64 Base.Res Core.Obs.
Import ListNotations.
Open Scope N_scope.

(* ---------- state updaters ---------- *)
Definition upd_node (s : ostate) (id : N) (f : onode -> onode) : ostate :=
  mkOS (map (fun n => if on_id n =? id then f n else n) (s_nodes s)) (s_apps s) (s_queues s) (s_total s)
       (s_nallocs s) (s_nph s) (s_nres s) (s_foreign s) (s_completed s) (s_rejected s) (s_ugm s).
Definition upd_app (s : ostate) (id : N) (f : oapp -> oapp) : ostate :=
  mkOS (s_nodes s) (map (fun a => if ap_id a =? id then f a else a) (s_apps s)) (s_queues s) (s_total s)
       (s_nallocs s) (s_nph s) (s_nres s) (s_foreign s) (s_completed s) (s_rejected s) (s_ugm s).
Definition upd_queues (s : ostate) (f : oqueue -> oqueue) : ostate :=
  mkOS (s_nodes s) (s_apps s) (map f (s_queues s)) (s_total s)
       (s_nallocs s) (s_nph s) (s_nres s) (s_foreign s) (s_completed s) (s_rejected s) (s_ugm s).
Definition set_nodes (s : ostate) (l : list onode) : ostate :=
  mkOS l (s_apps s) (s_queues s) (s_total s) (s_nallocs s) (s_nph s) (s_nres s) (s_foreign s) (s_completed s) (s_rejected s) (s_ugm s).
Definition set_apps (s : ostate) (l : list oapp) : ostate :=
  mkOS (s_nodes s) l (s_queues s) (s_total s) (s_nallocs s) (s_nph s) (s_nres s) (s_foreign s) (s_completed s) (s_rejected s) (s_ugm s).
Definition set_total (s : ostate) (t : ores) : ostate :=
  mkOS (s_nodes s) (s_apps s) (s_queues s) t (s_nallocs s) (s_nph s) (s_nres s) (s_foreign s) (s_completed s) (s_rejected s) (s_ugm s).
Definition set_foreign (s : ostate) (l : list oalloc) : ostate :=
  mkOS (s_nodes s) (s_apps s) (s_queues s) (s_total s) (s_nallocs s) (s_nph s) (s_nres s) l (s_completed s) (s_rejected s) (s_ugm s).
Definition add_counts (s : ostate) (da dph : Z) : ostate :=
  mkOS (s_nodes s) (s_apps s) (s_queues s) (s_total s) (s_nallocs s + da)%Z (s_nph s + dph)%Z (s_nres s) (s_foreign s) (s_completed s) (s_rejected s) (s_ugm s).

(* ---------- allocation record updaters ---------- *)
Definition oa_with_res (x : oalloc) (r : res) : oalloc :=
  mkOA (oa_key x) (oa_app x) (oa_node x) r (oa_ph x) (oa_tg x) (oa_allocated x) (oa_released x) (oa_preempted x)
       (oa_release x) (oa_reqnode x) (oa_prio x) (oa_foreign x) (oa_orig x) (oa_preemptself x) (oa_preemptother x).
Definition oa_bound (x : oalloc) (node : N) : oalloc :=
  mkOA (oa_key x) (oa_app x) node (oa_res x) (oa_ph x) (oa_tg x) true (oa_released x) (oa_preempted x)
       (oa_release x) (oa_reqnode x) (oa_prio x) (oa_foreign x) (oa_orig x) (oa_preemptself x) (oa_preemptother x).
Definition put_alloc (x : oalloc) (l : list oalloc) : list oalloc :=
  x :: filter (fun y => negb (oa_key y =? oa_key x)) l.
Definition del_alloc (k : N) (l : list oalloc) : list oalloc := filter (fun y => negb (oa_key y =? k)) l.

Definition alloc_of_req (r : oreq) : oalloc :=
  mkOA (rq_key r) (rq_app r) (rq_node r) (oget (rq_res r)) (rq_ph r) (rq_tg r) (negb (rq_node r =? 0)) false false 0
       (rq_reqnode r) (rq_prio r) (rq_foreign r) (rq_orig r) (rq_preemptself r) (rq_preemptother r).

(* ---------- node ledger (objects/node.go) ---------- *)
Definition n_with (n : onode) (occ alloc avail : res) (allocs foreign : list oalloc) : onode :=
  mkON (on_id n) (on_total n) occ alloc avail (on_sched n) allocs foreign (on_reservations n).

(* refreshAvailableResource *)
Definition n_refresh (n : onode) : onode :=
  n_with n (on_occupied n) (on_allocated n)
         (Prune (subFrom (subFrom (on_total n) (on_allocated n)) (on_occupied n))) (on_allocs n) (on_foreign n).

(* addAllocationInternal(alloc, force) *)
Definition n_add (n : onode) (x : oalloc) (force : bool) : option onode :=
  if force || FitIn (Some (on_available n)) (Some (oa_res x)) then
    Some (if oa_foreign x
          then n_with n (Add (Some (on_occupied n)) (Some (oa_res x))) (on_allocated n)
                      (Prune (subFrom (on_available n) (oa_res x))) (on_allocs n) (put_alloc x (on_foreign n))
          else n_with n (on_occupied n) (addTo (on_allocated n) (oa_res x))
                      (Prune (subFrom (on_available n) (oa_res x))) (put_alloc x (on_allocs n)) (on_foreign n))
  else None.

(* RemoveAllocation(key) *)
Definition n_remove (n : onode) (k : N) : onode :=
  match find_alloc (on_allocs n) k with
  | Some x => n_with n (on_occupied n) (Prune (subFrom (on_allocated n) (oa_res x)))
                     (addTo (on_available n) (oa_res x)) (del_alloc k (on_allocs n)) (on_foreign n)
  | None =>
      match find_alloc (on_foreign n) k with
      | Some x => n_with n (Sub (Some (on_occupied n)) (Some (oa_res x))) (on_allocated n)
                         (addTo (on_available n) (oa_res x)) (on_allocs n) (del_alloc k (on_foreign n))
      | None => n
      end
  end.

(* SetCapacity(newCapacity) *)
Definition n_set_capacity (n : onode) (cap : res) : onode * option res :=
  if Equals (Some (on_total n)) (Some cap) then (n, None)
  else (n_refresh (mkON (on_id n) (Prune cap) (on_occupied n) (on_allocated n) (on_available n) (on_sched n)
                        (on_allocs n) (on_foreign n) (on_reservations n)),
        Some (Sub (Some cap) (Some (on_total n)))).

(* UpdateAllocatedResource(delta) together with the resource change of the shared Allocation object *)
Definition n_update_alloc (n : onode) (k : N) (newres delta : res) : onode :=
  n_refresh (n_with n (on_occupied n) (Prune (addTo (on_allocated n) delta)) (on_available n)
                    (map (fun y => if oa_key y =? k then oa_with_res y newres else y) (on_allocs n)) (on_foreign n)).

(* UpdateForeignAllocation(alloc): the object is stored before the existence check (known finding) *)
Definition n_update_foreign (n : onode) (x : oalloc) : onode :=
  match find_alloc (on_foreign n) (oa_key x) with
  | None => n_with n (on_occupied n) (on_allocated n) (on_available n) (on_allocs n) (put_alloc x (on_foreign n))
  | Some old =>
      let delta := Prune (Sub (Some (oa_res x)) (Some (oa_res old))) in
      n_refresh (n_with n (Prune (addTo (on_occupied n) delta)) (on_allocated n) (on_available n) (on_allocs n)
                        (put_alloc x (on_foreign n)))
  end.

(* ---------- queue ledgers (objects/queue.go) ---------- *)
Definition q_with (q : oqueue) (mx : ores) (alloc pending : res) : oqueue :=
  mkOQ (q_id q) (q_parent q) (q_leaf q) (q_managed q) (q_state q) mx (q_guar q) alloc pending (q_preempting q)
       (q_running q) (q_maxrunning q) (q_allocating q) (q_reserved q) (q_apps q).

Fixpoint path_ids_fuel (fuel : nat) (s : ostate) (q : N) : list N :=
  match fuel with
  | O => []
  | S f => match find_queue s q with
           | None => []
           | Some oq => q :: (if q_parent oq =? 0 then [] else path_ids_fuel f s (q_parent oq))
           end
  end.
(* the queue and its ancestors *)
Definition path_ids (s : ostate) (q : N) : list N := path_ids_fuel (S (length (s_queues s))) s q.

Definition on_path (s : ostate) (path : list N) (f : oqueue -> oqueue) : ostate :=
  upd_queues s (fun q => if memN (q_id q) path then f q else q).

(* allocatedResFits *)
Definition q_fits (q : oqueue) (r : res) : bool :=
  let sum := AddOnlyExisting (Some r) (Some (q_alloc q)) in
  if q_parent q =? 0 then FitIn (q_max q) sum else FitInMaxUndef (q_max q) sum.

(* TryIncAllocatedResource: every ancestor is checked against its own pre-state before anything is updated *)
Definition q_try_inc (s : ostate) (leaf : N) (r : res) : option ostate :=
  let path := path_ids s leaf in
  if forallb (fun qid => match find_queue s qid with Some q => q_fits q r | None => false end) path
  then Some (on_path s path (fun q => q_with q (q_max q) (Add (Some (q_alloc q)) (Some r)) (q_pending q)))
  else None.
(* IncAllocatedResource: no limit checked *)
Definition q_inc (s : ostate) (leaf : N) (r : res) : ostate :=
  on_path s (path_ids s leaf) (fun q => q_with q (q_max q) (Add (Some (q_alloc q)) (Some r)) (q_pending q)).
(* DecAllocatedResource: every ancestor must hold at least r, otherwise nothing changes *)
Definition q_dec (s : ostate) (leaf : N) (r : res) : ostate :=
  let path := path_ids s leaf in
  if forallb (fun qid => match find_queue s qid with
                         | Some q => FitInActual (Some (q_alloc q)) (Some r) | None => false end) path
  then on_path s path (fun q => q_with q (q_max q) (Prune (Sub (Some (q_alloc q)) (Some r))) (q_pending q))
  else s.
Definition q_inc_pending (s : ostate) (leaf : N) (r : res) : ostate :=
  on_path s (path_ids s leaf) (fun q => q_with q (q_max q) (q_alloc q) (Add (Some (q_pending q)) (Some r))).
(* decPendingResource: SubErrorNegative; pruned only when nothing went negative *)
Definition q_dec_pending (s : ostate) (leaf : N) (r : res) : ostate :=
  on_path s (path_ids s leaf) (fun q =>
    let '(p, err) := SubErrorNegative (Some (q_pending q)) (Some r) in
    q_with q (q_max q) (q_alloc q) (if err then p else Prune p)).

(* updatePartitionResource(delta): total += delta, pruned; the root maximum follows *)
Definition part_update_total (s : ostate) (delta : res) : ostate :=
  let t := match s_total s with None => delta | Some t0 => addTo t0 delta end in
  let t := Prune t in
  upd_queues (set_total s (Some t)) (fun q => if q_parent q =? 0 then q_with q (Some t) (q_alloc q) (q_pending q) else q).

(* ---------- application ledgers (objects/application.go) ---------- *)
Definition ap_with (a : oapp) (st : N) (pending allocated phalloc : res) (reqs allocs : list oalloc) (slog : list N) : oapp :=
  mkOApp (ap_id a) (ap_queue a) st (ap_user a) pending allocated phalloc (ap_phask a) reqs allocs (ap_reservations a)
         (ap_phdata a) slog (ap_phtimer a) (ap_statetimer a) (ap_forced a) (ap_hasph a).

(* the application FSM restricted to RunApplication / CompleteApplication (objects/application_state.go) *)
Definition fsm_run (st : N) : N :=
  if (st =? ST_New) || (st =? ST_Resuming) then ST_Accepted
  else if (st =? ST_Accepted) || (st =? ST_Running) || (st =? ST_Completing) then ST_Running else st.
Definition fsm_complete (st : N) : N :=
  if (st =? ST_Accepted) || (st =? ST_Running) then ST_Completing
  else if st =? ST_Completing then ST_Completed else st.
Definition ap_event (a : oapp) (st' : N) : oapp :=
  if st' =? ap_state a then a
  else ap_with a st' (ap_pending a) (ap_allocated a) (ap_phalloc a) (ap_requests a) (ap_allocs a) (ap_statelog a ++ [st']).

(* ---------- the steps ---------- *)
Definition new_node (id : N) (cap : res) (drain : bool) : onode :=
  mkON id (Prune cap) [] [] (Prune cap) (negb drain) [] [] [].

(* processNodes CREATE / CREATE_DRAIN *)
Definition m_node_add (s : ostate) (id : N) (cap : res) (drain : bool) : option ostate :=
  match find_node s id with
  | Some _ => Some s                      (* rejected: nothing changes *)
  | None => Some (part_update_total (set_nodes s (s_nodes s ++ [new_node id cap drain])) cap)
  end.

(* updateNode UPDATE *)
Definition m_node_update (s : ostate) (id : N) (cap : ores) : option ostate :=
  match find_node s id, cap with
  | Some n, Some c =>
      let '(n', delta) := n_set_capacity n c in
      let s1 := upd_node s id (fun _ => n') in
      Some (match delta with Some d => part_update_total s1 d | None => s1 end)
  | _, _ => Some s
  end.

Definition m_node_sched (s : ostate) (id : N) (b : bool) : option ostate :=
  Some (upd_node s id (fun n => mkON (on_id n) (on_total n) (on_occupied n) (on_allocated n) (on_available n) b
                                      (on_allocs n) (on_foreign n) (on_reservations n))).

(* AddAllocationAsk for a new key *)
Definition m_new_ask (s : ostate) (a : oapp) (x : oalloc) : ostate :=
  let st' := if (ap_state a =? ST_New) || (ap_state a =? ST_Completing) then fsm_run (ap_state a) else ap_state a in
  let a1 := ap_event a st' in
  let a2 := ap_with a1 (ap_state a1) (Prune (Add (Some (ap_pending a1)) (Some (oa_res x)))) (ap_allocated a1) (ap_phalloc a1)
                    (put_alloc x (ap_requests a1)) (ap_allocs a1) (ap_statelog a1) in
  q_inc_pending (upd_app s (ap_id a) (fun _ => a2)) (ap_queue a) (oa_res x).

(* "new allocation already assigned" branch of UpdateAllocation (recovery) *)
Definition m_recovered (s : ostate) (a : oapp) (n : onode) (x : oalloc) : option ostate :=
  if oa_ph x then None else      (* recovered placeholders belong to the gang fragment *)
  match n_add n x true with
  | None => None
  | Some n' =>
      let s1 := q_inc s (ap_queue a) (oa_res x) in
      let s2 := upd_node s1 (on_id n) (fun _ => n') in
      let st1 := if ap_state a =? ST_New then fsm_run (ap_state a) else ap_state a in   (* RecoverAllocationAsk *)
      let a1 := ap_event a st1 in
      let a2 := ap_event a1 (fsm_run (ap_state a1)) in                                    (* addAllocationInternal *)
      let a3 := ap_with a2 (ap_state a2) (ap_pending a2) (Add (Some (ap_allocated a2)) (Some (oa_res x))) (ap_phalloc a2)
                        (put_alloc x (ap_requests a2)) (put_alloc x (ap_allocs a2)) (ap_statelog a2) in
      Some (add_counts (upd_app s2 (ap_id a) (fun _ => a3)) 1 0)
  end.

(* the guards of tryNodes / tryNode for a node without reservations and an ask without required node:
   schedulable, FitInNode (fits the node's capacity at all), preAllocateCheck (positive request, fits what is
   available), preAllocateConditions (the shim's predicate, a table here) *)
Definition m_node_guard (deny : list (N * N)) (n : onode) (ask : oalloc) : bool :=
  on_sched n && FitIn (Some (on_total n)) (Some (oa_res ask)) && StrictlyGreaterThanZero (Some (oa_res ask))
  && FitIn (Some (on_available n)) (Some (oa_res ask))
  && negb (existsb (fun p => (fst p =? oa_key ask) && (snd p =? on_id n)) deny).

(* a normal scheduling decision: tryNodes / tryNode + partition.allocate.
   Modelled fragment: the ask names no required node, neither the application nor the node holds reservations. *)
Definition m_sched_alloc (deny : list (N * N)) (s : ostate) (a : oapp) (k nid : N) : option ostate :=
  match find_alloc (ap_requests a) k, find_node s nid with
  | Some ask, Some n =>
      if oa_allocated ask || oa_ph ask || negb (match ap_reservations a with [] => true | _ => false end)
         || negb (oa_reqnode ask =? 0) || negb (match on_reservations n with [] => true | _ => false end) then None else
      if negb (m_node_guard deny n ask) then None else
      match n_add n (oa_bound ask nid) false with
      | None => None
      | Some n' =>
          match q_try_inc s (ap_queue a) (oa_res ask) with
          | None => None
          | Some s1 =>
              let s2 := upd_node s1 nid (fun _ => n') in
              let s3 := q_dec_pending s2 (ap_queue a) (oa_res ask) in
              let a1 := ap_event a (fsm_run (ap_state a)) in
              let x := oa_bound ask nid in
              let a2 := ap_with a1 (ap_state a1) (Prune (Sub (Some (ap_pending a1)) (Some (oa_res ask))))
                                (Add (Some (ap_allocated a1)) (Some (oa_res ask))) (ap_phalloc a1)
                                (put_alloc x (ap_requests a1)) (put_alloc x (ap_allocs a1)) (ap_statelog a1) in
              Some (add_counts (upd_app s3 (ap_id a) (fun _ => a2)) 1 0)
          end
      end
  | _, _ => None
  end.

(* removeAllocation for a bound real allocation without in-flight link, termination type other than
   PLACEHOLDER_REPLACED, followed by RemoveAllocationAsk unless TIMEOUT *)
Definition m_release_alloc (s : ostate) (a : oapp) (x : oalloc) (ttype : N) : option ostate :=
  if oa_ph x || negb (oa_release x =? 0) || negb (match ap_reservations a with [] => true | _ => false end) then None else
  match find_node s (oa_node x) with
  | None => None
  | Some n =>
      let allocated' := Prune (Sub (Some (ap_allocated a)) (Some (oa_res x))) in
      let zero := IsZero (Some (ap_pending a)) && IsZero (Some allocated') in
      let a1 := ap_event a (if zero then fsm_complete (ap_state a) else ap_state a) in
      let reqs := if ttype =? TT_Timeout then ap_requests a1 else del_alloc (oa_key x) (ap_requests a1) in
      let a2 := ap_with a1 (ap_state a1) (ap_pending a1) allocated' (ap_phalloc a1) reqs (del_alloc (oa_key x) (ap_allocs a1)) (ap_statelog a1) in
      let s1 := upd_app s (ap_id a) (fun _ => a2) in
      let s2 := upd_node s1 (on_id n) (fun _ => n_remove n (oa_key x)) in
      let s3 := if StrictlyGreaterThanZero (Some (oa_res x)) then q_dec s2 (ap_queue a) (oa_res x) else s2 in
      Some (add_counts s3 (-1) 0)
  end.

(* removal of a pending (never allocated) ask: removeAsksInternal(key) *)
Definition m_release_ask (s : ostate) (a : oapp) (x : oalloc) : option ostate :=
  if oa_allocated x || negb (match ap_reservations a with [] => true | _ => false end) then None else
  let pending' := Prune (Sub (Some (ap_pending a)) (Some (oa_res x))) in
  let hasph := existsb oa_ph (ap_allocs a) in
  let complete := IsZero (Some pending') && IsZero (Some (ap_allocated a)) && negb (ap_state a =? ST_Failing)
                  && negb (ap_state a =? ST_Completing) && negb hasph in
  let a1 := ap_with a (ap_state a) pending' (ap_allocated a) (ap_phalloc a) (del_alloc (oa_key x) (ap_requests a)) (ap_allocs a) (ap_statelog a) in
  let s1 := q_dec_pending (upd_app s (ap_id a) (fun _ => a1)) (ap_queue a) (oa_res x) in
  Some (if complete then upd_app s1 (ap_id a) (fun b => ap_event b (fsm_complete (ap_state b))) else s1).

Definition is_new_alloc_for (evs : list oevent) : option (N * N * N) :=
  match filter (fun e => match e with ENewAlloc _ _ _ _ _ => true | _ => false end) evs with
  | [ENewAlloc k a n _ _] => Some (k, a, n)
  | _ => None
  end.
Definition no_release_events (evs : list oevent) : bool :=
  forallb (fun e => match e with ERelease _ _ _ => false | _ => true end) evs.

Definition m_alloc (s : ostate) (r : oreq) : option ostate :=
  if negb (rq_partition_ok r) then Some s else
  let x := alloc_of_req r in
  if rq_foreign r then
    (* handleForeignAllocation *)
    if rq_node r =? 0 then Some s else
    match find_node s (rq_node r) with
    | None => Some s
    | Some n =>
        match find_alloc (s_foreign s) (rq_key r) with
        | None => match n_add n x true with
                  | Some n' => Some (upd_node (set_foreign s (s_foreign s ++ [x])) (on_id n) (fun _ => n'))
                  | None => None end
        | Some _ => Some (upd_node s (on_id n) (fun _ => n_update_foreign n x))
        end
    end
  else
  match find_app s (rq_app r) with
  | None => Some s                                                       (* unknown application: rejected *)
  | Some a =>
      if negb (rq_node r =? 0) && match find_node s (rq_node r) with None => true | _ => false end then Some s else
      if IsZero (rq_res r) || negb (StrictlyGreaterThanZero (rq_res r)) then Some s else
      match find_alloc (ap_requests a) (rq_key r) with
      | None =>
          if rq_node r =? 0 then
            (if rq_ph r then None else
             if (ap_state a =? ST_New) || (ap_state a =? ST_Accepted) || (ap_state a =? ST_Running) || (ap_state a =? ST_Completing)
             then Some (m_new_ask s a x) else None)
          else match find_node s (rq_node r) with Some n => m_recovered s a n x | None => Some s end
      | Some _ => None        (* updates of existing keys: not in the modelled fragment *)
      end
  end.

Definition m_release (s : ostate) (app key ttype : N) : option ostate :=
  if app =? 0 then
    (* removeForeignAllocation *)
    match find_alloc (s_foreign s) key with
    | None => Some s
    | Some f =>
        let s1 := set_foreign s (del_alloc key (s_foreign s)) in
        Some (match find_node s1 (oa_node f) with
              | Some n => upd_node s1 (on_id n) (fun _ => n_remove n key)
              | None => s1 end)
    end
  else
  match find_app s app with
  | None => Some s
  | Some a =>
      if (key =? 0) || (ttype =? TT_PlaceholderReplaced) then None else
      match find_alloc (ap_allocs a) key with
      | Some x => m_release_alloc s a x ttype
      | None =>
          match find_alloc (ap_requests a) key with
          | Some x => if ttype =? TT_Timeout then Some s else m_release_ask s a x
          | None => Some s
          end
      end
  end.

Definition m_step (deny : list (N * N)) (s : ostate) (st : ostep) : option ostate :=
  if st_panic st then None else
  match st_op st with
  | OpNodeAdd id cap drain => m_node_add s id cap drain
  | OpNodeUpdate id cap => m_node_update s id cap
  | OpNodeDrain id => m_node_sched s id false
  | OpNodeUndrain id => m_node_sched s id true
  | OpAlloc r => m_alloc s r
  | OpRelease app key ttype => m_release s app key ttype
  | OpSched =>
      match st_events st with
      | [] => if Z.eqb (s_nres s) (s_nres (st_obs st)) then Some s else None   (* nothing decided (a reservation would change the counter) *)
      | evs =>
          if negb (no_release_events evs) then None else
          match is_new_alloc_for evs with
          | Some (k, a, n) => match find_app s a with Some ap => m_sched_alloc deny s ap k n | None => None end
          | None => None
          end
      end
  | _ => None
  end.
