(* C03: the statement.  [Books s] is the conjunction of the boolean predicates of Core/Ledger.v that the oracle
   [c03_state] (Oracles/CoreC01.v) evaluates on the real scheduler's observations, reflected into pointwise
   propositions; [Inv s] collects the auxiliary invariants (well-formedness) the preservation proofs need;
   [Bounded s] says that saturating int64 arithmetic is exact for one more addition / subtraction. *)
From Coq Require Import List ZArith NArith Bool Lia ZifyBool.
From YK Require Import Base.Int64 Base.Int64Laws Base.Res Base.ResSpec Base.ResLemmas Base.ResLaws Base.ResLaws2
  Base.ResLawsPred Core.Obs Core.Model Core.Ledger Core.BooksLemmas Oracles.CoreC01.
Import ListNotations.
Open Scope Z_scope.

(* ================================================================== the books, pointwise *)
Record AppBooks (a : oapp) : Prop := mkAB {
  ab_alloc : forall k, getz (ap_allocated a) k = asum (real_allocs a) k;
  ab_ph : forall k, getz (ap_phalloc a) k = asum (ph_allocs a) k;
  ab_pend : forall k, getz (ap_pending a) k = asum (pending_asks a) k;
  ab_nn_alloc : rnonneg (ap_allocated a);
  ab_nn_ph : rnonneg (ap_phalloc a);
  ab_nn_pend : rnonneg (ap_pending a) }.

Definition app_usage (s : ostate) (q : N) : list res :=
  map ap_allocated (apps_of_queue s q) ++ map ap_phalloc (apps_of_queue s q).

Record QueueBooks (s : ostate) (q : oqueue) : Prop := mkQB {
  qb_nn_alloc : rnonneg (q_alloc q);
  qb_nn_pend : rnonneg (q_pending q);
  qb_leaf_alloc : q_leaf q = true -> forall k, getz (q_alloc q) k = sumz (app_usage s (q_id q)) k;
  qb_leaf_pend : q_leaf q = true -> forall k, getz (q_pending q) k = sumz (map ap_pending (apps_of_queue s (q_id q))) k;
  qb_parent_alloc : q_leaf q = false -> forall k, getz (q_alloc q) k = sumz (map q_alloc (children_of s (q_id q))) k;
  qb_parent_pend : q_leaf q = false -> forall k, getz (q_pending q) k = sumz (map q_pending (children_of s (q_id q))) k }.

Definition NodeOwned (s : ostate) : Prop :=
  forall n x, In n (s_nodes s) -> In x (on_allocs n) -> node_alloc_owned s x = true.
Definition AppOnNode (s : ostate) : Prop :=
  forall a x, In a (s_apps s) -> In x (ap_allocs a) -> app_alloc_on_node s x = true.

Record Books0 (s : ostate) : Prop := mkB0 {
  bk_apps : forall a, In a (s_apps s) -> AppBooks a;
  bk_queues : forall q, In q (s_queues s) -> QueueBooks s q;
  bk_owned : NodeOwned s;
  bk_onnode : AppOnNode s;
  bk_root : root_matches_nodes s = true }.
(* ... and nothing leaks *)
Definition Books (s : ostate) : Prop := Books0 s /\ drained_ok s = true.

(* ------------------------------------------------------------------ reflection of the boolean predicates *)
Lemma app_books_reflect a : app_books_ok a = true <-> AppBooks a.
Proof. unfold app_books_ok. rewrite !andb_true_iff, !res_is_sum_spec, !res_nonneg_spec. split.
  - intros [[[[[H1 H2] H3] H4] H5] H6]. constructor; assumption.
  - intros [H1 H2 H3 H4 H5 H6]. repeat split; assumption. Qed.

Lemma queue_books_reflect s q : queue_books_ok s q = true <-> QueueBooks s q.
Proof. unfold queue_books_ok. rewrite !andb_true_iff, !res_nonneg_spec. split.
  - intros [[H1 H2] H3]. destruct (q_leaf q) eqn:El; rewrite andb_true_iff, !res_is_sum_spec in H3; destruct H3 as [H3 H4];
      constructor; auto; intros; congruence.
  - intros [H1 H2 H3 H4 H5 H6]. split; [split; assumption|]. destruct (q_leaf q); rewrite andb_true_iff, !res_is_sum_spec; auto. Qed.

Lemma if_nil_iff (b : bool) (x : N) : (if b then [] else [x]) = [] <-> b = true.
Proof. destruct b; split; intros; congruence. Qed.

Lemma app_nil_iff {A} (l1 l2 : list A) : l1 ++ l2 = [] <-> l1 = [] /\ l2 = [].
Proof. split; [apply app_eq_nil|]. intros [-> ->]. reflexivity. Qed.

Theorem books_reflect s : Books s <-> c03_state s = [].
Proof. unfold c03_state, Books. rewrite !app_nil_iff, !if_nil_iff, !forallb_forall. split.
  - intros [[H1 H2 H3 H4 H5] H6]. repeat split; auto.
    + intros a Ha. apply app_books_reflect. auto.
    + intros q Hq. apply queue_books_reflect. auto.
    + intros n Hn. apply forallb_forall. intros x Hx. apply (H3 n x); assumption.
    + intros a Ha. apply forallb_forall. intros x Hx. apply (H4 a x); assumption.
  - intros (H1 & H2 & H3 & H4 & H5 & H6). split; [|assumption]. constructor; auto.
    + intros a Ha. apply app_books_reflect. auto.
    + intros q Hq. apply queue_books_reflect. auto.
    + intros n x Hn Hx. specialize (H3 n Hn). rewrite forallb_forall in H3. auto.
    + intros a x Ha Hx. specialize (H4 a Ha). rewrite forallb_forall in H4. auto. Qed.

(* ================================================================== auxiliary invariants *)
(* an allocation / ask record as the model creates them for application [id] *)
Record AllocOK (id : N) (x : oalloc) : Prop := mkAO {
  ao_wf : wf (oa_res x);
  ao_nn : rnonneg (oa_res x);
  ao_link : oa_release x = 0%N;
  ao_app : oa_app x = id;
  ao_native : oa_foreign x = false }.

Record AppWF (a : oapp) : Prop := mkAW {
  aw_req_keys : NoDup (akeys (ap_requests a));
  aw_alloc_keys : NoDup (akeys (ap_allocs a));
  aw_req : forall x, In x (ap_requests a) -> AllocOK (ap_id a) x;
  aw_alloc : forall x, In x (ap_allocs a) -> AllocOK (ap_id a) x;
  (* the request and the allocation maps share the object: a listed allocation is an allocated request *)
  aw_allocreq : forall y, In y (ap_allocs a) -> exists r, In r (ap_requests a) /\ oa_key r = oa_key y /\ oa_allocated r = true;
  aw_pending : wf (ap_pending a);
  aw_allocated : wf (ap_allocated a) }.

Record NodeOK (s : ostate) (n : onode) : Prop := mkNK {
  nk_keys : NoDup (akeys (on_allocs n));
  nk_node : forall y, In y (on_allocs n) -> oa_node y = on_id n /\ oa_release y = 0%N;
  (* node and application hold the same object *)
  nk_same : forall y a x, In y (on_allocs n) -> In a (s_apps s) -> In x (ap_allocs a) -> oa_key x = oa_key y -> x = y;
  nk_ledger : forall k, getz (on_allocated n) k = asum (on_allocs n) k;
  nk_wf : wf (on_allocated n) }.

(* the queue tree: unique non-zero identifiers, one root, every path of ancestors reaches the root without
   repetition (hence every parent exists), leaf queues have no children *)
Record TreeOK (s : ostate) : Prop := mkTK {
  tk_ids : NoDup (map q_id (s_queues s));
  tk_nz : forall q, In q (s_queues s) -> q_id q <> 0%N;
  tk_root : forall q1 q2, In q1 (s_queues s) -> In q2 (s_queues s) -> q_parent q1 = 0%N -> q_parent q2 = 0%N -> q_id q1 = q_id q2;
  tk_path : forall q, In q (s_queues s) -> NoDup (path_ids s (q_id q)) /\ complete s (path_ids s (q_id q));
  tk_leaf : forall c p, In c (s_queues s) -> In p (s_queues s) -> q_parent c = q_id p -> q_leaf p = false }.

Record Inv (s : ostate) : Prop := mkInv {
  inv_app_ids : NoDup (map ap_id (s_apps s));
  inv_node_ids : NoDup (map on_id (s_nodes s));
  inv_tree : TreeOK s;
  inv_app_leaf : forall a, In a (s_apps s) -> exists q, find_queue s (ap_queue a) = Some q /\ q_leaf q = true;
  inv_app_wf : forall a, In a (s_apps s) -> AppWF a;
  inv_q_wf : forall q, In q (s_queues s) -> wf (q_alloc q) /\ wf (q_pending q);
  (* allocation keys are unique in the partition, and distinct from the keys of foreign allocations *)
  inv_keys : forall a1 a2 x1 x2, In a1 (s_apps s) -> In a2 (s_apps s) -> In x1 (ap_requests a1) -> In x2 (ap_requests a2) ->
             oa_key x1 = oa_key x2 -> ap_id a1 = ap_id a2;
  inv_foreign : forall f a x, In f (s_foreign s) -> In a (s_apps s) -> In x (ap_requests a) -> oa_key f <> oa_key x;
  inv_nodes : forall n, In n (s_nodes s) -> NodeOK s n;
  inv_count : s_nallocs s = Z.of_nat (length (all_allocs s)) }.

(* every ledger entry and every allocation size is within [-2^62, 2^62) *)
Record AppBounded (a : oapp) : Prop := mkABd {
  abd_pending : rb (ap_pending a);
  abd_allocated : rb (ap_allocated a);
  abd_req : forall x, In x (ap_requests a) -> rb (oa_res x);
  abd_alloc : forall x, In x (ap_allocs a) -> rb (oa_res x) }.
Record Bounded (s : ostate) : Prop := mkBd {
  bd_apps : forall a, In a (s_apps s) -> AppBounded a;
  bd_queues : forall q, In q (s_queues s) -> rb (q_alloc q) /\ rb (q_pending q);
  bd_nodes : forall n, In n (s_nodes s) -> rb (on_allocated n) }.

(* ================================================================== consequences used everywhere *)
Lemma find_app_in s a : Inv s -> In a (s_apps s) -> find_app s (ap_id a) = Some a.
Proof. intros HI Ha. apply (findk_in ap_id); [apply (inv_app_ids s HI)|assumption]. Qed.
Lemma find_app_some s id a : find_app s id = Some a -> In a (s_apps s) /\ ap_id a = id.
Proof. apply (findk_some ap_id). Qed.
Lemma find_node_in s n : Inv s -> In n (s_nodes s) -> find_node s (on_id n) = Some n.
Proof. intros HI Hn. apply (findk_in on_id); [apply (inv_node_ids s HI)|assumption]. Qed.
Lemma find_node_some s id n : find_node s id = Some n -> In n (s_nodes s) /\ on_id n = id.
Proof. apply (findk_some on_id). Qed.
Lemma find_queue_in s q : TreeOK s -> In q (s_queues s) -> find_queue s (q_id q) = Some q.
Proof. intros HT Hq. apply (findk_in q_id); [apply (tk_ids s HT)|assumption]. Qed.
Lemma find_queue_some s id q : find_queue s id = Some q -> In q (s_queues s) /\ q_id q = id.
Proof. apply (findk_some q_id). Qed.
Lemma find_queue_zero s : TreeOK s -> find_queue s 0%N = None.
Proof. intros HT. destruct (find_queue s 0%N) as [q|] eqn:E; [|reflexivity]. apply find_queue_some in E.
  destruct E as [Hq E]. exfalso. apply (tk_nz s HT q Hq E). Qed.

(* no in-flight swaps in the fragment: the linked-allocation field is never set *)
Lemma inflight_none s x : oa_release x = 0%N -> inflight_real s x = false.
Proof. intros E. unfold inflight_real. rewrite E. cbn. rewrite andb_false_r. reflexivity. Qed.
Lemma filter_nil {A} (P : A -> bool) l : (forall x, In x l -> P x = false) -> filter P l = [].
Proof. induction l as [|x t IH]; intros H; [reflexivity|]. cbn [filter]. rewrite (H x (or_introl eq_refl)). apply IH.
  intros y Hy. apply H. right. assumption. Qed.
Lemma inflight_filter_nil s : Inv s -> filter (inflight_real s) (flat_map on_allocs (s_nodes s)) = [].
Proof. intros HI. apply filter_nil. intros x Hx. apply in_flat_map in Hx. destruct Hx as (n & Hn & Hx).
  apply inflight_none. apply (nk_node s n (inv_nodes s HI n Hn) x Hx). Qed.

(* root ledger = sum of the node ledgers, pointwise *)
Lemma root_matches_spec s : Inv s ->
  (root_matches_nodes s = true <->
   forall r, root_queue s = Some r -> forall k, getz (q_alloc r) k = sumz (map on_allocated (s_nodes s)) k).
Proof. intros HI. unfold root_matches_nodes. rewrite (inflight_filter_nil s HI). cbn [map res_keys flat_map].
  destruct (root_queue s) as [r|]; [|split; [intros _ r' C; discriminate|reflexivity]].
  rewrite forallb_forall. split.
  - intros H r' E k. inversion E; subst r'. clear E.
    destruct (in_dec N.eq_dec k (keys (q_alloc r) ++ res_keys (map on_allocated (s_nodes s)) ++ [])) as [Hin|Hni].
    + specialize (H k Hin). cbn [sumz fold_right] in H. lia.
    + rewrite app_nil_r in Hni. rewrite getz_notin, sumz_notin; [reflexivity| |]; intros C; apply Hni; apply in_or_app; auto.
  - intros H k _. specialize (H r eq_refl k). cbn [sumz fold_right]. lia. Qed.

(* extraction of the membership predicates *)
Lemma owned_extract s x : oa_release x = 0%N -> node_alloc_owned s x = true ->
  exists ap y, find_app s (oa_app x) = Some ap /\ find_alloc (ap_allocs ap) (oa_key x) = Some y.
Proof. intros E. unfold node_alloc_owned. destruct (find_app s (oa_app x)) as [ap|] eqn:Ea; [|discriminate].
  destruct (find_alloc (ap_allocs ap) (oa_key x)) as [y|] eqn:Ey; [intros _; eauto|].
  intros H. rewrite (inflight_none s x E) in H. discriminate. Qed.
Lemma owned_intro s x ap y : find_app s (oa_app x) = Some ap -> find_alloc (ap_allocs ap) (oa_key x) = Some y ->
  node_alloc_owned s x = true.
Proof. intros E1 E2. unfold node_alloc_owned. rewrite E1, E2. reflexivity. Qed.
Lemma onnode_extract s x : app_alloc_on_node s x = true ->
  exists n, find_node s (oa_node x) = Some n /\ In (oa_key x) (akeys (on_allocs n)).
Proof. unfold app_alloc_on_node. destruct (find_node s (oa_node x)) as [n|]; [|discriminate].
  intros H. exists n. split; [reflexivity|]. apply existsb_key_in. assumption. Qed.
Lemma onnode_intro s x n : find_node s (oa_node x) = Some n -> In (oa_key x) (akeys (on_allocs n)) ->
  app_alloc_on_node s x = true.
Proof. intros E H. unfold app_alloc_on_node. rewrite E. apply existsb_key_in. assumption. Qed.
