(* Application life cycle (property C10): the documented relation, and a model of
   Application.HandleApplicationEvent over the transition table EXTRACTED from the real fsm object
   (Generated/AppFsm.v, written by harness/extract_fsm.go on every run).
   Definitions only; proofs are in Core/AppLifeProofs.v.

   Go code modelled:
     application_state.go  eventDesc()               -> Generated.AppFsm.app_fsm_table (extracted, not transcribed)
     application.go        HandleApplicationEvent    -> handle_event (looplab/fsm v1.0.3 Event semantics)
     application.go        OnStateChange/recordState -> the state log grows by the destination of every real move *)
From Coq Require Import List NArith Bool.
From YK Require Import Core.Obs Generated.AppFsm.
Import ListNotations.
Open Scope N_scope.

(* events, iota order of application_state.go + 1 *)
Definition EV_Run := 1. Definition EV_Reject := 2. Definition EV_Complete := 3.
Definition EV_Fail := 4. Definition EV_Expire := 5. Definition EV_Resume := 6.

Definition all_states : list N := [1;2;3;4;5;6;7;8;9;10].
Definition all_events : list N := [1;2;3;4;5;6].

(* ---- the documented life cycle (text of the property) ----
   New -> Accepted/Rejected/Failing/Resuming, Accepted -> Running/Completing/Failing/Resuming,
   Running -> Completing/Failing, Completing -> Running/Completed, Failing -> Failed,
   Resuming -> Accepted, terminal states (Rejected, Completed, Failed) only -> Expired. *)
Definition doc_pairs : list (N * N) :=
  [ (ST_New, ST_Accepted); (ST_New, ST_Rejected); (ST_New, ST_Failing); (ST_New, ST_Resuming);
    (ST_Accepted, ST_Running); (ST_Accepted, ST_Completing); (ST_Accepted, ST_Failing); (ST_Accepted, ST_Resuming);
    (ST_Running, ST_Completing); (ST_Running, ST_Failing);
    (ST_Completing, ST_Running); (ST_Completing, ST_Completed);
    (ST_Failing, ST_Failed);
    (ST_Resuming, ST_Accepted);
    (ST_Rejected, ST_Expired); (ST_Completed, ST_Expired); (ST_Failed, ST_Expired) ].

Definition documented (a b : N) : bool := existsb (fun p => (fst p =? a) && (snd p =? b)) doc_pairs.

Definition is_terminal (s : N) : bool := (s =? ST_Rejected) || (s =? ST_Completed) || (s =? ST_Failed) || (s =? ST_Expired).

(* consecutive entries of a sequence of reported states are related by the documented relation;
   a repeated state is not a change *)
Fixpoint chain_ok (cur : N) (l : list N) : bool :=
  match l with
  | [] => true
  | x :: t => ((x =? cur) || documented cur x) && chain_ok x t
  end.
(* strict form used for the state log: the log only records real moves, so a repeat is an error too *)
Fixpoint chain_strict (cur : N) (l : list N) : bool :=
  match l with
  | [] => true
  | x :: t => documented cur x && chain_strict x t
  end.

(* ---- the state machine as the code runs it ---- *)
Fixpoint fsm_lookup (t : list (N * N * N)) (s e : N) : option N :=
  match t with
  | [] => None
  | (s', e', d) :: r => if (s' =? s) && (e' =? e) then Some d else fsm_lookup r s e
  end.

Inductive ev_result := Moved | NoTransition | InvalidEvent.

(* looplab Event(): unknown (state,event) -> InvalidEventError, state unchanged;
   destination = current -> NoTransitionError after running no enter callback (HandleApplicationEvent maps it
   to success, nothing is recorded, no update is sent); otherwise leave callbacks, switch, enter callbacks
   (enter_state records the destination in the state log and sends the UpdatedApplication message). *)
Definition handle_event_with (t : list (N * N * N)) (s e : N) : N * ev_result :=
  match fsm_lookup t s e with
  | None => (s, InvalidEvent)
  | Some d => if d =? s then (s, NoTransition) else (d, Moved)
  end.
Definition handle_event := handle_event_with app_fsm_table.

(* application life-cycle component: current state and state log *)
Record alife := mkAL { al_state : N; al_log : list N }.
Definition al_init : alife := mkAL ST_New [].
Definition al_step (a : alife) (e : N) : alife :=
  match handle_event (al_state a) e with
  | (d, Moved) => mkAL d (al_log a ++ [d])
  | (_, _) => a
  end.
Definition al_run (a : alife) (es : list N) : alife := fold_left al_step es a.

(* the sequence of states visited (one entry per event, repeats when nothing moved) *)
Fixpoint visited (s : N) (es : list N) : list N :=
  match es with
  | [] => []
  | e :: t => let d := fst (handle_event s e) in d :: visited d t
  end.

(* table checks (decided by computation over the generated table) *)
Definition table_in_doc (t : list (N * N * N)) : bool :=
  forallb (fun x => let '(s, e, d) := x in (s =? d) || documented s d) t.
Definition doc_in_table (t : list (N * N * N)) : bool :=
  forallb (fun p => existsb (fun x => let '(s, e, d) := x in (s =? fst p) && (d =? snd p)) t) doc_pairs.
(* functional: at most one destination per (state, event) *)
Fixpoint table_functional (t : list (N * N * N)) : bool :=
  match t with
  | [] => true
  | (s, e, d) :: r => forallb (fun x => let '(s', e', d') := x in negb ((s' =? s) && (e' =? e)) || (d' =? d)) r && table_functional r
  end.
Definition table_wellformed (t : list (N * N * N)) : bool :=
  forallb (fun x => let '(s, e, d) := x in memN s all_states && memN e all_events && memN d all_states) t.
(* no transition leaves Expired; terminal states only move to Expired *)
Definition table_terminal (t : list (N * N * N)) : bool :=
  forallb (fun x => let '(s, e, d) := x in negb (is_terminal s) || ((d =? ST_Expired) && negb (s =? ST_Expired))) t.
