(* The clauses of property C16 as boolean predicates over a queue tree before the operation and the list of
   queue records after it. The same predicates are (a) proved of the model (Core/ReloadProofs.v: they hold
   for [flatten (reload_tree c t)] / [clean t] for every tree and configuration) and (b) evaluated on the
   implementation's observations (Oracles/CoreC16.v). Definitions only. *)
From Coq Require Import List ZArith NArith Bool.
From YK Require Import Base.Res Core.Obs Core.Reload.
Import ListNotations.
Open Scope N_scope.

(* ---- structural equalities (all reflexive) ---- *)
Fixpoint list_eqb {A} (eqb : A -> A -> bool) (a b : list A) : bool :=
  match a, b with
  | [], [] => true
  | x :: s, y :: t => eqb x y && list_eqb eqb s t
  | _, _ => false
  end.
Definition nlist_eqb := list_eqb N.eqb.
Definition npair_eqb (a b : N * N) : bool := (fst a =? fst b) && (snd a =? snd b).
Definition rs_eqb (a b : res) : bool := list_eqb (fun x y => (fst x =? fst y) && (snd x =? snd y)%Z) a b.
Definition ors_eqb (a b : ores) : bool :=
  match a, b with Some x, Some y => rs_eqb x y | None, None => true | _, _ => false end.
Definition oz_eqb (a b : option Z) : bool :=
  match a, b with Some x, Some y => (x =? y)%Z | None, None => true | _, _ => false end.
(* equality of limits as maps, nil kept distinct *)
Definition ores_eqm (a b : ores) : bool :=
  match a, b with
  | Some x, Some y => forallb (fun k => oz_eqb (get x k) (get y k)) (keys x ++ keys y)
  | None, None => true
  | _, _ => false
  end.
Definition ledger_eqb (a b : ledger) : bool :=
  rs_eqb (l_alloc a) (l_alloc b) && rs_eqb (l_pending a) (l_pending b) && rs_eqb (l_preempting a) (l_preempting b) &&
  (l_running a =? l_running b) && nlist_eqb (l_allocating a) (l_allocating b) &&
  list_eqb npair_eqb (l_reserved a) (l_reserved b) && nlist_eqb (l_apps a) (l_apps b).
Definition derived_eqb (a b : derived) : bool :=
  (d_sort a =? d_sort b) && Bool.eqb (d_priosort a) (d_priosort b) && (d_preempt a =? d_preempt b) &&
  (d_priopol a =? d_priopol b) && (d_priooff a =? d_priooff b)%Z.
Definition conf_part_eqb (x y : mq) : bool :=
  Bool.eqb (m_leaf x) (m_leaf y) && Bool.eqb (m_managed x) (m_managed y) && (m_state x =? m_state y) &&
  ores_eqm (m_max x) (m_max y) && ores_eqm (m_guar x) (m_guar y) && (m_maxapps x =? m_maxapps y) &&
  props_eqb (m_props x) (m_props y) && derived_eqb (m_derived x) (m_derived y).
Definition mq_eqb (x y : mq) : bool :=
  (m_id x =? m_id y) && (m_parent x =? m_parent y) && conf_part_eqb x y && ledger_eqb (m_ledger x) (m_ledger y).

(* ---- accept_preserves: ledgers, application sets and the hierarchy position of every queue survive; new
   queues start empty ---- *)
Definition same_core (x y : mq) : bool :=
  (m_id x =? m_id y) && (m_parent x =? m_parent y) && ledger_eqb (m_ledger x) (m_ledger y).
Definition P_preserve (pre post : list mq) : bool :=
  forallb (fun x => existsb (same_core x) post) pre &&
  forallb (fun y => existsb (fun x => m_id x =? m_id y) pre || ledger_eqb (m_ledger y) empty_ledger) post.

(* ---- accept_applies: every queue the configuration defines exists, is managed and active, and has the
   configured type, limits and the merged (inherited) properties with the settings derived from them ---- *)
Fixpoint conf_edges (c : conf_tree) : list (conf_tree * conf_tree) :=
  match c with
  | CT id par mx gu ma pr kids => map (fun k => (CT id par mx gu ma pr kids, k)) kids ++ flat_map conf_edges kids
  end.
Definition node_okb (c : conf_tree) (yp y : mq) : bool :=
  (m_id y =? ct_id c) && m_managed y && (m_state y =? QS_Active) && Bool.eqb (m_leaf y) (ct_leaf c) &&
  ores_eqm (m_max y) (set_res (ct_max c)) && ores_eqm (m_guar y) (set_res (ct_guar c)) &&
  (m_maxapps y =? ct_maxapps c) &&
  props_eqb (m_props y) (merge_props (m_props yp) (ct_props c)) &&
  derived_eqb (m_derived y) (derive (m_leaf y) (m_props y)).
Definition root_okb (c : conf_tree) (y : mq) : bool :=
  m_managed y && (m_state y =? QS_Active) && Bool.eqb (m_leaf y) (ct_leaf c) &&
  props_eqb (m_props y) (ct_props c) && derived_eqb (m_derived y) (derive (m_leaf y) (m_props y)).
Definition P_applies (c : conf_tree) (post : list mq) : bool :=
  existsb (fun y => (m_id y =? ct_id c) && root_okb c y) post &&
  forallb (fun e => existsb (fun yp => (m_id yp =? ct_id (fst e)) && existsb (node_okb (snd e) yp) post) post) (conf_edges c).

(* ---- missing_drains: managed queues that the new configuration no longer lists (children of a queue the
   configuration does list) and everything reachable from them through managed queues are Draining;
   unmanaged queues there are left alone ---- *)
Fixpoint mreach_list (t : qtree) : list mq :=
  match t with QT q kids => if m_managed q then q :: flat_map mreach_list kids else [] end.
Definition unvisited (ckids : list conf_tree) (k0 : list qtree) : list qtree :=
  filter (fun k => negb (memN (qid k) (map ct_id ckids))) k0.
Fixpoint exp_drain (c : conf_tree) (t : qtree) {struct c} : list mq :=
  match c with
  | CT _ _ _ _ _ _ ckids =>
      flat_map (fun k => filter (fun x => (m_state x =? QS_Active) || (m_state x =? QS_Draining)) (mreach_list k)) (unvisited ckids (tkids t))
      ++ flat_map (fun c1 => match find_kid (ct_id c1) (tkids t) with Some k1 => exp_drain c1 k1 | None => [] end) ckids
  end.
Fixpoint exp_untouched (c : conf_tree) (t : qtree) {struct c} : list mq :=
  match c with
  | CT _ _ _ _ _ _ ckids =>
      flat_map (fun k => if m_managed (troot k) then [] else flatten k) (unvisited ckids (tkids t))
      ++ flat_map (fun c1 => match find_kid (ct_id c1) (tkids t) with Some k1 => exp_untouched c1 k1 | None => [] end) ckids
  end.
Definition P_drains (c : conf_tree) (t : qtree) (post : list mq) : bool :=
  forallb (fun x => existsb (fun y => same_core x y && (m_state y =? QS_Draining)) post) (exp_drain c t) &&
  forallb (fun x => existsb (mq_eqb x) post) (exp_untouched c t).

(* ---- reappear_reactivates is the state conjunct of node_okb; draining_rejects_new: ---- *)
Definition P_no_new_app (q : mq) (p : placed) : bool :=
  match p with PlQueue id => negb ((id =? m_id q) && (m_state q =? QS_Draining)) | _ => true end.

(* ---- removed_only_empty: queue cleaning leaves the surviving queues as they were, and a queue that
   disappears held no application and was draining or unmanaged ---- *)
Definition P_clean (t : qtree) (post : list mq) : bool :=
  forallb (fun y => existsb (mq_eqb y) (flatten t)) post &&
  forallb (fun x => memN (m_id x) (map m_id post) ||
                    (no_apps x && (negb (m_managed x) || (m_state x =? QS_Draining)))) (flatten t).

(* ---- existing applications keep running: an application the scheduler can reach (its queue is a leaf and
   every ancestor is a parent) can still be reached. REFUTED for the model (finding 19), see ReloadProofs ---- *)
Fixpoint reach_apps (t : qtree) : list N :=
  match t with QT q kids => if m_leaf q then l_apps (m_ledger q) else flat_map reach_apps kids end.
Definition P_reach (tpre tpost : qtree) : bool := forallb (fun a => memN a (reach_apps tpost)) (reach_apps tpre).
Fixpoint conf_nodes (c : conf_tree) : list conf_tree :=
  match c with CT id par mx gu ma pr kids => CT id par mx gu ma pr kids :: flat_map conf_nodes kids end.
(* the applications that became unreachable *)
Definition lost_apps (tpre tpost : qtree) : list N := filter (fun a => negb (memN a (reach_apps tpost))) (reach_apps tpre).
(* window of finding 19: the application sits in a queue that was a leaf and that the new configuration defines as a
   parent (parent flag or configured children) *)
Definition in_window19 (c : conf_tree) (tpre : qtree) (a : N) : bool :=
  existsb (fun x => m_leaf x && memN a (l_apps (m_ledger x)) &&
                    existsb (fun c' => (ct_id c' =? m_id x) && negb (ct_leaf c')) (conf_nodes c)) (flatten tpre).
Definition window19 (c : conf_tree) (tpre tpost : qtree) : bool := forallb (in_window19 c tpre) (lost_apps tpre tpost).
(* window of the converse change (finding 19b): the application sits below a queue that was a parent and that the new
   configuration defines as a leaf *)
Fixpoint subtrees (t : qtree) : list qtree := match t with QT q kids => QT q kids :: flat_map subtrees kids end.
Definition in_window19b (c : conf_tree) (tpre : qtree) (a : N) : bool :=
  existsb (fun s => negb (m_leaf (troot s)) && memN a (reach_apps s) &&
                    existsb (fun c' => (ct_id c' =? qid s) && ct_leaf c') (conf_nodes c)) (subtrees tpre).
Definition window19b (c : conf_tree) (tpre tpost : qtree) : bool := forallb (in_window19b c tpre) (lost_apps tpre tpost).

(* same set of records *)
Definition set_eqb (a b : list mq) : bool :=
  (N.of_nat (length a) =? N.of_nat (length b)) && forallb (fun x => existsb (mq_eqb x) b) a.
