(* Tie theorems for pkg/scheduler/ugm/queue_tracker.go: the per-tracker tails of QueueTracker.canRunApp and
   QueueTracker.headroom, GENERATED from the Go source (Generated/GoUgm.v), equal the per-tracker
   definitions [canrun_here] / [hr_here] of the hand-written model Ugm/Tracker.v that the C05 theorems are
   about (the recursion over the queue hierarchy in front of these tails is the model's Fixpoint). *)
From Coq Require Import List ZArith NArith Bool Lia ZifyBool ZifyN ZifyNat.
From YK Require Import Base.Int64 Base.F64 Base.Res Base.ResSpec Base.ResLemmas Ugm.Tracker
  Generated.GoPrelude Generated.GoResources Generated.GoUgm Base.GoTieLib Base.GoTieRep Base.GoTieRes Base.GoTiePred Base.GoTieCw.
Import ListNotations.
Open Scope Z_scope.

(* runningApplications map[string]bool: every stored value is true *)
Definition appmap (l : list Tracker.app) : list (N * bool) := map (fun x => (x, true)) l.
Lemma mget0_appmap l a : mget0 false (appmap l) a = Tracker.mem a l.
Proof.
  unfold mget0, appmap. induction l as [|x t IH]; cbn; [reflexivity|].
  rewrite (N.eqb_sym a x). destruct (N.eqb x a); [reflexivity|exact IH].
Qed.

Definition qt_rep (g : GoUgm.QueueTracker) (q : Tracker.qt) : Prop :=
  QueueTracker_runningApplications g = appmap (q_apps q) /\ QueueTracker_maxRunningApps g = q_maxApps q /\
  QueueTracker_maxResources g = toR (q_max q) /\ QueueTracker_resourceUsage g = toR (q_usage q).

Theorem gotie_ugm_canRunApp g q a : qt_rep g q -> Z.of_nat (length (q_apps q)) < 2^62 ->
  GoUgm.canRunApp_frag g a = Tracker.canrun_here a q.
Proof.
  intros (Ha & Hm & _ & _) Hb. unfold GoUgm.canRunApp_frag, Tracker.canrun_here, Tracker.int_of_u64, u64_to_i64.
  rewrite Ha, Hm, mget0_appmap. cbv zeta. unfold appmap. rewrite map_length.
  destruct (Tracker.mem a (q_apps q)); [reflexivity|].
  replace (wrap64 (Z.of_nat (length (q_apps q)) + 1)) with (Z.of_nat (length (q_apps q)) + 1).
  2:{ unfold wrap64. rewrite Z.mod_small; lia. }
  destruct (negb (q_maxApps q =? 0)%N && (wrap64 (Z.of_N (q_maxApps q)) <? Z.of_nat (length (q_apps q)) + 1)); reflexivity.
Qed.

Theorem gotie_ugm_headroom g q child : qt_rep g q -> owf (q_max q) -> owf child ->
  owf (Res.SubOnlyExisting (q_max q) (q_usage q)) ->
  GoUgm.headroom_frag g None (toR child) = GOk (toR (Tracker.hr_here q child)).
Proof.
  intros (_ & _ & Hmx & Hu) Hw Hc Hs. unfold GoUgm.headroom_frag, Tracker.hr_here.
  rewrite Hmx, Hu, gotie_IsZero. cbn [gbind]. cbv zeta.
  destruct (Res.IsZero (q_max q)); cbn [negb gbind is_nil].
  - reflexivity.
  - rewrite (gotie_SubOnlyExisting _ _ Hw). cbn [gbind].
    destruct (Res.SubOnlyExisting (q_max q) (q_usage q)) as [hr|] eqn:E; cbn [toR option_map is_nil]; [|reflexivity].
    change (Some (mkR hr)) with (toR (Some hr)).
    rewrite (gotie_ComponentWiseMin (Some hr) child Hs Hc). reflexivity.
Qed.
