(* Proofs about the shim monitor (property C04): it is a sound judge.
   - monitor_ok_prefix_closed : a trace is accepted only if every prefix is
   - no_double_bind           : in ANY accepted trace, between two new-allocation messages for the same key there is
                                a release of that key (by the core or by the shim)
   - answer_once_app/node     : between two answers for the same application / node id there is a new submission
   - bind_sound               : a new-allocation message is accepted only after an ask for that key and application
                                was submitted, the application was accepted and the node was accepted *)
From Coq Require Import List ZArith NArith Bool Lia.
From YK Require Import Base.Res Core.Obs Core.ShimMonitor.
Import ListNotations.
Open Scope N_scope.

(* destruct the condition of the outermost `if` of hypothesis H *)
Ltac case_if H := match type of H with (if ?c then _ else _) = _ => destruct c eqn:? end.
Ltac ok_or_err H := repeat (case_if H; [discriminate|]).

(* ---- association lists ---- *)
Lemma lk_upd : forall A (m : list (N * A)) k v k', lk (upd m k v) k' = if k' =? k then Some v else lk m k'.
Proof.
  intros A m k v k'. induction m as [|[k0 v0] t IH]; cbn.
  - rewrite (N.eqb_sym k k'). reflexivity.
  - destruct (k0 =? k) eqn:E0; cbn.
    + apply N.eqb_eq in E0. subst k0. rewrite (N.eqb_sym k k'). destruct (k' =? k); reflexivity.
    + destruct (k0 =? k') eqn:E1.
      * apply N.eqb_eq in E1. subst k0. rewrite E0. reflexivity.
      * exact IH.
Qed.

Lemma lk_mapv : forall A (f : A -> A) (m : list (N * A)) k, lk (mapv f m) k = option_map f (lk m k).
Proof.
  intros A f m k. induction m as [|[k0 v0] t IH]; cbn; [reflexivity|].
  destruct (k0 =? k); [reflexivity|exact IH].
Qed.

Lemma lk_upd_same : forall A (m : list (N * A)) k v, lk (upd m k v) k = Some v.
Proof. intros. rewrite lk_upd, N.eqb_refl. reflexivity. Qed.
Lemma lk_upd_other : forall A (m : list (N * A)) k v k', k' <> k -> lk (upd m k v) k' = lk m k'.
Proof. intros A m k v k' H. rewrite lk_upd. apply N.eqb_neq in H. now rewrite H. Qed.

(* ---- prefix closure ---- *)
Lemma mon_run_app : forall t1 t2 m m',
  mon_run m (t1 ++ t2) = MOk m' -> exists m1, mon_run m t1 = MOk m1 /\ mon_run m1 t2 = MOk m'.
Proof.
  induction t1 as [|it r IH]; intros t2 m m' H; cbn in *.
  - now exists m.
  - destruct (mon_step m it) as [m0|c]; [|discriminate]. now apply IH.
Qed.

Lemma mon_run_app_ok : forall t1 t2 m m1 m',
  mon_run m t1 = MOk m1 -> mon_run m1 t2 = MOk m' -> mon_run m (t1 ++ t2) = MOk m'.
Proof.
  induction t1 as [|it r IH]; intros t2 m m1 m' H1 H2; cbn in *.
  - inversion H1. now subst.
  - destruct (mon_step m it) as [m0|c]; [|discriminate]. eapply IH; eassumption.
Qed.

Theorem monitor_ok_prefix_closed : forall t1 t2, monitor_ok (t1 ++ t2) = true -> monitor_ok t1 = true.
Proof.
  intros t1 t2 H. unfold monitor_ok in *. destruct (mon_run mon_init (t1 ++ t2)) as [m'|c] eqn:E; [|discriminate].
  apply mon_run_app in E as [m1 [E1 _]]. now rewrite E1.
Qed.

(* an error is final: extending a rejected trace never makes it accepted *)
Theorem monitor_err_final : forall t1 t2, monitor_ok t1 = false -> monitor_ok (t1 ++ t2) = false.
Proof.
  intros t1 t2 H. destruct (monitor_ok (t1 ++ t2)) eqn:E; [|reflexivity].
  apply monitor_ok_prefix_closed in E. congruence.
Qed.

(* ---- no key is bound twice without a release in between ---- *)
Definition Pb (m : mstate) (k : N) : Prop :=
  exists i, lk (m_keys m) k = Some i /\ k_st i = K_Bound /\ k_rel i = false.

Lemma kget_some : forall m k i, lk (m_keys m) k = Some i -> kget m k = i.
Proof. intros m k i H. unfold kget. now rewrite H. Qed.

Lemma Pb_set_key_other : forall m k k' i, k <> k' -> Pb m k -> Pb (set_key m k' i) k.
Proof. intros m k k' i Hn [j [H1 H2]]. exists j. split; [|exact H2]. cbn. now rewrite lk_upd_other. Qed.

Lemma Pb_same_keys : forall m m' k, m_keys m' = m_keys m -> Pb m k -> Pb m' k.
Proof. intros m m' k E [j [H1 H2]]. exists j. now rewrite E. Qed.

Lemma bound_not_out : forall i, k_st i = K_Bound -> (k_st i =? K_Out) = false.
Proof. intros i H. rewrite H. reflexivity. Qed.

Lemma step_bind : forall m m' k a n r p,
  mon_step m (IEv (ENewAlloc k a n r p)) = MOk m' ->
  Pb m' k /\ ~ (exists i, lk (m_keys m) k = Some i /\ k_st i = K_Bound).
Proof.
  intros m m' k a n r p H. cbn in H.
  destruct (k_st (kget m k) =? K_Bound) eqn:Eb; [discriminate|]. ok_or_err H.
  inversion H; subst m'. split.
  - eexists. split; [cbn; apply lk_upd_same|]. split; reflexivity.
  - intros [i [Hl Hs]]. rewrite (kget_some _ _ _ Hl), Hs in Eb. discriminate.
Qed.

Lemma req_step_preserve : forall m op k, Pb m k -> may_release k (IReq op) = false -> Pb (req_step m op) k.
Proof.
  intros m op k HP Hr. destruct HP as [i [Hl [Hs Hrel]]].
  assert (HP : Pb (set_cur m (Some op) false) k) by (exists i; auto).
  unfold req_step.
  destruct op as [id cap dr|id cap|id|id|id|id q u f ng ph hd tm tx|id|r|app key ty| | | | |]; try exact HP.
  - (* OpNodeRemove *) destruct (a_live _); exact HP.
  - (* OpAppRemove *) cbn in Hr. discriminate.
  - (* OpAlloc *)
    destruct (rq_foreign r); [exact HP|].
    destruct (rq_key r =? k) eqn:Ek.
    + apply N.eqb_eq in Ek. rewrite Ek.
      assert (Hg : kget (set_cur m (Some (OpAlloc r)) false) k = i) by (apply kget_some; exact Hl).
      rewrite Hg. unfold k_live. rewrite Hs. cbn. rewrite andb_false_r. cbn. exact HP.
    + apply N.eqb_neq in Ek.
      destruct (k_live _); [destruct (_ && _ && _); [|destruct (_ && _ && _)]|]; try exact HP; apply Pb_set_key_other; auto.
  - (* OpRelease *)
    cbn in Hr. apply orb_false_iff in Hr as [Hr1 Hr2].
    destruct (app =? 0); [exact HP|]. rewrite Hr2.
    destruct (_ && _ && _); [|exact HP]. apply Pb_set_key_other; [|exact HP]. apply N.eqb_neq in Hr1. auto.
Qed.

Lemma ev_step_preserve : forall m m' e k, Pb m k -> ev_step m e = MOk m' -> may_release k (IEv e) = false -> Pb m' k.
Proof.
  intros m m' e k HP H Hr. destruct HP as [i [Hl [Hs Hrel]]].
  assert (HP : Pb m k) by (exists i; auto).
  destruct e as [key app node r p|key app ty|app|app|app st|node|node|key app]; cbn in H.
  - (* ENewAlloc *)
    destruct (key =? k) eqn:Ek.
    + apply N.eqb_eq in Ek. subst key. rewrite (kget_some _ _ _ Hl), Hs in H. cbn in H. discriminate.
    + apply N.eqb_neq in Ek. ok_or_err H. inversion H. apply Pb_set_key_other; auto.
  - (* ERelease *)
    cbn in Hr. apply N.eqb_neq in Hr.
    case_if H; [discriminate|].
    case_if H; [case_if H; [case_if H; [discriminate|]|]|]; inversion H; apply Pb_set_key_other; auto.
  - (* EAppAccepted *) case_if H; [|discriminate]. inversion H. exact HP.
  - (* EAppRejected *) case_if H; [|discriminate]. inversion H. exact HP.
  - (* EAppUpdated *) cbn in Hr. rewrite Hr in H. inversion H. now subst.
  - (* ENodeAccepted *) case_if H; [|discriminate]. inversion H. exact HP.
  - (* ENodeRejected *) case_if H; [|discriminate]. inversion H. exact HP.
  - (* EAllocRejected *)
    destruct (m_cur m) as [[id cap dr|id cap|id|id|id|id q u f ng ph hd tm tx|id|r|ap ky ty| | | | |]|] eqn:Ec; try discriminate.
    case_if H; [|discriminate].
    assert (HP1 : Pb (set_cur m (Some (OpAlloc r)) true) k) by (exists i; auto).
    destruct (key =? k) eqn:Ek.
    + apply N.eqb_eq in Ek. subst key.
      assert (Hg : kget (set_cur m (Some (OpAlloc r)) true) k = i) by (apply kget_some; exact Hl).
      rewrite Hg, (bound_not_out _ Hs), !andb_false_r in H. inversion H. exact HP1.
    + apply N.eqb_neq in Ek.
      case_if H; [inversion H; apply Pb_set_key_other; auto|].
      case_if H; inversion H; [apply Pb_set_key_other; auto|exact HP1].
Qed.

Lemma end_step_preserve : forall m m' k, Pb m k -> end_step m = MOk m' -> Pb m' k.
Proof.
  intros m m' k [i [Hl [Hs Hrel]]] H. unfold end_step in H. ok_or_err H.
  inversion H. exists (end_key i). cbn. rewrite lk_mapv, Hl. split; [reflexivity|].
  unfold end_key. cbn. rewrite Hrel. auto.
Qed.

Lemma step_preserve : forall m m' it k, Pb m k -> mon_step m it = MOk m' -> may_release k it = false -> Pb m' k.
Proof.
  intros m m' it k HP H Hr. destruct it; cbn in H.
  - inversion H. now apply req_step_preserve.
  - eapply ev_step_preserve; eassumption.
  - eapply end_step_preserve; eassumption.
Qed.

Lemma run_preserve : forall t m m' k, Pb m k -> mon_run m t = MOk m' -> existsb (may_release k) t = false -> Pb m' k.
Proof.
  induction t as [|it r IH]; intros m m' k HP H Hr; cbn in *.
  - inversion H. now subst.
  - apply orb_false_iff in Hr as [Hr1 Hr2].
    destruct (mon_step m it) as [m0|c] eqn:E; [|discriminate].
    eapply IH; [|exact H|exact Hr2]. eapply step_preserve; eassumption.
Qed.

(* the key lemma, over ALL traces: if the monitor accepts a trace in which key k is announced bound twice, then
   between the two announcements something released k *)
Theorem no_double_bind : forall t1 t2 k a1 n1 r1 p1 a2 n2 r2 p2,
  monitor_ok (t1 ++ IEv (ENewAlloc k a1 n1 r1 p1) :: t2 ++ [IEv (ENewAlloc k a2 n2 r2 p2)]) = true ->
  existsb (may_release k) t2 = true.
Proof.
  intros t1 t2 k a1 n1 r1 p1 a2 n2 r2 p2 H. unfold monitor_ok in H.
  destruct (mon_run mon_init _) as [mf|c] eqn:E; [|discriminate].
  apply mon_run_app in E as [m1 [_ E]]. cbn [mon_run] in E.
  destruct (mon_step m1 (IEv (ENewAlloc k a1 n1 r1 p1))) as [m2|c] eqn:S1; [|discriminate].
  apply mon_run_app in E as [m3 [E3 E4]]. cbn [mon_run] in E4.
  destruct (mon_step m3 (IEv (ENewAlloc k a2 n2 r2 p2))) as [m4|c] eqn:S2; [|discriminate].
  destruct (existsb (may_release k) t2) eqn:Ex; [reflexivity|exfalso].
  apply step_bind in S1 as [HP _]. apply step_bind in S2 as [_ Hn].
  pose proof (run_preserve _ _ _ _ HP E3 Ex) as [i [Hl [Hs _]]]. apply Hn. now exists i.
Qed.

(* ---- exactly one answer per submission ---- *)
Lemma aget_upd : forall (l : list (N * ainfo)) a i a', aget (upd l a i) a' = if a' =? a then i else aget l a'.
Proof. intros. unfold aget. rewrite lk_upd. destruct (a' =? a); reflexivity. Qed.

Definition Qa (m : mstate) (a : N) : Prop := a_await (aget (m_apps m) a) = false.
Definition Qn (m : mstate) (n : N) : Prop := a_await (aget (m_nodes m) n) = false.

Lemma app_answer_step : forall m m' a it, is_app_answer a it = true -> mon_step m it = MOk m' ->
  a_await (aget (m_apps m) a) = true /\ Qa m' a.
Proof.
  intros m m' a it Ha H. destruct it as [|e|]; try discriminate. destruct e; try discriminate; cbn in Ha; apply N.eqb_eq in Ha; subst; cbn in H;
  destruct (a_await (aget (m_apps m) a)) eqn:E; try discriminate; inversion H; (split; [reflexivity|]);
  unfold Qa; cbn; rewrite aget_upd, N.eqb_refl; reflexivity.
Qed.

Lemma Qa_same_apps : forall m m' a, m_apps m' = m_apps m -> Qa m a -> Qa m' a.
Proof. intros m m' a E H. unfold Qa in *. now rewrite E. Qed.

Lemma Qa_step : forall m m' a it, Qa m a -> mon_step m it = MOk m' -> is_app_submit a it = false -> Qa m' a.
Proof.
  intros m m' a it HQ H Hs. destruct it as [op|e|]; cbn in H.
  - inversion H. unfold req_step.
    assert (HQ0 : Qa (set_cur m (Some op) false) a) by exact HQ.
    destruct op as [id cap dr|id cap|id|id|id|id q u f ng ph hd tm tx|id|r|app key ty| | | | |]; try exact HQ0.
    + (* OpNodeRemove *) destruct (a_live _); exact HQ0.
    + (* OpAppAdd *) cbn in Hs. unfold Qa. cbn. rewrite aget_upd, (N.eqb_sym a id), Hs. exact HQ.
    + (* OpAppRemove *)
      destruct (a_live _); [|exact HQ0]. unfold Qa. cbn. rewrite aget_upd.
      destruct (a =? id) eqn:E; [|exact HQ]. apply N.eqb_eq in E. subst. cbn. exact HQ.
    + (* OpAlloc *) destruct (rq_foreign r); [exact HQ0|]. destruct (k_live _); [destruct (_ && _ && _); [|destruct (_ && _ && _)]|]; exact HQ0.
    + (* OpRelease *) destruct (app =? 0); [exact HQ0|]. destruct (key =? 0); [exact HQ0|]. destruct (_ && _ && _); exact HQ0.
  - destruct e as [key app node r p|key app ty|app|app|app st|node|node|key app]; cbn in H.
    + ok_or_err H. inversion H. exact HQ.
    + case_if H; [discriminate|].
      case_if H; [case_if H; [case_if H; [discriminate|]|]|]; inversion H; exact HQ.
    + case_if H; [|discriminate]. inversion H. unfold Qa. cbn. rewrite aget_upd. destruct (a =? app); [reflexivity|exact HQ].
    + case_if H; [|discriminate]. inversion H. unfold Qa. cbn. rewrite aget_upd. destruct (a =? app); [reflexivity|exact HQ].
    + case_if H; inversion H; [|subst; exact HQ]. unfold Qa. cbn. rewrite aget_upd.
      destruct (a =? app) eqn:E; [|exact HQ]. apply N.eqb_eq in E. subst. cbn. exact HQ.
    + case_if H; [|discriminate]. inversion H. exact HQ.
    + case_if H; [|discriminate]. inversion H. exact HQ.
    + destruct (m_cur m) as [[id cap dr|id cap|id|id|id|id q u f ng ph hd tm tx|id|r|ap ky ty| | | | |]|]; try discriminate.
      case_if H; [|discriminate].
      case_if H; [inversion H; exact HQ|]. case_if H; inversion H; exact HQ.
  - unfold end_step in H. ok_or_err H. inversion H. exact HQ.
Qed.

Lemma Qa_run : forall t m m' a, Qa m a -> mon_run m t = MOk m' -> existsb (is_app_submit a) t = false -> Qa m' a.
Proof.
  induction t as [|it r IH]; intros m m' a HQ H Hs; cbn in *.
  - inversion H. now subst.
  - apply orb_false_iff in Hs as [Hs1 Hs2]. destruct (mon_step m it) as [m0|c] eqn:E; [|discriminate].
    eapply IH; [|exact H|exact Hs2]. eapply Qa_step; eassumption.
Qed.

(* between two answers (accepted or rejected) for the same application id the shim submitted that id again *)
Theorem answer_once_app : forall t1 t2 a x y,
  is_app_answer a x = true -> is_app_answer a y = true ->
  monitor_ok (t1 ++ x :: t2 ++ [y]) = true -> existsb (is_app_submit a) t2 = true.
Proof.
  intros t1 t2 a x y Hx Hy H. unfold monitor_ok in H.
  destruct (mon_run mon_init _) as [mf|c] eqn:E; [|discriminate].
  apply mon_run_app in E as [m1 [_ E]]. cbn [mon_run] in E.
  destruct (mon_step m1 x) as [m2|c] eqn:S1; [|discriminate].
  apply mon_run_app in E as [m3 [E3 E4]]. cbn [mon_run] in E4.
  destruct (mon_step m3 y) as [m4|c] eqn:S2; [|discriminate].
  destruct (existsb (is_app_submit a) t2) eqn:Ex; [reflexivity|exfalso].
  apply (app_answer_step _ _ _ _ Hx) in S1 as [_ HQ]. apply (app_answer_step _ _ _ _ Hy) in S2 as [Hw _].
  pose proof (Qa_run _ _ _ _ HQ E3 Ex) as HQ3. unfold Qa in HQ3. congruence.
Qed.

Lemma node_answer_step : forall m m' n it, is_node_answer n it = true -> mon_step m it = MOk m' ->
  a_await (aget (m_nodes m) n) = true /\ Qn m' n.
Proof.
  intros m m' a it Ha H. destruct it as [|e|]; try discriminate. destruct e; try discriminate; cbn in Ha; apply N.eqb_eq in Ha; subst; cbn in H;
  destruct (a_await (aget (m_nodes m) a)) eqn:E; try discriminate; inversion H; (split; [reflexivity|]);
  unfold Qn; cbn; rewrite aget_upd, N.eqb_refl; reflexivity.
Qed.

Lemma Qn_step : forall m m' a it, Qn m a -> mon_step m it = MOk m' -> is_node_submit a it = false -> Qn m' a.
Proof.
  intros m m' a it HQ H Hs. destruct it as [op|e|]; cbn in H.
  - inversion H. unfold req_step.
    assert (HQ0 : Qn (set_cur m (Some op) false) a) by exact HQ.
    destruct op as [id cap dr|id cap|id|id|id|id q u f ng ph hd tm tx|id|r|app key ty| | | | |]; try exact HQ0.
    + (* OpNodeAdd *) cbn in Hs. unfold Qn. cbn. rewrite aget_upd, (N.eqb_sym a id), Hs. exact HQ.
    + (* OpNodeRemove *)
      destruct (a_live _); [|exact HQ0]. unfold Qn. cbn. rewrite aget_upd.
      destruct (a =? id) eqn:E; [|exact HQ]. apply N.eqb_eq in E. subst. cbn. exact HQ.
    + (* OpAppRemove *) destruct (a_live _); exact HQ0.
    + (* OpAlloc *) destruct (rq_foreign r); [exact HQ0|]. destruct (k_live _); [destruct (_ && _ && _); [|destruct (_ && _ && _)]|]; exact HQ0.
    + (* OpRelease *) destruct (app =? 0); [exact HQ0|]. destruct (key =? 0); [exact HQ0|]. destruct (_ && _ && _); exact HQ0.
  - destruct e as [key app node r p|key app ty|app|app|app st|node|node|key app]; cbn in H.
    + ok_or_err H. inversion H. exact HQ.
    + case_if H; [discriminate|].
      case_if H; [case_if H; [case_if H; [discriminate|]|]|]; inversion H; exact HQ.
    + case_if H; [|discriminate]. inversion H. exact HQ.
    + case_if H; [|discriminate]. inversion H. exact HQ.
    + case_if H; inversion H; [|subst; exact HQ]. exact HQ.
    + case_if H; [|discriminate]. inversion H. unfold Qn. cbn. rewrite aget_upd. destruct (a =? node); [reflexivity|exact HQ].
    + case_if H; [|discriminate]. inversion H. unfold Qn. cbn. rewrite aget_upd. destruct (a =? node); [reflexivity|exact HQ].
    + destruct (m_cur m) as [[id cap dr|id cap|id|id|id|id q u f ng ph hd tm tx|id|r|ap ky ty| | | | |]|]; try discriminate.
      case_if H; [|discriminate].
      case_if H; [inversion H; exact HQ|]. case_if H; inversion H; exact HQ.
  - unfold end_step in H. ok_or_err H. inversion H. exact HQ.
Qed.

Lemma Qn_run : forall t m m' a, Qn m a -> mon_run m t = MOk m' -> existsb (is_node_submit a) t = false -> Qn m' a.
Proof.
  induction t as [|it r IH]; intros m m' a HQ H Hs; cbn in *.
  - inversion H. now subst.
  - apply orb_false_iff in Hs as [Hs1 Hs2]. destruct (mon_step m it) as [m0|c] eqn:E; [|discriminate].
    eapply IH; [|exact H|exact Hs2]. eapply Qn_step; eassumption.
Qed.

(* the same for nodes *)
Theorem answer_once_node : forall t1 t2 n x y,
  is_node_answer n x = true -> is_node_answer n y = true ->
  monitor_ok (t1 ++ x :: t2 ++ [y]) = true -> existsb (is_node_submit n) t2 = true.
Proof.
  intros t1 t2 a x y Hx Hy H. unfold monitor_ok in H.
  destruct (mon_run mon_init _) as [mf|c] eqn:E; [|discriminate].
  apply mon_run_app in E as [m1 [_ E]]. cbn [mon_run] in E.
  destruct (mon_step m1 x) as [m2|c] eqn:S1; [|discriminate].
  apply mon_run_app in E as [m3 [E3 E4]]. cbn [mon_run] in E4.
  destruct (mon_step m3 y) as [m4|c] eqn:S2; [|discriminate].
  destruct (existsb (is_node_submit a) t2) eqn:Ex; [reflexivity|exfalso].
  apply (node_answer_step _ _ _ _ Hx) in S1 as [_ HQ]. apply (node_answer_step _ _ _ _ Hy) in S2 as [Hw _].
  pose proof (Qn_run _ _ _ _ HQ E3 Ex) as HQ3. unfold Qn in HQ3. congruence.
Qed.

(* every submission is answered before its request ends: an accepted trace has no pending answer after IEnd *)
Lemma existsb_await_false : forall (l : list (N * ainfo)) a,
  existsb (fun p => a_await (snd p)) l = false -> a_await (aget l a) = false.
Proof.
  induction l as [|[k v] t IH]; intros a H; [reflexivity|]. cbn in H. apply orb_false_iff in H as [H1 H2].
  unfold aget. cbn. destruct (k =? a); [exact H1|]. apply IH. exact H2.
Qed.

Theorem answered_at_end : forall t m a n,
  mon_run mon_init (t ++ [IEnd]) = MOk m -> Qa m a /\ Qn m n.
Proof.
  intros t m a n H. apply mon_run_app in H as [m1 [_ H]]. cbn in H.
  destruct (end_step m1) as [m2|c] eqn:E; [|discriminate]. inversion H. subst m2.
  unfold end_step in E. destruct (existsb (fun p => a_await (snd p)) (m_apps m1) || existsb (fun p => a_await (snd p)) (m_nodes m1)) eqn:Ea; [discriminate|].
  case_if E; [discriminate|].
  inversion E. apply orb_false_iff in Ea as [Ea1 Ea2]. split; unfold Qa, Qn; cbn; now apply existsb_await_false.
Qed.

(* ---- a binding is accepted only for a submitted ask of an accepted application on an accepted node ---- *)
Definition asked (t : list item) (k app : N) : Prop := exists it, In it t /\ is_ask_for k app it = true.
Definition KInv (m : mstate) (t : list item) : Prop :=
  (forall k i, lk (m_keys m) k = Some i -> k_live i = true -> asked t k (k_app i)) /\
  (forall a, a_live (aget (m_apps m) a) = true -> In (IEv (EAppAccepted a)) t) /\
  (forall n, a_live (aget (m_nodes m) n) = true -> In (IEv (ENodeAccepted n)) t).

Lemma asked_mono : forall t it k app, asked t k app -> asked (t ++ [it]) k app.
Proof. intros t it k app [x [Hi Ha]]. exists x. split; [apply in_or_app; now left|exact Ha]. Qed.

(* a per-key update that keeps the application and never revives a key *)
Definition tame (f : kinfo -> kinfo) : Prop := forall i, k_app (f i) = k_app i /\ (k_live (f i) = true -> k_live i = true).

Lemma tame_rel_app : forall a, tame (rel_app a).
Proof. intros a i. unfold rel_app. destruct (_ && _); cbn; auto. Qed.
Lemma tame_rel_app_ty : forall a ty, tame (rel_app_ty a ty).
Proof. intros a ty i. unfold rel_app_ty. destruct (_ && _ && _); cbn; auto. Qed.
Lemma tame_end_key : tame end_key.
Proof. intros i. unfold end_key, k_live. cbn. split; [reflexivity|]. destruct (k_rel i); cbn; auto. discriminate. Qed.

Lemma keys_mapv_inv : forall (ks : list (N * kinfo)) f t,
  tame f ->
  (forall k i, lk ks k = Some i -> k_live i = true -> asked t k (k_app i)) ->
  (forall k i, lk (mapv f ks) k = Some i -> k_live i = true -> asked t k (k_app i)).
Proof.
  intros ks f t Hf H k i Hl Hv. rewrite lk_mapv in Hl. destruct (lk ks k) as [j|] eqn:E; [|discriminate].
  cbn in Hl. inversion Hl. subst i. destruct (Hf j) as [Ha Hb]. rewrite Ha. apply (H k j E). now apply Hb.
Qed.

Lemma keys_upd_inv : forall (ks : list (N * kinfo)) k0 i0 t,
  (k_live i0 = true -> asked t k0 (k_app i0)) ->
  (forall k i, lk ks k = Some i -> k_live i = true -> asked t k (k_app i)) ->
  (forall k i, lk (upd ks k0 i0) k = Some i -> k_live i = true -> asked t k (k_app i)).
Proof.
  intros ks k0 i0 t H0 H k i Hl Hv. rewrite lk_upd in Hl. destruct (k =? k0) eqn:E.
  - apply N.eqb_eq in E. subst. inversion Hl. subst. now apply H0.
  - now apply (H k i).
Qed.

Lemma kget_live_asked : forall m t k, (forall k i, lk (m_keys m) k = Some i -> k_live i = true -> asked t k (k_app i)) ->
  k_live (kget m k) = true -> asked t k (k_app (kget m k)).
Proof.
  intros m t k H Hv. unfold kget in *. destruct (lk (m_keys m) k) as [i|] eqn:E; [now apply (H k i)|]. discriminate.
Qed.

Lemma KInv_step : forall m m' t it, KInv m t -> mon_step m it = MOk m' -> KInv m' (t ++ [it]).
Proof.
  intros m m' t it [HK [HA HN]] H.
  assert (HK' : forall k i, lk (m_keys m) k = Some i -> k_live i = true -> asked (t ++ [it]) k (k_app i))
    by (intros k i Hl Hv; apply asked_mono; now apply (HK k i)).
  assert (HA' : forall a, a_live (aget (m_apps m) a) = true -> In (IEv (EAppAccepted a)) (t ++ [it]))
    by (intros a Hl; apply in_or_app; left; now apply HA).
  assert (HN' : forall n, a_live (aget (m_nodes m) n) = true -> In (IEv (ENodeAccepted n)) (t ++ [it]))
    by (intros n Hl; apply in_or_app; left; now apply HN).
  assert (Base : KInv m (t ++ [it])) by (split; [exact HK'|split; [exact HA'|exact HN']]).
  destruct it as [op|e|]; cbn in H.
  - (* request *)
    inversion H. subst m'. unfold req_step.
    assert (Base0 : KInv (set_cur m (Some op) false) (t ++ [IReq op])) by exact Base.
    destruct op as [id cap dr|id cap|id|id|id|id q u f ng ph hd tm tx|id|r|app key ty| | | | |]; try exact Base0.
    + (* OpNodeAdd *) split; [exact HK'|split; [exact HA'|]]. intros n. cbn. rewrite aget_upd. destruct (n =? id) eqn:E; [|apply HN'].
      cbn. apply N.eqb_eq in E. subst. apply HN'.
    + (* OpNodeRemove *) destruct (a_live _); [|exact Base0]. split; [exact HK'|split; [exact HA'|]]. intros n. cbn. rewrite aget_upd.
      destruct (n =? id); [cbn; discriminate|apply HN'].
    + (* OpAppAdd *) split; [exact HK'|split; [|exact HN']]. intros a. cbn. rewrite aget_upd. destruct (a =? id) eqn:E; [|apply HA'].
      cbn. apply N.eqb_eq in E. subst. apply HA'.
    + (* OpAppRemove *) destruct (a_live _); [|exact Base0]. split; [|split; [|exact HN']].
      * cbn. apply keys_mapv_inv; [apply tame_rel_app|exact HK'].
      * intros a. cbn. rewrite aget_upd. destruct (a =? id); [cbn; discriminate|apply HA'].
    + (* OpAlloc *)
      destruct (rq_foreign r) eqn:Ef; [exact Base0|].
      destruct (k_live (kget (set_cur m (Some (OpAlloc r)) false) (rq_key r))) eqn:Ev.
      * destruct (_ && _ && _).
        { split; [|split; [exact HA'|exact HN']]. cbn.
          apply keys_upd_inv; [|exact HK']. intros _. cbn. apply (kget_live_asked m); [exact HK'|exact Ev]. }
        destruct (_ && _ && _); [|exact Base0].
        (* the re-submission of a key whose release the core announced: the request itself is the submission *)
        split; [|split; [exact HA'|exact HN']]. cbn. apply keys_upd_inv; [|exact HK']. intros _. cbn.
        exists (IReq (OpAlloc r)). split; [apply in_or_app; right; now left|]. cbn. rewrite !N.eqb_refl, Ef. reflexivity.
      * split; [|split; [exact HA'|exact HN']]. cbn. apply keys_upd_inv; [|exact HK']. intros _. cbn.
        exists (IReq (OpAlloc r)). split; [apply in_or_app; right; now left|]. cbn. rewrite !N.eqb_refl, Ef. reflexivity.
    + (* OpRelease *)
      destruct (app =? 0); [exact Base0|]. destruct (key =? 0).
      * split; [|split; [exact HA'|exact HN']]. cbn. apply keys_mapv_inv; [apply tame_rel_app_ty|exact HK'].
      * destruct (k_live (kget (set_cur m (Some (OpRelease app key ty)) false) key)) eqn:Ev; cbn [andb]; [|exact Base0].
        destruct (_ && _); [|exact Base0].
        split; [|split; [exact HA'|exact HN']]. cbn. apply keys_upd_inv; [|exact HK']. intros _. cbn.
        apply (kget_live_asked m); [exact HK'|exact Ev].
  - (* message *)
    destruct e as [key app node r p|key app ty|app|app|app st|node|node|key app]; cbn in H.
    + (* ENewAlloc *)
      case_if H; [discriminate|].
      destruct (negb (k_live (kget m key))) eqn:Ev; [discriminate|]. cbn [orb] in H.
      ok_or_err H.
      inversion H. split; [|split; [exact HA'|exact HN']]. cbn. apply keys_upd_inv; [|exact HK']. intros _. cbn.
      apply negb_false_iff in Ev. apply (kget_live_asked m); [exact HK'|exact Ev].
    + (* ERelease *)
      destruct (negb (k_live (kget m key))) eqn:Ev; [discriminate|]. cbn [orb] in H. apply negb_false_iff in Ev.
      case_if H; [discriminate|].
      case_if H; [case_if H; [case_if H; [discriminate|]|]|]; inversion H;
        (split; [|split; [exact HA'|exact HN']]); cbn; apply keys_upd_inv; try exact HK'; cbn;
        try (intros _; apply (kget_live_asked m); [exact HK'|exact Ev]).
    + (* EAppAccepted *)
      case_if H; [|discriminate]. inversion H. split; [exact HK'|split; [|exact HN']]. intros a. cbn. rewrite aget_upd.
      destruct (a =? app) eqn:E; [|apply HA']. intros _. apply N.eqb_eq in E. subst. apply in_or_app. right. now left.
    + (* EAppRejected *)
      case_if H; [|discriminate]. inversion H. split; [exact HK'|split; [|exact HN']]. intros a. cbn. rewrite aget_upd.
      destruct (a =? app) eqn:E; [|apply HA']. cbn. apply N.eqb_eq in E. subst. apply HA'.
    + (* EAppUpdated *)
      case_if H; inversion H; [|subst; exact Base]. split; [|split; [|exact HN']].
      * cbn. apply keys_mapv_inv; [apply tame_rel_app|exact HK'].
      * intros a. cbn. rewrite aget_upd. destruct (a =? app); [cbn; discriminate|apply HA'].
    + (* ENodeAccepted *)
      case_if H; [|discriminate]. inversion H. split; [exact HK'|split; [exact HA'|]]. intros n. cbn. rewrite aget_upd.
      destruct (n =? node) eqn:E; [|apply HN']. intros _. apply N.eqb_eq in E. subst. apply in_or_app. right. now left.
    + (* ENodeRejected *)
      case_if H; [|discriminate]. inversion H. split; [exact HK'|split; [exact HA'|]]. intros n. cbn. rewrite aget_upd.
      destruct (n =? node) eqn:E; [|apply HN']. cbn. apply N.eqb_eq in E. subst. apply HN'.
    + (* EAllocRejected *)
      destruct (m_cur m) as [[id cap dr|id cap|id|id|id|id q u f ng ph hd tm tx|id|r|ap ky ty| | | | |]|]; try discriminate.
      case_if H; [|discriminate].
      case_if H.
      * inversion H. split; [|split; [exact HA'|exact HN']]. cbn. apply keys_upd_inv; [|exact HK']. unfold k_live. cbn. discriminate.
      * destruct (negb (rq_foreign r) && k_pin (kget (set_cur m (Some (OpAlloc r)) true) key) &&
                  (k_st (kget (set_cur m (Some (OpAlloc r)) true) key) =? K_Out)) eqn:Ec; inversion H; [|exact Base].
        split; [|split; [exact HA'|exact HN']]. cbn. apply keys_upd_inv; [|exact HK']. intros _. cbn.
        apply andb_true_iff in Ec as [_ Ec]. apply N.eqb_eq in Ec.
        apply (kget_live_asked m); [exact HK'|]. unfold k_live.
        change (kget (set_cur m (Some (OpAlloc r)) true) key) with (kget m key) in Ec. rewrite Ec. reflexivity.
  - (* end of request *)
    unfold end_step in H. ok_or_err H. inversion H.
    split; [|split; [exact HA'|exact HN']]. cbn. apply keys_mapv_inv; [apply tame_end_key|exact HK'].
Qed.

Lemma KInv_run : forall t m m' t0, KInv m t0 -> mon_run m t = MOk m' -> KInv m' (t0 ++ t).
Proof.
  induction t as [|it r IH]; intros m m' t0 HI H; cbn in *.
  - inversion H. subst. now rewrite app_nil_r.
  - destruct (mon_step m it) as [m0|c] eqn:E; [|discriminate].
    replace (t0 ++ it :: r) with ((t0 ++ [it]) ++ r) by (rewrite <- app_assoc; reflexivity).
    eapply IH; [|exact H]. eapply KInv_step; eassumption.
Qed.

Lemma KInv_init : KInv mon_init [].
Proof. split; [|split]; intros; cbn in *; discriminate. Qed.

Theorem bind_sound : forall t k app node r p,
  monitor_ok (t ++ [IEv (ENewAlloc k app node r p)]) = true ->
  asked t k app /\ In (IEv (EAppAccepted app)) t /\ In (IEv (ENodeAccepted node)) t.
Proof.
  intros t k app node r p H. unfold monitor_ok in H.
  destruct (mon_run mon_init _) as [mf|c] eqn:E; [|discriminate].
  apply mon_run_app in E as [m1 [E1 E2]]. cbn in E2.
  pose proof (KInv_run _ _ _ _ KInv_init E1) as [HK [HA HN]]. cbn in HK, HA, HN.
  destruct (_ =? K_Bound); [discriminate|].
  destruct (negb (k_live (kget m1 k))) eqn:Ev; [discriminate|]. cbn [orb] in E2. apply negb_false_iff in Ev.
  destruct (negb (k_app (kget m1 k) =? app)) eqn:Ea; [discriminate|]. cbn [orb] in E2. apply negb_false_iff in Ea. apply N.eqb_eq in Ea.
  destruct (k_rel _ || _); [discriminate|].
  destruct (negb (a_live (aget (m_apps m1) app))) eqn:El; [discriminate|]. apply negb_false_iff in El.
  destruct (negb (a_live (aget (m_nodes m1) node))) eqn:En; [discriminate|]. apply negb_false_iff in En.
  split; [|split; [now apply HA|now apply HN]].
  rewrite <- Ea. apply (kget_live_asked m1); assumption.
Qed.

(* the hypotheses are satisfiable: a non-trivial accepted trace (node, application, ask, binding, shim release with echo,
   re-submission of the same key and second binding) and a rejected one (the same key bound twice) *)
Definition ex_req : oreq := mkReq 7 5 0 (Some [(1, 2%Z)]) 0%Z false 0 0 false true false false true.
Definition ex_trace : list item :=
  [IReq (OpNodeAdd 1 [(1, 10%Z)] false); IEv (ENodeAccepted 1); IEnd;
   IReq (OpAppAdd 5 3 6 false false None false 0 None); IEv (EAppAccepted 5); IEnd;
   IReq (OpAlloc ex_req); IEnd;
   IReq OpSched; IEv (ENewAlloc 7 5 1 [(1, 2%Z)] false); IEnd;
   IReq (OpRelease 5 7 1); IEv (ERelease 7 5 1); IEnd;
   IReq (OpAlloc ex_req); IEnd;
   IReq OpSched; IEv (ENewAlloc 7 5 1 [(1, 2%Z)] false); IEnd].
Example ex_trace_ok : monitor_ok ex_trace = true.
Proof. vm_compute. reflexivity. Qed.
Example ex_double_bind_rejected :
  mon_run mon_init (firstn 11 ex_trace ++ [IReq OpSched; IEv (ENewAlloc 7 5 1 [(1, 2%Z)] false)]) = MErr 404.
Proof. vm_compute. reflexivity. Qed.
