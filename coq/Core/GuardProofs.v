(* Proofs about the validation front (property C13), model Core/Guard.v. *)
From Coq Require Import List ZArith NArith Bool Lia.
From YK Require Import Base.Res Core.Obs Core.Guard.
Import ListNotations.
Open Scope N_scope.

Lemma negative_not_sgtz : forall r, res_has_negative r = true -> StrictlyGreaterThanZero (Some r) = false.
Proof.
  intros r H. unfold StrictlyGreaterThanZero. apply andb_false_iff. left.
  unfold res_has_negative in H. apply existsb_exists in H as [kv [Hin Hneg]].
  destruct (forallb (fun kv0 => negb (snd kv0 <? 0)%Z) r) eqn:E; [|reflexivity].
  rewrite forallb_forall in E. specialize (E _ Hin). rewrite Hneg in E. discriminate.
Qed.

Lemma res_invalid_refused : forall o, res_invalid o = true -> IsZero o = true \/ StrictlyGreaterThanZero o = false.
Proof.
  intros [r|] H; [|left; reflexivity]. cbn in H. apply orb_true_iff in H as [H|H].
  - left. exact H.
  - right. now apply negative_not_sgtz.
Qed.

(* every request the specification calls invalid is refused by the guards; it is answered with the rejection message
   exactly when the protocol has one for that request *)
Theorem invalid_rejected : forall s op, invalid_core s op = true ->
  match answer_of op with
  | Some _ => guard s op = VReject
  | None => guard s op = VIgnore
  end.
Proof.
  intros s op H. destruct op as [id cap dr|id cap|id|id|id|id q u f ng ph hd tm tx|id|r|app key ty| | | | |];
    unfold invalid_core in H; try discriminate; cbn [answer_of].
  - (* OpNodeAdd *) unfold guard, guard_gen, node_add_guard. now rewrite H.
  - unfold guard, guard_gen, node_upd_guard. apply negb_true_iff in H. now rewrite H.
  - unfold guard, guard_gen, node_upd_guard. apply negb_true_iff in H. now rewrite H.
  - unfold guard, guard_gen, node_upd_guard. apply negb_true_iff in H. now rewrite H.
  - unfold guard, guard_gen, node_upd_guard. apply negb_true_iff in H. now rewrite H.
  - (* OpAppAdd *) unfold guard, guard_gen, app_add_guard_gen.
    destruct (ng && negb f) eqn:E1; [reflexivity|]. rewrite orb_false_r in H. rewrite H.
    cbn [negb]. rewrite andb_false_r. reflexivity.
  - (* OpAppRemove *) unfold guard, guard_gen, app_remove_guard. apply negb_true_iff in H. now rewrite H.
  - (* OpAlloc *)
    unfold guard, guard_gen, alloc_guard_gen.
    destruct (negb (rq_partition_ok r)); [reflexivity|]. cbn [orb] in H.
    destruct (rq_ph r && (rq_tg r =? 0)); [reflexivity|]. cbn [orb] in H.
    destruct (rq_foreign r).
    + destruct (rq_node r =? 0); [reflexivity|]. cbn [orb] in H.
      destruct (negb (node_known s (rq_node r))); [reflexivity|]. cbn [orb] in H. cbn [andb]. now rewrite H.
    + unfold app_known in H. destruct (find_app s (rq_app r)) as [a|]; [|reflexivity]. cbn [negb orb] in H.
      destruct (negb (rq_node r =? 0) && negb (node_known s (rq_node r))); [reflexivity|]. rewrite orb_false_r in H.
      destruct (res_invalid_refused _ H) as [Hz|Hn]; [now rewrite Hz|].
      destruct (IsZero (rq_res r)); [reflexivity|]. now rewrite Hn.
  - (* OpRelease *)
    unfold guard, guard_gen, release_guard_gen. destruct (app =? 0).
    + apply negb_true_iff in H. now rewrite H.
    + destruct (find_app s app) as [a|]; [|reflexivity]. cbn [negb andb].
      apply andb_true_iff in H as [H H3]. apply andb_true_iff in H as [H1 H2].
      apply negb_true_iff in H1, H2, H3. now rewrite H1, H2, H3.
Qed.

(* a refused request leaves no trace: the front hands back exactly the state it was given *)
Theorem refused_no_trace : forall fixed s op s' ans, front_gen fixed s op = Refused s' ans -> s' = s.
Proof.
  intros fixed s op s' ans H. unfold front_gen in H. destruct (guard_gen fixed s op); inversion H; reflexivity.
Qed.

Theorem invalid_no_trace : forall s op, invalid_core s op = true -> front s op = Refused s (answer_of op).
Proof.
  intros s op H. pose proof (invalid_rejected s op H) as G. unfold front, front_gen. fold (guard s op).
  destruct (answer_of op) as [e|]; rewrite G; reflexivity.
Qed.

(* the guards refuse nothing else: a refusal means the request is invalid, or it updates an allocation whose node
   the shim has removed meanwhile *)
Definition stale_node_update (s : ostate) (op : oop) : bool :=
  match op with
  | OpAlloc r =>
      negb (rq_foreign r) &&
      match find_app s (rq_app r) with
      | Some a => match find_alloc (ap_requests a) (rq_key r) with
                  | Some ex => oa_allocated ex && negb (node_known s (oa_node ex)) | None => false end
      | None => false
      end
  | _ => false
  end.

Lemma not_sgtz_invalid : forall o, IsZero o = false -> StrictlyGreaterThanZero o = false -> res_invalid o = true.
Proof.
  intros [r|] Hz Hs; [|reflexivity]. cbn in *. rewrite Hz. cbn [orb].
  unfold res_has_negative. apply andb_false_iff in Hs as [Hs|Hs].
  - (* some entry is negative *)
    clear Hz. induction r as [|kv t IH]; cbn in *; [discriminate|].
    destruct (snd kv <? 0)%Z; [reflexivity|]. cbn in Hs. cbn. now apply IH.
  - (* no entry is positive although not all are zero: one is negative *)
    induction r as [|kv t IH]; cbn in *; [discriminate|].
    apply orb_false_iff in Hs as [Hp Ht].
    destruct (snd kv <? 0)%Z eqn:En; [reflexivity|]. cbn.
    assert (Hk : (snd kv =? 0)%Z = true) by (apply Z.eqb_eq; apply Z.ltb_ge in Hp, En; lia).
    rewrite Hk in Hz. cbn in Hz. now apply IH.
Qed.

Theorem refused_only_invalid : forall s op,
  (guard s op = VReject \/ guard s op = VIgnore) -> invalid_core s op = true \/ stale_node_update s op = true.
Proof.
  intros s op H. destruct op as [id cap dr|id cap|id|id|id|id q u f ng ph hd tm tx|id|r|app key ty| | | | |];
    unfold guard, guard_gen in H; cbn [invalid_core stale_node_update]; try (destruct H; discriminate).
  - left. unfold node_add_guard in H. destruct (node_known s id); [reflexivity|destruct H; discriminate].
  - left. unfold node_upd_guard in H. destruct (node_known s id); [destruct H; discriminate|reflexivity].
  - left. unfold node_upd_guard in H. destruct (node_known s id); [destruct H; discriminate|reflexivity].
  - left. unfold node_upd_guard in H. destruct (node_known s id); [destruct H; discriminate|reflexivity].
  - left. unfold node_upd_guard in H. destruct (node_known s id); [destruct H; discriminate|reflexivity].
  - left. unfold app_add_guard_gen in H. destruct (ng && negb f); [now rewrite orb_true_r|].
    rewrite andb_false_r in H. destruct (app_known s id); [reflexivity|destruct H; discriminate].
  - left. unfold app_remove_guard in H. destruct (app_known s id); [destruct H; discriminate|reflexivity].
  - unfold alloc_guard_gen in H.
    destruct (negb (rq_partition_ok r)); [now left|]. cbn [orb].
    destruct (rq_ph r && (rq_tg r =? 0)); [now left|]. cbn [orb].
    destruct (rq_foreign r); cbn [negb andb].
    + left. destruct (rq_node r =? 0); [reflexivity|]. cbn [orb].
      destruct (negb (node_known s (rq_node r))); [reflexivity|]. cbn [orb andb] in *.
      destruct (res_has_negative (oget (rq_res r))); [reflexivity|destruct H; discriminate].
    + unfold app_known. destruct (find_app s (rq_app r)) as [a|]; [|now left]. cbn [negb orb].
      destruct (negb (rq_node r =? 0) && negb (node_known s (rq_node r))); [left; now rewrite orb_true_r|]. rewrite orb_false_r.
      destruct (IsZero (rq_res r)) eqn:Ez.
      * left. destruct (rq_res r) as [x|]; [|reflexivity]. cbn in *. now rewrite Ez.
      * destruct (negb (StrictlyGreaterThanZero (rq_res r))) eqn:En.
        -- left. apply negb_true_iff in En. now apply not_sgtz_invalid.
        -- destruct (find_alloc (ap_requests a) (rq_key r)) as [ex|]; [|destruct H; discriminate].
           destruct (oa_allocated ex && negb (node_known s (oa_node ex))); [now right|destruct H; discriminate].
  - left. unfold release_guard_gen in H. destruct (app =? 0).
    + destruct (memN key (map oa_key (s_foreign s))); [destruct H; discriminate|reflexivity].
    + destruct (find_app s app) as [a|]; [|reflexivity]. cbn [negb andb] in H.
      destruct (key =? 0); [destruct H; discriminate|]. cbn [orb negb andb] in *.
      destruct (memN key (map oa_key (ap_allocs a))); [destruct H; discriminate|].
      destruct (memN key (map oa_key (ap_requests a))); [destruct H; discriminate|reflexivity].
Qed.

(* the front of the repaired code has no crash path ... *)
Theorem no_crash : forall s op, front s op <> Crash.
Proof.
  intros s op. unfold front, front_gen.
  assert (G : guard_gen true s op <> VCrash).
  { destruct op as [id cap dr|id cap|id|id|id|id q u f ng ph hd tm tx|id|r|app key ty| | | | |]; cbn; try discriminate.
    - unfold node_add_guard. destruct (node_known s id); discriminate.
    - unfold node_upd_guard. destruct (node_known s id); discriminate.
    - unfold node_upd_guard. destruct (node_known s id); discriminate.
    - unfold node_upd_guard. destruct (node_known s id); discriminate.
    - unfold node_upd_guard. destruct (node_known s id); discriminate.
    - unfold app_add_guard_gen. destruct (ng && negb f); [discriminate|]. rewrite andb_false_r.
      destruct (app_known s id); discriminate.
    - unfold app_remove_guard. destruct (app_known s id); discriminate.
    - unfold alloc_guard_gen.
      repeat match goal with |- (if ?c then _ else _) <> _ => destruct c; try discriminate end.
      destruct (find_app s (rq_app r)); [|discriminate].
      repeat match goal with |- (if ?c then _ else _) <> _ => destruct c; try discriminate end.
      destruct (find_alloc (ap_requests o) (rq_key r)); [|discriminate].
      destruct (_ && _); discriminate.
    - unfold release_guard_gen. destruct (app =? 0); [destruct (memN _ _); discriminate|].
      destruct (find_app s app); [|discriminate]. cbn [negb andb].
      destruct (_ || _ || _); discriminate. }
  destruct (guard_gen true s op); try discriminate. congruence.
Qed.

(* ... while the code before the fixes had three (each is a request a protobuf decoder can produce) and two silent
   acceptances of invalid requests *)
Definition w_node : onode := mkON 1 [(1, 10%Z)] [] [(1, 2%Z)] [(1, 8%Z)] true
  [mkOA 7 5 1 [(1, 2%Z)] true 9 true false false 0 0 0%Z false false true false] [] [].
Definition w_app : oapp := mkOApp 5 3 ST_Accepted 6 [] [] [(1, 2%Z)] [(1, 2%Z)]
  [mkOA 7 5 1 [(1, 2%Z)] true 9 true false false 0 0 0%Z false false true false]
  [mkOA 7 5 1 [(1, 2%Z)] true 9 true false false 0 0 0%Z false false true false] [] [] [ST_Accepted] true false false true.
Definition w_state : ostate := mkOS [w_node; mkON 2 [(1, 10%Z)] [] [] [(1, 10%Z)] true [] [] []] [w_app] [] (Some [(1, 20%Z)]) 1 1 0
  [mkOA 20 0 1 [(1, 1%Z)] false 0 true false false 0 0 0%Z true false true false] [] [] [].

Theorem crash_before_fix :
  front_gen false w_state (OpAppAdd 30 3 6 true true None false 0 None) = Crash /\
  front_gen false w_state (OpRelease 5 7 TT_PlaceholderReplaced) = Crash /\
  front_gen false w_state (OpAlloc (mkReq 40 5 0 (Some [(1, 1%Z)]) 0%Z true 0 0 false true false false true)) = Refused w_state None /\
  front_gen false w_state (OpAlloc (mkReq 41 0 1 (Some [(1, (-5)%Z)]) 0%Z false 0 0 true true false false true)) = Passed.
Proof. vm_compute. repeat split; reflexivity. Qed.

(* refuted clause (finding C13-foreign-update-other-node, DESIGN 7 #12): an update of an existing foreign allocation
   that names another node is invalid for the property, yet passes every guard *)
Theorem foreign_move_not_refused : exists s op,
  foreign_moved s op = true /\ invalid s op = true /\ front s op = Passed.
Proof.
  exists w_state, (OpAlloc (mkReq 20 0 2 (Some [(1, 1%Z)]) 0%Z false 0 0 true true false false true)).
  vm_compute. repeat split; reflexivity.
Qed.

(* the hypotheses of invalid_rejected are satisfiable on a non-trivial state, one request per handler *)
Example invalid_examples :
  forallb (invalid_core w_state)
    [OpAlloc (mkReq 40 99 0 (Some [(1, 1%Z)]) 0%Z false 0 0 false true false false true);      (* unknown application *)
     OpAlloc (mkReq 40 5 0 (Some [(1, 0%Z)]) 0%Z false 0 0 false true false false true);       (* zero resources *)
     OpAlloc (mkReq 40 5 0 (Some [(1, 4%Z); (2, (-2)%Z)]) 0%Z false 0 0 false true false false true);  (* mixed sign *)
     OpAlloc (mkReq 40 5 0 None 0%Z false 0 0 false true false false true);                     (* unset resource *)
     OpAlloc (mkReq 40 5 8 (Some [(1, 1%Z)]) 0%Z false 0 0 false true false false true);       (* unknown node *)
     OpAlloc (mkReq 40 5 0 (Some [(1, 1%Z)]) 0%Z true 0 0 false true false false true);        (* placeholder without task group *)
     OpAlloc (mkReq 41 0 0 (Some [(1, 1%Z)]) 0%Z false 0 0 true true false false true);        (* foreign without node *)
     OpAlloc (mkReq 41 0 1 (Some [(1, (-5)%Z)]) 0%Z false 0 0 true true false false true);     (* foreign, negative *)
     OpRelease 99 7 1; OpRelease 5 77 4; OpRelease 0 77 1;
     OpNodeAdd 1 [(1, 5%Z)] false; OpNodeUpdate 8 None; OpNodeRemove 8;
     OpAppAdd 5 3 6 false false None false 0 None; OpAppAdd 30 3 6 false true None false 0 None; OpAppRemove 99] = true.
Proof. vm_compute. reflexivity. Qed.
