(* C01 over the second fragment of the operational model (Core/Model2.v, [m_step2]): application add / remove, node
   removal, the state timer, in-place updates of existing keys and RM placement of a pending ask.
   The node ledger invariant [SInv] of Core/StepProofs.v is preserved by every step [m_step2] covers, hence holds in
   every state a run of [m_step2] reaches; negative available entries appear only with OpAlloc / OpNodeUpdate.
   New hypotheses (all carried per step, see [step_ok2]):
     - [bind_key_fresh2]: as [bind_key_fresh], except that a request for a key the application holds as an ALLOCATED
       ask is an update in place (the key IS listed by its node);
     - [update_listed]: the allocated ask that is updated in place is listed by its node with the same resource
       (Go: the same object; follows from the C03 invariants, see Core/Model2ProofsB*.v);
     - [delta_small]: new resource - old resource of an in-place update is within the bound;
     - [remove_nonneg]: when an application is removed, the allocations nodes list are non-negative (the removal
       walks over several allocations; the bound [Bounded] of the pre-state is kept only because ledgers shrink). *)
From Coq Require Import List ZArith NArith Bool Lia ZifyBool.
From YK Require Import Base.Int64 Base.Int64Laws Base.Res Base.ResSpec Base.ResLemmas Base.ResLaws Base.ResLaws2
  Base.ResLawsPred Core.Obs Core.Model Core.Model2 Core.Ledger Core.NodeProofs Core.QueueProofs Core.StepProofs Oracles.CoreC01.
Import ListNotations.
Open Scope Z_scope.
Set Default Timeout 30.

(* ------------------------------------------------------------------ the step hypotheses of the second fragment *)
Definition existing_ask (s : ostate) (r : oreq) : option (oapp * oalloc) :=
  match find_app s (rq_app r) with
  | Some a => match find_alloc (ap_requests a) (rq_key r) with Some x => Some (a, x) | None => None end
  | None => None
  end.
(* the request addresses a key its application holds as an allocated ask: an update in place *)
Definition upd_allocated (s : ostate) (r : oreq) : bool :=
  negb (rq_foreign r) && match existing_ask s r with Some (_, x) => oa_allocated x | None => false end.

Definition bind_key_fresh2 (s : ostate) (st : ostep) : Prop :=
  match st_op st with
  | OpAlloc r => if upd_allocated s r then True else bind_key_fresh s st
  | _ => bind_key_fresh s st
  end.
Definition update_listed (s : ostate) (st : ostep) : Prop :=
  match st_op st with
  | OpAlloc r => upd_allocated s r = true -> forall a x n, existing_ask s r = Some (a, x) -> find_node s (oa_node x) = Some n ->
      exists old, find_alloc (on_allocs n) (rq_key r) = Some old /\ oa_res old = oa_res x
  | _ => True
  end.
Definition delta_small (s : ostate) (st : ostep) : Prop :=
  match st_op st with
  | OpAlloc r => upd_allocated s r = true -> forall a x, existing_ask s r = Some (a, x) ->
      forall k, small (getz (oget (rq_res r)) k - getz (oa_res x) k)
  | _ => True
  end.
Definition remove_nonneg (s : ostate) (st : ostep) : Prop :=
  match st_op st with OpAppRemove _ => allocs_nonneg s | _ => True end.

Record step_ok2 (s : ostate) (st : ostep) : Prop := mkSO2 {
  so2_inputs : inputs_ok st; so2_fresh : bind_key_fresh2 s st; so2_known : foreign_update_known s st;
  so2_listed : update_listed s st; so2_delta : delta_small s st; so2_nonneg : remove_nonneg s st }.

(* the hypotheses of the first fragment imply those of the second *)
Lemma step_ok_ok2 s st : step_ok s st -> update_listed s st -> delta_small s st -> remove_nonneg s st -> step_ok2 s st.
Proof. intros [H1 H2 H3] H4 H5 H6. split; try assumption. unfold bind_key_fresh2. destruct (st_op st); try assumption.
  destruct (upd_allocated s r); [exact I|assumption]. Qed.

(* ------------------------------------------------------------------ a request for an existing key is outside the first fragment *)
Lemma m_alloc_existing s r s' a x : m_alloc s r = Some s' -> rq_foreign r = false -> existing_ask s r = Some (a, x) -> s' = s.
Proof. unfold m_alloc, existing_ask. intros H Hf He. destruct (negb (rq_partition_ok r)); [inversion H; reflexivity|].
  rewrite Hf in H. destruct (find_app s (rq_app r)) as [a0|]; [|discriminate].
  destruct (find_alloc (ap_requests a0) (rq_key r)) as [x0|]; [|discriminate].
  destruct (negb (rq_node r =? 0)%N && _); [inversion H; reflexivity|].
  destruct (IsZero (rq_res r) || _); [inversion H; reflexivity|]. discriminate. Qed.

Lemma upd_allocated_true s r : upd_allocated s r = true ->
  rq_foreign r = false /\ exists a x, existing_ask s r = Some (a, x) /\ oa_allocated x = true.
Proof. unfold upd_allocated. rewrite andb_true_iff, negb_true_iff. intros [H1 H2]. split; [assumption|].
  destruct (existing_ask s r) as [[a x]|]; [|discriminate]. eauto. Qed.

(* ------------------------------------------------------------------ frames *)
Lemma find_node_ext s s' id : s_nodes s' = s_nodes s -> find_node s' id = find_node s id.
Proof. unfold find_node. intros ->. reflexivity. Qed.
Lemma reqs_filter (P : oalloc -> Prop) s (f : oapp -> bool) : reqs_from P s -> reqs_from P (set_apps s (filter f (s_apps s))).
Proof. intros H a x Ha Hx. cbn [set_apps s_apps] in Ha. apply filter_In in Ha. eapply H; [apply Ha|exact Hx]. Qed.

(* ------------------------------------------------------------------ m_app_add *)
Lemma m_app_add_nodes s id queue user forced nougi phask tagmaxapps tagmax s' :
  m_app_add s id queue user forced nougi phask tagmaxapps tagmax = Some s' ->
  s_nodes s' = s_nodes s /\ forall P : oalloc -> Prop, reqs_from P s -> reqs_from P s'.
Proof. unfold m_app_add. intros H. destruct (find_app s id); [inversion H; subst; auto|].
  destruct (nougi || forced || _ || _ || _); [discriminate|]. destruct (find_queue s queue) as [q|]; [|discriminate].
  destruct (q_leaf q && _ && _); [|discriminate]. inversion H; subst s'; clear H. split; [reflexivity|].
  intros P HR a x Ha Hx. cbn [set_apps s_apps] in Ha. apply in_app_or in Ha. destruct Ha as [Ha|[<-|[]]]; [eapply HR; eassumption|].
  cbn in Hx. contradiction. Qed.

Lemma SInv_nodes_same s s' : s_nodes s' = s_nodes s -> reqs_from req_ok s' -> SInv s -> SInv s'.
Proof. intros En HR [H1 H2 _]. split; [rewrite En; assumption|rewrite En; assumption|assumption]. Qed.

(* ------------------------------------------------------------------ removal of several allocations from nodes *)
Lemma asum_nonneg l k : (forall x, In x l -> res_nonnegP (oa_res x)) -> 0 <= asum l k.
Proof. induction l as [|y t IH]; intros H; [cbn; lia|]. rewrite asum_cons. pose proof (H y (or_introl eq_refl) k).
  specialize (IH (fun x Hx => H x (or_intror Hx))). lia. Qed.
Lemma asum_member_le l x k : (forall y, In y l -> res_nonnegP (oa_res y)) -> In x l -> getz (oa_res x) k <= asum l k.
Proof. induction l as [|y t IH]; intros H Hin; [contradiction|]. rewrite asum_cons. destruct Hin as [->|Hin].
  - pose proof (asum_nonneg t k (fun z Hz => H z (or_intror Hz))). lia.
  - pose proof (H y (or_introl eq_refl) k). specialize (IH (fun z Hz => H z (or_intror Hz)) Hin). lia. Qed.

(* what stays true of a node while listed, non-negative allocations are removed from it one after the other *)
Record NodeJ (n : onode) : Prop := mkNJ {
  nj_ledger : NodeLedger n; nj_wf : NodeWF n; nj_total : rsmall (on_total n);
  nj_allocs : allocs_small (on_allocs n); nj_foreign : allocs_small (on_foreign n);
  nj_nn : forall x, In x (on_allocs n) \/ In x (on_foreign n) -> res_nonnegP (oa_res x);
  nj_alloc_le : forall k, getz (on_allocated n) k <= lim;
  nj_occ_le : forall k, getz (on_occupied n) k <= lim }.

Lemma NodeJ_of n : NodeLedger n -> NodeWF n -> NodeSmall n ->
  (forall x, In x (on_allocs n) \/ In x (on_foreign n) -> res_nonnegP (oa_res x)) -> NodeJ n.
Proof. intros L W [St So Sa Sv Sl Sf] Hn. split; try assumption.
  - intros k. specialize (Sa k). sm.
  - intros k. specialize (So k). sm. Qed.

Lemma NodeJ_ranges n k : NodeJ n ->
  0 <= getz (on_allocated n) k <= lim /\ 0 <= getz (on_occupied n) k <= lim /\ small (getz (on_total n) k) /\
  getz (on_available n) k = getz (on_total n) k - getz (on_allocated n) k - getz (on_occupied n) k.
Proof. intros [[L1 L2 L3] W St Sl Sf Hn Ha Ho]. split; [|split; [|split]].
  - split; [rewrite L1; apply asum_nonneg; intros x Hx; apply Hn; auto|apply Ha].
  - split; [rewrite L2; apply asum_nonneg; intros x Hx; apply Hn; auto|apply Ho].
  - apply St.
  - apply L3. Qed.

Lemma n_remove_J n key : NodeJ n -> NodeJ (n_remove n key) /\ forall k, getz (on_available n) k <= getz (on_available (n_remove n key)) k.
Proof. intros J. pose proof (fun k => NodeJ_ranges n k J) as R. destruct J as [[L1 L2 L3] W St Sl Sf Hn Ha Ho].
  pose proof (n_remove_wf n key W) as W'. destruct W as [Wt Wo Wa Wv Wl Wf Kl Kf]. unfold n_remove in *.
  destruct (find_alloc (on_allocs n) key) as [x|] eqn:E1; [|destruct (find_alloc (on_foreign n) key) as [x|] eqn:E2].
  - assert (Wx := allocs_wf_find _ _ _ Wl E1). destruct (find_alloc_some _ _ _ E1) as [Hx Ek].
    assert (Sx : rsmall (oa_res x)) by (apply Sl; assumption).
    assert (Nx : res_nonnegP (oa_res x)) by (apply Hn; auto).
    assert (Lx : forall k, getz (oa_res x) k <= getz (on_allocated n) k).
    { intros k. rewrite L1. apply asum_member_le; [intros y Hy; apply Hn; auto|assumption]. }
    assert (G1 : forall k, getz (Prune (subFrom (on_allocated n) (oa_res x))) k = getz (on_allocated n) k - getz (oa_res x) k).
    { intros k. rewrite Prune_getz by (apply subFrom_wf; assumption). specialize (R k). specialize (Sx k). specialize (Lx k). specialize (Nx k).
      apply subFrom_getz; try assumption; sm. }
    assert (G2 : forall k, getz (addTo (on_available n) (oa_res x)) k = getz (on_available n) k + getz (oa_res x) k).
    { intros k. specialize (R k). specialize (Sx k). specialize (Lx k). specialize (Nx k).
      apply addTo_getz; try assumption; sm. }
    split; [split|].
    + split; nproj; intros k; [rewrite G1, asum_del, E1, L1 by assumption; reflexivity|apply L2|rewrite G2, G1, L3; lia].
    + exact W'.
    + exact St.
    + nproj. intros y Hy. apply Sl. apply filter_In in Hy. tauto.
    + exact Sf.
    + nproj. intros y [Hy|Hy]; apply Hn; [left; apply filter_In in Hy; tauto|right; assumption].
    + nproj. intros k. rewrite G1. specialize (Ha k). specialize (Nx k). lia.
    + exact Ho.
    + nproj. intros k. rewrite G2. specialize (Nx k). lia.
  - assert (Wx := allocs_wf_find _ _ _ Wf E2). destruct (find_alloc_some _ _ _ E2) as [Hx Ek].
    assert (Sx : rsmall (oa_res x)) by (apply Sf; assumption).
    assert (Nx : res_nonnegP (oa_res x)) by (apply Hn; auto).
    assert (Lx : forall k, getz (oa_res x) k <= getz (on_occupied n) k).
    { intros k. rewrite L2. apply asum_member_le; [intros y Hy; apply Hn; auto|assumption]. }
    assert (G1 : forall k, getz (Sub (Some (on_occupied n)) (Some (oa_res x))) k = getz (on_occupied n) k - getz (oa_res x) k).
    { intros k. cbn [Sub oget]. specialize (R k). specialize (Sx k). specialize (Lx k). specialize (Nx k).
      apply subFrom_getz; try assumption; sm. }
    assert (G2 : forall k, getz (addTo (on_available n) (oa_res x)) k = getz (on_available n) k + getz (oa_res x) k).
    { intros k. specialize (R k). specialize (Sx k). specialize (Lx k). specialize (Nx k).
      apply addTo_getz; try assumption; sm. }
    split; [split|].
    + split; nproj; intros k; [apply L1|rewrite G1, asum_del, E2, L2 by assumption; reflexivity|rewrite G2, G1, L3; lia].
    + exact W'.
    + exact St.
    + exact Sl.
    + nproj. intros y Hy. apply Sf. apply filter_In in Hy. tauto.
    + nproj. intros y [Hy|Hy]; apply Hn; [left; assumption|right; apply filter_In in Hy; tauto].
    + exact Ha.
    + nproj. intros k. rewrite G1. specialize (Ho k). specialize (Nx k). lia.
    + nproj. intros k. rewrite G2. specialize (Nx k). lia.
  - split; [split; try assumption; split; assumption|intros k; lia]. Qed.

Lemma rafn_frame l : forall s, s_apps (remove_allocs_from_nodes s l) = s_apps s.
Proof. induction l as [|x t IH]; intros s; [reflexivity|]. cbn [remove_allocs_from_nodes]. rewrite IH.
  destruct (find_node s (oa_node x)); reflexivity. Qed.

(* a predicate on nodes that n_remove preserves holds for all nodes afterwards; nodes only change through n_remove *)
Lemma rafn_nodes (P : onode -> Prop) l : (forall n key, P n -> P (n_remove n key)) ->
  forall s, (forall n, In n (s_nodes s) -> P n) -> forall n, In n (s_nodes (remove_allocs_from_nodes s l)) -> P n.
Proof. intros HP. induction l as [|x t IH]; intros s H; [exact H|]. cbn [remove_allocs_from_nodes]. apply IH.
  destruct (find_node s (oa_node x)) as [n0|] eqn:En; [|exact H]. destruct (find_node_some _ _ _ En) as [Hin _].
  intros m Hm. apply in_upd_node in Hm. destruct Hm as (m0 & Hm0 & [->| ->]); [auto|]. apply HP. auto. Qed.

(* available never decreases: stated through a lower bound *)
Lemma rafn_nodes_rel (P : onode -> Prop) (R : onode -> Prop) l :
  (forall n key, P n -> R n -> P (n_remove n key) /\ R (n_remove n key)) ->
  forall s, (forall n, In n (s_nodes s) -> P n /\ R n) -> forall n, In n (s_nodes (remove_allocs_from_nodes s l)) -> P n /\ R n.
Proof. intros HP. apply (rafn_nodes (fun n => P n /\ R n)). intros n key [H1 H2]. apply HP; assumption. Qed.

Lemma m_app_remove_inv s id s' : m_app_remove s id = Some s' ->
  (s' = s) \/ exists a s2, find_app s id = Some a /\ s_nodes s2 = s_nodes s /\ s_apps s2 = s_apps s /\
     s_nodes s' = s_nodes (remove_allocs_from_nodes s2 (ap_allocs a)) /\
     s_apps s' = filter (fun b => negb (ap_id b =? id)%N) (s_apps s).
Proof. unfold m_app_remove. intros H. destruct (find_app s id) as [a|] eqn:Ea; [|inversion H; auto].
  destruct (negb (no_res a) || negb (plain_allocs a)); [discriminate|]. inversion H; subst s'; clear H. right.
  set (s1 := if IsZero (Some (ap_pending a)) then s else q_dec_pending s (ap_queue a) (ap_pending a)).
  set (s2 := if IsZero (Some (ap_allocated a)) then s1 else q_dec s1 (ap_queue a) (ap_allocated a)).
  assert (E1 : s_nodes s1 = s_nodes s /\ s_apps s1 = s_apps s) by (unfold s1; destruct (IsZero _); split; reflexivity).
  assert (E2 : s_nodes s2 = s_nodes s /\ s_apps s2 = s_apps s).
  { unfold s2. destruct (IsZero (Some (ap_allocated a))); [exact E1|]. destruct (q_dec_frame s1 (ap_queue a) (ap_allocated a)) as [F1 F2].
    rewrite F1, F2. exact E1. }
  exists a, s2. split; [reflexivity|]. split; [apply E2|]. split; [apply E2|]. split; [reflexivity|].
  cbn [add_counts set_apps s_apps]. rewrite rafn_frame. f_equal. exact (proj2 E2). Qed.

Lemma NodeJ_state s : SInv s -> Bounded s -> allocs_nonneg s -> forall n, In n (s_nodes s) -> NodeJ n.
Proof. intros HI HB Hn n Hin. apply NodeJ_of; [apply HI|apply HI|apply HB|]; try assumption. intros x Hx. eapply Hn; eassumption. Qed.

Lemma m_app_remove_sinv s id s' : m_app_remove s id = Some s' -> SInv s -> Bounded s -> allocs_nonneg s -> SInv s'.
Proof. intros H HI HB Hn. destruct (m_app_remove_inv _ _ _ H) as [->|(a & s2 & Ea & En2 & Ea2 & En' & Ea')]; [assumption|].
  assert (HJ : forall n, In n (s_nodes s') -> NodeJ n).
  { rewrite En'. apply (rafn_nodes NodeJ); [intros n key J; apply (n_remove_J n key J)|]. rewrite En2. apply NodeJ_state; assumption. }
  split; [intros n Hin; apply (nj_ledger n (HJ n Hin))|intros n Hin; apply (nj_wf n (HJ n Hin))|].
  intros b x Hb Hx. rewrite Ea' in Hb. apply filter_In in Hb. eapply (si_reqs _ HI); [apply Hb|exact Hx]. Qed.

(* ------------------------------------------------------------------ m_node_remove *)
Lemma rna_frame l : forall s s' c, remove_node_allocs s l = (s', c) ->
  s_nodes s' = s_nodes s /\ forall P : oalloc -> Prop, reqs_from P s -> reqs_from P s'.
Proof. induction l as [|x t IH]; intros s s' c H; cbn [remove_node_allocs] in H; [inversion H; auto|].
  destruct (find_app s (oa_app x)) as [a|] eqn:Ea; [|apply (IH _ _ _ H)].
  destruct (find_alloc (ap_allocs a) (oa_key x)); [|apply (IH _ _ _ H)]. cbv zeta in H.
  match type of H with (let '(s3, n) := remove_node_allocs ?S t in _) = _ => destruct (remove_node_allocs S t) as [s3 n] eqn:E end.
  inversion H; subst s' c; clear H. destruct (IH _ _ _ E) as [F1 F2]. destruct (find_app_some _ _ _ Ea) as [Hina _].
  match type of E with remove_node_allocs (q_dec ?S ?Q ?R) t = _ => destruct (q_dec_frame S Q R) as [G1 G2] end.
  split; [rewrite F1, G1; reflexivity|]. intros P HR. apply F2. eapply reqs_same; [exact G2|].
  apply reqs_upd_app; [exact HR|]. intros b y Hb _ Hy. cbn [ap_with ap_requests] in Hy. rewrite ap_event_requests in Hy.
  eapply HR; [exact Hina|]. exact Hy. Qed.

Lemma m_node_remove_inv s id s' : m_node_remove s id = Some s' ->
  (s' = s) \/ (s_nodes s' = filter (fun m => negb (on_id m =? id)%N) (s_nodes s) /\ forall P : oalloc -> Prop, reqs_from P s -> reqs_from P s').
Proof. unfold m_node_remove. intros H. destruct (find_node s id) as [n|]; [|inversion H; auto].
  destruct (negb _ || negb _); [discriminate|].
  match type of H with (let '(s1, cnt) := remove_node_allocs ?S ?L in _) = _ => destruct (remove_node_allocs S L) as [s1 cnt] eqn:E end.
  inversion H; subst s'; clear H. right. destruct (rna_frame _ _ _ _ E) as [F1 F2]. split.
  - change (s_nodes s1 = filter (fun m => negb (on_id m =? id)%N) (s_nodes s)). rewrite F1. reflexivity.
  - intros P HR. eapply (reqs_same P s1); [reflexivity|]. apply F2. eapply reqs_same; [|exact HR]. reflexivity. Qed.

Lemma m_node_remove_sinv s id s' : m_node_remove s id = Some s' -> SInv s -> SInv s'.
Proof. intros H HI. destruct (m_node_remove_inv _ _ _ H) as [->|[En HR]]; [assumption|]. destruct HI as [H1 H2 H3].
  split; [intros n Hn; rewrite En in Hn; apply filter_In in Hn; apply H1; tauto|intros n Hn; rewrite En in Hn; apply filter_In in Hn; apply H2; tauto|].
  apply HR. assumption. Qed.

(* ------------------------------------------------------------------ the state timer *)
Lemma m_fire_state_inv s id s' : m_fire_state s id = Some s' ->
  s' = s \/ s' = set_apps s (filter (fun b => negb (ap_id b =? id)%N) (s_apps s)).
Proof. unfold m_fire_state. intros H. destruct (find_app s id) as [a|]; [|discriminate].
  destruct (negb (ap_statetimer a)); [inversion H; auto|]. destruct (_ && _ && _ && _); [|discriminate]. inversion H; auto. Qed.
Lemma m_fire_state_sinv s id s' : m_fire_state s id = Some s' -> SInv s -> SInv s'.
Proof. intros H HI. destruct (m_fire_state_inv _ _ _ H) as [->| ->]; [assumption|].
  apply (SInv_nodes_same s); [reflexivity| |assumption]. apply reqs_filter. apply HI. Qed.

(* ------------------------------------------------------------------ UpdateAllocation for an existing key *)
Lemma in_set_res key newres l y : In y (set_res key newres l) -> In y l \/ exists y0, In y0 l /\ y = oa_with_res y0 newres.
Proof. unfold set_res. intros H. apply in_map_iff in H. destruct H as (y0 & E & Hin). destruct (oa_key y0 =? key)%N; subst y; eauto. Qed.
Lemma allocs_wf_set_res key newres l : wf newres -> allocs_wf l -> allocs_wf (set_res key newres l).
Proof. intros Wn Hl y Hy. apply in_set_res in Hy. destruct Hy as [Hy|(y0 & Hy0 & ->)]; [auto|exact Wn]. Qed.

Lemma n_update_alloc_wf n key newres delta : NodeWF n -> wf newres -> NodeWF (n_update_alloc n key newres delta).
Proof. intros [Wt Wo Wa Wv Wl Wf Kl Kf] Wn. unfold n_update_alloc. apply n_refresh_wf. split; nproj; try assumption.
  - apply Prune_wf, addTo_wf. assumption.
  - apply (allocs_wf_set_res key newres _ Wn Wl).
  - change (NoDup (akeys (set_res key newres (on_allocs n)))). rewrite akeys_set_res. assumption. Qed.

(* requests of the updated application record *)
Lemma reqs_set_res (P : oalloc -> Prop) key newres l : (forall y, In y l -> P y) -> (forall y, In y l -> P (oa_with_res y newres)) ->
  forall y, In y (set_res key newres l) -> P y.
Proof. intros H1 H2 y Hy. apply in_set_res in Hy. destruct Hy as [Hy|(y0 & Hy0 & ->)]; auto. Qed.

Section UpdateExisting.
  Variables (s : ostate) (a : oapp) (x : oalloc) (r : oreq).
  Hypothesis HI : SInv s.
  Hypothesis HB : Bounded s.
  Hypothesis Ha : find_app s (rq_app r) = Some a.
  Hypothesis Hx : find_alloc (ap_requests a) (rq_key r) = Some x.
  Hypothesis Hnf : rq_foreign r = false.
  Hypothesis Wr : wf (oget (rq_res r)).
  Hypothesis Sr : rsmall (oget (rq_res r)).
  (* in-place update of an allocated ask *)
  Hypothesis Hlisted : oa_allocated x = true -> forall n, find_node s (oa_node x) = Some n ->
    exists old, find_alloc (on_allocs n) (rq_key r) = Some old /\ oa_res old = oa_res x.
  Hypothesis Hdelta : oa_allocated x = true -> forall k, small (getz (oget (rq_res r)) k - getz (oa_res x) k).
  (* placement of a pending ask *)
  Hypothesis Hfresh : oa_allocated x = false -> forall n, find_node s (rq_node r) = Some n -> ~ In (rq_key r) (akeys (on_allocs n)).

  Let newres := oget (rq_res r).
  Let delta := Prune (Sub (Some newres) (Some (oa_res x))).
  Let Hina : In a (s_apps s) := proj1 (find_app_some _ _ _ Ha).
  Let Hinx : In x (ap_requests a) := proj1 (find_alloc_some _ _ _ Hx).
  Let Ekx : oa_key x = rq_key r := proj2 (find_alloc_some _ _ _ Hx).

  Lemma ue_x_ok : wf (oa_res x) /\ oa_foreign x = false /\ rsmall (oa_res x).
  Proof. destruct (si_reqs _ HI a x Hina Hinx) as [W F]. split; [exact W|]. split; [exact F|]. apply (bd_reqs _ HB a x Hina Hinx). Qed.

  Lemma ue_delta k : small (getz newres k - getz (oa_res x) k) -> getz delta k = getz newres k - getz (oa_res x) k.
  Proof. clear Hlisted Hdelta Hfresh. intros Hs. destruct ue_x_ok as (Wx & _ & Sx). unfold delta. cbn [Sub oget]. rewrite Prune_getz by (apply subFrom_wf; exact Wr).
    pose proof (Sr k) as S1. specialize (Sx k). fold newres in S1. apply subFrom_getz; try assumption; sm. Qed.

  (* the state after the resource update, and the set of properties the placement needs of it *)
  Definition ue_mid : ostate :=
    let changed := negb (IsZero (Some delta)) && negb (IsZero (Some newres)) in
    if negb changed then s else
    if oa_allocated x then
      let a1 := ap_with a (ap_state a) (ap_pending a) (Prune (Add (Some (ap_allocated a)) (Some delta))) (ap_phalloc a)
                        (map (fun y => if (oa_key y =? oa_key x)%N then oa_with_res y newres else y) (ap_requests a))
                        (map (fun y => if (oa_key y =? oa_key x)%N then oa_with_res y newres else y) (ap_allocs a)) (ap_statelog a) in
      let s0 := q_inc (upd_app s (ap_id a) (fun _ => a1)) (ap_queue a) delta in
      match find_node s0 (oa_node x) with
      | Some n => upd_node s0 (on_id n) (fun _ => n_update_alloc n (oa_key x) newres delta)
      | None => s0 end
    else
      let a1 := ap_with a (ap_state a) (Prune (Add (Some (ap_pending a)) (Some delta))) (ap_allocated a) (ap_phalloc a)
                        (map (fun y => if (oa_key y =? oa_key x)%N then oa_with_res y newres else y) (ap_requests a))
                        (ap_allocs a) (ap_statelog a) in
      q_inc_pending (upd_app s (ap_id a) (fun _ => a1)) (ap_queue a) delta.

  Lemma ue_reqs_ok y : In y (set_res (oa_key x) newres (ap_requests a)) -> req_ok y /\ req_small y.
  Proof. apply (reqs_set_res (fun y => req_ok y /\ req_small y)).
    - intros y0 Hy0. split; [apply (si_reqs _ HI a y0 Hina Hy0)|apply (bd_reqs _ HB a y0 Hina Hy0)].
    - intros y0 Hy0. destruct (si_reqs _ HI a y0 Hina Hy0) as [_ F]. split; [split; [exact Wr|exact F]|exact Sr]. Qed.

  Lemma ue_mid_facts : SInv ue_mid /\ reqs_from req_small ue_mid /\ (oa_allocated x = false -> s_nodes ue_mid = s_nodes s).
  Proof. unfold ue_mid. cbv zeta. destruct (negb (negb (IsZero (Some delta)) && negb (IsZero (Some newres)))).
    { split; [exact HI|]. split; [apply HB|reflexivity]. }
    destruct (oa_allocated x) eqn:Eal.
    - set (a1 := ap_with a _ _ _ _ _ _ _).
      assert (HR : forall P : oalloc -> Prop, (forall y, In y (ap_requests a1) -> P y) -> reqs_from P s ->
                     reqs_from P (upd_app s (ap_id a) (fun _ => a1))).
      { intros P H1 H2. apply reqs_upd_app; [exact H2|]. intros b y _ _ Hy. apply H1. exact Hy. }
      change (find_node (q_inc (upd_app s (ap_id a) (fun _ => a1)) (ap_queue a) delta) (oa_node x)) with (find_node s (oa_node x)).
      destruct (find_node s (oa_node x)) as [n|] eqn:En.
      + destruct (find_node_some _ _ _ En) as [Hn Hid]. destruct (Hlisted eq_refl n eq_refl) as (old & Eold & Eres).
        destruct ue_x_ok as (Wx & Fx & Sx).
        assert (Wd : wf delta) by (unfold delta; apply Prune_wf, Sub_wf; exact Wr).
        assert (Gd : forall k, getz delta k = getz newres k - getz (oa_res old) k) by (intros k; rewrite Eres; apply ue_delta, Hdelta; reflexivity).
        assert (Sd : rsmall delta) by (intros k; rewrite Gd, Eres; apply Hdelta; reflexivity).
        split; [|split; [|discriminate]].
        * eapply (SInv_set_node s _ (on_id n) (n_update_alloc n (oa_key x) newres delta)); [reflexivity| | | |exact HI].
          -- rewrite Ekx. eapply n_update_alloc_ledger; [apply HI|apply HI|apply HB|exact Eold|exact Wd|exact Sd|exact Gd]; assumption.
          -- apply n_update_alloc_wf; [apply HI; assumption|exact Wr].
          -- eapply (reqs_same req_ok (upd_app s (ap_id a) (fun _ => a1))); [reflexivity|].
             apply HR; [|apply HI]. intros y Hy. apply (proj1 (ue_reqs_ok y Hy)).
        * eapply (reqs_same req_small (upd_app s (ap_id a) (fun _ => a1))); [reflexivity|].
          apply HR; [|apply HB]. intros y Hy. apply (proj2 (ue_reqs_ok y Hy)).
      + split; [|split; [|discriminate]].
        * apply (SInv_nodes_same s); [reflexivity| |exact HI].
          eapply (reqs_same req_ok (upd_app s (ap_id a) (fun _ => a1))); [reflexivity|].
          apply HR; [|apply HI]. intros y Hy. apply (proj1 (ue_reqs_ok y Hy)).
        * eapply (reqs_same req_small (upd_app s (ap_id a) (fun _ => a1))); [reflexivity|].
          apply HR; [|apply HB]. intros y Hy. apply (proj2 (ue_reqs_ok y Hy)).
    - set (a1 := ap_with a _ _ _ _ _ _ _).
      assert (HR : forall P : oalloc -> Prop, (forall y, In y (ap_requests a1) -> P y) -> reqs_from P s ->
                     reqs_from P (upd_app s (ap_id a) (fun _ => a1))).
      { intros P H1 H2. apply reqs_upd_app; [exact H2|]. intros b y _ _ Hy. apply H1. exact Hy. }
      split; [|split; [|reflexivity]].
      + apply (SInv_nodes_same s); [reflexivity| |exact HI].
        eapply (reqs_same req_ok (upd_app s (ap_id a) (fun _ => a1))); [reflexivity|].
        apply HR; [|apply HI]. intros y Hy. apply (proj1 (ue_reqs_ok y Hy)).
      + eapply (reqs_same req_small (upd_app s (ap_id a) (fun _ => a1))); [reflexivity|].
        apply HR; [|apply HB]. intros y Hy. apply (proj2 (ue_reqs_ok y Hy)). Qed.

  Lemma m_update_existing_sinv s' : m_update_existing s a x r = Some s' -> SInv s'.
  Proof. unfold m_update_existing. intros H. destruct (oa_ph x || negb (oa_release x =? 0)%N || negb (no_res a)); [discriminate|].
    cbv zeta in H. destruct (oa_allocated x && _) eqn:Egone; [inversion H; subst; exact HI|].
    fold newres delta in H. change (let changed := negb (IsZero (Some delta)) && negb (IsZero (Some newres)) in
      if negb changed then s else _) with ue_mid in H || idtac.
    destruct ue_mid_facts as (HI1 & HS1 & Hn1). revert H. fold ue_mid. generalize dependent ue_mid. intros s1 HI1 HS1 Hn1 H.
    destruct (oa_allocated x) eqn:Eal; [inversion H; subst; exact HI1|]. cbn [orb] in H.
    destruct (rq_node r =? 0)%N; [inversion H; subst; exact HI1|]. specialize (Hn1 eq_refl).
    destruct (find_app s1 (ap_id a)) as [a1|] eqn:Ea1; [|discriminate].
    destruct (find_node s1 (rq_node r)) as [n|] eqn:En; [|discriminate].
    destruct (find_alloc (ap_requests a1) (oa_key x)) as [ask|] eqn:Eask; [|discriminate].
    destruct (n_add n (oa_bound ask (rq_node r)) true) as [n'|] eqn:Eadd; [|discriminate]. inversion H; subst s'; clear H.
    destruct (find_app_some _ _ _ Ea1) as [Hina1 _]. destruct (find_alloc_some _ _ _ Eask) as [Hask Ek].
    destruct (find_node_some _ _ _ En) as [Hn Hid].
    destruct (si_reqs _ HI1 a1 ask Hina1 Hask) as [Wk Fk]. pose proof (HS1 a1 ask Hina1 Hask) as Sk.
    assert (Hn0 : In n (s_nodes s)) by (rewrite <- Hn1; exact Hn).
    assert (En0 : find_node s (rq_node r) = Some n) by (rewrite <- (find_node_ext s s1 _ Hn1); exact En).
    match goal with |- SInv (add_counts (upd_node ?S3 _ _) _ _) => set (s3 := S3) end.
    assert (E3 : s_nodes s3 = s_nodes s1) by reflexivity.
    eapply (SInv_set_node s1 _ (on_id n) n'); [cbn [add_counts s_nodes]; rewrite upd_node_nodes, E3; reflexivity| | | |exact HI1].
    - eapply n_add_ledger; [exact Eadd|apply HI; assumption|apply HI; assumption|apply HB; assumption|exact Wk|exact Sk|].
      unfold alloc_list_of. cbn [oa_bound oa_foreign oa_key]. rewrite Fk, Ek, Ekx. apply (Hfresh eq_refl n En0).
    - eapply n_add_wf; [exact Eadd|apply HI; assumption|exact Wk].
    - eapply (reqs_same req_ok (upd_app s1 (ap_id a) (fun _ => _))); [reflexivity|].
      apply reqs_upd_app; [apply HI1|]. intros b y _ _ Hy. cbn [ap_with ap_requests] in Hy. apply in_put_alloc in Hy.
      rewrite ap_event_requests in Hy. destruct Hy as [->|Hy]; [split; [exact Wk|exact Fk]|]. apply (si_reqs _ HI1 a1 y Hina1 Hy). Qed.
End UpdateExisting.

Lemma m_alloc2_inv s r s' : m_alloc2 s r = Some s' ->
  rq_foreign r = false /\ exists a x, find_app s (rq_app r) = Some a /\ find_alloc (ap_requests a) (rq_key r) = Some x /\
    m_update_existing s a x r = Some s'.
Proof. unfold m_alloc2. intros H. destruct (rq_foreign r); [rewrite orb_true_r in H; discriminate|].
  destruct (negb (rq_partition_ok r)); [discriminate|]. cbn [orb] in H. split; [reflexivity|].
  destruct (find_app s (rq_app r)) as [a|]; [|discriminate]. destruct (negb (rq_node r =? 0)%N && _); [discriminate|].
  destruct (IsZero (rq_res r) || _); [discriminate|]. destruct (find_alloc (ap_requests a) (rq_key r)) as [x|] eqn:Ex; [|discriminate].
  eauto. Qed.

Lemma m_alloc2_sinv s r s' st : st_op st = OpAlloc r -> m_alloc2 s r = Some s' -> SInv s -> Bounded s -> step_ok2 s st -> SInv s'.
Proof. intros Eop H HI HB [Hi Hf _ Hl Hd _]. destruct (m_alloc2_inv _ _ _ H) as (Hnf & a & x & Ea & Ex & Hu).
  unfold inputs_ok, bind_key_fresh2, update_listed, delta_small in *. rewrite Eop in *. destruct Hi as [Wr Sr].
  assert (Ee : existing_ask s r = Some (a, x)) by (unfold existing_ask; rewrite Ea, Ex; reflexivity).
  assert (Eu : upd_allocated s r = oa_allocated x) by (unfold upd_allocated; rewrite Hnf, Ee; reflexivity).
  apply (m_update_existing_sinv s a x r HI HB Ea Ex Hnf Wr Sr); [| | |exact Hu].
  - intros Hal n En. rewrite Eu in Hl. apply (Hl Hal a x n Ee En).
  - intros Hal. rewrite Eu in Hd. apply (Hd Hal a x Ee).
  - intros Hal n En. rewrite Eu, Hal in Hf. unfold bind_key_fresh in Hf. rewrite Eop in Hf. specialize (Hf n En). rewrite Hnf in Hf. exact Hf. Qed.

(* ------------------------------------------------------------------ C01.5 for the second fragment *)
Lemma step_ok2_ok s st : step_ok2 s st -> (forall r, st_op st = OpAlloc r -> upd_allocated s r = false) -> step_ok s st.
Proof. intros [H1 H2 H3 _ _ _] Hu. split; [assumption| |assumption]. unfold bind_key_fresh2 in H2.
  destruct (st_op st) eqn:Eop; try assumption. rewrite (Hu r eq_refl) in H2. unfold bind_key_fresh. rewrite Eop. unfold bind_key_fresh in H2. rewrite Eop in H2. exact H2. Qed.

Lemma m_step_inv2 deny s st s' : m_step deny s st = Some s' -> SInv s -> Bounded s -> step_ok2 s st -> SInv s'.
Proof. intros H HI HB Hok.
  destruct (st_op st) eqn:Eop; try (eapply m_step_inv; [exact H|exact HI|exact HB|]; apply step_ok2_ok; [exact Hok|]; intros r0 E; congruence).
  destruct (upd_allocated s r) eqn:Eu.
  - destruct (upd_allocated_true _ _ Eu) as (Hnf & a & x & Ee & _). unfold m_step in H. destruct (st_panic st); [discriminate|].
    rewrite Eop in H. rewrite (m_alloc_existing _ _ _ _ _ H Hnf Ee). exact HI.
  - eapply m_step_inv; [exact H|exact HI|exact HB|]. apply step_ok2_ok; [exact Hok|]. intros r0 E. congruence. Qed.

Theorem m_step2_inv deny s st s' : m_step2 deny s st = Some s' -> SInv s -> Bounded s -> step_ok2 s st -> SInv s'.
Proof. unfold m_step2. intros H HI HB Hok. destruct (m_step deny s st) as [s1|] eqn:E1.
  - inversion H; subst s1. eapply m_step_inv2; eassumption.
  - destruct (st_panic st); [discriminate|]. destruct (st_op st) eqn:Eop; try discriminate.
    + eapply m_node_remove_sinv; eassumption.
    + destruct (m_app_add_nodes _ _ _ _ _ _ _ _ _ _ H) as [En HR]. apply (SInv_nodes_same s); [exact En|apply HR; apply HI|exact HI].
    + eapply m_app_remove_sinv; [exact H|exact HI|exact HB|]. pose proof (so2_nonneg _ _ Hok) as Hn. unfold remove_nonneg in Hn. rewrite Eop in Hn. exact Hn.
    + eapply m_alloc2_sinv; eassumption.
    + destruct (find_app s app) as [a|]; [|discriminate]. destruct (ap_phtimer a); [discriminate|]. inversion H; subst; exact HI.
    + eapply m_fire_state_sinv; eassumption. Qed.

(* in the oracle's terms *)
Theorem m_step2_nodes_ledger deny s st s' :
  nodes_ledger_ok s = true -> (forall n, In n (s_nodes s) -> NodeWF n) -> reqs_from req_ok s -> Bounded s -> step_ok2 s st ->
  m_step2 deny s st = Some s' -> nodes_ledger_ok s' = true.
Proof. intros HL HW HR HB Hok H. apply nodes_ledger_reflect. apply (si_ledger s'). eapply m_step2_inv; try eassumption.
  split; [apply nodes_ledger_reflect; assumption|assumption|assumption]. Qed.

Fixpoint m_run2 (deny : list (N * N)) (s : ostate) (steps : list ostep) : list ostate :=
  match steps with
  | [] => []
  | st :: t => match m_step2 deny s st with Some s' => s' :: m_run2 deny s' t | None => [] end
  end.
Fixpoint run_ok2 (deny : list (N * N)) (s : ostate) (steps : list ostep) : Prop :=
  match steps with
  | [] => True
  | st :: t => Bounded s /\ step_ok2 s st /\ match m_step2 deny s st with Some s' => run_ok2 deny s' t | None => True end
  end.

Theorem m_run2_inv deny steps : forall s, SInv s -> run_ok2 deny s steps -> forall s', In s' (m_run2 deny s steps) -> SInv s'.
Proof. induction steps as [|st t IH]; intros s HI Hok s' Hin; [destruct Hin|]. cbn [m_run2 run_ok2] in *.
  destruct Hok as (HB & Hst & Hrest). destruct (m_step2 deny s st) as [s1|] eqn:E; [|destruct Hin].
  assert (HI1 : SInv s1) by (eapply m_step2_inv; eassumption). destruct Hin as [<-|Hin]; [assumption|]. eapply IH; eassumption. Qed.

Theorem m_run2_nodes_ledger deny steps s : SInv s -> run_ok2 deny s steps ->
  forall s', In s' (m_run2 deny s steps) -> nodes_ledger_ok s' = true.
Proof. intros HI Hok s' Hin. apply nodes_ledger_reflect. apply (si_ledger s'). eapply m_run2_inv; eassumption. Qed.

(* ------------------------------------------------------------------ C01.6 for the second fragment *)
Lemma NN_sub s s' : (forall n, In n (s_nodes s') -> In n (s_nodes s)) -> (forall n, In n (s_nodes s) -> NN n) -> forall n, In n (s_nodes s') -> NN n.
Proof. auto. Qed.

Theorem negative_only_forced2 deny s st s' : m_step2 deny s st = Some s' -> SInv s -> Bounded s -> allocs_nonneg s ->
  match st_op st with OpNodeAdd _ cap _ => wf cap /\ res_nonnegP cap | _ => True end ->
  forced_node_change (st_op st) = false -> no_negative s -> no_negative s'.
Proof. unfold m_step2. intros H HI HB Ha Hc Hforced Hneg. destruct (m_step deny s st) as [s1|] eqn:E1.
  - inversion H; subst s1. eapply negative_only_forced; eassumption.
  - apply no_negative_of. pose proof (NN_of s HI Hneg) as HN. clear Hneg.
    destruct (st_panic st); [discriminate|]. destruct (st_op st) eqn:Eop; try discriminate.
    + destruct (m_node_remove_inv _ _ _ H) as [->|[En _]]; [exact HN|]. intros n Hn. rewrite En in Hn. apply filter_In in Hn. apply HN. tauto.
    + destruct (m_app_add_nodes _ _ _ _ _ _ _ _ _ _ H) as [En _]. rewrite En. exact HN.
    + destruct (m_app_remove_inv _ _ _ H) as [->|(a & s2 & Ea & En2 & Ea2 & En' & Ea')]; [exact HN|].
      assert (HJ : forall n, In n (s_nodes s') -> NodeJ n /\ NN n).
      { rewrite En'. apply (rafn_nodes_rel NodeJ NN).
        - intros n key J [W Hn]. destruct (n_remove_J n key J) as [J' Hle]. split; [exact J'|]. split; [apply (nw_avail _ (nj_wf _ J'))|].
          intros k. specialize (Hn k). specialize (Hle k). lia.
        - rewrite En2. intros n Hn. split; [apply (NodeJ_state s HI HB Ha n Hn)|apply HN; exact Hn]. }
      intros n Hn. apply (HJ n Hn).
    + destruct (find_app s app) as [a|]; [|discriminate]. destruct (ap_phtimer a); [discriminate|]. inversion H; subst; exact HN.
    + destruct (m_fire_state_inv _ _ _ H) as [->| ->]; exact HN. Qed.
