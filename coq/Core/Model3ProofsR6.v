(* C03 over mixed runs of [m_step3]: the hypotheses of the run theorem ([books_reachable3], Core/Model3ProofsR5.v) are satisfiable.
   Two worked histories from the EMPTY partition ([ex3_s0] = [init_state ex_queues], Core/Model3ProofsEx.v), each mixing a plain
   application (queue 4) with a gang application (queue 3) whose placeholder is replaced while the plain application is active:
     [mx_steps]   19 steps: plain ask scheduled normally, placeholder scheduled, pending plain ask resized, replacement started,
                  the allocated plain allocation resized IN PLACE while the replacement is in flight, confirmation, releases, both
                  applications removed;
     [mxn_steps]  16 steps: as above, then the node that holds the plain allocation and the confirmed real allocation is removed
                  ([m_node_remove], Core/Model3ProofsR4b.v).
   [run_ok3_b] evaluates to true on both by vm_compute; the theorem then gives [InvG2] and the oracle for every visited state. *)
From Coq Require Import List ZArith NArith Bool.
From YK Require Import Base.Res Core.Obs Core.Model Core.Model2 Core.Model3 Core.Ledger Core.BooksDefs Core.Model3ProofsD Core.Model3ProofsD2
  Core.Model3ProofsC1 Core.Model3ProofsEx Core.Model3ProofsR5 Oracles.CoreC01.
Import ListNotations.
Open Scope Z_scope.

Definition mx_raw : list ostep :=
  [ g_step (OpNodeAdd 1 [(1%N, 1000); (2%N, 16)] false) [];
    g_step (OpNodeAdd 2 [(1%N, 500); (2%N, 8)] false) [];
    g_step (OpAppAdd 2 4 1 false false None true 0 None) [];                                      (* plain application 2, leaf queue 4 *)
    g_step (OpAppAdd 1 3 1 false false (Some [(1%N, 200); (2%N, 4)]) true 0 None) [EAppAccepted 1];  (* gang application 1, leaf queue 3 *)
    g_step (OpAlloc (g_req 30 2 R1 false 0)) [];                           (* plain ask *)
    g_step OpSched [ENewAlloc 30 2 1 R1 false];                            (* ... scheduled normally on node 1 *)
    g_step (OpAlloc (g_req 10 1 PH true 1)) [];                            (* placeholder ask *)
    g_step OpSched [ENewAlloc 10 1 1 PH true];                             (* ... scheduled on node 1 *)
    g_step (OpAlloc (g_req 31 2 R1 false 0)) [];                           (* second plain ask *)
    g_step (OpAlloc (g_req 31 2 [(1%N, 80)] false 0)) [];                  (* ... resized while pending *)
    g_step (OpAlloc (g_req 20 1 RL false 1)) [];                           (* real ask of the gang application *)
    g_swap 1 10 20 1;                                                       (* replacement started (same node) *)
    g_step (OpAlloc (g_req 30 2 [(1%N, 70)] false 0)) [];                  (* allocated plain allocation resized in place, link in flight *)
    g_step (OpRelease 1 10 TT_PlaceholderReplaced) [];                      (* confirmed *)
    g_step (OpRelease 2 31 TT_StoppedByRM) [];                              (* pending plain ask removed *)
    g_step (OpRelease 2 30 TT_StoppedByRM) [];                              (* plain allocation released *)
    g_step (OpRelease 1 20 TT_StoppedByRM) [];
    g_step (OpAppRemove 2) [];
    g_step (OpAppRemove 1) [] ].
Definition mx_steps : list ostep := Eval vm_compute in fill_obs [] ex3_s0 mx_raw.

Example mx_covered : m_run3_len [] ex3_s0 mx_steps = length mx_steps /\ length mx_steps = 19%nat.
Proof. vm_compute. auto. Qed.
(* which fragment answers: first (1), second (2), gang (3) *)
Example mx_fragments :
  map (fun p => answered_by [] (fst p) (snd p)) (combine (ex3_s0 :: map st_obs mx_steps) mx_steps) =
  [1; 1; 2; 3; 1; 1; 3; 3; 1; 2; 1; 3; 2; 3; 1; 1; 1; 2; 2]%N.
Proof. vm_compute. reflexivity. Qed.
Example mx_run_ok_b : run_ok3_b [] ex3_s0 mx_steps = true.
Proof. vm_compute. reflexivity. Qed.
(* the link is in flight while the second fragment resizes the plain allocation (step 13 starts in state 12) *)
Example mx_inflight :
  let s12 := m_run3 [] ex3_s0 (firstn 12 mx_steps) in
  map (fun x => (oa_key x, oa_release x, oa_released x)) (all_allocs s12) = [(30, 0, false); (10, 20, true)]%N /\
  answered_by [] s12 (nth 12 mx_steps (g_step OpSched [])) = 2%N.
Proof. vm_compute. auto. Qed.

Definition mxn_raw : list ostep :=
  firstn 15 mx_raw ++
  [ g_step (OpNodeRemove 1) [] ].   (* node 1 lists the plain allocation 30 and the confirmed real allocation 20 *)
Definition mxn_steps : list ostep := Eval vm_compute in fill_obs [] ex3_s0 mxn_raw.
Example mxn_covered : m_run3_len [] ex3_s0 mxn_steps = length mxn_steps /\ length mxn_steps = 16%nat.
Proof. vm_compute. auto. Qed.
Example mxn_last_fragment : answered_by [] (m_run3 [] ex3_s0 (firstn 15 mxn_steps)) (nth 15 mxn_steps (g_step OpSched [])) = 2%N.
Proof. vm_compute. reflexivity. Qed.
Example mxn_run_ok_b : run_ok3_b [] ex3_s0 mxn_steps = true.
Proof. vm_compute. reflexivity. Qed.

(* the hypotheses of [books_reachable3] hold, hence its conclusion *)
Theorem mx_hypotheses :
  InvG2 ex3_s0 /\ Books ex3_s0 /\ RunOK3e [] ex3_s0 mx_steps /\ RunOK3e [] ex3_s0 mxn_steps /\
  (forall s, In s (m_run3_states [] ex3_s0 mx_steps) -> InvG2 s /\ c03_state s = []) /\
  (forall s, In s (m_run3_states [] ex3_s0 mxn_steps) -> InvG2 s /\ c03_state s = []).
Proof. split; [apply ex3_invg2_0|]. split; [apply ex3_books0|].
  split; [apply run_ok3_b_spec; exact mx_run_ok_b|]. split; [apply run_ok3_b_spec; exact mxn_run_ok_b|]. split.
  - apply books_reachable3_b; [apply ex3_invg0_b|exact ex3_oracle0|exact mx_run_ok_b].
  - apply books_reachable3_b; [apply ex3_invg0_b|exact ex3_oracle0|exact mxn_run_ok_b]. Qed.
