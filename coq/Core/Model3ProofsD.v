(* C03 over the gang fragment (Core/Model3.v): definitions.
   The invariant [Inv] of Core/BooksDefs.v pins [oa_release = 0] everywhere and demands that every listed allocation is an
   allocated request; reachable gang states violate both (in-flight replacement links; after the placeholder timeout the
   request map is emptied while the placeholders stay allocated).  [InvG] is the generalisation used for the gang fragment:
     - records carry no link constraint, but an application's REAL allocations have no link, the ask a placeholder's link
       points to is not an allocation yet, a pending ask is not an allocation;
     - membership is stated with record identity (Go: one shared object): every record a node lists is THE record its live
       application lists as allocation, or THE allocated request of an in-flight replacement bound on this node ([Owned]);
       every allocation an application lists is listed by the node it names ([OnNode]);
     - node ledger = sum of the listed records.
   [BooksG] is the pointwise form of [Books] under [InvG]: application books, queue books, and the root ledger equals the
   sum of the NOT in-flight records the nodes list ([infl] is a local test on the record).
   [Bounded3] adds the placeholder ledger to [Bounded].  Step hypotheses: [StepOK3]. *)
From Coq Require Import List ZArith NArith Bool Lia ZifyBool.
From YK Require Import Base.Int64 Base.Res Base.ResSpec Base.ResLemmas Core.Obs Core.Model Core.Model2 Core.Model3 Core.Ledger
  Core.BooksLemmas Core.BooksDefs.
Import ListNotations.
Open Scope Z_scope.

(* the real half of an in-flight replacement, as a test on the record alone *)
Definition infl (y : oalloc) : bool := negb (oa_ph y) && negb (oa_release y =? 0)%N.
Definition ninfl (y : oalloc) : bool := negb (infl y).
Definition node_records (s : ostate) : list oalloc := flat_map on_allocs (s_nodes s).
Definition positive (r : res) : Prop := exists kv, In kv r /\ 0 < snd kv.

Record AllocOK3 (id : N) (x : oalloc) : Prop := mkAO3 {
  a3_wf : wf (oa_res x);
  a3_nn : rnonneg (oa_res x);
  a3_pos : positive (oa_res x);
  a3_app : oa_app x = id;
  a3_native : oa_foreign x = false }.

Record AppWF3 (a : oapp) : Prop := mkAW3 {
  w3_req_keys : NoDup (akeys (ap_requests a));
  w3_alloc_keys : NoDup (akeys (ap_allocs a));
  w3_req : forall x, In x (ap_requests a) -> AllocOK3 (ap_id a) x;
  w3_alloc : forall x, In x (ap_allocs a) -> AllocOK3 (ap_id a) x;
  (* a confirmed real allocation carries no link *)
  w3_real_nolink : forall x, In x (ap_allocs a) -> oa_ph x = false -> oa_release x = 0%N;
  (* a pending ask is not an allocation *)
  w3_pending_fresh : forall r, In r (ap_requests a) -> oa_allocated r = false -> ~ In (oa_key r) (akeys (ap_allocs a));
  (* the ask an allocated placeholder is linked to is not an allocation yet *)
  w3_link : forall x, In x (ap_allocs a) -> oa_ph x = true -> oa_release x <> 0%N -> ~ In (oa_release x) (akeys (ap_allocs a));
  w3_pending : wf (ap_pending a);
  w3_allocated : wf (ap_allocated a);
  w3_phalloc : wf (ap_phalloc a) }.

Record NodeOK3 (n : onode) : Prop := mkNK3 {
  k3_keys : NoDup (akeys (on_allocs n));
  k3_node : forall y, In y (on_allocs n) -> oa_node y = on_id n;
  k3_ledger : forall k, getz (on_allocated n) k = asum (on_allocs n) k;
  k3_wf : wf (on_allocated n) }.

(* every record a node lists belongs to a live application: as one of its allocations, or as the allocated request of
   an in-flight replacement that is not an allocation yet *)
Definition Owned (s : ostate) : Prop :=
  forall n y, In n (s_nodes s) -> In y (on_allocs n) ->
    exists a, In a (s_apps s) /\ ap_id a = oa_app y /\
      (In y (ap_allocs a) \/
       (infl y = true /\ In y (ap_requests a) /\ oa_allocated y = true /\ ~ In (oa_key y) (akeys (ap_allocs a)))).
(* every allocation an application lists is listed by the node it names *)
Definition OnNode (s : ostate) : Prop :=
  forall a x, In a (s_apps s) -> In x (ap_allocs a) ->
    exists n, In n (s_nodes s) /\ on_id n = oa_node x /\ In x (on_allocs n).

Definition app_records (a : oapp) : list oalloc := ap_requests a ++ ap_allocs a.

Record InvG (s : ostate) : Prop := mkInvG {
  ig_app_ids : NoDup (map ap_id (s_apps s));
  ig_node_ids : NoDup (map on_id (s_nodes s));
  ig_tree : TreeOK s;
  ig_app_leaf : forall a, In a (s_apps s) -> exists q, find_queue s (ap_queue a) = Some q /\ q_leaf q = true;
  ig_app_wf : forall a, In a (s_apps s) -> AppWF3 a;
  ig_q_wf : forall q, In q (s_queues s) -> wf (q_alloc q) /\ wf (q_pending q);
  (* allocation keys are unique in the partition (requests and allocations of every application) and distinct from
     the keys of foreign allocations *)
  ig_keys : forall a1 a2 x1 x2, In a1 (s_apps s) -> In a2 (s_apps s) -> In x1 (app_records a1) -> In x2 (app_records a2) ->
            oa_key x1 = oa_key x2 -> ap_id a1 = ap_id a2;
  ig_foreign : forall f a x, In f (s_foreign s) -> In a (s_apps s) -> In x (app_records a) -> oa_key f <> oa_key x;
  ig_nodes : forall n, In n (s_nodes s) -> NodeOK3 n;
  ig_owned : Owned s;
  ig_onnode : OnNode s;
  ig_count : s_nallocs s = Z.of_nat (length (all_allocs s)) }.

Record BooksG (s : ostate) : Prop := mkBG {
  bg_apps : forall a, In a (s_apps s) -> AppBooks a;
  bg_queues : forall q, In q (s_queues s) -> QueueBooks s q;
  bg_root : forall r, root_queue s = Some r -> forall k, getz (q_alloc r) k = asum (filter ninfl (node_records s)) k }.

Record Bounded3 (s : ostate) : Prop := mkBd3 {
  b3_base : Bounded s;
  b3_ph : forall a, In a (s_apps s) -> rb (ap_phalloc a) }.

(* ---------------------------------------------------------------- step hypotheses *)
(* a key that is new to the addressed application is new in the whole partition: requests AND allocations of every
   application (after a placeholder timeout allocations exist whose request is gone), and foreign allocations *)
Definition KeyFresh3 (s : ostate) (key : N) : Prop :=
  (forall b z, In b (s_apps s) -> In z (app_records b) -> oa_key z <> key) /\
  (forall f, In f (s_foreign s) -> oa_key f <> key).

Definition ReqOK3 (s : ostate) (r : oreq) : Prop :=
  wf (oget (rq_res r)) /\ rb (oget (rq_res r)) /\
  (forall a, find_app s (rq_app r) = Some a -> find_alloc (ap_requests a) (rq_key r) = None -> KeyFresh3 s (rq_key r)).

(* an application that is about to terminate when its last placeholder goes (Failing; Completing with the state timer
   already cleared) must not hold real allocations: otherwise the node keeps them for ever (known finding, trigger 4) *)
Definition TermOK (a : oapp) : Prop :=
  ((ap_state a =? ST_Failing)%N || ((ap_state a =? ST_Completing)%N && negb (ap_statetimer a))) = true -> real_allocs a = [].

Definition StepOK3 (s : ostate) (st : ostep) : Prop :=
  match st_op st with
  | OpAlloc r => ReqOK3 s r
  | OpRelease app _ _ => forall a, find_app s app = Some a -> TermOK a
  | OpNodeRemove _ => forall a, In a (s_apps s) -> TermOK a
  | _ => True
  end.
