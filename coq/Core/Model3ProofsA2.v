(* C03 over the gang fragment (Core/Model3.v): application-record lemmas, part 2.
   The two sides of an application record (allocation side: allocated / placeholder ledgers + allocation list; request
   side: pending ledger + request list) with their books ([AllocBooks], [PendBooks]) and bounds ([AllocBd], [PendBd]);
   [app_add_alloc], [app_remove_alloc]; the request-side transformations; flag / link changes of a shared object.
   Core/Model3ProofsA3.v: the records the gang operations build. *)
From Coq Require Import List ZArith NArith Bool Lia ZifyBool.
From YK Require Import Base.Int64 Base.Res Base.ResSpec Base.ResLemmas Base.ResLaws Base.ResLaws2 Core.Obs Core.Model Core.Model2
  Core.Model3 Core.Ledger Core.BooksLemmas Core.BooksDefs Core.BooksApp Core.Model3ProofsD Core.Model3ProofsA1.
Import ListNotations.
Open Scope Z_scope.
Set Default Timeout 30.

(* ================================================================== 1. the two sides of an application record *)
(* allocation side: allocated / placeholder ledgers and the allocation list; request side: pending ledger and the request list *)
Definition AllocBooks (a : oapp) : Prop := LBk is_real (ap_allocated a) (ap_allocs a) /\ LBk oa_ph (ap_phalloc a) (ap_allocs a).
Definition PendBooks (a : oapp) : Prop := LBk is_pending (ap_pending a) (ap_requests a).
Definition AllocBd (a : oapp) : Prop := rb (ap_allocated a) /\ rb (ap_phalloc a) /\ forall x, In x (ap_allocs a) -> rb (oa_res x).
Definition PendBd (a : oapp) : Prop := rb (ap_pending a) /\ forall x, In x (ap_requests a) -> rb (oa_res x).
Lemma AppBooks_sides a : AppBooks a <-> AllocBooks a /\ PendBooks a.
Proof. rewrite AppBooks_iff. unfold AllocBooks, PendBooks. tauto. Qed.
Lemma AppBounded3_sides a : AppBounded3 a <-> AllocBd a /\ PendBd a.
Proof. unfold AppBounded3, AllocBd, PendBd. split.
  - intros [[H1 H2 H3 H4] H5]. auto.
  - intros [(H2 & H5 & H4) [H1 H3]]. split; [constructor|]; assumption. Qed.
Definition same_alloc (a b : oapp) : Prop :=
  ap_allocated b = ap_allocated a /\ ap_phalloc b = ap_phalloc a /\ ap_allocs b = ap_allocs a.
Definition same_pend (a b : oapp) : Prop := ap_pending b = ap_pending a /\ ap_requests b = ap_requests a.
Lemma same_alloc_books a b : same_alloc a b -> AllocBooks a -> AllocBooks b.
Proof. unfold AllocBooks. intros (-> & -> & ->). auto. Qed.
Lemma same_alloc_bd a b : same_alloc a b -> AllocBd a -> AllocBd b.
Proof. unfold AllocBd. intros (-> & -> & ->). auto. Qed.
Lemma same_pend_books a b : same_pend a b -> PendBooks a -> PendBooks b.
Proof. unfold PendBooks. intros (-> & ->). auto. Qed.
Lemma same_pend_bd a b : same_pend a b -> PendBd a -> PendBd b.
Proof. unfold PendBd. intros (-> & ->). auto. Qed.
Lemma same_ledgers_sides a b : same_ledgers a b -> same_alloc a b /\ same_pend a b.
Proof. intros [H1 H2 H3 H4 H5 H6 H7]. unfold same_alloc, same_pend. auto. Qed.
Lemma same_ledgers_wf3 a b : same_ledgers a b -> AppWF3 a -> AppWF3 b.
Proof. intros [H1 H2 H3 H4 H5 H6 H7]. rewrite !AppWF3_iff, H1, H3, H4, H5, H6, H7. auto. Qed.
Lemma same_ledgers_bounded3 a b : same_ledgers a b -> AppBounded3 a -> AppBounded3 b.
Proof. intros H. pose proof H as [H1 H2 H3 H4 H5 H6 H7]. intros [Bd Bp]. split; [apply (same_ledgers_bounded a b H Bd)|rewrite H5; assumption]. Qed.

Lemma AppWF3_intro b id reqs allocs : ap_id b = id -> ap_requests b = reqs -> ap_allocs b = allocs -> WF3 id reqs allocs ->
  wf (ap_pending b) -> wf (ap_allocated b) -> wf (ap_phalloc b) -> AppWF3 b.
Proof. intros <- <- <- H1 H2 H3 H4. apply AppWF3_iff. auto. Qed.
Lemma AppWF3_raw a : AppWF3 a -> WF3 (ap_id a) (ap_requests a) (ap_allocs a). Proof. intros H. apply AppWF3_iff in H. tauto. Qed.
Lemma ROK_of l id : (forall x, In x l -> AllocOK3 id x) -> (forall x, In x l -> rb (oa_res x)) -> ROK l.
Proof. intros H1 H2 y Hy. destruct (H1 y Hy) as [W N _ _ _]. split; [exact W|split; [exact N|apply (H2 y Hy)]]. Qed.
Lemma ROK_alloc_side a : AppWF3 a -> AllocBd a -> ROK (ap_allocs a).
Proof. intros W (_ & _ & H). apply (ROK_of _ (ap_id a)); [apply (w3_alloc a W)|exact H]. Qed.
Lemma ROK_pend_side a : AppWF3 a -> PendBd a -> ROK (ap_requests a).
Proof. intros W (_ & H). apply (ROK_of _ (ap_id a)); [apply (w3_req a W)|exact H]. Qed.

(* ================================================================== 2. addAllocationInternal *)
Lemma add_alloc_same_pend a r x : same_pend a (app_add_alloc a r x).
Proof. split; [apply app_add_alloc_pending|apply app_add_alloc_requests]. Qed.
(* exact ledger movement *)
Lemma add_alloc_delta a r x k : wf (oa_res x) -> rb (oa_res x) -> AllocBd a ->
  getz (ap_allocated (app_add_alloc a r x)) k = getz (ap_allocated a) k + (if oa_ph x then 0 else getz (oa_res x) k) /\
  getz (ap_phalloc (app_add_alloc a r x)) k = getz (ap_phalloc a) k + (if oa_ph x then getz (oa_res x) k else 0).
Proof. intros Wx Bx (B1 & B2 & _). rewrite app_add_alloc_allocated, app_add_alloc_phalloc. destruct (oa_ph x); rewrite ?Add_exact by assumption; lia. Qed.
(* no placeholder of the list is linked to key k *)
Definition unlinked (l : list oalloc) (k : N) : Prop := forall y, In y l -> oa_ph y = true -> oa_release y <> 0%N -> oa_release y <> k.

Lemma add_alloc_alloc_books a r x : AppWF3 a -> AllocBd a -> AllocBooks a -> AllocOK3 (ap_id a) x -> rb (oa_res x) ->
  ~ In (oa_key x) (akeys (ap_allocs a)) -> AllocBooks (app_add_alloc a r x).
Proof. intros W (B1 & B2 & B3) [R P] [Wx Nx _ _ _] Bx Hf. unfold AllocBooks.
  rewrite app_add_alloc_allocated, app_add_alloc_phalloc, app_add_alloc_allocs.
  pose proof (w3_alloc_keys a W) as Hnd. unfold is_real. destruct (oa_ph x) eqn:Eph; split.
  - apply (LBk_same _ _ (ap_allocs a)); [|exact R]. intros k. rewrite asum_filter_put_fresh by assumption. rewrite Eph. cbn [negb]. lia.
  - apply (LBk_add _ _ (ap_allocs a)); try assumption; [apply (w3_phalloc a W)|]. intros k. rewrite asum_filter_put_fresh by assumption. rewrite Eph. reflexivity.
  - apply (LBk_add _ _ (ap_allocs a)); try assumption; [apply (w3_allocated a W)|]. intros k. rewrite asum_filter_put_fresh by assumption. rewrite Eph. reflexivity.
  - apply (LBk_same _ _ (ap_allocs a)); [|exact P]. intros k. rewrite asum_filter_put_fresh by assumption. rewrite Eph. lia. Qed.
Lemma add_alloc_books a r x : AppWF3 a -> AllocBd a -> AppBooks a -> AllocOK3 (ap_id a) x -> rb (oa_res x) ->
  ~ In (oa_key x) (akeys (ap_allocs a)) -> AppBooks (app_add_alloc a r x).
Proof. intros W Bd B Xok Xb Hf. apply AppBooks_sides in B. destruct B as [BA BP]. apply AppBooks_sides. split.
  - apply add_alloc_alloc_books; assumption.
  - apply (same_pend_books a); [apply add_alloc_same_pend|assumption]. Qed.
Lemma add_alloc_wf3 a r x : AppWF3 a -> AllocOK3 (ap_id a) x ->
  (oa_ph x = false -> oa_release x = 0%N) ->
  (oa_ph x = true -> oa_release x <> 0%N -> oa_release x <> oa_key x /\ ~ In (oa_release x) (akeys (ap_allocs a))) ->
  (forall q, In q (ap_requests a) -> oa_key q = oa_key x -> oa_allocated q = true) ->
  unlinked (ap_allocs a) (oa_key x) ->
  AppWF3 (app_add_alloc a r x).
Proof. intros W Xok Xnl Xl Xr Xt. pose proof (AppWF3_raw a W) as R.
  apply (AppWF3_intro _ (ap_id a) (ap_requests a) (put_alloc x (ap_allocs a)));
    [apply app_add_alloc_id|apply app_add_alloc_requests|apply app_add_alloc_allocs| | | |].
  - apply WF3_put_alloc; auto.
  - rewrite app_add_alloc_pending. apply (w3_pending a W).
  - rewrite app_add_alloc_allocated. destruct (oa_ph x); [|apply Add_wf]; apply (w3_allocated a W).
  - rewrite app_add_alloc_phalloc. destruct (oa_ph x); [apply Add_wf|]; apply (w3_phalloc a W). Qed.
Lemma add_alloc_pend_bd a r x : PendBd a -> PendBd (app_add_alloc a r x).
Proof. apply same_pend_bd, add_alloc_same_pend. Qed.

(* ================================================================== 3. removeAllocationInternal *)
Lemma remove_alloc_delta a x t k : AppWF3 a -> AllocBd a -> In x (ap_allocs a) ->
  getz (ap_allocated (app_remove_alloc a x t)) k = getz (ap_allocated a) k - (if oa_ph x then 0 else getz (oa_res x) k) /\
  getz (ap_phalloc (app_remove_alloc a x t)) k = getz (ap_phalloc a) k - (if oa_ph x then getz (oa_res x) k else 0).
Proof. intros W (B1 & B2 & B3) Hx. rewrite app_remove_alloc_allocated, app_remove_alloc_phalloc.
  destruct (w3_alloc a W x Hx) as [Wx _ _ _ _]. pose proof (B3 x Hx).
  destruct (oa_ph x); rewrite ?PruneSub_exact by (try assumption; apply W); lia. Qed.
Lemma remove_alloc_alloc_books a x t : AppWF3 a -> AllocBd a -> AllocBooks a -> In x (ap_allocs a) -> AllocBooks (app_remove_alloc a x t).
Proof. intros W Bd [R P] Hx. pose proof (ROK_alloc_side a W Bd) as Hok. destruct Bd as (B1 & B2 & B3). unfold AllocBooks.
  rewrite app_remove_alloc_allocated, app_remove_alloc_phalloc, app_remove_alloc_allocs.
  pose proof (w3_alloc_keys a W) as Hnd. destruct (w3_alloc a W x Hx) as [Wx _ _ _ _]. pose proof (B3 x Hx) as Bx.
  pose proof (ROK_nn _ (ROK_del (oa_key x) _ Hok)) as Hnn.
  unfold is_real. destruct (oa_ph x) eqn:Eph; split.
  - apply (LBk_same _ _ (ap_allocs a)); [|exact R]. intros k. rewrite asum_filter_del_in by assumption. rewrite Eph. cbn [negb]. lia.
  - apply (LBk_psub _ _ (ap_allocs a)); try assumption; [apply (w3_phalloc a W)|]. intros k. rewrite asum_filter_del_in by assumption. rewrite Eph. reflexivity.
  - apply (LBk_psub _ _ (ap_allocs a)); try assumption; [apply (w3_allocated a W)|]. intros k. rewrite asum_filter_del_in by assumption. rewrite Eph. reflexivity.
  - apply (LBk_same _ _ (ap_allocs a)); [|exact P]. intros k. rewrite asum_filter_del_in by assumption. rewrite Eph. lia. Qed.
(* the removal keeps the bounds: the ledgers shrink *)
Lemma remove_alloc_alloc_bd a x t : AppWF3 a -> AllocBd a -> AllocBooks a -> In x (ap_allocs a) -> AllocBd (app_remove_alloc a x t).
Proof. intros W Bd BA Hx. pose proof (ROK_alloc_side a W Bd) as Hok. pose proof Bd as (B1 & B2 & B3). destruct BA as [R P].
  assert (G : forall k, (if oa_ph x then 0 else getz (oa_res x) k) <= getz (ap_allocated a) k /\
                        (if oa_ph x then getz (oa_res x) k else 0) <= getz (ap_phalloc a) k).
  { intros k. pose proof (rnonneg_fnonneg _ (proj2 R) k). pose proof (rnonneg_fnonneg _ (proj2 P) k). destruct (oa_ph x) eqn:Eph; split; try assumption.
    - apply (LBk_le oa_ph _ (ap_allocs a)); assumption.
    - apply (LBk_le is_real _ (ap_allocs a)); try assumption. unfold is_real. rewrite Eph. reflexivity. }
  assert (N : forall k, 0 <= getz (oa_res x) k) by (intros k; apply rnonneg_fnonneg; apply (Hok x Hx)).
  split; [|split].
  - intros k. destruct (remove_alloc_delta a x t k W Bd Hx) as [-> _]. specialize (G k). specialize (B1 k). specialize (N k). destruct (oa_ph x); unfold bnd in *; lia.
  - intros k. destruct (remove_alloc_delta a x t k W Bd Hx) as [_ ->]. specialize (G k). specialize (B2 k). specialize (N k). destruct (oa_ph x); unfold bnd in *; lia.
  - intros y Hy. rewrite app_remove_alloc_allocs in Hy. apply in_del_alloc in Hy. apply B3. tauto. Qed.
Lemma remove_alloc_pend_bd a x t : PendBd a -> PendBd (app_remove_alloc a x t).
Proof. intros [H1 H2]. split; [rewrite app_remove_alloc_pending; assumption|]. intros y Hy. apply H2. apply (app_remove_alloc_requests_incl a x t y Hy). Qed.
(* well-formedness survives in every case (a terminating application drops its requests) *)
Lemma remove_alloc_wf3 a x t : AppWF3 a -> AppWF3 (app_remove_alloc a x t).
Proof. intros W. pose proof (AppWF3_raw a W) as R.
  apply (AppWF3_intro _ (ap_id a) (ap_requests (app_remove_alloc a x t)) (del_alloc (oa_key x) (ap_allocs a)));
    [apply app_remove_alloc_id|reflexivity|apply app_remove_alloc_allocs| | | |].
  - apply (WF3_incl_req _ (ap_requests a)); [|apply WF3_del_alloc; assumption].
    rewrite app_remove_alloc_requests. destruct (_ && _); auto.
  - rewrite app_remove_alloc_pending. apply (w3_pending a W).
  - rewrite app_remove_alloc_allocated. destruct (oa_ph x); [|apply Prune_wf, Sub_wf]; apply (w3_allocated a W).
  - rewrite app_remove_alloc_phalloc. destruct (oa_ph x); [apply Prune_wf, Sub_wf|]; apply (w3_phalloc a W). Qed.
(* the application stays live: the request side is untouched *)
Lemma remove_alloc_same_pend a x t : is_terminal (ap_state (app_remove_alloc a x t)) = false -> same_pend a (app_remove_alloc a x t).
Proof. intros H. split; [apply app_remove_alloc_pending|apply app_remove_alloc_requests_live; assumption]. Qed.
Lemma remove_alloc_books a x t : AppWF3 a -> AllocBd a -> AppBooks a -> In x (ap_allocs a) ->
  is_terminal (ap_state (app_remove_alloc a x t)) = false -> AppBooks (app_remove_alloc a x t).
Proof. intros W Bd B Hx T. apply AppBooks_sides in B. destruct B as [BA BP]. apply AppBooks_sides. split.
  - apply remove_alloc_alloc_books; assumption.
  - apply (same_pend_books a); [apply remove_alloc_same_pend|]; assumption. Qed.
(* the application terminates: what the caller needs about the record that leaves the live list *)
Lemma remove_alloc_terminated a x t : is_terminal (ap_state a) = false -> remove_terminates a x = true ->
  is_terminal (ap_state (app_remove_alloc a x t)) = true /\ ap_requests (app_remove_alloc a x t) = [] /\
  ap_allocs (app_remove_alloc a x t) = del_alloc (oa_key x) (ap_allocs a) /\ ap_pending (app_remove_alloc a x t) = ap_pending a /\
  ap_allocated (app_remove_alloc a x t) = (if oa_ph x then ap_allocated a else Prune (Sub (Some (ap_allocated a)) (Some (oa_res x)))) /\
  ap_phalloc (app_remove_alloc a x t) = (if oa_ph x then Prune (Sub (Some (ap_phalloc a)) (Some (oa_res x))) else ap_phalloc a).
Proof. intros H1 H2. rewrite app_remove_alloc_terminal, H1, H2. repeat split.
  - apply app_remove_alloc_requests_term; assumption.
  - apply app_remove_alloc_allocs.
  - apply app_remove_alloc_pending.
  - apply app_remove_alloc_allocated.
  - apply app_remove_alloc_phalloc. Qed.

(* ================================================================== 4. the request side, generically *)
(* record b is record a with another request list and the pending ledger moved by d; the caller supplies what the new
   list sums to and that it is well-formed.  Results: books, well-formedness, bounds (where the ledger shrinks), delta. *)
Lemma WF3_wf_of a b : AppWF3 a -> ap_id b = ap_id a -> same_alloc a b -> WF3 (ap_id a) (ap_requests b) (ap_allocs a) ->
  wf (ap_pending b) -> AppWF3 b.
Proof. intros W Eid (E1 & E2 & E3) R Wp. apply (AppWF3_intro b (ap_id a) (ap_requests b) (ap_allocs a)); auto.
  - rewrite E1. apply (w3_allocated a W).
  - rewrite E2. apply (w3_phalloc a W). Qed.
Lemma pend_same a b : AppWF3 a -> PendBooks a -> PendBd a -> ap_id b = ap_id a -> same_alloc a b ->
  ap_pending b = ap_pending a ->
  (forall k, asum (filter is_pending (ap_requests b)) k = asum (filter is_pending (ap_requests a)) k) ->
  WF3 (ap_id a) (ap_requests b) (ap_allocs a) -> (forall y, In y (ap_requests b) -> rb (oa_res y)) ->
  PendBooks b /\ AppWF3 b /\ PendBd b.
Proof. intros W BP [Bd _] Eid Ea Ep Es R Hb. split; [|split].
  - unfold PendBooks. rewrite Ep. apply (LBk_same _ _ (ap_requests a)); assumption.
  - apply (WF3_wf_of a); auto. rewrite Ep. apply (w3_pending a W).
  - split; [rewrite Ep|]; assumption. Qed.
Lemma pend_psub a b d : AppWF3 a -> PendBooks a -> PendBd a -> ap_id b = ap_id a -> same_alloc a b ->
  ap_pending b = Prune (Sub (Some (ap_pending a)) (Some d)) -> wf d -> rb d -> rnonneg d ->
  (forall k, asum (filter is_pending (ap_requests b)) k = asum (filter is_pending (ap_requests a)) k - getz d k) ->
  WF3 (ap_id a) (ap_requests b) (ap_allocs a) -> (forall y, In y (ap_requests b) -> rb (oa_res y)) ->
  PendBooks b /\ AppWF3 b /\ PendBd b /\ forall k, getz (ap_pending b) k = getz (ap_pending a) k - getz d k.
Proof. intros W BP [Bd _] Eid Ea Ep Wd Bdd Nd Es R Hb. pose proof (w3_pending a W) as Wp.
  assert (D : forall k, getz (ap_pending b) k = getz (ap_pending a) k - getz d k) by (intros k; rewrite Ep; apply PruneSub_exact; assumption).
  assert (BP' : PendBooks b).
  { unfold PendBooks. rewrite Ep. apply (LBk_psub _ _ (ap_requests a)); try assumption. intros y Hy. apply (a3_nn _ y (f3_req _ _ _ R y Hy)). }
  split; [exact BP'|]. split; [|split; [|exact D]].
  - apply (WF3_wf_of a); auto. rewrite Ep. apply Prune_wf, Sub_wf. exact Wp.
  - split; [|assumption]. intros k. rewrite D. pose proof (rnonneg_fnonneg _ (proj2 BP') k) as H0. rewrite D in H0.
    pose proof (rnonneg_fnonneg _ Nd k). specialize (Bd k). unfold bnd in *. lia. Qed.
Lemma pend_padd a b d : AppWF3 a -> PendBooks a -> PendBd a -> ap_id b = ap_id a -> same_alloc a b ->
  ap_pending b = Prune (Add (Some (ap_pending a)) (Some d)) -> wf d -> rb d -> rnonneg d ->
  (forall k, asum (filter is_pending (ap_requests b)) k = asum (filter is_pending (ap_requests a)) k + getz d k) ->
  WF3 (ap_id a) (ap_requests b) (ap_allocs a) ->
  PendBooks b /\ AppWF3 b /\ forall k, getz (ap_pending b) k = getz (ap_pending a) k + getz d k.
Proof. intros W BP [Bd _] Eid Ea Ep Wd Bdd Nd Es R. pose proof (w3_pending a W) as Wp. split; [|split].
  - unfold PendBooks. rewrite Ep. apply (LBk_padd _ _ (ap_requests a)); assumption.
  - apply (WF3_wf_of a); auto. rewrite Ep. apply Prune_wf, Add_wf. exact Wp.
  - intros k. rewrite Ep. apply PruneAdd_exact; assumption. Qed.
Lemma pend_add a b d : AppWF3 a -> PendBooks a -> PendBd a -> ap_id b = ap_id a -> same_alloc a b ->
  ap_pending b = Add (Some (ap_pending a)) (Some d) -> wf d -> rb d -> rnonneg d ->
  (forall k, asum (filter is_pending (ap_requests b)) k = asum (filter is_pending (ap_requests a)) k + getz d k) ->
  WF3 (ap_id a) (ap_requests b) (ap_allocs a) ->
  PendBooks b /\ AppWF3 b /\ forall k, getz (ap_pending b) k = getz (ap_pending a) k + getz d k.
Proof. intros W BP [Bd _] Eid Ea Ep Wd Bdd Nd Es R. pose proof (w3_pending a W) as Wp. split; [|split].
  - unfold PendBooks. rewrite Ep. apply (LBk_add _ _ (ap_requests a)); assumption.
  - apply (WF3_wf_of a); auto. rewrite Ep. apply Add_wf. exact Wp.
  - intros k. rewrite Ep. apply Add_exact; assumption. Qed.
Lemma pend_pmove a b d : AppWF3 a -> PendBooks a -> PendBd a -> ap_id b = ap_id a -> same_alloc a b ->
  ap_pending b = Prune (Add (Some (ap_pending a)) (Some d)) -> wf d -> rb d ->
  (forall k, asum (filter is_pending (ap_requests b)) k = asum (filter is_pending (ap_requests a)) k + getz d k) ->
  WF3 (ap_id a) (ap_requests b) (ap_allocs a) ->
  PendBooks b /\ AppWF3 b /\ forall k, getz (ap_pending b) k = getz (ap_pending a) k + getz d k.
Proof. intros W BP [Bd _] Eid Ea Ep Wd Bdd Es R. pose proof (w3_pending a W) as Wp. split; [|split].
  - unfold PendBooks. rewrite Ep. apply (LBk_pmove _ _ (ap_requests a)); try assumption. intros y Hy. apply (a3_nn _ y (f3_req _ _ _ R y Hy)).
  - apply (WF3_wf_of a); auto. rewrite Ep. apply Prune_wf, Add_wf. exact Wp.
  - intros k. rewrite Ep. apply PruneAdd_exact; assumption. Qed.
(* the allocation side of such a record *)
Lemma same_alloc_sides a b : same_alloc a b -> (AllocBooks a -> AllocBooks b) /\ (AllocBd a -> AllocBd b).
Proof. intros H. split; [apply same_alloc_books|apply same_alloc_bd]; assumption. Qed.
Lemma books_of_sides a b : same_alloc a b -> AppBooks a -> PendBooks b -> AppBooks b.
Proof. intros H B BP. apply AppBooks_sides in B. apply AppBooks_sides. split; [apply (same_alloc_books a b H)|]; tauto. Qed.

(* ================================================================== 5. flag / link changes of a shared object (obj_upd) *)
Definition flag3 (f : oalloc -> oalloc) : Prop :=
  forall y, oa_key (f y) = oa_key y /\ oa_res (f y) = oa_res y /\ oa_ph (f y) = oa_ph y /\ oa_allocated (f y) = oa_allocated y /\
            oa_app (f y) = oa_app y /\ oa_foreign (f y) = oa_foreign y.
Lemma flag3_released b : flag3 (fun y => oa_set_released y b). Proof. intros y. repeat split. Qed.
Lemma flag3_link k : flag3 (fun y => oa_set_link y k). Proof. intros y. repeat split. Qed.
Lemma flag3_released_link k b : flag3 (fun y => oa_set_released (oa_set_link y k) b). Proof. intros y. repeat split. Qed.
Lemma flag3_ok id f y : flag3 f -> AllocOK3 id y -> AllocOK3 id (f y).
Proof. intros H. destruct (H y) as (_ & E1 & _ & _ & E2 & E3). apply AllocOK3_ext; assumption. Qed.
(* the record of the application after obj_upd s (ap_id a) k f *)
Definition flag_app (a : oapp) (k : N) (f : oalloc -> oalloc) : oapp :=
  ap_set_lists a (map_key k f (ap_requests a)) (map_key k f (ap_allocs a)).
Lemma flag_app_id a k f : ap_id (flag_app a k f) = ap_id a. Proof. reflexivity. Qed.
Lemma flag_app_queue a k f : ap_queue (flag_app a k f) = ap_queue a. Proof. reflexivity. Qed.
Lemma flag_app_state a k f : ap_state (flag_app a k f) = ap_state a. Proof. reflexivity. Qed.
Lemma flag_app_pending a k f : ap_pending (flag_app a k f) = ap_pending a. Proof. reflexivity. Qed.
Lemma flag_app_allocated a k f : ap_allocated (flag_app a k f) = ap_allocated a. Proof. reflexivity. Qed.
Lemma flag_app_phalloc a k f : ap_phalloc (flag_app a k f) = ap_phalloc a. Proof. reflexivity. Qed.
Lemma flag_app_requests a k f : ap_requests (flag_app a k f) = map_key k f (ap_requests a). Proof. reflexivity. Qed.
Lemma flag_app_allocs a k f : ap_allocs (flag_app a k f) = map_key k f (ap_allocs a). Proof. reflexivity. Qed.
Lemma flag_app_books a k f : flag3 f -> AppBooks a -> AppBooks (flag_app a k f).
Proof. intros Hf B. apply AppBooks_iff in B. destruct B as (B1 & B2 & B3). apply AppBooks_iff. unfold flag_app. apc.
  split; [|split]; (eapply LBk_same; [|eassumption]); intros j; apply asum_filter_map_key; intros y _ _; destruct (Hf y) as (_ & E1 & E2 & E3 & _);
    unfold is_real, is_pending; rewrite ?E2, ?E3; auto. Qed.
Lemma flag_app_bounded3 a k f : flag3 f -> AppBounded3 a -> AppBounded3 (flag_app a k f).
Proof. intros Hf [[H1 H2 H3 H4] H5]. split; [constructor|]; unfold flag_app; apc; auto.
  - intros y Hy. apply in_map_key in Hy. destruct Hy as (z & Hz & ->). destruct (_ =? _)%N; [|auto]. destruct (Hf z) as (_ & -> & _). auto.
  - intros y Hy. apply in_map_key in Hy. destruct Hy as (z & Hz & ->). destruct (_ =? _)%N; [|auto]. destruct (Hf z) as (_ & -> & _). auto. Qed.
(* well-formedness: the caller re-establishes the link clauses for the changed allocation *)
Lemma flag_app_wf3 a k f : flag3 f -> AppWF3 a ->
  (forall y, In y (ap_allocs a) -> oa_key y = k ->
     (oa_ph y = false -> oa_release (f y) = 0%N) /\
     (oa_ph y = true -> oa_release (f y) <> 0%N -> ~ In (oa_release (f y)) (akeys (ap_allocs a)))) ->
  AppWF3 (flag_app a k f).
Proof. intros Hf W Hl. pose proof (AppWF3_raw a W) as R.
  assert (Hk : forall y, oa_key y = k -> oa_key (f y) = k) by (intros y <-; apply (Hf y)).
  apply (AppWF3_intro _ (ap_id a) (map_key k f (ap_requests a)) (map_key k f (ap_allocs a))); try reflexivity; try apply W.
  apply WF3_map_alloc; [| exact Hk|].
  - apply WF3_map_req; [assumption|exact Hk|]. intros y Hy E. split; [apply flag3_ok; [assumption|apply (w3_req a W y Hy)]|].
    destruct (Hf y) as (_ & _ & _ & -> & _). intros Hna. rewrite <- E. apply (w3_pending_fresh a W y Hy Hna).
  - intros y Hy E. destruct (Hf y) as (_ & _ & Eph & _). rewrite Eph. destruct (Hl y Hy E) as [L1 L2].
    split; [apply flag3_ok; [assumption|apply (w3_alloc a W y Hy)]|auto]. Qed.
(* a flag that does not touch the link *)
Lemma flag_app_wf3_nolink a k f : flag3 f -> (forall y, oa_release (f y) = oa_release y) -> AppWF3 a -> AppWF3 (flag_app a k f).
Proof. intros Hf Hr W. apply flag_app_wf3; try assumption. intros y Hy _. rewrite Hr. split; [apply (w3_real_nolink a W y Hy)|apply (w3_link a W y Hy)]. Qed.
Lemma flag_app_wf3_released a k b : AppWF3 a -> AppWF3 (flag_app a k (fun y => oa_set_released y b)).
Proof. apply flag_app_wf3_nolink; [apply flag3_released|reflexivity]. Qed.
(* unlinking *)
Lemma flag_app_wf3_unlink a k : AppWF3 a -> AppWF3 (flag_app a k (fun y => oa_set_link y 0%N)).
Proof. intros W. apply flag_app_wf3; [apply flag3_link|assumption|]. intros y _ _. cbn [oa_set_link oa_release]. split; [reflexivity|congruence]. Qed.
(* nothing listed under k *)
Lemma flag_app_absent a k f : ~ In k (akeys (ap_requests a)) -> ~ In k (akeys (ap_allocs a)) -> flag_app a k f = a.
Proof. intros H1 H2. unfold flag_app. rewrite !map_key_fresh by assumption. apply ap_set_lists_same. Qed.

(* ================================================================== 6. zero ledgers and empty lists *)
Lemma AppWF3_pos a l : AppWF3 a -> incl l (ap_requests a) \/ incl l (ap_allocs a) ->
  forall y, In y l -> wf (oa_res y) /\ rnonneg (oa_res y) /\ positive (oa_res y).
Proof. intros W H y Hy. assert (Ok : AllocOK3 (ap_id a) y) by (destruct H as [H|H]; [apply (w3_req a W)|apply (w3_alloc a W)]; apply H, Hy).
  destruct Ok as [H1 H2 H3 _ _]. auto. Qed.
Lemma zero_phalloc_no_ph a : AppWF3 a -> AppBooks a -> IsZero (Some (ap_phalloc a)) = true -> ph_allocs a = [].
Proof. intros W B Z. apply AppBooks_iff in B. destruct B as (_ & B2 & _). apply (LBk_zero_nil oa_ph (ap_phalloc a)); [|exact B2|].
  - apply (AppWF3_pos a); [assumption|right; apply incl_refl].
  - apply IsZero_iff; [apply W|exact Z]. Qed.
Lemma zero_allocated_no_real a : AppWF3 a -> AppBooks a -> IsZero (Some (ap_allocated a)) = true -> real_allocs a = [].
Proof. intros W B Z. apply AppBooks_iff in B. destruct B as (B1 & _ & _). apply (LBk_zero_nil is_real (ap_allocated a)); [|exact B1|].
  - apply (AppWF3_pos a); [assumption|right; apply incl_refl].
  - apply IsZero_iff; [apply W|exact Z]. Qed.
Lemma zero_pending_no_asks a : AppWF3 a -> AppBooks a -> IsZero (Some (ap_pending a)) = true -> pending_asks a = [].
Proof. intros W B Z. apply AppBooks_iff in B. destruct B as (_ & _ & B3). apply (LBk_zero_nil is_pending (ap_pending a)); [|exact B3|].
  - apply (AppWF3_pos a); [assumption|left; apply incl_refl].
  - apply IsZero_iff; [apply W|exact Z]. Qed.
(* and back: an empty list means a zero ledger *)
Lemma no_ph_zero_phalloc a : AppWF3 a -> AppBooks a -> ph_allocs a = [] -> IsZero (Some (ap_phalloc a)) = true.
Proof. intros W B E. apply IsZero_iff; [apply W|]. intros k. rewrite (ab_ph a B k), E. reflexivity. Qed.
Lemma no_real_zero_allocated a : AppWF3 a -> AppBooks a -> real_allocs a = [] -> IsZero (Some (ap_allocated a)) = true.
Proof. intros W B E. apply IsZero_iff; [apply W|]. intros k. rewrite (ab_alloc a B k), E. reflexivity. Qed.
Lemma no_asks_zero_pending a : AppWF3 a -> AppBooks a -> pending_asks a = [] -> IsZero (Some (ap_pending a)) = true.
Proof. intros W B E. apply IsZero_iff; [apply W|]. intros k. rewrite (ab_pend a B k), E. reflexivity. Qed.
(* a listed allocation keeps its ledger away from zero *)
Lemma listed_ph_nonzero a x : AppWF3 a -> AppBooks a -> In x (ap_allocs a) -> oa_ph x = true -> IsZero (Some (ap_phalloc a)) = false.
Proof. intros W B Hx Hph. destruct (IsZero _) eqn:Z; [|reflexivity]. pose proof (zero_phalloc_no_ph a W B Z) as E.
  assert (In x (ph_allocs a)) by (apply filter_In; auto). rewrite E in H. contradiction. Qed.
Lemma listed_real_nonzero a x : AppWF3 a -> AppBooks a -> In x (ap_allocs a) -> oa_ph x = false -> IsZero (Some (ap_allocated a)) = false.
Proof. intros W B Hx Hph. destruct (IsZero _) eqn:Z; [|reflexivity]. pose proof (zero_allocated_no_real a W B Z) as E.
  assert (In x (real_allocs a)) by (apply filter_In; rewrite Hph; auto). rewrite E in H. contradiction. Qed.
Lemma listed_ask_nonzero a x : AppWF3 a -> AppBooks a -> In x (ap_requests a) -> oa_allocated x = false -> IsZero (Some (ap_pending a)) = false.
Proof. intros W B Hx Hna. destruct (IsZero _) eqn:Z; [|reflexivity]. pose proof (zero_pending_no_asks a W B Z) as E.
  assert (In x (pending_asks a)) by (apply filter_In; rewrite Hna; auto). rewrite E in H. contradiction. Qed.
