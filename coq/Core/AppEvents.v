(* Property C10 - which life-cycle events the release path raises: a component model of
     partition.go   removeAllocation / processAllocationRelease (single key)
     application.go ReplaceAllocation, removeAllocationInternal, addAllocationInternal(Replaced), removeAsksInternal (single key)
     application_state.go callbacks that arm / clear the state timer
   as a function of the observed application (state, state timer, pending / allocated / placeholder ledgers, requests,
   allocations) and the release (key, termination type). The state moves only through Core/AppLife.handle_event.
   Correspondence kind 1091 compares the predicted state with the state the real application is in after every
   single-key release of the core engine. Definitions only; proofs in Core/AppEventsProofs.v. *)
From Coq Require Import List ZArith NArith Bool.
From YK Require Import Base.Res Core.Obs Core.AppLife.
Import ListNotations.
Open Scope N_scope.

(* the part of an application the release path reads and writes *)
Record rstate := mkRS {
  rs_state : N; rs_timer : bool;
  rs_pending : res; rs_allocated : res; rs_phalloc : res;
  rs_requests : list oalloc; rs_allocs : list oalloc }.

Definition rs_of (a : oapp) : rstate :=
  mkRS (ap_state a) (ap_statetimer a) (ap_pending a) (ap_allocated a) (ap_phalloc a) (ap_requests a) (ap_allocs a).

(* HandleApplicationEvent + callbacks: leave_state clears the state timer, entering Completing / Rejected /
   Completed / Failed arms it; an invalid or same-state event changes nothing *)
Definition arms_timer (d : N) : bool := (d =? ST_Completing) || (d =? ST_Rejected) || (d =? ST_Completed) || (d =? ST_Failed).
Definition fire (r : rstate) (e : N) : rstate :=
  match handle_event (rs_state r) e with
  | (d, Moved) => mkRS d (arms_timer d) (rs_pending r) (rs_allocated r) (rs_phalloc r) (rs_requests r) (rs_allocs r)
  | (_, _) => r
  end.

Definition zero (r : res) : bool := IsZero (Some r).
Definition drop_key (k : N) (l : list oalloc) : list oalloc := filter (fun x => negb (oa_key x =? k)) l.

(* removeAllocationInternal for an allocation x the application holds *)
Definition remove_alloc (r : rstate) (x : oalloc) : rstate :=
  let r1 :=
    if oa_ph x then
      let ph' := Prune (Sub (Some (rs_phalloc r)) (Some (oa_res x))) in
      let r0 := mkRS (rs_state r) (rs_timer r) (rs_pending r) (rs_allocated r) ph' (rs_requests r) (rs_allocs r) in
      if zero ph' then
        if ((rs_state r =? ST_Completing) && negb (rs_timer r)) || (rs_state r =? ST_Failing) || (rs_state r =? ST_Resuming) ||
           (zero (rs_pending r) && zero (rs_allocated r))
        then fire r0 (if rs_state r =? ST_Failing then EV_Fail else if rs_state r =? ST_Resuming then EV_Run else EV_Complete)
        else r0
      else r0
    else
      let al' := Prune (Sub (Some (rs_allocated r)) (Some (oa_res x))) in
      let r0 := mkRS (rs_state r) (rs_timer r) (rs_pending r) al' (rs_phalloc r) (rs_requests r) (rs_allocs r) in
      if zero (rs_pending r) && zero al' then fire r0 EV_Complete else r0
  in mkRS (rs_state r1) (rs_timer r1) (rs_pending r1) (rs_allocated r1) (rs_phalloc r1) (rs_requests r1) (drop_key (oa_key x) (rs_allocs r1)).

(* addAllocationInternal(Replaced, real): the state moves unless this is the first real allocation of a gang that is
   not Completing ("skip the state change if this is the first replacement allocation") *)
Definition add_replaced (r : rstate) (real : oalloc) : rstate :=
  let r1 := if negb (zero (rs_allocated r)) || (rs_state r =? ST_Completing) then fire r EV_Run else r in
  mkRS (rs_state r1) (rs_timer r1) (rs_pending r1) (Add (Some (rs_allocated r1)) (Some (oa_res real))) (rs_phalloc r1)
       (rs_requests r1) (real :: rs_allocs r1).

(* removeAsksInternal(key): nothing at all when the application has no request; otherwise the ask (if any) is taken
   out, pending shrinks when it was not allocated, and the application completes when nothing is left *)
Definition remove_ask (r : rstate) (key : N) : rstate :=
  match rs_requests r with
  | [] => r
  | _ =>
      let r1 :=
        match find_alloc (rs_requests r) key with
        | Some ask =>
            mkRS (rs_state r) (rs_timer r)
                 (if oa_allocated ask then rs_pending r else Prune (Sub (Some (rs_pending r)) (Some (oa_res ask))))
                 (rs_allocated r) (rs_phalloc r) (drop_key key (rs_requests r)) (rs_allocs r)
        | None => r
        end in
      if zero (rs_pending r1) && zero (rs_allocated r1) && negb (rs_state r1 =? ST_Failing) && negb (rs_state r1 =? ST_Completing) &&
         negb (existsb oa_ph (rs_allocs r1))
      then fire r1 EV_Complete else r1
  end.

(* PartitionContext.removeAllocation for one key of a live application *)
Definition release_key (r : rstate) (key ty : N) : rstate :=
  let r1 :=
    match find_alloc (rs_allocs r) key with
    | None => r
    | Some x =>
        let r0 := remove_alloc r x in
        if (ty =? TT_PlaceholderReplaced) && negb (oa_release x =? 0) then
          match find_alloc (rs_requests r) (oa_release x) with
          | Some real => add_replaced r0 real
          | None => r0
          end
        else r0
    end in
  if ty =? TT_Timeout then r1 else remove_ask r1 key.

(* the model follows the placeholder's release link by key through the request list; the code follows a pointer. The two
   agree unless the linked real ask has been taken out of the requests while the swap was in flight (then the code still
   adds the allocation, with resources the observation no longer shows): such steps are outside the model *)
Definition release_modelled (r : rstate) (key ty : N) : bool :=
  match find_alloc (rs_allocs r) key with
  | Some x => negb ((ty =? TT_PlaceholderReplaced) && negb (oa_release x =? 0)) ||
              match find_alloc (rs_requests r) (oa_release x) with Some _ => true | None => false end
  | None => true
  end.

(* reachability along documented moves *)
Fixpoint doc_path (s : N) (l : list N) (d : N) : bool :=
  match l with
  | [] => s =? d
  | x :: t => documented s x && doc_path x t d
  end.

(* the defect of finding C10-completed-live-alloc, on the observed pre-state of the pinned reproducer
   (corpus/core_c10.json case 0, step 10): application Completing, timer cleared, placeholder 7 with the real ask 10
   linked; the shim confirms the placeholder *)
Definition w13_ph : oalloc := mkOA 7 5 1 [(1, 2%Z)] true 8 true true false 10 0 0%Z false false true false.
Definition w13_real : oalloc := mkOA 10 5 1 [(1, 2%Z)] false 8 true false false 7 0 0%Z false false true false.
Definition w13 : rstate := mkRS ST_Completing false [] [] [(1, 2%Z)] [w13_ph; w13_real] [w13_ph].
