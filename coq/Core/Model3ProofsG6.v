(* C03 over the gang fragment (Core/Model3.v), generic layer, part 6: the node side of the two elementary moves.
   [BindG]   : a record x enters the allocation list of application a and the list of node n
               (scheduling decision for a placeholder, recovered placeholder, requested -> allocated): [bind_owned],
               [bind_onnode], [bind_ninfl], [bind_count], [bind_node_ids], [bind_nodes_ok];
   [UnbindG] : an allocation x of a leaves a's allocation list and the list of its node n
               (plain removal of a placeholder / an allocation): [unbind_owned], [unbind_onnode], [unbind_ninfl], [unbind_count] ...
   Both are stated for a post-state s' described by lookups, ready for [gang_step] (Core/Model3ProofsG2.v). *)
From Coq Require Import List ZArith NArith Bool Lia ZifyBool.
From YK Require Import Base.Int64 Base.Res Base.ResSpec Base.ResLemmas Base.ResLaws Base.ResLaws2 Base.ResLawsPred
  Core.Obs Core.Model Core.Model2 Core.Model3 Core.Ledger
  Core.BooksLemmas Core.BooksDefs Core.BooksTree Core.BooksQueue Core.BooksApp Core.BooksState Core.BooksDrain Core.BooksOps
  Core.BooksOps2 Core.Model2ProofsB2 Core.Model3ProofsD Core.Model3ProofsG1 Core.Model3ProofsG2.
Import ListNotations.
Open Scope Z_scope.
Set Default Timeout 30.

(* ------------------------------------------------------------------ keys that no node lists *)
Lemma fresh_key_not_on_node s key : InvG s -> KeyFresh3 s key -> forall m y, In m (s_nodes s) -> In y (on_allocs m) -> oa_key y <> key.
Proof. intros HI [Fr _] m y Hm Hy. destruct (ig_owned s HI m y Hm Hy) as (b & Hb & _ & Ho). apply (Fr b y Hb). apply ownedby_record. assumption. Qed.
Lemma pending_key_not_on_node s a r : InvG s -> In a (s_apps s) -> In r (ap_requests a) -> oa_allocated r = false ->
  forall m y, In m (s_nodes s) -> In y (on_allocs m) -> oa_key y <> oa_key r.
Proof. intros HI Ha Hr Hna m y Hm Hy E. destruct (ig_owned s HI m y Hm Hy) as (b & Hb & _ & Ho). pose proof (ig_app_wf s HI a Ha) as W.
  assert (b = a) by (apply (g_key_owner s b a y r HI Hb Ha); [apply ownedby_record; assumption|apply in_records; auto|assumption]). subst b.
  destruct Ho as [Ho|(_ & Hyr & Hal & _)].
  - apply (w3_pending_fresh a W r Hr Hna). rewrite <- E. apply in_map. assumption.
  - assert (y = r) by (apply (nodup_key_inj oa_key (ap_requests a)); auto; apply (w3_req_keys a W)). congruence. Qed.
(* an allocation an application lists is not the real half of an in-flight replacement *)
Lemma alloc_ninfl a x : AppWF3 a -> In x (ap_allocs a) -> ninfl x = true.
Proof. intros W Hx. unfold ninfl, infl. destruct (oa_ph x) eqn:Ep; [reflexivity|]. rewrite (w3_real_nolink a W x Hx Ep). reflexivity. Qed.
Lemma length_put_fresh x l : ~ In (oa_key x) (akeys l) -> length (put_alloc x l) = S (length l).
Proof. intros H. change (put_alloc x l) with (x :: del_alloc (oa_key x) l). rewrite del_alloc_fresh by assumption. reflexivity. Qed.

Section MemberG.
  Variables (s s' : ostate) (a a' : oapp) (n n' : onode).
  Hypothesis HI : InvG s.
  Hypothesis Ha : In a (s_apps s).
  Hypothesis Hn : In n (s_nodes s).
  Hypothesis Eapps : s_apps s' = updk ap_id (s_apps s) (ap_id a) (fun _ => a').
  Hypothesis Enodes : s_nodes s' = updk on_id (s_nodes s) (on_id n) (fun _ => n').
  Hypothesis Eid : ap_id a' = ap_id a.
  Hypothesis Enid : on_id n' = on_id n.

  Lemma mg_node_ids : NoDup (map on_id (s_nodes s')).
  Proof. apply (g_node_ids' s s' n n' HI Enodes Enid). Qed.

  (* ================================================================ a record is bound *)
  Section BindG.
    Variable x : oalloc.
    Hypothesis Ealloc : ap_allocs a' = put_alloc x (ap_allocs a).
    (* the requests under other keys are kept (the request under x's key may be replaced by x, or appear) *)
    Hypothesis Hreq : forall y, In y (ap_requests a) -> oa_key y <> oa_key x -> In y (ap_requests a').
    Hypothesis Enalloc : on_allocs n' = put_alloc x (on_allocs n).
    Hypothesis Xapp : oa_app x = ap_id a.
    Hypothesis Xnode : oa_node x = on_id n.
    (* x's key is on no node ([fresh_key_not_on_node], [pending_key_not_on_node]) and is no allocation of a *)
    Hypothesis Xnodes : forall m y, In m (s_nodes s) -> In y (on_allocs m) -> oa_key y <> oa_key x.
    Hypothesis Xalloc : ~ In (oa_key x) (akeys (ap_allocs a)).

    Lemma bind_ownedby y m : In m (s_nodes s) -> In y (on_allocs m) -> OwnedBy a y -> OwnedBy a' y.
    Proof. intros Hm Hy Ho. pose proof (Xnodes m y Hm Hy) as Hne. destruct Ho as [Ho|(H1 & H2 & H3 & H4)].
      - left. rewrite Ealloc. apply in_put_alloc. auto.
      - right. split; [assumption|]. split; [apply Hreq; assumption|]. split; [assumption|].
        rewrite Ealloc. intros C. apply akeys_put in C. destruct C as [C|C]; auto. Qed.
    Lemma bind_owned : Owned s'.
    Proof. apply (owned_step s s' a a' HI Ha Eapps Eid). intros m' y Hm' Hy. apply (g_in_nodes' s s' n n' HI Hn Enodes) in Hm'.
      assert (Hold : forall m, In m (s_nodes s) -> In y (on_allocs m) ->
                (oa_app y <> ap_id a /\ exists m0, In m0 (s_nodes s) /\ In y (on_allocs m0)) \/ (oa_app y = ap_id a /\ OwnedBy a' y)).
      { intros m Hm Hym. destruct (N.eq_dec (oa_app y) (ap_id a)) as [E|E]; [right|left; split; [assumption|eauto]].
        split; [assumption|]. apply (bind_ownedby y m Hm Hym). apply (g_owner s m y a HI Hm Hym Ha). congruence. }
      destruct Hm' as [->|[Hm _]]; [|apply (Hold m' Hm Hy)].
      rewrite Enalloc in Hy. apply in_put_alloc in Hy. destruct Hy as [->|[Hy _]]; [|apply (Hold n Hn Hy)].
      right. split; [assumption|]. left. rewrite Ealloc. apply in_put_alloc. auto. Qed.
    Lemma bind_onnode : OnNode s'.
    Proof. apply (onnode_step s s' a a' HI Ha Eapps).
      - intros z Hz. rewrite Ealloc in Hz. apply in_put_alloc in Hz. destruct Hz as [->|[Hz Hne]].
        + exists n'. split; [apply (g_in_nodes' s s' n n' HI Hn Enodes); auto|]. split; [congruence|]. rewrite Enalloc. apply in_put_alloc. auto.
        + destruct (ig_onnode s HI a z Ha Hz) as (m & Hm & Em & Hzm).
          destruct (g_record_kept s s' n n' HI Hn Enodes Enid m z Hm Hzm) as (m' & Hm' & Em' & Hzm').
          { intros ->. rewrite Enalloc. apply in_put_alloc. auto. }
          exists m'. split; [assumption|]. split; [congruence|assumption].
      - intros m y Hm Hy _. apply (g_record_kept s s' n n' HI Hn Enodes Enid m y Hm Hy).
        intros ->. rewrite Enalloc. apply in_put_alloc. right. split; [assumption|apply (Xnodes n y Hn Hy)]. Qed.
    Lemma bind_ninfl k : asum (filter ninfl (node_records s')) k =
      asum (filter ninfl (node_records s)) k + (if ninfl x then getz (oa_res x) k else 0).
    Proof. apply (ninfl_put_fresh s s' n n' HI Hn Enodes Enid x k Enalloc). intros C. unfold akeys in C. apply in_map_iff in C.
      destruct C as (y & E & Hy). apply (Xnodes n y Hn Hy E). Qed.
    Lemma bind_count : s_nallocs s' = s_nallocs s + 1 -> s_nallocs s' = Z.of_nat (length (all_allocs s')).
    Proof using HI Ha Eapps Ealloc Xalloc. clear Eid Enid Xapp Xnode. intros Hc. apply (g_count_step s s' a a' HI Ha Eapps 1); [|assumption]. rewrite Ealloc, (length_put_fresh x _ Xalloc). lia. Qed.
    (* the node invariant: from the ledger equation of Node.AddAllocation *)
    Lemma bind_nodes_ok : wf (on_allocated n') -> (forall k, getz (on_allocated n') k = getz (on_allocated n) k + getz (oa_res x) k) ->
      forall m', In m' (s_nodes s') -> NodeOK3 m'.
    Proof using HI Hn Enodes Enid Enalloc Xnode Xnodes. clear Eid Xapp. intros Hwf Hled. apply (g_nodes_ok' s s' n n' HI Hn Enodes).
      apply (nodeok3_put n n' x (ig_nodes s HI n Hn) Enid Enalloc Xnode Hwf). intros k. rewrite Hled.
      assert (E : find_alloc (on_allocs n) (oa_key x) = None).
      { apply find_alloc_none. intros C. unfold akeys in C. apply in_map_iff in C. destruct C as (y & E & Hy). apply (Xnodes n y Hn Hy E). }
      rewrite E. lia. Qed.
  End BindG.

  (* ================================================================ an allocation is unbound *)
  Section UnbindG.
    Variable x : oalloc.
    Hypothesis Hx : In x (ap_allocs a).
    Hypothesis Ealloc : ap_allocs a' = del_alloc (oa_key x) (ap_allocs a).
    (* the requests under other keys are kept (the request under x's key may stay or go) *)
    Hypothesis Hreq : forall y, In y (ap_requests a) -> oa_key y <> oa_key x -> In y (ap_requests a').
    Hypothesis Enalloc : on_allocs n' = del_alloc (oa_key x) (on_allocs n).
    Hypothesis Xnode : oa_node x = on_id n.

    Lemma unbind_x_on_n : In x (on_allocs n).
    Proof. destruct (ig_onnode s HI a x Ha Hx) as (m & Hm & Em & Hxm).
      assert (m = n) by (apply (g_same_node s n m HI Hn Hm); congruence). subst m. assumption. Qed.
    (* a record on a node with x's key is x on n *)
    Lemma unbind_key_x m y : In m (s_nodes s) -> In y (on_allocs m) -> oa_key y = oa_key x -> y = x /\ m = n.
    Proof. intros Hm Hy E. apply (g_record_one_node s m n y x HI Hm Hn Hy unbind_x_on_n E). Qed.
    Lemma unbind_ownedby y : oa_key y <> oa_key x -> OwnedBy a y -> OwnedBy a' y.
    Proof. intros Hne [Ho|(H1 & H2 & H3 & H4)].
      - left. rewrite Ealloc. apply in_del_alloc. auto.
      - right. split; [assumption|]. split; [apply Hreq; assumption|]. split; [assumption|].
        rewrite Ealloc. intros C. apply akeys_del in C. tauto. Qed.
    Lemma unbind_owned : Owned s'.
    Proof. apply (owned_step s s' a a' HI Ha Eapps Eid). intros m' y Hm' Hy. apply (g_in_nodes' s s' n n' HI Hn Enodes) in Hm'.
      assert (Hold : forall m, In m (s_nodes s) -> In y (on_allocs m) -> oa_key y <> oa_key x ->
                (oa_app y <> ap_id a /\ exists m0, In m0 (s_nodes s) /\ In y (on_allocs m0)) \/ (oa_app y = ap_id a /\ OwnedBy a' y)).
      { intros m Hm Hym Hne. destruct (N.eq_dec (oa_app y) (ap_id a)) as [E|E]; [right|left; split; [assumption|eauto]].
        split; [assumption|]. apply (unbind_ownedby y Hne). apply (g_owner s m y a HI Hm Hym Ha). congruence. }
      destruct Hm' as [->|[Hm Hne]].
      - rewrite Enalloc in Hy. apply in_del_alloc in Hy. destruct Hy as [Hy Hk]. apply (Hold n Hn Hy Hk).
      - apply (Hold m' Hm Hy). intros E. destruct (unbind_key_x m' y Hm Hy E) as [_ ->]. contradiction. Qed.
    Lemma unbind_onnode : OnNode s'.
    Proof. apply (onnode_step s s' a a' HI Ha Eapps).
      - intros z Hz. rewrite Ealloc in Hz. apply in_del_alloc in Hz. destruct Hz as [Hz Hne].
        destruct (ig_onnode s HI a z Ha Hz) as (m & Hm & Em & Hzm).
        destruct (g_record_kept s s' n n' HI Hn Enodes Enid m z Hm Hzm) as (m' & Hm' & Em' & Hzm').
        { intros ->. rewrite Enalloc. apply in_del_alloc. auto. }
        exists m'. split; [assumption|]. split; [congruence|assumption].
      - intros m y Hm Hy Hother. apply (g_record_kept s s' n n' HI Hn Enodes Enid m y Hm Hy).
        intros ->. rewrite Enalloc. apply in_del_alloc. split; [assumption|]. intros E.
        destruct (unbind_key_x n y Hn Hy E) as [-> _]. apply Hother. apply (g_record_app s a x HI Ha). apply in_records. auto. Qed.
    Lemma unbind_ninfl k : asum (filter ninfl (node_records s')) k = asum (filter ninfl (node_records s)) k - getz (oa_res x) k.
    Proof. rewrite (ninfl_del s s' n n' HI Hn Enodes Enid x k unbind_x_on_n Enalloc).
      rewrite (alloc_ninfl a x (ig_app_wf s HI a Ha) Hx). reflexivity. Qed.
    Lemma unbind_count : s_nallocs s' = s_nallocs s + -1 -> s_nallocs s' = Z.of_nat (length (all_allocs s')).
    Proof using HI Ha Eapps Hx Ealloc. clear Eid Enid Xnode. intros Hc. apply (g_count_step s s' a a' HI Ha Eapps (-1)); [|assumption].
      pose proof (length_del_alloc (ap_allocs a) (oa_key x) x (w3_alloc_keys a (ig_app_wf s HI a Ha)) (g_find_alloc_in s a x HI Ha Hx)) as L.
      rewrite Ealloc. lia. Qed.
    (* the node invariant: from the ledger equation of Node.RemoveAllocation *)
    Lemma unbind_nodes_ok : wf (on_allocated n') -> (forall k, getz (on_allocated n') k = getz (on_allocated n) k - getz (oa_res x) k) ->
      forall m', In m' (s_nodes s') -> NodeOK3 m'.
    Proof. intros Hwf Hled. apply (g_nodes_ok' s s' n n' HI Hn Enodes).
      apply (nodeok3_del n n' (oa_key x) (ig_nodes s HI n Hn) Enid Enalloc Hwf). intros k.
      rewrite Hled, (g_find_node_alloc_in s n x HI Hn unbind_x_on_n). reflexivity. Qed.
  End UnbindG.
End MemberG.
