(* C09 - proofs about the component model Core/Reserve.v, part 2: ask updates, the loops, preservation of
   the invariant by every operation, and the property's predicates as consequences of the invariant. *)
From Coq Require Import List ZArith NArith Bool Lia ZifyBool ZifyNat ZifyN.
From YK Require Import Core.Obs Core.Reserve Core.ReserveLemmas Core.ReserveProofs.
Import ListNotations.
Open Scope N_scope.

Lemma memN_In x l : memN x l = true <-> In x l.
Proof.
  unfold memN. rewrite existsb_exists. split.
  - intros [y [Hy He]]. apply N.eqb_eq in He. subst. exact Hy.
  - intro H. exists x. split; [exact H|apply N.eqb_refl].
Qed.

(* ---------- replacing the ask list ---------- *)
Lemma K_with_asks w l' :
  K w ->
  NoDup (map ra_key l') ->
  (forall y, In y l' -> In (ra_app y) (rv_apps w)) ->
  (forall x, In x (rv_app w) -> exists y y', find_ask w (r_app x) (r_key x) = Some y /\
       find (is_ask (r_app x) (r_key x)) l' = Some y' /\ ra_allocated y' = false /\ ra_req y' = ra_req y) ->
  K (with_asks w l').
Proof.
  intros [Hk [Hq [Ha Hn]]] Hnd Hlive Hkeep.
  assert (Hreq : forall x, In x (rv_node w) -> req_of (with_asks w l') x = req_of w x).
  { intros x Hx. apply (K1 w Hk) in Hx. destruct (Hkeep x Hx) as [y [y' [H1 [H2 [_ H4]]]]].
    unfold req_of, ask_req, find_ask. cbn [with_asks rv_asks]. unfold find_ask in H1. rewrite H1, H2. exact H4. }
  split; [|split; [|split]].
  - constructor; cbn [with_asks rv_app rv_node rv_queue rv_part rv_asks].
    + exact (K1 w Hk).
    + exact (K2 w Hk).
    + exact (K2n w Hk).
    + exact (K3a w Hk).
    + exact (K3b w Hk).
    + exact (K4 w Hk).
    + intros x Hx. destruct (Hkeep x Hx) as [y [y' [H1 [H2 [H3 _]]]]]. exists y'. split; [exact H2|exact H3].
    + exact Hnd.
    + intros x y Hx Hy He Hne. change (rv_node (with_asks w l')) with (rv_node w) in *. rewrite (Hreq x Hx).
      apply (K9 w Hk x y); assumption.
    + intros x Hx. change (rv_node (with_asks w l')) with (rv_node w) in *. rewrite (Hreq x Hx). apply (K10 w Hk x Hx).
  - exact Hq.
  - exact Hlive.
  - exact Hn.
Qed.

Lemma set_allocated_keys a k b l : map ra_key (set_allocated a k b l) = map ra_key l.
Proof. unfold set_allocated. rewrite map_map. apply map_ext. intro y. destruct (is_ask a k y); reflexivity. Qed.

Lemma K_set_allocated w a k b :
  K w -> (b = false \/ forall x, In x (rv_app w) -> is_res a k x = false) ->
  K (with_asks w (set_allocated a k b (rv_asks w))).
Proof.
  intros HK Hb. pose proof HK as [Hk [Hq [Ha Hn]]]. apply K_with_asks; [exact HK| | |].
  - rewrite set_allocated_keys. exact (K6 w Hk).
  - intros y Hy. unfold set_allocated in Hy. apply in_map_iff in Hy. destruct Hy as [y0 [E Hy0]].
    specialize (Ha y0 Hy0). destruct (is_ask a k y0); subst y; exact Ha.
  - intros x Hx. destruct (K5 w Hk x Hx) as [y [Hf Hal]]. exists y.
    unfold set_allocated. rewrite find_map_same.
    + unfold find_ask in Hf. rewrite Hf. cbn [option_map]. eexists. split; [exact Hf|]. split; [reflexivity|].
      destruct (is_ask a k y) eqn:E; cbn [ra_allocated ra_req]; [|auto].
      destruct Hb as [Hb|Hb]; [auto|]. exfalso. specialize (Hb x Hx).
      destruct (find_ask_some _ _ _ _ Hf) as [_ [E1 E2]]. apply is_ask_true in E. destruct E as [E3 E4].
      assert (is_res a k x = true) as X by (apply is_res_true; split; congruence). congruence.
    + intro y0. unfold is_ask. destruct ((ra_app y0 =? a) && (ra_key y0 =? k)); reflexivity.
Qed.

Lemma K_filter_asks w (p : rask -> bool) :
  K w -> (forall x y, In x (rv_app w) -> find_ask w (r_app x) (r_key x) = Some y -> p y = true) ->
  K (with_asks w (filter p (rv_asks w))).
Proof.
  intros HK Hp. pose proof HK as [Hk [Hq [Ha Hn]]]. apply K_with_asks; [exact HK| | |].
  - apply NoDup_map_filter. exact (K6 w Hk).
  - intros y Hy. apply filter_In in Hy. apply Ha. tauto.
  - intros x Hx. destruct (K5 w Hk x Hx) as [y [Hf Hal]]. exists y, y. split; [exact Hf|]. split; [|auto].
    specialize (Hp x y Hx Hf). unfold find_ask in Hf.
    assert (find (is_ask (r_app x) (r_key x)) (filter p (rv_asks w)) = Some y) as X; [|exact X].
    revert Hf. generalize (rv_asks w). induction l as [|h t IH]; cbn [find filter]; [discriminate|].
    destruct (is_ask (r_app x) (r_key x) h) eqn:E.
    + intro H. inversion H; subst h. rewrite Hp. cbn [find]. rewrite E. reflexivity.
    + intro H. destruct (p h); cbn [find]; [rewrite E|]; apply IH; exact H.
Qed.

Lemma K_add_ask w a k req :
  K w -> In a (rv_apps w) -> existsb (fun x => ra_key x =? k) (rv_asks w) = false ->
  K (with_asks w (rv_asks w ++ [mkRA a k false req])).
Proof.
  intros HK Hlive Hfresh. pose proof HK as [Hk [Hq [Ha Hn]]]. apply K_with_asks; [exact HK| | |].
  - apply NoDup_map_snoc; [exact (K6 w Hk)|]. cbn [ra_key]. intro Hi. apply in_map_iff in Hi. destruct Hi as [y [E Hy]].
    assert (existsb (fun x => ra_key x =? k) (rv_asks w) = true) as X; [|congruence].
    apply existsb_exists. exists y. split; [exact Hy|apply N.eqb_eq; exact E].
  - intros y Hy. apply in_app_or in Hy. destruct Hy as [Hy|[Hy|[]]]; [apply Ha; exact Hy|]. subst y. exact Hlive.
  - intros x Hx. destruct (K5 w Hk x Hx) as [y [Hf Hal]]. exists y, y. split; [exact Hf|]. split; [|auto].
    apply find_app_l. exact Hf.
Qed.

(* unreserve operations do not read the ask list *)
Lemma part_unreserve_with_asks v l a k : part_unreserve (with_asks v l) a k = with_asks (part_unreserve v a k) l.
Proof.
  unfold part_unreserve, cancel_one, app_unreserve, unreserve_num, app_res. cbn [with_asks rv_app].
  destruct (find (is_res a k) (rv_app v)); reflexivity.
Qed.
Lemma cancel_one_with_asks v l a k : cancel_one (with_asks v l) a k = with_asks (cancel_one v a k) l.
Proof.
  unfold cancel_one, app_unreserve, unreserve_num, app_res. cbn [with_asks rv_app].
  destruct (find (is_res a k) (rv_app v)); reflexivity.
Qed.

Lemma del_app_none a k l x : In x (del_app a k l) -> is_res a k x = false.
Proof. unfold del_app. rewrite filter_In, negb_true_iff. tauto. Qed.

(* ---------- loop of unReserveInternal over the reservations of one application ---------- *)
Definition F (a : N) (ks : list N) (w : rview) : rview := fold_left (fun w k => app_unreserve w a k) ks w.

Lemma F_Kr a ks : forall w, Kr w -> Kr (F a ks w).
Proof. induction ks as [|k t IH]; intros w Hk; [exact Hk|]. cbn [F fold_left]. apply IH. apply app_unreserve_Kr. exact Hk. Qed.

Lemma app_unreserve_static v a k :
  rv_asks (app_unreserve v a k) = rv_asks v /\ rv_apps (app_unreserve v a k) = rv_apps v /\
  rv_nodes (app_unreserve v a k) = rv_nodes v /\ rv_queue (app_unreserve v a k) = rv_queue v /\
  rv_part (app_unreserve v a k) = rv_part v.
Proof. unfold app_unreserve. destruct (app_res v a k); cbn; auto. Qed.

Lemma F_static a ks : forall w,
  rv_asks (F a ks w) = rv_asks w /\ rv_apps (F a ks w) = rv_apps w /\ rv_nodes (F a ks w) = rv_nodes w /\
  rv_queue (F a ks w) = rv_queue w /\ rv_part (F a ks w) = rv_part w.
Proof.
  induction ks as [|k t IH]; intro w; [cbn; auto|]. cbn [F fold_left].
  destruct (IH (app_unreserve w a k)) as [E1 [E2 [E3 [E4 E5]]]]. destruct (app_unreserve_static w a k) as [S1 [S2 [S3 [S4 S5]]]].
  unfold F in *. rewrite E1, E2, E3, E4, E5. auto.
Qed.

Lemma F_app a ks : forall w,
  rv_app (F a ks w) = filter (fun x => negb ((r_app x =? a) && memN (r_key x) ks)) (rv_app w).
Proof.
  induction ks as [|k t IH]; intro w.
  - cbn [F fold_left]. symmetry. apply filter_all_true. intros x _. cbn. rewrite andb_false_r. reflexivity.
  - cbn [F fold_left]. change (fold_left (fun w0 k0 => app_unreserve w0 a k0) t (app_unreserve w a k)) with (F a t (app_unreserve w a k)).
    rewrite IH, app_unreserve_app. unfold del_app. rewrite filter_filter. apply filter_ext_in. intros x _.
    unfold is_res, memN. cbn [existsb]. destruct (r_app x =? a); cbn [andb negb]; [|reflexivity].
    destruct (r_key x =? k); cbn [negb andb orb]; reflexivity.
Qed.

Lemma unreserve_all_app v a : rv_app (unreserve_all v a) = filter (fun x => negb (r_app x =? a)) (rv_app v).
Proof.
  unfold unreserve_all. cbn [with_queue rv_app]. change (fold_left (fun w k => app_unreserve w a k) (app_keys v a) v) with (F a (app_keys v a) v).
  rewrite F_app. apply filter_ext_in. intros x Hx. destruct (r_app x =? a) eqn:E; [|reflexivity]. cbn [andb].
  assert (memN (r_key x) (app_keys v a) = true) as X; [|rewrite X; reflexivity].
  apply memN_In. unfold app_keys. apply in_map. apply filter_In. auto.
Qed.

Lemma card_filter_other l a b : b <> a -> card (filter (fun x => negb (r_app x =? a)) l) b = card l b.
Proof.
  intro Hne. unfold card. rewrite filter_filter. f_equal. f_equal. apply filter_ext_in. intros x _.
  destruct (r_app x =? a) eqn:E1; [|reflexivity]. cbn [negb andb]. apply N.eqb_eq in E1. symmetry. apply N.eqb_neq. congruence.
Qed.
Lemma card_filter_self l a : card (filter (fun x => negb (r_app x =? a)) l) a = 0.
Proof.
  unfold card. rewrite filter_filter. rewrite filter_all_false; [reflexivity|]. intros x _. destruct (r_app x =? a); reflexivity.
Qed.

Lemma K_unreserve_all v a : K v -> K (unreserve_all v a).
Proof.
  intros [Hk [Hq [Ha Hn]]]. pose proof (F_Kr a (app_keys v a) v Hk) as HF.
  destruct (F_static a (app_keys v a) v) as [S1 [S2 [S3 [S4 S5]]]].
  pose proof (unreserve_all_app v a) as Happ. unfold unreserve_all in *. cbn [with_queue rv_app] in Happ.
  change (fold_left (fun w k => app_unreserve w a k) (app_keys v a) v) with (F a (app_keys v a) v) in *.
  split; [|split; [|split]].
  - destruct HF as [h1 h2 h2n h3a h3b h4 h5 h6 h9 h10].
    constructor; cbn [with_queue rv_app rv_node rv_queue rv_part rv_asks]; auto.
    + rewrite S4. apply q_unreserve_nodup. exact (K3a v Hk).
    + rewrite S4. apply q_unreserve_pos; [exact (K3a v Hk)|exact (K3b v Hk)].
  - intro b. cbn [with_queue rv_queue rv_app]. rewrite S4, Happ. rewrite q_unreserve_count; [|rewrite (Hq a); lia].
    destruct (b =? a) eqn:E.
    + apply N.eqb_eq in E. subst b. rewrite card_filter_self, (Hq a). lia.
    + apply N.eqb_neq in E. rewrite card_filter_other by exact E. apply Hq.
  - unfold Ka. cbn [with_queue rv_asks rv_apps]. rewrite S1, S2. exact Ha.
  - intros x Hx. cbn [with_queue rv_app rv_nodes] in *. rewrite S3. rewrite Happ in Hx. apply filter_In in Hx. apply Hn. tauto.
Qed.

Lemma unreserve_all_static v a :
  rv_asks (unreserve_all v a) = rv_asks v /\ rv_apps (unreserve_all v a) = rv_apps v /\ rv_nodes (unreserve_all v a) = rv_nodes v.
Proof.
  unfold unreserve_all. cbn [with_queue rv_asks rv_apps rv_nodes].
  change (fold_left (fun w k => app_unreserve w a k) (app_keys v a) v) with (F a (app_keys v a) v).
  destruct (F_static a (app_keys v a) v) as [S1 [S2 [S3 _]]]. auto.
Qed.

Lemma K_drop_asks_after v a : K v -> K (drop_asks (unreserve_all v a) a).
Proof.
  intro HK. pose proof (K_unreserve_all v a HK) as HK1. unfold drop_asks. apply K_filter_asks; [exact HK1|].
  intros x y Hx Hf. rewrite unreserve_all_app in Hx. apply filter_In in Hx. destruct Hx as [_ Hx].
  destruct (find_ask_some _ _ _ _ Hf) as [_ [E _]]. rewrite E. exact Hx.
Qed.

Lemma drop_asks_no_asks v a y : In y (rv_asks (drop_asks v a)) -> ra_app y <> a.
Proof. unfold drop_asks. cbn [with_asks rv_asks]. rewrite filter_In, negb_true_iff, N.eqb_neq. tauto. Qed.

Lemma K_drop_app v a : K v -> (forall y, In y (rv_asks v) -> ra_app y <> a) -> K (drop_app v a).
Proof.
  intros [Hk [Hq [Ha Hn]]] Hno. split; [|split; [|split]].
  - destruct Hk as [h1 h2 h2n h3a h3b h4 h5 h6 h9 h10]. constructor; auto.
  - exact Hq.
  - intros y Hy. cbn [drop_app rv_asks rv_apps] in *. apply filter_In. split; [apply Ha; exact Hy|].
    apply negb_true_iff, N.eqb_neq. apply Hno. exact Hy.
  - exact Hn.
Qed.

Lemma K_remove_all_asks v a : K v -> K (remove_all_asks v a) /\ (forall y, In y (rv_asks (remove_all_asks v a)) -> ra_app y <> a).
Proof.
  intro HK. unfold remove_all_asks. destruct (existsb (fun x => ra_app x =? a) (rv_asks v)) eqn:E; cbn [negb].
  - split; [apply K_drop_asks_after; exact HK|]. intros y Hy. eapply drop_asks_no_asks; eauto.
  - split; [exact HK|]. intros y Hy Ea. assert (existsb (fun x => ra_app x =? a) (rv_asks v) = true) as X; [|congruence].
    apply existsb_exists. exists y. split; [exact Hy|apply N.eqb_eq; exact Ea].
Qed.

(* no reservation of the application is left *)
Lemma remove_all_asks_clean v a x : K v -> In x (rv_app (remove_all_asks v a)) -> r_app x <> a.
Proof.
  intros HK Hx Ea. destruct (K_remove_all_asks v a HK) as [[Hk _] Hno].
  destruct (K5 _ Hk x Hx) as [y [Hf _]]. destruct (find_ask_some _ _ _ _ Hf) as [Hy [E _]]. apply (Hno y Hy). congruence.
Qed.

(* ---------- cancelReservations ---------- *)
Lemma cancel_required_spec es : forall w t,
  K w ->
  let r := fold_left (fun acc e => if ask_req (fst acc) (r_app e) (r_key e) =? 0
                          then (cancel_one (fst acc) (r_app e) (r_key e), snd acc + unreserve_num (fst acc) (r_app e) (r_key e))
                          else acc) es (w, t) in
  K (fst r) /\ rv_part (fst r) = rv_part w /\
  (length (rv_app (fst r)) + N.to_nat (snd r) = length (rv_app w) + N.to_nat t)%nat /\
  (forall x, In x (rv_app (fst r)) -> In x (rv_app w)).
Proof.
  induction es as [|e tl IH]; intros w t HK; cbn [fold_left fst snd].
  - split; [exact HK|]. split; [reflexivity|]. split; [reflexivity|]. auto.
  - destruct (ask_req w (r_app e) (r_key e) =? 0).
    + pose proof (K_cancel_one w (r_app e) (r_key e) HK) as HK1.
      specialize (IH (cancel_one w (r_app e) (r_key e)) (t + unreserve_num w (r_app e) (r_key e)) HK1).
      cbn zeta in IH. destruct IH as [I1 [I2 [I3 I4]]]. destruct (cancel_one_static w (r_app e) (r_key e)) as [_ [_ [_ S4]]].
      split; [exact I1|]. split; [rewrite I2; exact S4|]. split.
      * rewrite I3. rewrite cancel_one_app, <- app_unreserve_app. destruct HK as [Hk _].
        pose proof (unreserve_num_length w (r_app e) (r_key e) Hk). lia.
      * intros x Hx. specialize (I4 x Hx). rewrite cancel_one_app in I4. unfold del_app in I4. apply filter_In in I4. tauto.
    + apply IH. exact HK.
Qed.

Lemma K_with_part w p : K w -> (Z.of_nat (length (rv_app w)) <= p)%Z -> K (with_part w p).
Proof.
  intros [Hk [Hq [Ha Hn]]] Hp. split; [|split; [|split]]; auto.
  destruct Hk as [h1 h2 h2n h3a h3b h4 h5 h6 h9 h10]. constructor; auto.
Qed.

(* ---------- removeNode ---------- *)
Definition G (es : list rres) (w : rview) : rview := fold_left (fun w e => part_unreserve w (r_app e) (r_key e)) es w.
Definition K3 (v : rview) : Prop := Kr v /\ Kq v /\ Ka v.

Lemma G_K3 es : forall w, K3 w -> K3 (G es w).
Proof.
  induction es as [|e t IH]; intros w HK; [exact HK|]. cbn [G fold_left]. apply IH.
  destruct HK as [Hk [Hq Ha]]. split; [apply part_unreserve_Kr; exact Hk|]. split; [apply part_unreserve_Kq; assumption|].
  destruct (part_unreserve_static w (r_app e) (r_key e)) as [E1 [E2 _]]. unfold Ka. rewrite E1, E2. exact Ha.
Qed.

Lemma G_sub es : forall w x, In x (rv_app (G es w)) -> In x (rv_app w) /\ forall e, In e es -> is_res (r_app e) (r_key e) x = false.
Proof.
  induction es as [|e t IH]; intros w x Hx; [split; [exact Hx|intros e []]|]. cbn [G fold_left] in Hx.
  destruct (IH _ x Hx) as [H1 H2]. rewrite part_unreserve_app in H1. unfold del_app in H1. apply filter_In in H1.
  destruct H1 as [H1 H3]. split; [exact H1|]. intros e0 [He|He]; [subst e0; apply negb_true_iff; exact H3|apply H2; exact He].
Qed.

Lemma G_static es : forall w, rv_nodes (G es w) = rv_nodes w.
Proof.
  induction es as [|e t IH]; intro w; [reflexivity|]. cbn [G fold_left]. unfold G in IH. rewrite IH.
  destruct (part_unreserve_static w (r_app e) (r_key e)) as [_ [_ E]]. exact E.
Qed.

Definition drop_node (v : rview) (n : N) : rview :=
  mkRV (rv_asks v) (filter (fun x => negb (x =? n)) (rv_nodes v)) (rv_apps v) (rv_app v) (rv_node v) (rv_queue v) (rv_part v).

Lemma K_remove_node v n : K v -> K (G (node_entries v n) (drop_node v n)) /\
  forall x, In x (rv_app (G (node_entries v n) (drop_node v n))) -> r_node x <> n.
Proof.
  intros [Hk [Hq [Ha Hn]]].
  assert (K3 (drop_node v n)) as H0.
  { split; [|split]; [|exact Hq|exact Ha]. destruct Hk as [h1 h2 h2n h3a h3b h4 h5 h6 h9 h10]. constructor; auto. }
  pose proof (G_K3 (node_entries v n) _ H0) as [Hk' [Hq' Ha']].
  assert (Hclean : forall x, In x (rv_app (G (node_entries v n) (drop_node v n))) -> r_node x <> n).
  { intros x Hx En. destruct (G_sub _ _ _ Hx) as [H1 H2]. cbn [drop_node rv_app] in H1.
    assert (In x (node_entries v n)) as Hin by (apply node_entries_in; split; [apply (K1 v Hk); exact H1|exact En]).
    specialize (H2 x Hin). assert (is_res (r_app x) (r_key x) x = true) as X by (apply is_res_true; auto). congruence. }
  split; [|exact Hclean]. split; [exact Hk'|]. split; [exact Hq'|]. split; [exact Ha'|].
  intros x Hx. rewrite G_static. cbn [drop_node rv_nodes]. apply filter_In. split.
  - destruct (G_sub _ _ _ Hx) as [H1 _]. apply Hn. exact H1.
  - apply negb_true_iff, N.eqb_neq. apply Hclean. exact Hx.
Qed.

(* ---------- every operation preserves the invariant ---------- *)
Lemma K_init : K rv_init.
Proof.
  split; [|split; [|split]].
  - constructor; cbn; try constructor; try tauto; try (intros; contradiction). lia.
  - intro a. reflexivity.
  - intros y [].
  - intros x [].
Qed.

Lemma K_add_node v n : K v -> K (mkRV (rv_asks v) (n :: rv_nodes v) (rv_apps v) (rv_app v) (rv_node v) (rv_queue v) (rv_part v)).
Proof.
  intros [Hk [Hq [Ha Hn]]]. split; [|split; [|split]]; auto.
  - destruct Hk as [h1 h2 h2n h3a h3b h4 h5 h6 h9 h10]. constructor; auto.
  - intros x Hx. right. apply Hn. exact Hx.
Qed.
Lemma K_add_app v a : K v -> K (mkRV (rv_asks v) (rv_nodes v) (a :: rv_apps v) (rv_app v) (rv_node v) (rv_queue v) (rv_part v)).
Proof.
  intros [Hk [Hq [Ha Hn]]]. split; [|split; [|split]]; auto.
  - destruct Hk as [h1 h2 h2n h3a h3b h4 h5 h6 h9 h10]. constructor; auto.
  - intros y Hy. right. apply Ha. exact Hy.
Qed.

Lemma rstep_K v o v' : K v -> rstep v o = Some v' -> K v'.
Proof.
  intros HK Hs. destruct o; cbn [rstep] in Hs.
  - destruct (memN n (rv_nodes v)); [discriminate|]. inversion Hs; subst. apply K_add_node; exact HK.
  - destruct (memN a (rv_apps v)); [discriminate|]. inversion Hs; subst. apply K_add_app; exact HK.
  - destruct (memN a (rv_apps v)) eqn:E1; cbn [negb orb] in Hs; [|discriminate].
    destruct (existsb (fun x => ra_key x =? k) (rv_asks v)) eqn:E2; [discriminate|]. inversion Hs; subst.
    apply K_add_ask; [exact HK|apply memN_In; exact E1|exact E2].
  - destruct (memN a (rv_apps v) && memN n (rv_nodes v) && ((ask_req v a k =? 0) || (ask_req v a k =? n))) eqn:E; [|discriminate].
    inversion Hs; subst. apply andb_true_iff in E. destruct E as [E E3]. apply andb_true_iff in E. destruct E as [E1 E2].
    apply part_reserve_K; [exact HK|apply memN_In; exact E2|]. apply orb_true_iff in E3. rewrite !N.eqb_eq in E3. exact E3.
  - destruct (memN a (rv_apps v)); [|discriminate]. inversion Hs; subst. apply K_part_unreserve; exact HK.
  - destruct (find_ask v a k) as [y|]; [|discriminate].
    destruct (ra_allocated y || negb (memN n (rv_nodes v))); [discriminate|].
    destruct (reserved_for_other v n a k); [discriminate|]. inversion Hs; subst.
    rewrite part_unreserve_with_asks. pose proof (K_part_unreserve v a k HK) as HK1.
    destruct (part_unreserve_static v a k) as [E1 _]. rewrite <- E1. apply K_set_allocated; [exact HK1|].
    right. intros x Hx. rewrite part_unreserve_app in Hx. eapply del_app_none; eauto.
  - destruct (find_ask v a k) as [y|]; [|discriminate]. destruct (ra_allocated y); [discriminate|]. inversion Hs; subst.
    rewrite cancel_one_with_asks. pose proof (K_cancel_one v a k HK) as HK1.
    destruct (cancel_one_static v a k) as [E1 _]. rewrite <- E1. apply K_set_allocated; [exact HK1|].
    right. intros x Hx. rewrite cancel_one_app in Hx. eapply del_app_none; eauto.
  - destruct (find_ask v a k) as [y|]; [|discriminate]. destruct (ra_allocated y); [|discriminate]. inversion Hs; subst.
    apply K_set_allocated; [exact HK|left; reflexivity].
  - inversion Hs; subst. pose proof (K_cancel_one v a k HK) as HK1.
    change (K (with_asks (cancel_one v a k) (filter (fun x => negb (is_ask a k x)) (rv_asks (cancel_one v a k))))).
    apply K_filter_asks; [exact HK1|].
    intros x y Hx Hf. rewrite cancel_one_app in Hx. apply del_app_none in Hx.
    destruct (find_ask_some _ _ _ _ Hf) as [_ [E1 E2]]. apply negb_true_iff. unfold is_ask. unfold is_res in Hx.
    rewrite E1, E2. exact Hx.
  - inversion Hs; subst. apply K_remove_all_asks. exact HK.
  - inversion Hs; subst. destruct (K_remove_all_asks v a HK) as [H1 H2]. apply K_drop_app; assumption.
  - inversion Hs; subst. apply K_drop_app; [apply K_drop_asks_after; exact HK|]. intros y Hy. eapply drop_asks_no_asks; eauto.
  - inversion Hs; subst. apply K_cancel_one; exact HK.
  - inversion Hs; subst. unfold cancel_required. pose proof (cancel_required_spec (node_entries v n) v 0 HK) as H. cbn zeta in H.
    destruct H as [H1 [H2 [H3 _]]]. destruct counted; [|exact H1]. apply K_with_part; [exact H1|].
    destruct HK as [Hk _]. pose proof (K4 v Hk). lia.
  - inversion Hs; subst. apply (K_remove_node v n HK).
Qed.

Lemma rrun_K ops : forall v v', K v -> rrun v ops = Some v' -> K v'.
Proof.
  induction ops as [|o t IH]; cbn [rrun]; intros v v' HK Hr; [inversion Hr; subst; exact HK|].
  destruct (rstep v o) as [v1|] eqn:E; [|discriminate]. eapply IH; [|exact Hr]. eapply rstep_K; eauto.
Qed.

(* ---------- the property's predicates follow from the invariant ---------- *)
Lemma rres_eqb_eq x y : rres_eqb x y = true <-> x = y.
Proof.
  unfold rres_eqb. rewrite !andb_true_iff, !N.eqb_eq. destruct x, y; cbn. split; [intros [[? ?] ?]; congruence|intro E; inversion E; auto].
Qed.
Lemma memR_In x l : memR x l = true <-> In x l.
Proof.
  unfold memR. rewrite existsb_exists. split.
  - intros [y [Hy He]]. apply rres_eqb_eq in He. subst. exact Hy.
  - intro H. exists x. split; [exact H|apply rres_eqb_eq; reflexivity].
Qed.

Lemma qc_in l e : NoDup (map fst l) -> In e l -> queue_count l (fst e) = snd e.
Proof.
  intros Hnd He. unfold queue_count. destruct (find (fun x => fst x =? fst e) l) as [x|] eqn:F.
  - apply find_some in F. destruct F as [Hx Ex]. apply N.eqb_eq in Ex.
    assert (x = e) as E by (eapply (NoDup_map_inj fst); eauto). subst. reflexivity.
  - assert ((fst e =? fst e) = false) as X by (apply (find_none _ _ F e He)). rewrite N.eqb_refl in X. discriminate.
Qed.

Lemma K_views_agree v : K v -> views_agree v = true /\ counter_ge_card v = true.
Proof.
  intros [Hk [Hq _]]. unfold views_agree, views_app_node, views_queue, views_counter, counter_ge_card, subR.
  assert (Z.of_nat (length (rv_app v)) <= rv_part v)%Z as H4 by exact (K4 v Hk).
  split; [|apply Z.leb_le; exact H4]. repeat (apply andb_true_iff; split).
  - apply forallb_forall. intros x Hx. apply memR_In. apply (K1 v Hk). exact Hx.
  - apply forallb_forall. intros x Hx. apply memR_In. apply (K1 v Hk). exact Hx.
  - apply forallb_forall. intros x _. apply N.eqb_eq. symmetry. apply Hq.
  - apply forallb_forall. intros e He. apply andb_true_iff. split.
    + apply N.ltb_lt. exact (K3b v Hk e He).
    + apply N.eqb_eq. rewrite <- (Hq (fst e)). symmetry. apply qc_in; [exact (K3a v Hk)|exact He].
  - destruct (rv_app v); [reflexivity|]. cbn [length] in H4. apply Z.leb_le. lia.
Qed.

Lemma nodup_ask_of_keys l : NoDup (map r_key l) -> nodup_ask l = true.
Proof.
  induction l as [|x t IH]; cbn [map nodup_ask]; intro H; [reflexivity|]. inversion H as [|? ? Hn Ht]; subst.
  rewrite IH by exact Ht. rewrite andb_true_r. apply negb_true_iff. destruct (existsb (is_res (r_app x) (r_key x)) t) eqn:E; [|reflexivity].
  apply existsb_exists in E. destruct E as [z [Hz Ez]]. apply is_res_true in Ez. exfalso. apply Hn. apply in_map_iff. exists z. tauto.
Qed.

Lemma K_one_per_ask v : K v -> one_per_ask v = true.
Proof.
  intros [Hk _]. unfold one_per_ask. rewrite (nodup_ask_of_keys _ (K2 v Hk)), (nodup_ask_of_keys _ (K2n v Hk)). reflexivity.
Qed.

Lemma K_only_outstanding v : K v -> only_outstanding v = true.
Proof.
  intros [Hk _]. unfold only_outstanding.
  assert (forall x, In x (rv_app v) -> outstanding v (r_app x) (r_key x) = true) as H.
  { intros x Hx. destruct (K5 v Hk x Hx) as [y [Hf Hal]]. unfold outstanding. rewrite Hf, Hal. reflexivity. }
  apply andb_true_iff. split; apply forallb_forall; intros x Hx; apply H; [|apply (K1 v Hk)]; exact Hx.
Qed.

Lemma two_distinct {A} (l : list A) a b t e : l = a :: b :: t -> NoDup l -> In e l -> exists e', In e' l /\ e' <> e.
Proof.
  intros E Hnd He. subst l. inversion Hnd as [|? ? Hn _]; subst.
  assert (a <> b) as Hab by (intro X; subst; apply Hn; left; reflexivity).
  destruct He as [He|He].
  - subst e. exists b. split; [right; left; reflexivity|congruence].
  - exists a. split; [left; reflexivity|]. intro X. subst e. contradiction.
Qed.

Lemma K_one_per_node v : K v -> one_per_node_unless_required v = true.
Proof.
  intros [Hk _]. unfold one_per_node_unless_required. apply forallb_forall. intros x Hx.
  destruct (node_entries v (r_node x)) as [|e1 [|e2 t]] eqn:E; [reflexivity|reflexivity|].
  apply forallb_forall. intros e He. rewrite <- E in He.
  assert (NoDup (node_entries v (r_node x))) as Hnd.
  { unfold node_entries. apply NoDup_filter. eapply NoDup_map_NoDup. exact (K2n v Hk). }
  destruct (two_distinct _ _ _ _ e E Hnd He) as [e' [He' Hne]].
  apply node_entries_in in He. apply node_entries_in in He'. destruct He as [He En]. destruct He' as [He' En'].
  pose proof (K9 v Hk e e' He He' (eq_trans En (eq_sym En')) (fun X => Hne (eq_sym X))) as H9.
  destruct (K10 v Hk e He) as [H10|H10]; [contradiction|]. apply N.eqb_eq. unfold req_of in H10. congruence.
Qed.

Lemma K_cleanup v : K v -> cleanup v = true.
Proof.
  intros [Hk [_ [Ha Hn]]]. unfold cleanup.
  assert (forall x, In x (rv_app v) -> res_live v x = true) as H.
  { intros x Hx. unfold res_live. apply andb_true_iff. split; apply memN_In; [|apply Hn; exact Hx].
    destruct (K5 v Hk x Hx) as [y [Hf _]]. destruct (find_ask_some _ _ _ _ Hf) as [Hy [E _]]. rewrite <- E. apply Ha. exact Hy. }
  apply andb_true_iff. split; apply forallb_forall; intros x Hx; apply H; [|apply (K1 v Hk)]; exact Hx.
Qed.

(* ---------- theorems over all operation sequences ---------- *)
Lemma views_agree_l ops v : rrun rv_init ops = Some v -> views_agree v = true.
Proof. intro H. apply K_views_agree. eapply rrun_K; [apply K_init|exact H]. Qed.
Lemma counter_ge_card_l ops v : rrun rv_init ops = Some v -> counter_ge_card v = true.
Proof. intro H. apply K_views_agree. eapply rrun_K; [apply K_init|exact H]. Qed.
Lemma one_per_ask_l ops v : rrun rv_init ops = Some v -> one_per_ask v = true.
Proof. intro H. apply K_one_per_ask. eapply rrun_K; [apply K_init|exact H]. Qed.
Lemma one_per_node_l ops v : rrun rv_init ops = Some v -> one_per_node_unless_required v = true.
Proof. intro H. apply K_one_per_node. eapply rrun_K; [apply K_init|exact H]. Qed.
Lemma only_outstanding_l ops v : rrun rv_init ops = Some v -> only_outstanding v = true.
Proof. intro H. apply K_only_outstanding. eapply rrun_K; [apply K_init|exact H]. Qed.
Lemma cleanup_state_l ops v : rrun rv_init ops = Some v -> cleanup v = true.
Proof. intro H. apply K_cleanup. eapply rrun_K; [apply K_init|exact H]. Qed.

(* a scheduling decision the model admits never uses a node reserved for another ask *)
Lemma reserved_not_given_away_l v a k n v' : rstep v (RAllocate a k n) = Some v' -> reserved_for_other v n a k = false.
Proof.
  cbn [rstep]. destruct (find_ask v a k) as [y|]; [|discriminate].
  destruct (ra_allocated y || negb (memN n (rv_nodes v))); [discriminate|].
  destruct (reserved_for_other v n a k); [discriminate|reflexivity].
Qed.

(* cleanup, event by event: after the event no view holds a reservation for the ask / application / node *)
Definition no_res (v : rview) (p : rres -> bool) : Prop :=
  (forall x, In x (rv_app v) -> p x = false) /\ (forall x, In x (rv_node v) -> p x = false).

Lemma no_res_of_app v p : K v -> (forall x, In x (rv_app v) -> p x = false) -> no_res v p.
Proof. intros [Hk _] H. split; [exact H|]. intros x Hx. apply H. apply (K1 v Hk). exact Hx. Qed.

Lemma cleanup_events_l ops v : rrun rv_init ops = Some v ->
  (forall a k n v', rstep v (RAllocate a k n) = Some v' -> no_res v' (is_res a k)) /\
  (forall a k v', rstep v (RAllocateKeep a k) = Some v' -> no_res v' (is_res a k)) /\
  (forall a k v', rstep v (RRemoveAsk a k) = Some v' -> no_res v' (is_res a k)) /\
  (forall a v', rstep v (RRemoveAllAsks a) = Some v' -> no_res v' (fun x => r_app x =? a)) /\
  (forall a v', rstep v (RRemoveApp a) = Some v' -> no_res v' (fun x => r_app x =? a)) /\
  (forall a v', rstep v (RTerminate a) = Some v' -> no_res v' (fun x => r_app x =? a)) /\
  (forall n v', rstep v (RRemoveNode n) = Some v' -> no_res v' (fun x => r_node x =? n)).
Proof.
  intro Hr. assert (K v) as HK by (eapply rrun_K; [apply K_init|exact Hr]).
  split; [|split; [|split; [|split; [|split; [|split]]]]].
  - intros a k n v' H. apply no_res_of_app; [eapply rstep_K; eauto|]. cbn [rstep] in H.
    destruct (find_ask v a k) as [y|]; [|discriminate].
    destruct (ra_allocated y || negb (memN n (rv_nodes v))); [discriminate|].
    destruct (reserved_for_other v n a k); [discriminate|]. inversion H; subst. intros x Hx.
    rewrite part_unreserve_with_asks in Hx. cbn [with_asks rv_app] in Hx. rewrite part_unreserve_app in Hx. eapply del_app_none; eauto.
  - intros a k v' H. apply no_res_of_app; [eapply rstep_K; eauto|]. cbn [rstep] in H.
    destruct (find_ask v a k) as [y|]; [|discriminate]. destruct (ra_allocated y); [discriminate|]. inversion H; subst.
    intros x Hx. rewrite cancel_one_with_asks in Hx. cbn [with_asks rv_app] in Hx. rewrite cancel_one_app in Hx. eapply del_app_none; eauto.
  - intros a k v' H. apply no_res_of_app; [eapply rstep_K; eauto|]. cbn [rstep] in H.
    inversion H; subst. intros x Hx. cbn [with_asks rv_app] in Hx. rewrite cancel_one_app in Hx. eapply del_app_none; eauto.
  - intros a v' H. apply no_res_of_app; [eapply rstep_K; eauto|]. cbn [rstep] in H.
    inversion H; subst. intros x Hx. apply N.eqb_neq. eapply remove_all_asks_clean; eauto.
  - intros a v' H. apply no_res_of_app; [eapply rstep_K; eauto|]. cbn [rstep] in H.
    inversion H; subst. intros x Hx. apply N.eqb_neq. cbn [drop_app rv_app] in Hx. eapply remove_all_asks_clean; eauto.
  - intros a v' H. apply no_res_of_app; [eapply rstep_K; eauto|]. cbn [rstep] in H.
    inversion H; subst. intros x Hx. cbn [drop_app drop_asks with_asks rv_app] in Hx. rewrite unreserve_all_app in Hx.
    apply filter_In in Hx. apply negb_true_iff. tauto.
  - intros n v' H. apply no_res_of_app; [eapply rstep_K; eauto|]. cbn [rstep] in H.
    inversion H; subst. intros x Hx. apply N.eqb_neq. eapply (proj2 (K_remove_node v n HK)). exact Hx.
Qed.

(* ---------- the hypotheses are satisfiable on non-trivial states ---------- *)
Definition ex_ops : list rop :=
  [RAddNode 1; RAddNode 2; RAddApp 10; RAddAsk 10 100 0; RReserve 10 100 1 true;
   RAddApp 11; RAddAsk 11 101 1; RReserve 11 101 1 true (* refused by Node.Reserve: normal reservation present *);
   RCancelRequired 1 true; RReserve 11 101 1 true; RAddAsk 11 102 1; RReserve 11 102 1 true;
   RReserve 10 100 2 true].
Example ex_reachable :
  exists v, rrun rv_init ex_ops = Some v /\
    rv_app v = [mkR 11 101 1; mkR 11 102 1; mkR 10 100 2] /\ rv_queue v = [(11, 2); (10, 1)] /\ rv_part v = 3%Z /\
    views_agree v = true /\ one_per_ask v = true /\ one_per_node_unless_required v = true /\
    only_outstanding v = true /\ cleanup v = true /\
    rstep v (RAllocate 10 100 1) = None (* node 1 is reserved for other asks *) /\
    (exists v', rstep v (RAllocate 10 100 2) = Some v' /\ rv_app v' = [mkR 11 101 1; mkR 11 102 1] /\ rv_part v' = 2%Z).
Proof.
  eexists. repeat (split; [vm_compute; reflexivity|]). eexists. repeat (split; [vm_compute; reflexivity|]). vm_compute; reflexivity.
Qed.
(* the counter drifts upwards: removal of a reserved ask by the shim does not decrement it *)
Example ex_drift :
  exists v, rrun rv_init (ex_ops ++ [RRemoveAsk 10 100; RRemoveApp 11]) = Some v /\
    rv_app v = [] /\ rv_node v = [] /\ rv_queue v = [] /\ rv_part v = 3%Z /\ views_agree v = true.
Proof. eexists. repeat (split; [vm_compute; reflexivity|]). vm_compute; reflexivity. Qed.
