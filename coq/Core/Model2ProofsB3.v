(* C03 over the second fragment, part 3: UpdateAllocation for an existing key at state level: the in-place update
   of a bound allocation (application, ancestor queues, node, the shared record), the placement of a pending ask
   by the RM (allocateAsk + IncAllocatedResource + Node.AddAllocation(force) + AddAllocation), and the dispatchers
   [m_update_existing] / [m_alloc2]. *)
From Coq Require Import List ZArith NArith Bool Lia ZifyBool.
From YK Require Import Base.Int64 Base.Res Base.ResSpec Base.ResLemmas Base.ResLaws Base.ResLaws2 Base.ResLawsPred
  Core.Obs Core.Model Core.Model2 Core.Ledger
  Core.BooksLemmas Core.BooksDefs Core.BooksTree Core.BooksQueue Core.BooksApp Core.BooksState Core.BooksDrain Core.BooksStep
  Core.BooksOps Core.BooksOps2 Core.BooksOps3 Core.BooksOps4 Core.Model2ProofsB1 Core.Model2ProofsB2.
Import ListNotations.
Open Scope Z_scope.
Set Default Timeout 30.

(* ------------------------------------------------------------------ membership when only resources of records change *)
Definition asig (l : list oalloc) : list (N * N * N) := map (fun y => (oa_key y, oa_app y, oa_node y)) l.
Lemma asig_set_res key nr l : asig (set_res key nr l) = asig l.
Proof. unfold asig, set_res. rewrite map_map. apply map_ext. intros y. rewrite img_key, img_app, img_node. reflexivity. Qed.
Lemma asig_keys l : akeys l = map (fun t => fst (fst t)) (asig l).
Proof. unfold akeys, asig. rewrite map_map. reflexivity. Qed.
Lemma asig_in l l' y : asig l = asig l' -> In y l -> exists y', In y' l' /\ oa_key y' = oa_key y /\ oa_app y' = oa_app y /\ oa_node y' = oa_node y.
Proof. intros E Hy. assert (H : In (oa_key y, oa_app y, oa_node y) (asig l')) by (rewrite <- E; unfold asig; apply (in_map (fun y => (oa_key y, oa_app y, oa_node y))); assumption).
  unfold asig in H. apply in_map_iff in H. destruct H as (y' & Ey & Hy'). exists y'. inversion Ey. auto. Qed.

Lemma member_sig s s' :
  (forall b', In b' (s_apps s') -> exists b, In b (s_apps s) /\ ap_id b' = ap_id b /\ asig (ap_allocs b') = asig (ap_allocs b)) ->
  (forall b, In b (s_apps s) -> exists b', In b' (s_apps s') /\ ap_id b' = ap_id b /\ asig (ap_allocs b') = asig (ap_allocs b)) ->
  (forall m', In m' (s_nodes s') -> exists m, In m (s_nodes s) /\ on_id m' = on_id m /\ asig (on_allocs m') = asig (on_allocs m)) ->
  (forall m, In m (s_nodes s) -> exists m', In m' (s_nodes s') /\ on_id m' = on_id m /\ asig (on_allocs m') = asig (on_allocs m)) ->
  NodeOwnedP s -> AppOnNodeP s -> NodeOwnedP s' /\ AppOnNodeP s'.
Proof. intros A1 A2 N1 N2 HO HP. split.
  - intros m' y Hm' Hy. destruct (N1 m' Hm') as (m & Hm & Ei & Es). destruct (asig_in _ _ y Es Hy) as (y0 & Hy0 & K1 & K2 & K3).
    destruct (HO m y0 Hm Hy0) as (ap & Hap & Eid & Hk). destruct (A2 ap Hap) as (ap' & Hap' & Ei' & Es').
    exists ap'. split; [assumption|]. split; [congruence|]. rewrite asig_keys, Es', <- asig_keys. congruence.
  - intros b' x Hb' Hx. destruct (A1 b' Hb') as (b & Hb & Ei & Es). destruct (asig_in _ _ x Es Hx) as (x0 & Hx0 & K1 & K2 & K3).
    destruct (HP b x0 Hb Hx0) as (m & Hm & Eid & Hk). destruct (N2 m Hm) as (m' & Hm' & Ei' & Es').
    exists m'. split; [assumption|]. split; [congruence|]. rewrite asig_keys, Es', <- asig_keys. congruence. Qed.

(* ================================================================== a bound allocation changes size *)
Section UpdAllocOp.
  Variables (s : ostate) (a : oapp) (x : oalloc) (nr : res) (n : onode).
  Hypothesis HI : Inv s.
  Hypothesis HB : Books0 s.
  Hypothesis HBd : Bounded s.
  Hypothesis Ha : In a (s_apps s).
  Hypothesis Hx : In x (ap_requests a).
  Hypothesis Xal : oa_allocated x = true.
  Hypothesis Xph : oa_ph x = false.
  Hypothesis Hxa : In x (ap_allocs a).
  Hypothesis Wn : wf nr.
  Hypothesis Bn : rb nr.
  Hypothesis Nn : rnonneg nr.
  Hypothesis Hn : In n (s_nodes s).
  Hypothesis Enid : on_id n = oa_node x.
  Hypothesis Hxn : find_alloc (on_allocs n) (oa_key x) = Some x.

  Let d := delta_of nr x.
  Let a' := upd_alloc_app a x nr.
  Let n' := n_update_alloc n (oa_key x) nr d.
  Definition upd_alloc_state : ostate :=
    upd_node (q_inc (upd_app s (ap_id a) (fun _ => upd_alloc_app a x nr)) (ap_queue a) (delta_of nr x)) (on_id n)
             (fun _ => n_update_alloc n (oa_key x) nr (delta_of nr x)).
  Let s' := upd_alloc_state.

  Let W := inv_app_wf s HI a Ha.
  Let B := bk_apps s HB a Ha.
  Let Bd := bd_apps s HBd a Ha.
  Let Gd := delta_getz a x nr W Bd Hx Wn Bn.
  Let Wd := delta_wf x nr Wn.
  Let Bdl := delta_rb a x nr W Bd Hx Wn Bn Nn.

  Lemma ua_apps : s_apps s' = updk ap_id (s_apps s) (ap_id a) (fun _ => a'). Proof. reflexivity. Qed.
  Lemma ua_nodes : s_nodes s' = updk on_id (s_nodes s) (on_id n) (fun _ => n'). Proof. reflexivity. Qed.
  Lemma ua_n_id : on_id n' = on_id n. Proof. reflexivity. Qed.
  Lemma ua_n_allocs : on_allocs n' = set_res (oa_key x) nr (on_allocs n). Proof. reflexivity. Qed.
  Lemma ua_n_allocated : on_allocated n' = Prune (addTo (on_allocated n) d). Proof. reflexivity. Qed.
  Lemma ua_n_allocated_getz k : getz (on_allocated n') k = getz (on_allocated n) k + getz d k.
  Proof. rewrite ua_n_allocated. pose proof (inv_nodes s HI n Hn) as K. rewrite Prune_getz by (apply addTo_wf, (nk_wf s n K)).
    apply addTo_getz; [exact Wd|apply (bd_nodes s HBd n Hn)|exact Bdl]. Qed.

  (* keys of other applications / on other nodes differ from the updated key *)
  Lemma ua_key_other_app b z : In b (s_apps s) -> ap_id b <> ap_id a -> In z (ap_allocs b) -> oa_key z <> oa_key x.
  Proof. intros Hb Hne Hz C. apply Hne. destruct (aw_allocreq b (inv_app_wf s HI b Hb) z Hz) as (r1 & Hr1 & E1 & _).
    apply (inv_keys s HI b a r1 x); auto. congruence. Qed.
  Lemma ua_key_other_node m y : In m (s_nodes s) -> on_id m <> on_id n -> In y (on_allocs m) -> oa_key y <> oa_key x.
  Proof. intros Hm Hne Hy C. destruct (node_alloc_listed s m y HI HB Hm Hy) as (b & Hb & Hyb & _).
    destruct (N.eq_dec (ap_id b) (ap_id a)) as [E|E].
    - assert (b = a) by (apply (nodup_key_inj ap_id (s_apps s)); auto; apply (inv_app_ids s HI)). subst b.
      assert (y = x) by (apply (nodup_key_inj oa_key (ap_allocs a)); auto; apply (aw_alloc_keys a W)). subst y.
      apply Hne. rewrite Enid. symmetry. apply (nk_node s m (inv_nodes s HI m Hm) x Hy).
    - apply (ua_key_other_app b y Hb E Hyb C). Qed.

  Lemma ua_in_apps b' : In b' (s_apps s') <-> b' = a' \/ (In b' (s_apps s) /\ ap_id b' <> ap_id a).
  Proof. rewrite ua_apps. apply in_updk_const; [apply (inv_app_ids s HI)|assumption]. Qed.
  Lemma ua_in_nodes m' : In m' (s_nodes s') <-> m' = n' \/ (In m' (s_nodes s) /\ on_id m' <> on_id n).
  Proof. rewrite ua_nodes. apply in_updk_const; [apply (inv_node_ids s HI)|assumption]. Qed.

  Lemma ua_nodes_ok m' : In m' (s_nodes s') -> NodeOK s' m'.
  Proof. intros Hm'. apply ua_in_nodes in Hm'. destruct Hm' as [->|[Hm Hne]].
    - destruct (inv_nodes s HI n Hn) as [K1 K2 K3 K4 K5]. constructor.
      + rewrite ua_n_allocs, akeys_set_res. assumption.
      + intros y Hy. rewrite ua_n_allocs in Hy. apply in_set_res in Hy. destruct Hy as (y0 & Hy0 & ->). rewrite img_node, img_release. apply K2. assumption.
      + intros y b' z Hy Hb' Hz Ek. rewrite ua_n_allocs in Hy. apply in_set_res in Hy. destruct Hy as (y0 & Hy0 & ->). rewrite img_key in Ek.
        apply ua_in_apps in Hb'. destruct Hb' as [->|[Hb Nb]].
        * cbn [upd_alloc_app ap_with ap_allocs] in Hz. apply in_set_res in Hz. destruct Hz as (z0 & Hz0 & ->). rewrite img_key in Ek.
          rewrite (K3 y0 a z0 Hy0 Ha Hz0 Ek). reflexivity.
        * pose proof (K3 y0 b' z Hy0 Hb Hz Ek) as E. subst z. rewrite img_other; [reflexivity|]. apply (ua_key_other_app b' y0 Hb Nb Hz).
      + intros k. rewrite ua_n_allocated_getz, ua_n_allocs. destruct (find_alloc_some _ _ _ Hxn) as [Hxin _].
        rewrite (asum_set_res _ nr _ x k K1 Hxin eq_refl), (K4 k), Gd. reflexivity.
      + rewrite ua_n_allocated. apply Prune_wf, addTo_wf. assumption.
    - destruct (inv_nodes s HI m' Hm) as [K1 K2 K3 K4 K5]. constructor; auto.
      intros y b' z Hy Hb' Hz Ek. apply ua_in_apps in Hb'. destruct Hb' as [->|[Hb Nb]]; [|apply (K3 y b' z); assumption].
      cbn [upd_alloc_app ap_with ap_allocs] in Hz. apply in_set_res in Hz. destruct Hz as (z0 & Hz0 & ->). rewrite img_key in Ek.
      pose proof (K3 y a z0 Hy Ha Hz0 Ek) as E. subst z0. apply img_other. apply (ua_key_other_node m' y Hm Hne Hy). Qed.

  Lemma ua_member : NodeOwnedP s' /\ AppOnNodeP s'.
  Proof. apply (member_sig s s'); [| | | |apply (owned_P_of s HI), (bk_owned s HB)|apply onnode_P_of, (bk_onnode s HB)].
    - intros b' Hb'. apply ua_in_apps in Hb'. destruct Hb' as [->|[Hb _]]; [exists a|exists b'; auto].
      split; [assumption|]. split; [reflexivity|]. cbn [upd_alloc_app ap_with ap_allocs]. apply asig_set_res.
    - intros b Hb. destruct (N.eq_dec (ap_id b) (ap_id a)) as [E|E].
      + assert (b = a) by (apply (nodup_key_inj ap_id (s_apps s)); auto; apply (inv_app_ids s HI)). subst b.
        exists a'. split; [apply ua_in_apps; auto|]. split; [reflexivity|]. cbn [upd_alloc_app ap_with ap_allocs]. apply asig_set_res.
      + exists b. split; [apply ua_in_apps; auto|auto].
    - intros m' Hm'. apply ua_in_nodes in Hm'. destruct Hm' as [->|[Hm _]]; [exists n|exists m'; auto].
      split; [assumption|]. split; [reflexivity|]. rewrite ua_n_allocs. apply asig_set_res.
    - intros m Hm. destruct (N.eq_dec (on_id m) (on_id n)) as [E|E].
      + assert (m = n) by (apply (nodup_key_inj on_id (s_nodes s)); auto; apply (inv_node_ids s HI)). subst m.
        exists n'. split; [apply ua_in_nodes; auto|]. split; [reflexivity|]. rewrite ua_n_allocs. apply asig_set_res.
      + exists m. split; [apply ua_in_nodes; auto|auto]. Qed.

  Theorem upd_alloc_step : Inv s' /\ Books s'.
  Proof.
    assert (Eq : s_queues s' = map (fun q => if memN (q_id q) (path_ids s (ap_queue a)) then F_inc d q else q) (s_queues s)).
    { unfold s', upd_alloc_state. cbn [upd_node s_queues]. rewrite q_inc_queues.
      rewrite (path_ids_ext (upd_app s (ap_id a) _) s (ap_queue a) eq_refl). reflexivity. }
    assert (QF : forall q, In q (s_queues s) -> In (q_id q) (path_ids s (ap_queue a)) ->
      (wf (q_alloc (F_inc d q)) /\ wf (q_pending (F_inc d q))) /\
      (forall k, getz (q_alloc (F_inc d q)) k = getz (q_alloc q) k + getz d k) /\
      (forall k, getz (q_pending (F_inc d q)) k = getz (q_pending q) k + 0) /\
      (rnonneg (q_alloc (F_inc d q)) /\ rnonneg (q_pending (F_inc d q)))).
    { intros q Hq Hin. destruct (inv_q_wf s HI q Hq). destruct (bd_queues s HBd q Hq). pose proof (bk_queues s HB q Hq) as QB.
      apply F_inc_signed; auto; [apply (qb_nn_pend s q QB)|].
      intros k. rewrite Gd. pose proof (alloc_le_allocated a x W B Hxa Xph k). pose proof (app_allocated_dominated s a HI HB Ha q k Hq Hin).
      pose proof (rnonneg_fnonneg _ Nn k). lia. }
    apply (native_step s s' a a' (F_inc d) (fun k => getz d k) (fun _ => 0) HI HB Ha ua_apps Eq eq_refl);
      try reflexivity.
    - intros q Hq Hin. apply (QF q Hq Hin).
    - intros q Hq Hin. apply (QF q Hq Hin).
    - intros q Hq Hin. apply (QF q Hq Hin).
    - intros q Hq Hin. apply (QF q Hq Hin).
    - apply upd_alloc_books; assumption.
    - apply upd_alloc_wf; assumption.
    - apply (upd_keys_ok a x nr). reflexivity.
    - intros k. unfold a'. rewrite upd_alloc_allocated by assumption. cbn [upd_alloc_app ap_with ap_phalloc]. fold d. lia.
    - intros k. unfold a'. cbn [upd_alloc_app ap_with ap_pending]. lia.
    - rewrite ua_nodes, updk_keys; [apply (inv_node_ids s HI)|]. intros m Em. symmetry. exact Em.
    - apply ua_nodes_ok.
    - apply (count_step s s' a a' 0 HI Ha ua_apps); [unfold a'; cbn [upd_alloc_app ap_with ap_allocs]; rewrite length_set_res; lia|].
      change (s_nallocs s') with (s_nallocs s). lia.
    - apply ua_member.
    - apply ua_member.
    - intros k. rewrite ua_nodes. rewrite (sumz_updk on_id on_allocated (s_nodes s) (on_id n) _ n k (inv_node_ids s HI) Hn eq_refl).
      fold n'. rewrite ua_n_allocated_getz. lia.
  Qed.
End UpdAllocOp.

(* ================================================================== the RM places a pending ask on a node *)
Lemma place_queues s s2 leaf r : s_queues s2 = s_queues s ->
  s_queues (q_inc (q_dec_pending s2 leaf r) leaf r) =
  map (fun q => if memN (q_id q) (path_ids s leaf) then F_inc r (F_dec_pending r q) else q) (s_queues s).
Proof. intros E. rewrite q_inc_queues.
  assert (Ep : path_ids (q_dec_pending s2 leaf r) leaf = path_ids s leaf).
  { rewrite (path_ids_map s2 _ (fun q => if memN (q_id q) (path_ids s2 leaf) then F_dec_pending r q else q) leaf (q_dec_pending_queues s2 leaf r));
      try (intros q; destruct (memN _ _); reflexivity). apply path_ids_ext. assumption. }
  rewrite Ep, q_dec_pending_queues, (path_ids_ext s2 s leaf E), E, map_map. apply map_ext. intros q.
  destruct (memN (q_id q) (path_ids s leaf)) eqn:Em.
  - change (q_id (F_dec_pending r q)) with (q_id q). rewrite Em. reflexivity.
  - rewrite Em. reflexivity. Qed.

Definition place_state (s : ostate) (a : oapp) (ask : oalloc) (n : onode) : ostate :=
  let bound := oa_bound ask (on_id n) in
  add_counts (upd_node (q_inc (q_dec_pending (upd_app s (ap_id a) (fun _ => sched_app a ask (on_id n))) (ap_queue a) (oa_res ask))
                              (ap_queue a) (oa_res ask)) (on_id n) (fun _ => node_bound n bound)) 1 0.

Theorem place_step s a ask n : Inv s -> Books0 s -> Bounded s -> In a (s_apps s) -> In ask (ap_requests a) ->
  oa_allocated ask = false -> oa_ph ask = false -> In n (s_nodes s) -> Inv (place_state s a ask n) /\ Books (place_state s a ask n).
Proof. intros HI HB HBd Ha Hask Ana Aph Hn.
  pose proof (inv_app_wf s HI a Ha) as W. pose proof (bk_apps s HB a Ha) as B. pose proof (bd_apps s HBd a Ha) as Bd.
  pose proof (aw_req a W ask Hask) as Aok. pose proof (abd_req a Bd ask Hask) as Ab.
  set (x := oa_bound ask (on_id n)).
  assert (Xfresh : forall b, In b (s_apps s) -> ~ In (oa_key x) (akeys (ap_allocs b))).
  { intros b Hb C. unfold akeys in C. apply in_map_iff in C. destruct C as (y & E & Hy). change (oa_key x) with (oa_key ask) in E.
    destruct (aw_allocreq b (inv_app_wf s HI b Hb) y Hy) as (r1 & Hr1 & E1 & Hal).
    assert (Eab : ap_id b = ap_id a) by (apply (inv_keys s HI b a r1 ask); auto; congruence).
    assert (b = a) by (apply (nodup_key_inj ap_id (s_apps s)); auto; apply (inv_app_ids s HI)). subst b.
    assert (r1 = ask) by (apply (nodup_key_inj oa_key (ap_requests a)); auto; [apply (aw_req_keys a W)|congruence]). congruence. }
  apply (bind_core s _ a (sched_app a ask (on_id n)) n x (fun q => F_inc (oa_res ask) (F_dec_pending (oa_res ask) q)) (fun k => - getz (oa_res ask) k)
           HI HB HBd Ha Hn (oa_bound_ok _ ask _ Aok) Ab eq_refl Xfresh); try reflexivity.
  - unfold place_state. cbn [add_counts upd_node s_queues]. apply place_queues. reflexivity.
  - intros q Hq Hin. destruct (inv_q_wf s HI q Hq) as [Wqa Wqp]. destruct (bd_queues s HBd q Hq) as [Bqa Bqp]. pose proof (bk_queues s HB q Hq) as QB.
    assert (Hle : forall k, getz (oa_res ask) k <= getz (q_pending q) k).
    { intros k0. pose proof (ask_le_pending a ask W B Hask Ana k0). pose proof (app_pending_dominated s a HI HB Ha q k0 Hq Hin). lia. }
    destruct (F_dec_pending_facts q (oa_res ask) Wqa Wqp (ao_wf _ ask Aok) Bqp Ab (qb_nn_alloc s q QB) Hle)
      as ((D1 & D2) & D3 & D4 & D5 & D6).
    assert (Bqa' : rb (q_alloc (F_dec_pending (oa_res ask) q))) by exact Bqa.
    destruct (F_inc_facts (F_dec_pending (oa_res ask) q) (oa_res ask) D1 D2 (ao_wf _ ask Aok) Bqa' Ab D5 D6 (ao_nn _ ask Aok))
      as ((I1 & I2) & I3 & I4 & I5 & I6).
    change (oa_res x) with (oa_res ask). split; [split; assumption|]. split; [|split; [|split; assumption]].
    + intros k0. rewrite I3, D3. lia.
    + intros k0. rewrite I4, D4. lia.
  - apply sched_id.
  - apply sched_queue.
  - apply sched_books; assumption.
  - apply sched_wf; assumption.
  - intros r' Hr'. rewrite sched_requests in Hr'. apply in_put_alloc in Hr'. left.
    destruct Hr' as [->|[Hr' _]]; [exists ask; auto|exists r'; auto].
  - apply sched_allocs.
  - intros k0. rewrite sched_allocated, sched_phalloc by assumption. change (oa_res x) with (oa_res ask). lia.
  - intros k0. rewrite sched_pending by assumption. lia.
Qed.

(* ================================================================== the dispatcher *)
(* the state after the resource part of an update of a pending ask *)
Definition upd_mid (s : ostate) (a : oapp) (x : oalloc) (nr : res) : ostate :=
  if negb (negb (IsZero (Some (delta_of nr x))) && negb (IsZero (Some nr))) then s else upd_pending_state s a x nr.

Lemma find_alloc_set_res key nr l k' : find_alloc (set_res key nr l) k' = option_map (img key nr) (find_alloc l k').
Proof. rewrite !find_alloc_findk, set_res_updk. rewrite (findk_updk oa_key l key (fun y => oa_with_res y nr) k'); [reflexivity|]. intros; reflexivity. Qed.

Lemma upd_mid_app s a x nr a1 ask : Inv s -> In a (s_apps s) -> In x (ap_requests a) ->
  find_app (upd_mid s a x nr) (ap_id a) = Some a1 -> find_alloc (ap_requests a1) (oa_key x) = Some ask ->
  ap_queue a1 = ap_queue a /\ oa_allocated ask = oa_allocated x /\ oa_ph ask = oa_ph x.
Proof. intros HI Ha Hx E1 E2. pose proof (inv_app_wf s HI a Ha) as W. unfold upd_mid in E1. destruct (negb _).
  - rewrite (find_app_in s a HI Ha) in E1. inversion E1; subst a1. rewrite (find_alloc_in _ x (aw_req_keys a W) Hx) in E2. inversion E2; subst ask. auto.
  - unfold upd_pending_state in E1. rewrite find_app_findk in E1.
    change (s_apps (q_inc_pending (upd_app s (ap_id a) (fun _ => upd_pending_app a x nr)) (ap_queue a) (delta_of nr x)))
      with (updk ap_id (s_apps s) (ap_id a) (fun _ => upd_pending_app a x nr)) in E1.
    rewrite (findk_updk ap_id (s_apps s) (ap_id a) (fun _ => upd_pending_app a x nr) (ap_id a)) in E1 by (intros a0 H0; symmetry; exact H0).
    rewrite <- find_app_findk, (find_app_in s a HI Ha) in E1. cbn [option_map] in E1. rewrite N.eqb_refl in E1. inversion E1; subst a1.
    cbn [upd_pending_app ap_with ap_requests ap_queue] in *. rewrite find_alloc_set_res, (find_alloc_in _ x (aw_req_keys a W) Hx) in E2.
    cbn [option_map] in E2. inversion E2; subst ask. rewrite img_allocated, img_ph. auto. Qed.

Theorem update_existing_step s s' a x r : Inv s -> Books s -> Bounded s ->
  wf (oget (rq_res r)) -> rb (oget (rq_res r)) -> StrictlyGreaterThanZero (rq_res r) = true ->
  In a (s_apps s) -> In x (ap_requests a) ->
  (oa_allocated x = true -> In x (ap_allocs a)) ->
  (oa_allocated x = false -> rq_node r <> 0%N -> Bounded (upd_mid s a x (oget (rq_res r)))) ->
  m_update_existing s a x r = Some s' -> Inv s' /\ Books s'.
Proof. intros HI [HB D] HBd Wn Bn Hs Ha Hx Hback Hmid H.
  assert (Same : Inv s /\ Books s) by (split; [assumption|split; assumption]).
  assert (Nn : rnonneg (oget (rq_res r))) by (destruct (rq_res r) as [rr|]; [apply sgtz_rnonneg; exact Hs|discriminate]).
  unfold m_update_existing in H. destruct (oa_ph x) eqn:Xph; [discriminate|]. cbn [orb] in H.
  destruct (negb (oa_release x =? 0)%N || negb (no_res a)); [discriminate|]. cbv zeta in H.
  set (nr := oget (rq_res r)) in *. fold (delta_of nr x) in H.
  destruct (oa_allocated x) eqn:Xal.
  - (* in place *) cbn [andb orb] in H. destruct (find_node s (oa_node x)) as [n|] eqn:En; [|inversion H; subst; exact Same].
    destruct (negb (negb (IsZero (Some (delta_of nr x))) && negb (IsZero (Some nr)))); [inversion H; subst; exact Same|].
    change (find_node (q_inc (upd_app s (ap_id a) (fun _ => _)) (ap_queue a) (delta_of nr x)) (oa_node x)) with (find_node s (oa_node x)) in H.
    rewrite En in H. inversion H; subst s'; clear H.
    destruct (alloc_on_its_node s a x n HI HB Ha (Hback eq_refl) En) as (Hn & Enid & Hxn).
    apply (upd_alloc_step s a x nr n HI HB HBd Ha Hx Xal Xph (Hback eq_refl) Wn Bn Nn Hn Enid Hxn).
  - cbn [andb orb] in H.
    assert (Emid : (if negb (negb (IsZero (Some (delta_of nr x))) && negb (IsZero (Some nr))) then s
                    else q_inc_pending (upd_app s (ap_id a) (fun _ => upd_pending_app a x nr)) (ap_queue a) (delta_of nr x)) = upd_mid s a x nr) by reflexivity.
    change (map (fun y => if (oa_key y =? oa_key x)%N then oa_with_res y nr else y) (ap_requests a)) with (set_res (oa_key x) nr (ap_requests a)) in H.
    fold (upd_pending_app a x nr) in H. rewrite Emid in H.
    assert (Hm : Inv (upd_mid s a x nr) /\ Books (upd_mid s a x nr)).
    { unfold upd_mid. destruct (negb _); [exact Same|]. apply (upd_pending_step s a x nr HI HB HBd Ha Hx Xal Wn Bn Nn). }
    destruct (N.eqb_spec (rq_node r) 0) as [E0|E0]; [inversion H; subst; exact Hm|].
    specialize (Hmid eq_refl E0). fold nr in Hmid. destruct Hm as [HI1 [HB1 _]].
    destruct (find_app (upd_mid s a x nr) (ap_id a)) as [a1|] eqn:Ea1; [|discriminate].
    destruct (find_node (upd_mid s a x nr) (rq_node r)) as [n|] eqn:En; [|discriminate].
    destruct (find_alloc (ap_requests a1) (oa_key x)) as [ask|] eqn:Eask; [|discriminate].
    destruct (upd_mid_app s a x nr a1 ask HI Ha Hx Ea1 Eask) as (Eq1 & Eal1 & Eph1).
    destruct (find_app_some _ _ _ Ea1) as [Ha1 Eid1]. destruct (find_alloc_some _ _ _ Eask) as [Hask _].
    destruct (find_node_some _ _ _ En) as [Hn Enid].
    pose proof (ao_native _ ask (aw_req a1 (inv_app_wf _ HI1 a1 Ha1) ask Hask)) as Fnat.
    unfold n_add in H. cbn [orb] in H. change (oa_foreign (oa_bound ask (rq_node r))) with (oa_foreign ask) in H. rewrite Fnat in H.
    inversion H; subst s'; clear H. rewrite <- Eid1, <- Eq1, <- Enid.
    apply (place_step _ a1 ask n HI1 HB1 Hmid Ha1 Hask); [congruence|congruence|exact Hn]. Qed.

(* environment assumptions of a request for an existing key *)
Definition UpdOK (s : ostate) (r : oreq) : Prop :=
  forall a x, find_app s (rq_app r) = Some a -> find_alloc (ap_requests a) (rq_key r) = Some x ->
    (oa_allocated x = true -> In x (ap_allocs a)) /\
    (oa_allocated x = false -> rq_node r <> 0%N -> Bounded (upd_mid s a x (oget (rq_res r)))).

Theorem alloc2_step s s' r : Inv s -> Books s -> Bounded s -> ReqOK s r -> UpdOK s r -> m_alloc2 s r = Some s' -> Inv s' /\ Books s'.
Proof. intros HI HB HBd RO UO H. unfold m_alloc2 in H. destruct (negb (rq_partition_ok r) || rq_foreign r); [discriminate|].
  destruct (find_app s (rq_app r)) as [a|] eqn:Ea; [|discriminate]. destruct (negb (rq_node r =? 0)%N && _); [discriminate|].
  destruct (IsZero (rq_res r) || negb (StrictlyGreaterThanZero (rq_res r))) eqn:Ez; [discriminate|].
  apply orb_false_iff in Ez. destruct Ez as [_ Ez]. apply negb_false_iff in Ez.
  destruct (find_alloc (ap_requests a) (rq_key r)) as [x|] eqn:Ex; [|discriminate].
  destruct (UO a x Ea Ex) as [U1 U2]. destruct (find_app_some _ _ _ Ea) as [Ha _]. destruct (find_alloc_some _ _ _ Ex) as [Hx _].
  apply (update_existing_step s s' a x r HI HB HBd (ro_wf s r RO) (ro_b s r RO) Ez Ha Hx U1 U2 H). Qed.
