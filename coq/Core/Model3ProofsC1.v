(* C03 over the gang fragment (Core/Model3.v): executable (boolean) forms of the invariant and of the carried
   hypotheses of Core/Model3ProofsD.v, sound for the propositions: [invg_b] for [InvG], [bounded3_b] for [Bounded3],
   [key_fresh3_b] / [req_ok3_b] / [term_ok_b] / [step_ok3_b] for [KeyFresh3] / [ReqOK3] / [TermOK] / [StepOK3];
   histories: [m_run3], [m_run3_len], [RunOK3] with [run3_ok_b].  They make the hypotheses of the gang theorems checkable
   by vm_compute on concrete states and histories (Core/Model3ProofsEx.v). *)
From Coq Require Import List ZArith NArith Bool Lia ZifyBool.
From YK Require Import Base.Int64 Base.Res Base.ResSpec Base.ResLemmas Core.Obs Core.Model Core.Model2 Core.Model3 Core.Ledger
  Core.BooksLemmas Core.BooksDefs Core.BooksOps Core.BooksOps4 Core.BooksProofs Core.BooksCheck
  Core.Model2ProofsB1 Core.Model2ProofsB3 Core.Model2ProofsB6 Core.Model3ProofsD Core.Model3ProofsD2 Oracles.CoreC01.
Import ListNotations.
Open Scope Z_scope.

(* ================================================================== small tools *)
Lemma fa_in {A} (f : A -> bool) l x : forallb f l = true -> In x l -> f x = true.
Proof. intros H. apply (proj1 (forallb_forall f l) H). Qed.

Definition wf_b (r : res) : bool := nodupN (keys r).
Lemma wf_b_spec r : wf_b r = true -> wf r.
Proof. apply nodupN_spec. Qed.

Definition positive_b (r : res) : bool := existsb (fun kv : tid * Z => 0 <? snd kv) r.
Lemma positive_b_spec r : positive_b r = true -> positive r.
Proof. unfold positive_b. rewrite existsb_exists. intros (kv & Hin & Hp). exists kv. split; [assumption|lia]. Qed.

Definition keyin (k : N) (l : list oalloc) : bool := existsb (fun y => (oa_key y =? k)%N) l.
Lemma keyin_false k l : keyin k l = false -> ~ In k (akeys l).
Proof. intros H C. apply existsb_key_in in C. unfold keyin in H. congruence. Qed.

(* ------------------------------------------------------------------ record identity *)
Fixpoint res_same (a b : res) : bool :=
  match a, b with
  | [], [] => true
  | (k1, v1) :: t1, (k2, v2) :: t2 => (k1 =? k2)%N && (v1 =? v2) && res_same t1 t2
  | _, _ => false
  end.
Lemma res_same_spec : forall a b, res_same a b = true -> a = b.
Proof. induction a as [|[k1 v1] t1 IH]; intros [|[k2 v2] t2]; cbn [res_same]; try discriminate; [reflexivity|].
  rewrite !andb_true_iff. intros [[H1 H2] H3]. apply N.eqb_eq in H1. apply Z.eqb_eq in H2. rewrite (IH t2 H3). subst. reflexivity. Qed.

Definition oa_eqb (x y : oalloc) : bool :=
  (oa_key x =? oa_key y)%N && (oa_app x =? oa_app y)%N && (oa_node x =? oa_node y)%N && res_same (oa_res x) (oa_res y) &&
  Bool.eqb (oa_ph x) (oa_ph y) && (oa_tg x =? oa_tg y)%N && Bool.eqb (oa_allocated x) (oa_allocated y) &&
  Bool.eqb (oa_released x) (oa_released y) && Bool.eqb (oa_preempted x) (oa_preempted y) && (oa_release x =? oa_release y)%N &&
  (oa_reqnode x =? oa_reqnode y)%N && (oa_prio x =? oa_prio y) && Bool.eqb (oa_foreign x) (oa_foreign y) &&
  Bool.eqb (oa_orig x) (oa_orig y) && Bool.eqb (oa_preemptself x) (oa_preemptself y) &&
  Bool.eqb (oa_preemptother x) (oa_preemptother y).
Lemma oa_eqb_spec x y : oa_eqb x y = true -> x = y.
Proof. destruct x as [k1 p1 n1 r1 h1 t1 al1 rl1 pr1 ls1 rn1 pi1 f1 o1 ps1 po1], y as [k2 p2 n2 r2 h2 t2 al2 rl2 pr2 ls2 rn2 pi2 f2 o2 ps2 po2].
  unfold oa_eqb.
  cbn [oa_key oa_app oa_node oa_res oa_ph oa_tg oa_allocated oa_released oa_preempted oa_release oa_reqnode oa_prio oa_foreign
       oa_orig oa_preemptself oa_preemptother].
  rewrite !andb_true_iff. intros H. decompose [and] H. clear H.
  repeat match goal with
         | H : (_ =? _)%N = true |- _ => apply N.eqb_eq in H
         | H : (_ =? _) = true |- _ => apply Z.eqb_eq in H
         | H : Bool.eqb _ _ = true |- _ => apply eqb_prop in H
         | H : res_same _ _ = true |- _ => apply res_same_spec in H
         end.
  subst. reflexivity. Qed.
Lemma oa_eqb_refl x : oa_eqb x x = true.
Proof. unfold oa_eqb. rewrite !N.eqb_refl, !Z.eqb_refl, !eqb_reflx. cbn [andb].
  induction (oa_res x) as [|[k v] t IH]; [reflexivity|]. cbn [res_same]. rewrite N.eqb_refl, Z.eqb_refl. exact IH. Qed.

Definition inb (x : oalloc) (l : list oalloc) : bool := existsb (oa_eqb x) l.
Lemma inb_spec x l : inb x l = true -> In x l.
Proof. unfold inb. rewrite existsb_exists. intros (y & Hy & E). apply oa_eqb_spec in E. subst. assumption. Qed.

(* ================================================================== InvG, field by field *)
(* ---- the queue tree ---- *)
Definition tree_b (s : ostate) : bool :=
  let qs := s_queues s in
  nodupN (map q_id qs) &&
  forallb (fun q => negb (q_id q =? 0)%N) qs &&
  forallb (fun q1 => forallb (fun q2 => negb (q_parent q1 =? 0)%N || negb (q_parent q2 =? 0)%N || (q_id q1 =? q_id q2)%N) qs) qs &&
  forallb (fun q => nodupN (path_ids s (q_id q)) && (parent_of s (last (path_ids s (q_id q)) 0%N) =? 0)%N) qs &&
  forallb (fun c => forallb (fun p => negb (q_parent c =? q_id p)%N || negb (q_leaf p)) qs) qs.
Lemma tree_b_spec s : tree_b s = true -> TreeOK s.
Proof. unfold tree_b. rewrite !andb_true_iff. intros [[[[H1 H2] H3] H4] H5]. constructor.
  - apply nodupN_spec. assumption.
  - intros q Hq. pose proof (fa_in _ _ q H2 Hq) as H. cbn beta in H. lia.
  - intros q1 q2 Hq1 Hq2 E1 E2. pose proof (fa_in _ _ q2 (fa_in _ _ q1 H3 Hq1) Hq2) as H. cbn beta in H. lia.
  - intros q Hq. pose proof (fa_in _ _ q H4 Hq) as H. cbn beta in H. apply andb_true_iff in H. destruct H as [Ha Hb].
    split; [apply nodupN_spec; assumption|]. unfold complete. apply N.eqb_eq. assumption.
  - intros c p Hc Hp E. pose proof (fa_in _ _ p (fa_in _ _ c H5 Hc) Hp) as H. cbn beta in H.
    destruct (q_leaf p); [|reflexivity]. rewrite E, N.eqb_refl in H. discriminate. Qed.

Definition app_leaf_b (s : ostate) : bool :=
  forallb (fun a => match find_queue s (ap_queue a) with Some q => q_leaf q | None => false end) (s_apps s).
Lemma app_leaf_b_spec s : app_leaf_b s = true ->
  forall a, In a (s_apps s) -> exists q, find_queue s (ap_queue a) = Some q /\ q_leaf q = true.
Proof. intros H a Ha. pose proof (fa_in _ _ a H Ha) as H1. cbn beta in H1.
  destruct (find_queue s (ap_queue a)) as [q|]; [|discriminate]. exists q. auto. Qed.

(* ---- applications ---- *)
Definition allocok3_b (id : N) (x : oalloc) : bool :=
  wf_b (oa_res x) && res_nonneg (oa_res x) && positive_b (oa_res x) && (oa_app x =? id)%N && negb (oa_foreign x).
Lemma allocok3_b_spec id x : allocok3_b id x = true -> AllocOK3 id x.
Proof. unfold allocok3_b. rewrite !andb_true_iff. intros [[[[H1 H2] H3] H4] H5]. constructor.
  - apply wf_b_spec. assumption.
  - apply res_nonneg_spec. assumption.
  - apply positive_b_spec. assumption.
  - apply N.eqb_eq. assumption.
  - apply negb_true_iff. assumption. Qed.

Definition appwf3_b (a : oapp) : bool :=
  nodupN (akeys (ap_requests a)) && nodupN (akeys (ap_allocs a)) &&
  forallb (allocok3_b (ap_id a)) (ap_requests a) && forallb (allocok3_b (ap_id a)) (ap_allocs a) &&
  forallb (fun x => oa_ph x || (oa_release x =? 0)%N) (ap_allocs a) &&
  forallb (fun r => oa_allocated r || negb (keyin (oa_key r) (ap_allocs a))) (ap_requests a) &&
  forallb (fun x => negb (oa_ph x) || (oa_release x =? 0)%N || negb (keyin (oa_release x) (ap_allocs a))) (ap_allocs a) &&
  wf_b (ap_pending a) && wf_b (ap_allocated a) && wf_b (ap_phalloc a).
Lemma appwf3_b_spec a : appwf3_b a = true -> AppWF3 a.
Proof. unfold appwf3_b. rewrite !andb_true_iff. intros [[[[[[[[[H1 H2] H3] H4] H5] H6] H7] H8] H9] H10]. constructor.
  - apply nodupN_spec. assumption.
  - apply nodupN_spec. assumption.
  - intros x Hx. apply allocok3_b_spec. apply (fa_in _ _ x H3 Hx).
  - intros x Hx. apply allocok3_b_spec. apply (fa_in _ _ x H4 Hx).
  - intros x Hx Eph. pose proof (fa_in _ _ x H5 Hx) as H. cbn beta in H. rewrite Eph in H. apply N.eqb_eq. exact H.
  - intros r Hr Eal. pose proof (fa_in _ _ r H6 Hr) as H. cbn beta in H. rewrite Eal in H. cbn [orb] in H.
    apply keyin_false. apply negb_true_iff. exact H.
  - intros x Hx Eph Hl. pose proof (fa_in _ _ x H7 Hx) as H. cbn beta in H. rewrite Eph in H. cbn [negb orb] in H.
    apply orb_true_iff in H. destruct H as [H|H]; [apply N.eqb_eq in H; contradiction|].
    apply keyin_false. apply negb_true_iff. exact H.
  - apply wf_b_spec. assumption.
  - apply wf_b_spec. assumption.
  - apply wf_b_spec. assumption. Qed.

Definition q_wf_b (s : ostate) : bool := forallb (fun q => wf_b (q_alloc q) && wf_b (q_pending q)) (s_queues s).
Lemma q_wf_b_spec s : q_wf_b s = true -> forall q, In q (s_queues s) -> wf (q_alloc q) /\ wf (q_pending q).
Proof. intros H q Hq. pose proof (fa_in _ _ q H Hq) as H1. cbn beta in H1. apply andb_true_iff in H1. destruct H1.
  split; apply wf_b_spec; assumption. Qed.

(* ---- keys ---- *)
Definition keys_b (s : ostate) : bool :=
  forallb (fun a1 => forallb (fun a2 => (ap_id a1 =? ap_id a2)%N ||
     forallb (fun x1 => negb (keyin (oa_key x1) (app_records a2))) (app_records a1)) (s_apps s)) (s_apps s).
Lemma keys_b_spec s : keys_b s = true ->
  forall a1 a2 x1 x2, In a1 (s_apps s) -> In a2 (s_apps s) -> In x1 (app_records a1) -> In x2 (app_records a2) ->
    oa_key x1 = oa_key x2 -> ap_id a1 = ap_id a2.
Proof. intros H a1 a2 x1 x2 H1 H2 Hx1 Hx2 E. pose proof (fa_in _ _ a2 (fa_in _ _ a1 H H1) H2) as H0. cbn beta in H0.
  apply orb_true_iff in H0. destruct H0 as [H0|H0]; [apply N.eqb_eq; assumption|]. exfalso.
  pose proof (fa_in _ _ x1 H0 Hx1) as H3. cbn beta in H3. apply negb_true_iff in H3. apply keyin_false in H3. apply H3.
  rewrite E. unfold akeys. apply in_map. assumption. Qed.

Definition foreign_b (s : ostate) : bool :=
  forallb (fun f => forallb (fun a => forallb (fun x => negb (oa_key f =? oa_key x)%N) (app_records a)) (s_apps s)) (s_foreign s).
Lemma foreign_b_spec s : foreign_b s = true ->
  forall f a x, In f (s_foreign s) -> In a (s_apps s) -> In x (app_records a) -> oa_key f <> oa_key x.
Proof. intros H f a x Hf Ha Hx. pose proof (fa_in _ _ x (fa_in _ _ a (fa_in _ _ f H Hf) Ha) Hx) as H0. cbn beta in H0. lia. Qed.

(* ---- nodes ---- *)
Definition nodeok3_b (n : onode) : bool :=
  nodupN (akeys (on_allocs n)) && forallb (fun y => (oa_node y =? on_id n)%N) (on_allocs n) &&
  res_is_sum (on_allocated n) (map oa_res (on_allocs n)) && wf_b (on_allocated n).
Lemma nodeok3_b_spec n : nodeok3_b n = true -> NodeOK3 n.
Proof. unfold nodeok3_b. rewrite !andb_true_iff. intros [[[H1 H2] H3] H4]. constructor.
  - apply nodupN_spec. assumption.
  - intros y Hy. apply N.eqb_eq. apply (fa_in _ _ y H2 Hy).
  - intros k. unfold asum. apply (proj1 (res_is_sum_spec _ _) H3).
  - apply wf_b_spec. assumption. Qed.

Definition owned_b (s : ostate) : bool :=
  forallb (fun n => forallb (fun y =>
     existsb (fun a => (ap_id a =? oa_app y)%N &&
                       (inb y (ap_allocs a) ||
                        (infl y && inb y (ap_requests a) && oa_allocated y && negb (keyin (oa_key y) (ap_allocs a)))))
             (s_apps s)) (on_allocs n)) (s_nodes s).
Lemma owned_b_spec s : owned_b s = true -> Owned s.
Proof. intros H n y Hn Hy. pose proof (fa_in _ _ y (fa_in _ _ n H Hn) Hy) as H0. cbn beta in H0.
  apply existsb_exists in H0. destruct H0 as (a & Ha & H0). apply andb_true_iff in H0. destruct H0 as [E H0].
  exists a. split; [assumption|]. split; [apply N.eqb_eq; assumption|]. apply orb_true_iff in H0. destruct H0 as [H0|H0].
  - left. apply inb_spec. assumption.
  - right. rewrite !andb_true_iff in H0. destruct H0 as [[[A1 A2] A3] A4]. split; [assumption|]. split; [apply inb_spec; assumption|].
    split; [assumption|]. apply keyin_false. apply negb_true_iff. assumption. Qed.

Definition onnode_b (s : ostate) : bool :=
  forallb (fun a => forallb (fun x => existsb (fun n => (on_id n =? oa_node x)%N && inb x (on_allocs n)) (s_nodes s)) (ap_allocs a)) (s_apps s).
Lemma onnode_b_spec s : onnode_b s = true -> OnNode s.
Proof. intros H a x Ha Hx. pose proof (fa_in _ _ x (fa_in _ _ a H Ha) Hx) as H0. cbn beta in H0.
  apply existsb_exists in H0. destruct H0 as (n & Hn & H0). apply andb_true_iff in H0. destruct H0 as [E H0].
  exists n. split; [assumption|]. split; [apply N.eqb_eq; assumption|apply inb_spec; assumption]. Qed.

(* ---- the invariant ---- *)
Definition invg_b (s : ostate) : bool :=
  nodupN (map ap_id (s_apps s)) && nodupN (map on_id (s_nodes s)) && tree_b s && app_leaf_b s &&
  forallb appwf3_b (s_apps s) && q_wf_b s && keys_b s && foreign_b s && forallb nodeok3_b (s_nodes s) &&
  owned_b s && onnode_b s && (s_nallocs s =? Z.of_nat (length (all_allocs s))).
Theorem invg_b_spec s : invg_b s = true -> InvG s.
Proof. unfold invg_b. rewrite !andb_true_iff. intros [[[[[[[[[[[H1 H2] H3] H4] H5] H6] H7] H8] H9] H10] H11] H12]. constructor.
  - apply nodupN_spec. assumption.
  - apply nodupN_spec. assumption.
  - apply tree_b_spec. assumption.
  - apply app_leaf_b_spec. assumption.
  - intros a Ha. apply appwf3_b_spec. apply (fa_in _ _ a H5 Ha).
  - apply q_wf_b_spec. assumption.
  - apply keys_b_spec. assumption.
  - apply foreign_b_spec. assumption.
  - intros n Hn. apply nodeok3_b_spec. apply (fa_in _ _ n H9 Hn).
  - apply owned_b_spec. assumption.
  - apply onnode_b_spec. assumption.
  - apply Z.eqb_eq. assumption. Qed.

(* ---- the two halves of an in-flight replacement (Core/Model3ProofsD2.v) ---- *)
Definition l1_b (s : ostate) : bool :=
  forallb (fun n => forallb (fun y => negb (infl y) ||
     existsb (fun a => (ap_id a =? oa_app y)%N &&
                       existsb (fun ph => oa_ph ph && (oa_key ph =? oa_release y)%N && (oa_release ph =? oa_key y)%N &&
                                          negb (oa_node ph =? oa_node y)%N) (ap_allocs a)) (s_apps s))
     (on_allocs n)) (s_nodes s).
Lemma l1_b_spec s : l1_b s = true -> LinkL1 s.
Proof. intros H n y Hn Hy Hi. pose proof (fa_in _ _ y (fa_in _ _ n H Hn) Hy) as H0. cbn beta in H0. rewrite Hi in H0. cbn [negb orb] in H0.
  apply existsb_exists in H0. destruct H0 as (a & Ha & H0). apply andb_true_iff in H0. destruct H0 as [E H0].
  apply existsb_exists in H0. destruct H0 as (ph & Hph & H0). rewrite !andb_true_iff in H0. destruct H0 as [[[A1 A2] A3] A4].
  exists a, ph. repeat split; try assumption; lia. Qed.

Definition le_res_b (r p : res) : bool := forallb (fun k => getz r k <=? getz p k) (keys r ++ keys p).
Lemma le_res_b_spec r p : le_res_b r p = true -> forall k, getz r k <= getz p k.
Proof. intros H k. destruct (in_dec N.eq_dec k (keys r ++ keys p)) as [Hin|Hni].
  - pose proof (fa_in _ _ k H Hin) as H0. cbn beta in H0. lia.
  - rewrite !getz_notin; [lia| |]; intros C; apply Hni; apply in_or_app; auto. Qed.

Definition l2_b (s : ostate) : bool :=
  forallb (fun a => forallb (fun ph => negb (oa_ph ph) || (oa_release ph =? 0)%N ||
     forallb (fun r => negb (oa_key r =? oa_release ph)%N || oa_ph r || negb (oa_allocated r) ||
        ((oa_release r =? oa_key ph)%N && le_res_b (oa_res r) (oa_res ph) &&
         (if (oa_node r =? oa_node ph)%N
          then forallb (fun n => negb (keyin (oa_key r) (on_allocs n))) (s_nodes s)
          else existsb (fun n => (on_id n =? oa_node r)%N && inb r (on_allocs n)) (s_nodes s))))
       (ap_requests a)) (ap_allocs a)) (s_apps s).
Lemma l2_b_spec s : l2_b s = true -> LinkL2 s.
Proof. intros H a ph r Ha Hph Eph Hl Hr Ek Er Eal. pose proof (fa_in _ _ ph (fa_in _ _ a H Ha) Hph) as H0. cbn beta in H0.
  rewrite Eph in H0. cbn [negb orb] in H0. apply orb_true_iff in H0. destruct H0 as [H0|H0]; [apply N.eqb_eq in H0; contradiction|].
  pose proof (fa_in _ _ r H0 Hr) as H1. cbn beta in H1. rewrite Ek, N.eqb_refl, Er, Eal in H1. cbn [negb orb] in H1.
  rewrite !andb_true_iff in H1. destruct H1 as [[A1 A2] A3]. split; [apply N.eqb_eq; assumption|].
  split; [apply le_res_b_spec; assumption|]. split.
  - intros En n y Hn Hy C. rewrite En, N.eqb_refl in A3. pose proof (fa_in _ _ n A3 Hn) as H2. cbn beta in H2.
    apply negb_true_iff in H2. apply keyin_false in H2. apply H2. rewrite <- Ek, <- C. unfold akeys. apply in_map. assumption.
  - intros En. destruct (N.eqb_spec (oa_node r) (oa_node ph)) as [E|_]; [contradiction|].
    apply existsb_exists in A3. destruct A3 as (n & Hn & A3). apply andb_true_iff in A3. destruct A3 as [B1 B2].
    exists n. split; [assumption|]. split; [apply N.eqb_eq; assumption|apply inb_spec; assumption]. Qed.

Definition linkok_b (s : ostate) : bool := l1_b s && l2_b s.
Theorem linkok_b_spec s : linkok_b s = true -> LinkOK s.
Proof. unfold linkok_b. rewrite andb_true_iff. intros [H1 H2]. split; [apply l1_b_spec|apply l2_b_spec]; assumption. Qed.
Definition invg2_b (s : ostate) : bool := invg_b s && linkok_b s.
Theorem invg2_b_spec s : invg2_b s = true -> InvG2 s.
Proof. unfold invg2_b. rewrite andb_true_iff. intros [H1 H2]. split; [apply invg_b_spec|apply linkok_b_spec]; assumption. Qed.

(* the books, as a boolean *)
Definition books_b (s : ostate) : bool := match c03_state s with [] => true | _ => false end.
Lemma books_b_spec s : books_b s = true -> Books s.
Proof. unfold books_b. intros H. apply books_reflect. destruct (c03_state s); [reflexivity|discriminate]. Qed.

(* the pointwise form [BooksG] used by the gang theorems, as far as it is not already part of [Books] *)
Definition rootg_b (s : ostate) : bool :=
  match root_queue s with
  | None => true
  | Some r => res_is_sum (q_alloc r) (map oa_res (filter ninfl (node_records s)))
  end.
Lemma booksg_b_spec s : books_b s = true -> rootg_b s = true -> BooksG s.
Proof. intros HB HR. apply books_b_spec in HB. destruct HB as [[B1 B2 _ _ _] _]. constructor; [assumption|assumption|].
  intros r Er k. unfold rootg_b in HR. rewrite Er in HR. unfold asum. apply (proj1 (res_is_sum_spec _ _) HR). Qed.

(* ================================================================== Bounded3 and the step hypotheses *)
Definition bounded3_b (s : ostate) : bool := bounded_b s && forallb (fun a => rb_b (ap_phalloc a)) (s_apps s).
Lemma bounded3_b_spec s : bounded3_b s = true -> Bounded3 s.
Proof. unfold bounded3_b. rewrite andb_true_iff. intros [H1 H2]. constructor; [apply bounded_b_spec; assumption|].
  intros a Ha. apply rb_b_spec. apply (fa_in _ _ a H2 Ha). Qed.

Definition key_fresh3_b (s : ostate) (key : N) : bool :=
  forallb (fun b => forallb (fun z => negb (oa_key z =? key)%N) (app_records b)) (s_apps s) &&
  forallb (fun f => negb (oa_key f =? key)%N) (s_foreign s).
Lemma key_fresh3_b_spec s key : key_fresh3_b s key = true -> KeyFresh3 s key.
Proof. unfold key_fresh3_b. rewrite andb_true_iff. intros [H1 H2]. split.
  - intros b z Hb Hz. pose proof (fa_in _ _ z (fa_in _ _ b H1 Hb) Hz) as H. cbn beta in H. lia.
  - intros f Hf. pose proof (fa_in _ _ f H2 Hf) as H. cbn beta in H. lia. Qed.

Definition req_ok3_b (s : ostate) (r : oreq) : bool :=
  wf_b (oget (rq_res r)) && rb_b (oget (rq_res r)) &&
  match find_app s (rq_app r) with
  | Some a => match find_alloc (ap_requests a) (rq_key r) with None => key_fresh3_b s (rq_key r) | Some _ => true end
  | None => true
  end.
Lemma req_ok3_b_spec s r : req_ok3_b s r = true -> ReqOK3 s r.
Proof. unfold req_ok3_b. rewrite !andb_true_iff. intros [[H1 H2] H3]. split; [apply wf_b_spec; assumption|].
  split; [apply rb_b_spec; assumption|]. intros a Ea En. rewrite Ea, En in H3. apply key_fresh3_b_spec. assumption. Qed.

Definition term_ok_b (a : oapp) : bool :=
  negb ((ap_state a =? ST_Failing)%N || ((ap_state a =? ST_Completing)%N && negb (ap_statetimer a))) ||
  match real_allocs a with [] => true | _ => false end.
Lemma term_ok_b_spec a : term_ok_b a = true -> TermOK a.
Proof. unfold term_ok_b, TermOK. intros H E. rewrite E in H. cbn [negb orb] in H. destruct (real_allocs a); [reflexivity|discriminate]. Qed.

Definition step_ok3_b (s : ostate) (st : ostep) : bool :=
  match st_op st with
  | OpAlloc r => req_ok3_b s r
  | OpRelease app _ _ => match find_app s app with Some a => term_ok_b a | None => true end
  | OpNodeRemove _ => forallb term_ok_b (s_apps s)
  | _ => true
  end.
Lemma step_ok3_b_spec s st : step_ok3_b s st = true -> StepOK3 s st.
Proof. unfold step_ok3_b, StepOK3. destruct (st_op st); auto.
  - intros H a Ha. apply term_ok_b_spec. apply (fa_in _ _ a H Ha).
  - apply req_ok3_b_spec.
  - intros H a Ea. rewrite Ea in H. apply term_ok_b_spec. assumption. Qed.

(* ================================================================== histories *)
Fixpoint m_run3 (deny : list (N * N)) (s : ostate) (steps : list ostep) : ostate :=
  match steps with
  | [] => s
  | st :: t => match m_step3 deny s st with Some s' => m_run3 deny s' t | None => s end
  end.
(* number of steps of a history the model covers before it stops *)
Fixpoint m_run3_len (deny : list (N * N)) (s : ostate) (steps : list ostep) : nat :=
  match steps with
  | [] => O
  | st :: t => match m_step3 deny s st with Some s' => S (m_run3_len deny s' t) | None => O end
  end.

(* the hypotheses of the second fragment are asked for the steps [m_step2] answers *)
Definition StepOK2if (deny : list (N * N)) (s : ostate) (st : ostep) : Prop :=
  match m_step2 deny s st with Some _ => StepOK2 s st | None => True end.
Definition step_ok2if_b (deny : list (N * N)) (s : ostate) (st : ostep) : bool :=
  match m_step2 deny s st with Some _ => step_ok2_b s st | None => true end.
Lemma step_ok2if_b_spec deny s st : step_ok2if_b deny s st = true -> StepOK2if deny s st.
Proof. unfold step_ok2if_b, StepOK2if. destruct (m_step2 deny s st); [apply step_ok2_b_spec|auto]. Qed.

(* the carried hypotheses: in every state the run goes through the ledgers are bounded and the next step satisfies the
   environment assumptions of its fragment *)
Fixpoint RunOK3 (deny : list (N * N)) (s : ostate) (steps : list ostep) : Prop :=
  match steps with
  | [] => True
  | st :: t => Bounded3 s /\ StepOK3 s st /\ StepOK2if deny s st /\
               match m_step3 deny s st with Some s' => RunOK3 deny s' t | None => True end
  end.
(* what the theorems conclude: invariant (with the link relation) and books in every state the run goes through (the last one included) *)
Fixpoint RunGood3 (deny : list (N * N)) (s : ostate) (steps : list ostep) : Prop :=
  InvG2 s /\ Books s /\
  match steps with
  | [] => True
  | st :: t => match m_step3 deny s st with Some s' => RunGood3 deny s' t | None => True end
  end.

(* hypotheses AND conclusions, evaluated along the run *)
Fixpoint run3_ok_b (deny : list (N * N)) (s : ostate) (steps : list ostep) : bool :=
  invg2_b s && books_b s &&
  match steps with
  | [] => true
  | st :: t => bounded3_b s && step_ok3_b s st && step_ok2if_b deny s st &&
               match m_step3 deny s st with Some s' => run3_ok_b deny s' t | None => true end
  end.
Theorem run3_ok_b_spec deny : forall steps s, run3_ok_b deny s steps = true -> RunOK3 deny s steps.
Proof. induction steps as [|st t IH]; intros s H; [exact I|]. cbn [run3_ok_b RunOK3] in *. rewrite !andb_true_iff in H.
  destruct H as [_ [[[H1 H2] H3] H4]]. split; [apply bounded3_b_spec; assumption|]. split; [apply step_ok3_b_spec; assumption|].
  split; [apply step_ok2if_b_spec; assumption|]. destruct (m_step3 deny s st); auto. Qed.
Theorem run3_ok_b_good deny : forall steps s, run3_ok_b deny s steps = true -> RunGood3 deny s steps.
Proof. induction steps as [|st t IH]; intros s H; cbn [run3_ok_b RunGood3] in *; rewrite !andb_true_iff in H.
  - destruct H as [[H1 H2] _]. split; [apply invg2_b_spec; assumption|]. split; [apply books_b_spec; assumption|exact I].
  - destruct H as [[H1 H2] [_ H4]]. split; [apply invg2_b_spec; assumption|]. split; [apply books_b_spec; assumption|].
    destruct (m_step3 deny s st); auto. Qed.
Lemma run3_ok_b_final deny : forall steps s, run3_ok_b deny s steps = true -> m_run3_len deny s steps = length steps ->
  InvG2 (m_run3 deny s steps) /\ Books (m_run3 deny s steps).
Proof. induction steps as [|st t IH]; intros s H L; cbn [run3_ok_b m_run3 m_run3_len length] in *; rewrite !andb_true_iff in H.
  - destruct H as [[H1 H2] _]. split; [apply invg2_b_spec; assumption|apply books_b_spec; assumption].
  - destruct H as [_ [_ H4]]. destruct (m_step3 deny s st) as [s'|]; [|discriminate]. apply IH; [assumption|]. congruence. Qed.
