(* C03 over the second fragment, part 5: removeNode (Core/Model2.v [m_node_remove]).  The node leaves the node list
   first; then for every allocation it listed the application ledger, the application state machine and the
   ancestor queues are updated ([remove_node_allocs]); finally the partition total / root maximum follow.
   The intermediate states of the model do not satisfy the books (applications still list allocations on a node
   that is gone), so the proof runs a GHOST state next to the model state in which the node is still registered
   and loses the allocation in the same iteration: every ghost iteration is an instance of [unbind_core]
   (Core/BooksOps3.v) and preserves [Inv], [Books] and - because ledgers only shrink - [Bounded].  At the end
   the ghost node is empty and dropping it changes nothing. *)
From Coq Require Import List ZArith NArith Bool Lia ZifyBool.
From YK Require Import Base.Int64 Base.Res Base.ResSpec Base.ResLemmas Base.ResLaws Base.ResLaws2 Base.ResLawsPred
  Core.Obs Core.Model Core.Model2 Core.Ledger
  Core.BooksLemmas Core.BooksDefs Core.BooksTree Core.BooksQueue Core.BooksApp Core.BooksState Core.BooksDrain Core.BooksStep
  Core.BooksOps Core.BooksOps2 Core.BooksOps3 Core.BooksOps4 Core.Model2ProofsB1 Core.Model2ProofsB4.
Import ListNotations.
Open Scope Z_scope.
Set Default Timeout 30.

(* model state and ghost state agree on everything but the node list and the counter *)
Definition Sim (s σ : ostate) : Prop := s_apps s = s_apps σ /\ s_queues s = s_queues σ /\ s_foreign s = s_foreign σ.

Lemma q_dec_queues_ext s1 s2 leaf r : s_queues s1 = s_queues s2 -> s_queues (q_dec s1 leaf r) = s_queues (q_dec s2 leaf r).
Proof. intros E. unfold q_dec. rewrite (path_ids_ext s1 s2 leaf E).
  assert (Eg : forall l, forallb (fun qid => match find_queue s1 qid with Some q => FitInActual (Some (q_alloc q)) (Some r) | None => false end) l =
                         forallb (fun qid => match find_queue s2 qid with Some q => FitInActual (Some (q_alloc q)) (Some r) | None => false end) l).
  { intros l. induction l as [|qid l' IHl]; [reflexivity|]. cbn [forallb]. rewrite IHl, (find_queue_ext s1 s2 qid E). reflexivity. }
  rewrite Eg. destruct (forallb _ _); [rewrite !on_path_queues, E; reflexivity|exact E]. Qed.
Lemma q_dec_other s leaf r : s_apps (q_dec s leaf r) = s_apps s /\ s_nodes (q_dec s leaf r) = s_nodes s /\
  s_foreign (q_dec s leaf r) = s_foreign s /\ s_nallocs (q_dec s leaf r) = s_nallocs s.
Proof. unfold q_dec. destruct (forallb _ _); auto. Qed.

Lemma node_allocated_nonneg s m k : Inv s -> Books0 s -> In m (s_nodes s) -> 0 <= getz (on_allocated m) k.
Proof. intros HI HB Hm. rewrite (nk_ledger s m (inv_nodes s HI m Hm) k). apply asum_nonneg. intros y Hy.
  destruct (node_alloc_listed s m y HI HB Hm Hy) as (b & Hb & Hyb & _). apply (ao_nn _ y (aw_alloc b (inv_app_wf s HI b Hb) y Hyb)). Qed.

(* ================================================================== one ghost iteration *)
Section GhostStep.
  Variables (σ : ostate) (n : onode) (x : oalloc) (t : list oalloc).
  Hypothesis HI : Inv σ.
  Hypothesis HB : Books0 σ.
  Hypothesis HBd : Bounded σ.
  Hypothesis Hn : In n (s_nodes σ).
  Hypothesis El : on_allocs n = x :: t.
  Hypothesis Xph : oa_ph x = false.

  Let K := inv_nodes σ HI n Hn.
  Lemma gs_x_in : In x (on_allocs n). Proof. rewrite El. left. reflexivity. Qed.
  Lemma gs_owner : exists a, In a (s_apps σ) /\ In x (ap_allocs a) /\ ap_id a = oa_app x.
  Proof. apply (node_alloc_listed σ n x HI HB Hn gs_x_in). Qed.

  Variable a : oapp.
  Hypothesis Ha : In a (s_apps σ).
  Hypothesis Hx : In x (ap_allocs a).

  Let a2 := release_alloc_app a x TT_Timeout.
  Let n' := node_unbound n x.
  Definition ghost_next : ostate :=
    add_counts (upd_node (q_dec (upd_app σ (ap_id a) (fun _ => release_alloc_app a x TT_Timeout)) (ap_queue a) (oa_res x))
                         (on_id n) (fun _ => node_unbound n x)) (-1) 0.
  Let σ' := ghost_next.

  Let W := inv_app_wf σ HI a Ha.
  Let B := bk_apps σ HB a Ha.
  Let Bd := bd_apps σ HBd a Ha.
  Let Xok := aw_alloc a W x Hx.
  Let Xb := abd_alloc a Bd x Hx.

  Lemma gs_dom q k : In q (s_queues σ) -> In (q_id q) (path_ids σ (ap_queue a)) -> getz (oa_res x) k <= getz (q_alloc q) k.
  Proof. intros Hq Hin. pose proof (alloc_le_allocated a x W B Hx Xph k). pose proof (app_allocated_dominated σ a HI HB Ha q k Hq Hin). lia. Qed.

  Lemma gs_queues : s_queues σ' = map (fun q => if memN (q_id q) (path_ids σ (ap_queue a)) then F_dec (oa_res x) q else q) (s_queues σ).
  Proof. unfold σ', ghost_next. cbn [add_counts upd_node s_queues]. unfold q_dec.
    rewrite (path_ids_ext (upd_app σ (ap_id a) _) σ (ap_queue a) eq_refl).
    match goal with |- context [if ?c then _ else _] => assert (Hc : c = true) end.
    { apply forallb_forall. intros qid Hqid. destruct (path_member σ qid _ Hqid) as (oc & Eoc & Hoc & Eid).
      rewrite (find_queue_ext (upd_app σ (ap_id a) _) σ qid eq_refl), Eoc. apply fit_actual_dom; [apply (ao_wf _ x Xok)|].
      intros k. subst qid. apply (gs_dom oc k Hoc Hqid). }
    rewrite Hc. reflexivity. Qed.

  Lemma gs_QF q : In q (s_queues σ) -> In (q_id q) (path_ids σ (ap_queue a)) ->
      (wf (q_alloc (F_dec (oa_res x) q)) /\ wf (q_pending (F_dec (oa_res x) q))) /\
      (forall k, getz (q_alloc (F_dec (oa_res x) q)) k = getz (q_alloc q) k + - getz (oa_res x) k) /\
      (forall k, getz (q_pending (F_dec (oa_res x) q)) k = getz (q_pending q) k + 0) /\
      (rnonneg (q_alloc (F_dec (oa_res x) q)) /\ rnonneg (q_pending (F_dec (oa_res x) q))).
  Proof. intros Hq Hin. destruct (inv_q_wf σ HI q Hq). destruct (bd_queues σ HBd q Hq). pose proof (bk_queues σ HB q Hq) as QB.
    apply F_dec_facts; auto; try apply (ao_wf _ x Xok); try apply (qb_nn_alloc σ q QB); try apply (qb_nn_pend σ q QB).
    all: try (intros k; apply (gs_dom q k Hq Hin)). Qed.

  Lemma gs_xnode : oa_node x = on_id n. Proof. apply (nk_node σ n K x gs_x_in). Qed.
  Lemma gs_xfind : find_alloc (on_allocs n) (oa_key x) = Some x.
  Proof. rewrite El. unfold find_alloc. cbn [find]. rewrite N.eqb_refl. reflexivity. Qed.
  Lemma gs_apps : s_apps σ' = updk ap_id (s_apps σ) (ap_id a) (fun _ => a2).
  Proof. unfold σ', ghost_next. cbn [add_counts upd_node s_apps]. rewrite (proj1 (q_dec_other _ _ _)). reflexivity. Qed.
  Lemma gs_nodes : s_nodes σ' = updk on_id (s_nodes σ) (on_id n) (fun _ => n').
  Proof. unfold σ', ghost_next. cbn [add_counts upd_node s_nodes]. rewrite (proj1 (proj2 (q_dec_other _ _ _))). reflexivity. Qed.
  Lemma gs_foreign : s_foreign σ' = s_foreign σ.
  Proof. unfold σ', ghost_next. cbn [add_counts upd_node s_foreign]. rewrite (proj1 (proj2 (proj2 (q_dec_other _ _ _)))). reflexivity. Qed.
  Lemma gs_count : s_nallocs σ' = s_nallocs σ + -1.
  Proof. unfold σ', ghost_next. cbn [add_counts upd_node s_nallocs]. rewrite (proj2 (proj2 (proj2 (q_dec_other _ _ _)))). reflexivity. Qed.

  Lemma gs_inv_books : Inv σ' /\ Books σ'.
  Proof. pose proof gs_apps as E1. pose proof gs_nodes as E2. pose proof gs_queues as E3. pose proof gs_foreign as E4. pose proof gs_count as E5.
    pose proof gs_QF as QF. pose proof gs_xfind as Hxn.
    apply (unbind_core σ σ' a a2 n x (F_dec (oa_res x)) HI HB HBd Ha Hn Hx gs_xnode); auto.
    - apply rel_alloc_id.
    - apply rel_alloc_queue.
    - apply rel_alloc_books; assumption.
    - apply rel_alloc_wf; assumption.
    - intros r' Hr'. unfold a2 in Hr'. rewrite rel_alloc_requests in Hr'. left. exists r'. split; [|reflexivity]. exact Hr'.
    - apply rel_alloc_allocs.
    - intros k. unfold a2. rewrite rel_alloc_allocated, rel_alloc_phalloc by assumption. lia.
    - intros k. unfold a2. rewrite rel_alloc_pending_eq. lia. Qed.

  Lemma gs_n_allocated k : getz (on_allocated n') k = getz (on_allocated n) k - getz (oa_res x) k.
  Proof. cbn [n' node_unbound n_with on_allocated]. rewrite Prune_getz by (apply subFrom_wf, (nk_wf σ n K)).
    apply subFrom_getz; [apply (ao_wf _ x Xok)|apply (bd_nodes σ HBd n Hn)|exact Xb]. Qed.

  Lemma gs_bounded : Bounded σ'.
  Proof. destruct gs_inv_books as [HI' [HB' _]]. pose proof (rnonneg_fnonneg _ (ao_nn _ x Xok)) as Nx. constructor.
    - intros b' Hb'. rewrite gs_apps in Hb'. apply (in_updk_const ap_id) in Hb'; [|apply (inv_app_ids σ HI)|assumption].
      destruct Hb' as [->|[Hb _]]; [|apply (bd_apps σ HBd b' Hb)]. destruct Bd as [D1 D2 D3 D4]. constructor.
      + unfold a2. rewrite rel_alloc_pending_eq. assumption.
      + intros k. unfold a2. rewrite rel_alloc_allocated by assumption. pose proof (D2 k). pose proof (alloc_le_allocated a x W B Hx Xph k).
        specialize (Nx k). bn.
      + unfold a2. rewrite rel_alloc_requests. exact D3.
      + intros y Hy. unfold a2 in Hy. rewrite rel_alloc_allocs in Hy. apply in_del_alloc in Hy. apply D4. tauto.
    - intros q' Hq'. rewrite gs_queues in Hq'. apply in_map_iff in Hq'. destruct Hq' as (q & <- & Hq).
      destruct (bd_queues σ HBd q Hq) as [Ba Bp]. destruct (memN (q_id q) (path_ids σ (ap_queue a))) eqn:Em; [|auto].
      apply memN_in in Em. destruct (gs_QF q Hq Em) as (_ & G1 & _ & _ & _). split; [|exact Bp].
      intros k. rewrite G1. pose proof (Ba k). pose proof (gs_dom q k Hq Em). specialize (Nx k). bn.
    - intros m' Hm'. pose proof Hm' as Hm2. rewrite gs_nodes in Hm'. apply (in_updk_const on_id) in Hm'; [|apply (inv_node_ids σ HI)|assumption].
      destruct Hm' as [->|[Hm _]]; [|apply (bd_nodes σ HBd m' Hm)]. intros k.
      pose proof (node_allocated_nonneg σ' n' k HI' HB' Hm2) as L. rewrite gs_n_allocated in *. pose proof (bd_nodes σ HBd n Hn k). specialize (Nx k). bn. Qed.

  Lemma gs_node id : on_id n = id -> find_node σ' id = Some n' /\ on_allocs n' = t /\
    filter (fun m => negb (on_id m =? id)%N) (s_nodes σ') = filter (fun m => negb (on_id m =? id)%N) (s_nodes σ).
  Proof. intros <-. split; [|split].
    - rewrite find_node_findk, gs_nodes. rewrite (findk_updk on_id (s_nodes σ) (on_id n) (fun _ => n') (on_id n)) by (intros m Em; symmetry; exact Em).
      rewrite <- find_node_findk, (find_node_in σ n HI Hn). cbn [option_map]. rewrite N.eqb_refl. reflexivity.
    - cbn [n' node_unbound n_with on_allocs]. rewrite El. unfold del_alloc. cbn [filter]. rewrite N.eqb_refl. cbn [negb].
      apply filter_all. intros y Hy. apply negb_true_iff, N.eqb_neq. intros C.
      pose proof (nk_keys σ n K) as Hnd. rewrite El in Hnd. cbn [akeys map] in Hnd. inversion Hnd as [|? ? Hni _]; subst. apply Hni. rewrite <- C. apply in_map. assumption.
    - rewrite gs_nodes. apply filter_updk_out. intros m _. reflexivity. Qed.
End GhostStep.

(* ================================================================== the whole walk *)
Lemma find_app_sim s σ id : s_apps s = s_apps σ -> find_app s id = find_app σ id.
Proof. unfold find_app. intros ->. reflexivity. Qed.

Lemma ghost_run id : forall l s σ s' c, remove_node_allocs s l = (s', c) -> Sim s σ -> Inv σ -> Books0 σ -> Bounded σ ->
  (exists n, find_node σ id = Some n /\ on_allocs n = l) -> (forall x, In x l -> oa_ph x = false) ->
  exists σ', Sim s' σ' /\ Inv σ' /\ Books0 σ' /\ (exists n', find_node σ' id = Some n' /\ on_allocs n' = []) /\
    filter (fun m => negb (on_id m =? id)%N) (s_nodes σ') = filter (fun m => negb (on_id m =? id)%N) (s_nodes σ) /\
    s_nallocs σ' = s_nallocs σ - c /\ s_nodes s' = s_nodes s /\ s_nallocs s' = s_nallocs s.
Proof. induction l as [|x t IH]; intros s σ s' c H (S1 & S2 & S3) HI HB HBd (n & En & El) Hph.
  - cbn in H. inversion H; subst s' c. exists σ. split; [repeat split; assumption|]. split; [assumption|]. split; [assumption|].
    split; [exists n; auto|]. split; [reflexivity|]. split; [lia|auto].
  - destruct (find_node_some _ _ _ En) as [Hn Enid].
    destruct (gs_owner σ n x t HI HB Hn El) as (a & Ha & Hx & Eid).
    pose proof (inv_app_wf σ HI a Ha) as W.
    cbn [remove_node_allocs] in H. rewrite (find_app_sim s σ _ S1), <- Eid, (find_app_in σ a HI Ha) in H.
    rewrite (find_alloc_in _ x (aw_alloc_keys a W) Hx) in H. cbv zeta in H.
    match type of H with (let '(s3, n0) := remove_node_allocs ?S t in _) = _ => set (s2 := S) in *; destruct (remove_node_allocs s2 t) as [s3 c3] eqn:E3 end.
    inversion H; subst s' c; clear H.
    assert (Xph : oa_ph x = false) by (apply Hph; left; reflexivity).
    set (σ1 := ghost_next σ n x a).
    destruct (gs_inv_books σ n x t HI HB HBd Hn El Xph a Ha Hx) as [HI1 [HB1 _]].
    pose proof (gs_bounded σ n x t HI HB HBd Hn El Xph a Ha Hx) as HBd1.
    destruct (gs_node σ n x t HI Hn El a id Enid) as (En1 & El1 & Ef1).
    assert (Sim1 : Sim s2 σ1).
    { unfold s2, σ1, ghost_next. split; [|split].
      - cbn [add_counts upd_node s_apps]. rewrite !(proj1 (q_dec_other _ _ _)). cbn [upd_app s_apps]. rewrite S1. reflexivity.
      - cbn [add_counts upd_node s_queues]. apply q_dec_queues_ext. exact S2.
      - cbn [add_counts upd_node s_foreign]. rewrite !(proj1 (proj2 (proj2 (q_dec_other _ _ _)))). exact S3. }
    destruct (IH s2 σ1 s3 c3 E3 Sim1 HI1 HB1 HBd1) as (σ' & R1 & R2 & R3 & R4 & R5 & R6 & R7 & R8).
    + eexists. split; [exact En1|exact El1].
    + intros y Hy. apply Hph. right. assumption.
    + exists σ'. split; [assumption|]. split; [assumption|]. split; [assumption|]. split; [assumption|].
      split; [rewrite R5; exact Ef1|]. split; [rewrite R6; unfold σ1; rewrite gs_count; lia|].
      unfold s2 in R7, R8. rewrite (proj1 (proj2 (q_dec_other _ _ _))) in R7. rewrite (proj2 (proj2 (proj2 (q_dec_other _ _ _)))) in R8. auto. Qed.

(* ================================================================== an empty node leaves the node list *)
Section DropNode.
  Variables (σ s' : ostate) (id : N) (n0 : onode) (tot : res).
  Hypothesis HI : Inv σ.
  Hypothesis HB : Books0 σ.
  Hypothesis Hn0 : find_node σ id = Some n0.
  Hypothesis Hempty : on_allocs n0 = [].
  Hypothesis Ea : s_apps s' = s_apps σ.
  Hypothesis Eq : s_queues s' = map (g_total tot) (s_queues σ).
  Hypothesis En : s_nodes s' = filter (fun m => negb (on_id m =? id)%N) (s_nodes σ).
  Hypothesis Ef : s_foreign s' = s_foreign σ.
  Hypothesis Ec : s_nallocs s' = s_nallocs σ.

  Lemma dn_in m : In m (s_nodes s') <-> In m (s_nodes σ) /\ on_id m <> id.
  Proof. rewrite En, filter_In. destruct (N.eqb_spec (on_id m) id); cbn [negb]; intuition congruence. Qed.
  Lemma dn_is_n0 m : In m (s_nodes σ) -> on_id m = id -> m = n0.
  Proof. intros Hm E. destruct (find_node_some _ _ _ Hn0) as [H0 E0]. apply (nodup_key_inj on_id (s_nodes σ)); auto; [apply (inv_node_ids σ HI)|congruence]. Qed.

  Lemma dn_inv : Inv s'.
  Proof. destruct HI as [I1 I2 I3 I4 I5 I6 I7 I8 I9 I10]. constructor; rewrite ?Ea; auto.
    - rewrite En. apply NoDup_map_filter. assumption.
    - apply (tree_map σ s' (g_total tot) Eq (g_total_id tot) (g_total_par tot) (g_total_leaf tot) I3).
    - intros b Hb. destruct (I4 b Hb) as (q & E & L). exists (g_total tot q).
      rewrite (find_queue_map' σ s' (g_total tot) Eq (g_total_id tot)), E, g_total_leaf. auto.
    - intros q' Hq'. apply (in_queues_map σ s' (g_total tot) Eq) in Hq'. destruct Hq' as (q & Hq & ->). rewrite g_total_alloc, g_total_pend. auto.
    - rewrite Ef. assumption.
    - intros m Hm. apply dn_in in Hm. destruct Hm as [Hm _]. apply (nodeok_sub σ s' m m); auto.
      + intros b' Hb'. rewrite Ea in Hb'. exists b'. split; [assumption|apply incl_refl].
      + apply incl_refl.
      + apply (nk_keys σ m (I9 m Hm)).
      + apply (nk_ledger σ m (I9 m Hm)).
      + apply (nk_wf σ m (I9 m Hm)).
    - rewrite Ec, I10. unfold all_allocs. rewrite Ea. reflexivity. Qed.

  Theorem drop_node_step : Inv s' /\ Books s'.
  Proof. pose proof dn_inv as HI'. split; [assumption|]. destruct HB as [B1 B2 B3 B4 B5].
    assert (HB0 : Books0 s').
    { constructor.
      - rewrite Ea. assumption.
      - apply (queue_books_frame σ s' (g_total tot) Ea Eq (g_total_id tot) (g_total_par tot) (g_total_leaf tot) (g_total_alloc tot) (g_total_pend tot) B2).
      - apply owned_of_P; [apply (inv_app_ids s' HI')|]. intros m y Hm Hy. apply dn_in in Hm. rewrite Ea.
        apply (owned_P_of σ HI B3 m y (proj1 Hm) Hy).
      - apply onnode_of_P; [apply (inv_node_ids s' HI')|]. intros b x Hb Hx. rewrite Ea in Hb.
        destruct (onnode_P_of σ B4 b x Hb Hx) as (m & Hm & Em & Hk). exists m. split; [|auto]. apply dn_in. split; [assumption|].
        intros C. rewrite (dn_is_n0 m Hm C), Hempty in Hk. contradiction.
      - apply (root_step σ s' (g_total tot) (fun _ => 0) HI HI' Eq (g_total_par tot)); [| |assumption].
        + intros r _ k. rewrite g_total_alloc. lia.
        + intros k. rewrite En, sumz_filter_zero; [lia|]. intros m Hm Hf. apply negb_false_iff, N.eqb_eq in Hf.
          rewrite (dn_is_n0 m Hm Hf). destruct (find_node_some _ _ _ Hn0) as [H0 _].
          rewrite (nk_ledger σ n0 (inv_nodes σ HI n0 H0) k), Hempty. reflexivity. }
    split; [assumption|]. apply drain_to_zero; assumption. Qed.
End DropNode.

(* ================================================================== removeNode *)
Theorem node_remove_step s s' id : Inv s -> Books s -> Bounded s -> m_node_remove s id = Some s' -> Inv s' /\ Books s'.
Proof. intros HI [HB D] HBd H. unfold m_node_remove in H.
  destruct (find_node s id) as [n|] eqn:En; [|inversion H; subst; split; [assumption|split; assumption]].
  destruct (negb match on_reservations n with [] => true | _ => false end); [discriminate|]. cbn [orb] in H.
  destruct (forallb (fun x => negb (oa_ph x) && (oa_release x =? 0)%N) (on_allocs n)) eqn:Eg; [|discriminate]. cbn [negb] in H.
  set (s0 := set_nodes s (filter (fun m => negb (on_id m =? id)%N) (s_nodes s))) in *.
  destruct (remove_node_allocs s0 (on_allocs n)) as [s1 cnt] eqn:E1. inversion H; subst s'; clear H.
  rewrite forallb_forall in Eg.
  destruct (ghost_run id (on_allocs n) s0 s s1 cnt E1) as (σ' & (S1 & S2 & S3) & HI' & HB' & (n' & En' & El') & Ef' & Ec' & Nn & Nc); auto.
  - repeat split; reflexivity.
  - exists n. auto.
  - intros x Hx. specialize (Eg x Hx). apply andb_true_iff in Eg. destruct Eg as [Eg _]. apply negb_true_iff in Eg. exact Eg.
  - destruct (part_update_total_queues s1 (Multiply (Some (on_total n)) (-1))) as [tot Et].
    apply (drop_node_step σ' _ id n' tot HI' HB' En' El').
    + exact S1.
    + change (s_queues (part_update_total s1 (Multiply (Some (on_total n)) (-1))) = map (g_total tot) (s_queues σ')). rewrite Et, S2. reflexivity.
    + change (s_nodes s1 = filter (fun m => negb (on_id m =? id)%N) (s_nodes σ')). rewrite Nn, Ef'. reflexivity.
    + exact S3.
    + change (s_nallocs s1 + - cnt = s_nallocs σ'). rewrite Nc, Ec'. unfold s0. cbn [set_nodes s_nallocs]. lia. Qed.
