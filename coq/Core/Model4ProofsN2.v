(* C01 over the fourth fragment, continued: every step [m_step_resv] accepts preserves [SInv]; runs of [m_step4]. *)
From Coq Require Import List ZArith NArith Bool Lia ZifyBool.
From YK Require Import Base.Int64 Base.Int64Laws Base.Res Base.ResSpec Base.ResLemmas Base.ResLaws Base.ResLaws2
  Base.ResLawsPred Core.Obs Core.Model Core.Model2 Core.Ledger Core.Model4 Core.NodeProofs Core.QueueProofs Core.StepProofs
  Core.Model2ProofsN Core.Model4ProofsF Core.Model4ProofsN Oracles.CoreC01.
Import ListNotations.
Open Scope Z_scope.
Set Default Timeout 30.

(* ------------------------------------------------------------------ the step hypotheses *)
(* the key a scheduling cycle binds is not yet listed by the node it is bound to (allocation keys are pod UIDs) *)
Definition sched_fresh (s : ostate) (st : ostep) : Prop :=
  forall k a nid ph n, In (k, a, nid, ph) (new_allocs (st_events st)) -> find_node s nid = Some n -> ~ In k (akeys (on_allocs n)).
(* beyond [step_ok2]: freshness for the cycle; non-negative allocation sizes when all allocations of an application
   are released at once (the walk over several allocations keeps the bound only because ledgers shrink) *)
Definition step_ok4 (s : ostate) (st : ostep) : Prop :=
  match st_op st with
  | OpSched => sched_fresh s st
  | OpRelease _ key _ => key = 0%N -> allocs_nonneg s
  | _ => True
  end.

(* ------------------------------------------------------------------ hiding the reservation list of an application *)
Lemma find_app_upd_app s id g id' : (forall a, ap_id (g a) = ap_id a) ->
  find_app (upd_app s id g) id' = option_map (fun a => if (ap_id a =? id)%N then g a else a) (find_app s id').
Proof. intros Hg. unfold find_app. cbn [upd_app s_apps]. apply (find_map ap_id). intros a. destruct (ap_id a =? id)%N; [apply Hg|reflexivity]. Qed.
Lemma hide_find s id a : find_app s id = Some a -> find_app (hide_res s id) id = Some (ap_set_res a []).
Proof. intros E. unfold hide_res. rewrite find_app_upd_app by reflexivity. rewrite E. cbn [option_map].
  destruct (find_app_some _ _ _ E) as [_ ->]. rewrite N.eqb_refl. reflexivity. Qed.
Lemma hide_in s id a : find_app s id = Some a -> In (ap_set_res a []) (s_apps (hide_res s id)).
Proof. intros E. apply hide_find in E. apply find_app_some in E. apply E. Qed.
Lemma akeys_map_fp f l : FP f -> akeys (map f l) = akeys l.
Proof. intros Hf. unfold akeys. rewrite map_map. apply map_ext. intros x. apply (fp_key f Hf). Qed.

(* ------------------------------------------------------------------ the scheduling cycle *)
Lemma m_sched_with_sinv deny s st cnt fx s' : m_sched_with deny s st cnt fx = Some s' -> SInv s -> Bounded s -> sched_fresh s st -> SInv s'.
Proof. unfold m_sched_with. cbv zeta. intros H HI HB Hf.
  match type of H with (if ?c then None else _) = _ => destruct c; [discriminate|] end.
  match type of H with (if ?c then None else _) = _ => destruct c; [discriminate|] end.
  match type of H with (if ?c then None else _) = _ => destruct c; [discriminate|] end.
  match type of H with match m_mark_victims ?S1 ?V with _ => _ end = _ => set (s1 := S1) in *; destruct (m_mark_victims s1 V) as [s2|] eqn:Ev; [|discriminate] end.
  assert (F02 : LFrame s s2).
  { eapply LFrame_trans; [apply LFrame_cancel_phase|]. eapply LFrame_mark_victims. exact Ev. }
  assert (HI2 : SInv s2) by (eapply LFrame_sinv; eassumption).
  assert (HB2 : Bounded s2) by (eapply LFrame_bounded; eassumption).
  match type of H with match ?X with Some _ => _ | None => None end = _ => destruct X as [s3|] eqn:Ea; [|discriminate] end.
  assert (HI3 : SInv s3).
  { destruct (new_allocs (st_events st)) as [|[[[k aid] nid] ph] [|y t]] eqn:En; try (inversion Ea; subst; exact HI2).
    destruct (find_app s2 aid) as [a|] eqn:Eapp; [|discriminate]. destruct (find_app_some _ _ _ Eapp) as [Hina _].
    eapply m_sched_alloc4_sinv; [exact Ea|exact Hina|exact HI2|exact HB2|].
    intros n2 En2. pose proof (LFrame_find_node s s2 nid F02) as Hn. rewrite En2 in Hn.
    destruct (find_node s nid) as [n|] eqn:En0; [|contradiction]. destruct Hn as (f & Ff & Hs).
    rewrite (ns_allocs' _ _ _ Hs), (akeys_map_fp f _ Ff). apply (Hf k aid nid ph n); [rewrite En; left; reflexivity|exact En0]. }
  destruct (sched_added s st) as [|t [|t2 l]]; try (inversion H; subst; exact HI3).
  eapply LFrame_sinv; [eapply LFrame_reserve4; exact H|exact HI3]. Qed.

Lemma pick_nres_in target l dflt : pick_nres target l dflt = dflt \/ In (Some (pick_nres target l dflt)) l.
Proof. unfold pick_nres. destruct (find _ l) as [[r|]|] eqn:E; auto. right. apply find_some in E. apply E. Qed.
Lemma m_sched4_some deny s st s' : m_sched4 deny s st = Some s' -> exists cnt fx, m_sched_with deny s st cnt fx = Some s'.
Proof. unfold m_sched4. intros H. destruct (m_sched_with deny s st true false) as [r0|] eqn:E0; [|discriminate].
  apply Some_inj in H.
  match type of H with pick_nres ?t ?l ?d = _ => destruct (pick_nres_in t l d) as [Hp|Hin] end.
  - exists true, false. congruence.
  - rewrite H in Hin. destruct Hin as [Hin|[Hin|[Hin|[Hin|[]]]]]; [exists true, false; congruence|eauto|eauto|eauto]. Qed.
Lemma m_sched4_sinv deny s st s' : m_sched4 deny s st = Some s' -> SInv s -> Bounded s -> sched_fresh s st -> SInv s'.
Proof. intros H HI HB Hf. destruct (m_sched4_some _ _ _ _ H) as (cnt & fx & E). eapply m_sched_with_sinv; eassumption. Qed.

(* ------------------------------------------------------------------ releases *)
Lemma m_release_alloc_sinv s a x ttype s' : m_release_alloc s a x ttype = Some s' -> (forall y, In y (ap_requests a) -> req_ok y) ->
  SInv s -> Bounded s -> SInv s'.
Proof. intros H Hr HI HB. destruct (m_release_alloc_nodes _ _ _ _ _ H) as (n & a2 & En & Enodes & Eapps & Hreq).
  destruct (find_node_some _ _ _ En) as [Hin Hid].
  eapply (SInv_set_node s _ (on_id n) (n_remove n (oa_key x))); [exact Enodes| | | |exact HI].
  - apply n_remove_ledger; [apply HI|apply HI|apply HB]; assumption.
  - apply n_remove_wf. apply HI. assumption.
  - eapply reqs_set_app; [exact Eapps| |apply HI]. intros y Hy. apply Hr. apply Hreq. exact Hy. Qed.

Lemma m_release_alloc4_sinv s a x ttype s' : m_release_alloc4 s a x ttype = Some s' -> In a (s_apps s) -> SInv s -> Bounded s -> SInv s'.
Proof. unfold m_release_alloc4. intros H Hina HI HB.
  destruct (m_release_alloc (hide_res s (ap_id a)) (ap_set_res a []) x ttype) as [s1|] eqn:E; [|discriminate]. inversion H; subst s'; clear H.
  assert (HI1 : SInv s1).
  { eapply m_release_alloc_sinv; [exact E| |eapply LFrame_sinv; [apply LFrame_hide|exact HI]|eapply LFrame_bounded; [apply LFrame_hide|exact HB]].
    intros y Hy. eapply (si_reqs _ HI); [exact Hina|exact Hy]. }
  assert (HI2 : SInv (show_res s1 (ap_id a) (ap_reservations a))) by (eapply LFrame_sinv; [apply LFrame_show|exact HI1]).
  match goal with |- SInv (if _ then ?A else fst (r_cancel ?B _ _)) => assert (HI3 : SInv B) end.
  { destruct (_ && _); [eapply LFrame_sinv; [apply LFrame_dec_preempting|exact HI2]|exact HI2]. }
  destruct (ttype =? TT_Timeout)%N; [exact HI3|]. eapply LFrame_sinv; [apply LFrame_cancel|exact HI3]. Qed.

Lemma m_release_ask4_sinv s a x s' : m_release_ask4 s a x = Some s' -> SInv s -> SInv s'.
Proof. unfold m_release_ask4. intros H HI.
  set (s1 := fst (r_cancel s (ap_id a) (oa_key x))) in *.
  assert (HI1 : SInv s1) by (eapply LFrame_sinv; [apply LFrame_cancel|exact HI]).
  destruct (find_app s1 (ap_id a)) as [a1|] eqn:Ea; [|discriminate].
  destruct (m_release_ask (hide_res s1 (ap_id a)) (ap_set_res a1 []) x) as [s2|] eqn:E; [|discriminate]. inversion H; subst s'; clear H.
  destruct (m_release_ask_frame _ _ _ _ E) as [En HR].
  assert (HI0 : SInv (hide_res s1 (ap_id a))) by (eapply LFrame_sinv; [apply LFrame_hide|exact HI1]).
  eapply LFrame_sinv; [apply LFrame_show|]. destruct HI0 as [H1 H2 H3].
  split; [rewrite En; exact H1|rewrite En; exact H2|]. apply HR; [apply hide_in; exact Ea|exact H3]. Qed.

Lemma ask_state_check_shrink s aid : Shrink s (ask_state_check s aid).
Proof. apply Shrink_upd_app. intros b x Hx. destruct (_ && _); [rewrite ap_event_requests in Hx|]; exact Hx. Qed.
Lemma m_remove_all_asks4_sinv s aid : SInv s -> SInv (m_remove_all_asks4 s aid).
Proof. intros HI. unfold m_remove_all_asks4. destruct (find_app s aid) as [a|]; [|exact HI]. destruct (nilb (ap_requests a)); [exact HI|].
  eapply Shrink_sinv; [apply ask_state_check_shrink|]. eapply Shrink_sinv; [apply Shrink_same; reflexivity|].
  eapply Shrink_sinv; [apply Shrink_upd_app; intros b x Hx; cbn [ap_with ap_requests] in Hx; destruct Hx|].
  eapply LFrame_sinv; [apply LFrame_cancel_all|exact HI]. Qed.

Lemma m_release_all4_sinv s a ttype s' : m_release_all4 s a ttype = Some s' -> In a (s_apps s) -> SInv s -> Bounded s -> allocs_nonneg s -> SInv s'.
Proof. unfold m_release_all4. intros H Hina HI HB Hn. destruct (negb (plain_allocs a)); [discriminate|]. cbv zeta in H. inversion H; subst s'; clear H.
  match goal with |- SInv (if _ then ?S5 else _) => assert (HI5 : SInv S5) end.
  { match goal with |- SInv (add_counts ?S4 _ _) => apply (SInv_same S4); [reflexivity|reflexivity|] end.
    match goal with |- SInv (if _ then q_dec_preempting ?S3 _ _ else _) => assert (HI3 : SInv S3) end.
    { match goal with |- SInv (if _ then q_dec ?S2 _ _ else _) => assert (HI2 : SInv S2) end.
      { match goal with |- SInv (remove_allocs_from_nodes ?S1 ?L) => set (s1 := S1); set (l := L) end.
        assert (HJ : forall n, In n (s_nodes (remove_allocs_from_nodes s1 l)) -> NodeJ n).
        { apply (rafn_nodes NodeJ); [intros n key J; apply (n_remove_J n key J)|]. change (s_nodes s1) with (s_nodes s). apply NodeJ_state; assumption. }
        split; [intros n Hin; apply (nj_ledger n (HJ n Hin))|intros n Hin; apply (nj_wf n (HJ n Hin))|].
        eapply reqs_same; [apply rafn_frame|]. unfold s1. apply reqs_upd_app; [apply HI|].
        intros b y Hb _ Hy. cbn [ap_with ap_requests] in Hy. rewrite ap_event_requests in Hy.
        eapply (si_reqs _ HI); [exact Hina|exact Hy]. }
      match goal with |- SInv (if ?c then _ else _) => destruct c end; [eapply Shrink_sinv; [apply Shrink_q_dec|exact HI2]|exact HI2]. }
    match goal with |- SInv (if ?c then _ else _) => destruct c end; [eapply LFrame_sinv; [apply LFrame_dec_preempting|exact HI3]|exact HI3]. }
  match goal with |- SInv (if ?c then _ else _) => destruct c end; [exact HI5|]. apply m_remove_all_asks4_sinv. exact HI5. Qed.

Lemma m_release4_sinv s app key ttype s' : m_release4 s app key ttype = Some s' -> SInv s -> Bounded s -> (key = 0%N -> allocs_nonneg s) -> SInv s'.
Proof. unfold m_release4. intros H HI HB Hn. destruct (app =? 0)%N; [discriminate|].
  destruct (find_app s app) as [a|] eqn:Ea; [|discriminate]. destruct (find_app_some _ _ _ Ea) as [Hina _].
  destruct (key =? 0)%N eqn:Ek; [apply N.eqb_eq in Ek; eapply m_release_all4_sinv; eauto|].
  destruct (find_alloc (ap_allocs a) key) as [x|]; [eapply m_release_alloc4_sinv; eassumption|].
  destruct (find_alloc (ap_requests a) key) as [x|]; [|inversion H; subst; exact HI].
  destruct (ttype =? TT_Timeout)%N; [inversion H; subst; exact HI|]. eapply m_release_ask4_sinv; eassumption. Qed.

(* ------------------------------------------------------------------ removals *)
Lemma m_app_remove4_sinv s id s' : m_app_remove4 s id = Some s' -> SInv s -> Bounded s -> allocs_nonneg s -> SInv s'.
Proof. unfold m_app_remove4. intros H HI HB Hn. destruct (find_app s id) as [a|]; [|inversion H; subst; exact HI].
  destruct (negb (plain_allocs a)); [discriminate|]. cbv zeta in H.
  match type of H with m_app_remove (hide_res ?S2 _) _ = _ => assert (F : LFrame s (hide_res S2 id)) end.
  { eapply LFrame_trans; [|apply LFrame_hide]. eapply LFrame_trans.
    - instantiate (1 := if nilb (ap_requests a) then s else r_cancel_all s a). destruct (nilb _); [apply LFrame_refl|apply LFrame_cancel_all].
    - destruct (IsZero _); [apply LFrame_refl|apply LFrame_dec_preempting]. }
  eapply m_app_remove_sinv; [exact H|eapply LFrame_sinv; eassumption|eapply LFrame_bounded; eassumption|eapply LFrame_allocs_nonneg; eassumption]. Qed.

Lemma m_node_remove4_sinv s id s' : m_node_remove4 s id = Some s' -> SInv s -> SInv s'.
Proof. unfold m_node_remove4. intros H HI. destruct (find_node s id) as [n|]; [|inversion H; subst; exact HI].
  destruct (negb _); [discriminate|]. cbv zeta in H.
  eapply m_node_remove_sinv; [exact H|]. eapply LFrame_sinv; [|exact HI].
  eapply LFrame_trans; [|apply LFrame_upd_node; apply (n_set_res_only (fun _ => []))].
  eapply LFrame_trans; [apply (LFrame_fold (fun acc p => r_part_unreserve acc (fst p) (snd p))); intros s0 p; apply LFrame_part_unreserve|].
  match goal with |- LFrame _ (fold_left ?stp _ _) => apply (LFrame_fold stp) end.
  intros s0 x. destruct (find_app s0 (oa_app x)) as [a|]; [|apply LFrame_refl].
  destruct (_ && _); [apply LFrame_dec_preempting|apply LFrame_refl]. Qed.

(* ------------------------------------------------------------------ in-place update / placement of an existing key *)
Lemma m_alloc4_sinv s r s' st : st_op st = OpAlloc r -> m_alloc4 s r = Some s' -> SInv s -> Bounded s -> step_ok2 s st -> SInv s'.
Proof. unfold m_alloc4. intros Eop H HI HB [Hi Hf _ Hl Hd _].
  destruct (negb (rq_partition_ok r) || rq_foreign r) eqn:Eg; [discriminate|]. apply orb_false_iff in Eg. destruct Eg as [_ Hnf].
  destruct (find_app s (rq_app r)) as [a|] eqn:Ea; [|discriminate]. destruct (find_app_some _ _ _ Ea) as [Hina Eid].
  destruct (negb (rq_node r =? 0)%N && _); [discriminate|]. destruct (IsZero (rq_res r) || _); [discriminate|].
  destruct (find_alloc (ap_requests a) (rq_key r)) as [x|] eqn:Ex; [|discriminate].
  destruct (m_update_existing (hide_res s (ap_id a)) (ap_set_res a []) x r) as [s1|] eqn:E; [|discriminate]. inversion H; subst s'; clear H.
  unfold inputs_ok, bind_key_fresh2, update_listed, delta_small in *. rewrite Eop in *. destruct Hi as [Wr Sr].
  assert (Ee : existing_ask s r = Some (a, x)) by (unfold existing_ask; rewrite Ea, Ex; reflexivity).
  assert (Eu : upd_allocated s r = oa_allocated x) by (unfold upd_allocated; rewrite Hnf, Ee; reflexivity).
  assert (HI1 : SInv s1).
  { rewrite Eid in E. apply hide_find in Ea.
    apply (m_update_existing_sinv (hide_res s (rq_app r)) (ap_set_res a []) x r
             (LFrame_sinv _ _ (LFrame_hide s (rq_app r)) HI) (LFrame_bounded _ _ (LFrame_hide s (rq_app r)) HB) Ea Ex Hnf Wr Sr); [| | |exact E].
    - intros Hal n En. rewrite Eu in Hl. apply (Hl Hal a x n Ee En).
    - intros Hal. rewrite Eu in Hd. apply (Hd Hal a x Ee).
    - intros Hal n En. rewrite Eu, Hal in Hf. unfold bind_key_fresh in Hf. rewrite Eop in Hf. specialize (Hf n En). rewrite Hnf in Hf. exact Hf. }
  assert (HI2 : SInv (show_res s1 (ap_id a) (ap_reservations a))) by (eapply LFrame_sinv; [apply LFrame_show|exact HI1]).
  destruct (_ && _); [eapply LFrame_sinv; [apply LFrame_cancel|exact HI2]|exact HI2]. Qed.

(* ------------------------------------------------------------------ C01d.1: every step of the fragment preserves the invariant *)
Theorem m_step_resv_inv deny s st s' : m_step_resv deny s st = Some s' -> SInv s -> Bounded s -> step_ok2 s st -> step_ok4 s st -> SInv s'.
Proof. unfold m_step_resv, step_ok4. intros H HI HB Hok2 Hok4. destruct (st_panic st); [discriminate|].
  destruct (known_trigger s st); [discriminate|]. destruct (st_op st) eqn:Eop; try discriminate.
  - eapply m_node_remove4_sinv; eassumption.
  - eapply m_app_remove4_sinv; [exact H|exact HI|exact HB|]. pose proof (so2_nonneg _ _ Hok2) as Hn. unfold remove_nonneg in Hn. rewrite Eop in Hn. exact Hn.
  - eapply m_alloc4_sinv; eassumption.
  - eapply m_release4_sinv; eassumption.
  - eapply m_sched4_sinv; eassumption. Qed.

Theorem m_step4_inv deny s st s' : m_step4 deny s st = Some s' -> SInv s -> Bounded s -> step_ok2 s st -> step_ok4 s st -> SInv s'.
Proof. unfold m_step4. intros H HI HB Hok2 Hok4. destruct (m_step2 deny s st) as [s1|] eqn:E.
  - inversion H; subst s1. eapply m_step2_inv; eassumption.
  - eapply m_step_resv_inv; eassumption. Qed.

(* in the oracle's terms *)
Theorem m_step_resv_nodes_ledger deny s st s' :
  nodes_ledger_ok s = true -> (forall n, In n (s_nodes s) -> NodeWF n) -> reqs_from req_ok s -> Bounded s -> step_ok2 s st -> step_ok4 s st ->
  m_step_resv deny s st = Some s' -> nodes_ledger_ok s' = true.
Proof. intros HL HW HR HB Hok2 Hok4 H. apply nodes_ledger_reflect. apply (si_ledger s'). eapply m_step_resv_inv; try eassumption.
  split; [apply nodes_ledger_reflect; assumption|assumption|assumption]. Qed.
Theorem m_step4_nodes_ledger deny s st s' :
  nodes_ledger_ok s = true -> (forall n, In n (s_nodes s) -> NodeWF n) -> reqs_from req_ok s -> Bounded s -> step_ok2 s st -> step_ok4 s st ->
  m_step4 deny s st = Some s' -> nodes_ledger_ok s' = true.
Proof. intros HL HW HR HB Hok2 Hok4 H. apply nodes_ledger_reflect. apply (si_ledger s'). eapply m_step4_inv; try eassumption.
  split; [apply nodes_ledger_reflect; assumption|assumption|assumption]. Qed.

(* runs: the states visited by a list of steps, stopping at the first step outside the modelled fragments *)
Fixpoint m_run4 (deny : list (N * N)) (s : ostate) (steps : list ostep) : list ostate :=
  match steps with
  | [] => []
  | st :: t => match m_step4 deny s st with Some s' => s' :: m_run4 deny s' t | None => [] end
  end.
Fixpoint run_ok4 (deny : list (N * N)) (s : ostate) (steps : list ostep) : Prop :=
  match steps with
  | [] => True
  | st :: t => Bounded s /\ step_ok2 s st /\ step_ok4 s st /\ match m_step4 deny s st with Some s' => run_ok4 deny s' t | None => True end
  end.

Theorem m_run4_inv deny steps : forall s, SInv s -> run_ok4 deny s steps -> forall s', In s' (m_run4 deny s steps) -> SInv s'.
Proof. induction steps as [|st t IH]; intros s HI Hok s' Hin; [destruct Hin|]. cbn [m_run4 run_ok4] in *.
  destruct Hok as (HB & Hst & Hst4 & Hrest). destruct (m_step4 deny s st) as [s1|] eqn:E; [|destruct Hin].
  assert (HI1 : SInv s1) by (eapply m_step4_inv; eassumption). destruct Hin as [<-|Hin]; [assumption|]. eapply IH; eassumption. Qed.

Theorem m_run4_nodes_ledger deny steps s : SInv s -> run_ok4 deny s steps ->
  forall s', In s' (m_run4 deny s steps) -> nodes_ledger_ok s' = true.
Proof. intros HI Hok s' Hin. apply nodes_ledger_reflect. apply (si_ledger s'). eapply m_run4_inv; eassumption. Qed.

(* the writers of the reservation views, of the preempting ledger and of the marks are frames *)
Theorem frames_summary : forall s,
  (forall aid k, LFrame s (fst (r_cancel s aid k))) /\ (forall aid k, LFrame s (r_part_unreserve s aid k)) /\
  (forall a, LFrame s (r_cancel_all s a)) /\ (forall a n ask s', r_part_reserve s a n ask = Some s' -> LFrame s s') /\
  (forall l s', m_mark_victims s l = Some s' -> LFrame s s') /\
  (forall leaf r, LFrame s (q_dec_preempting s leaf r)) /\ (forall cnt mv l, LFrame s (m_cancel_phase s cnt mv l)).
Proof. intros s. repeat split; intros.
  - apply LFrame_cancel. - apply LFrame_part_unreserve. - apply LFrame_cancel_all. - eapply LFrame_part_reserve; eassumption.
  - eapply LFrame_mark_victims; eassumption. - apply LFrame_dec_preempting. - apply LFrame_cancel_phase. Qed.
