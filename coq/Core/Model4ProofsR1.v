(* C09 over the operational model: the reservation consistency invariant [RInv] on an [ostate] and the steps that
   are neutral for it.
   [RInv] (clauses named after the property text):
     views agree        r_an / r_na   application reservation (node, key)  <->  the node lists (application, key)
                        r_qcount / r_qhome / r_qnodup   Queue.reservedApps of the application's queue counts exactly the
                        reservations of the application; every entry is positive and belongs to a live application of the queue
     one per ask        r_akeys / r_nkeys   an application (a node) holds at most one reservation per allocation key
     node rule          r_nrule   two different reservations on one node: both asks require a node
     only outstanding   r_out     the ask of a reservation is registered, NOT allocated, and does not require another node
     cleanup            r_an / r_na / r_out: a reservation never refers to a removed node / application / ask
   [RInvE (Some (a, k))] exempts the reservation of ask k of application a from r_out (between tryNode and
   PartitionContext.unReserve of an AllocatedReserved decision). *)
From Coq Require Import List ZArith NArith Bool Lia ZifyBool.
From YK Require Import Base.Int64 Base.Res Core.Obs Core.Model Core.Model2 Core.Ledger Core.Model4 Core.Model4ProofsF.
Import ListNotations.
Open Scope N_scope.
Set Default Timeout 30.

Definition qcount (l : list (N * N)) (a : N) : N := match find (fun x => fst x =? a) l with Some x => snd x | None => 0 end.
Definition exempt (e : option (N * N)) (a k : N) : Prop := match e with Some p => fst p = a /\ snd p = k | None => False end.

(* an unallocated ask of the application with this key that does not require another node *)
Definition outstanding_at (a : oapp) (nid k : N) : Prop :=
  exists x, In x (ap_requests a) /\ oa_key x = k /\ oa_allocated x = false /\ (oa_reqnode x = 0 \/ oa_reqnode x = nid).
Definition required_ask (s : ostate) (p : N * N) : Prop :=
  exists a x, In a (s_apps s) /\ ap_id a = fst p /\ In x (ap_requests a) /\ oa_key x = snd p /\ oa_reqnode x <> 0.

Record RInvE (e : option (N * N)) (s : ostate) : Prop := mkRI {
  r_an : forall a nid k, In a (s_apps s) -> In (nid, k) (ap_reservations a) ->
         exists n, In n (s_nodes s) /\ on_id n = nid /\ In (ap_id a, k) (on_reservations n);
  r_na : forall n aid k, In n (s_nodes s) -> In (aid, k) (on_reservations n) ->
         exists a, In a (s_apps s) /\ ap_id a = aid /\ In (on_id n, k) (ap_reservations a);
  r_akeys : forall a, In a (s_apps s) -> NoDup (map snd (ap_reservations a));
  r_nkeys : forall n, In n (s_nodes s) -> NoDup (map snd (on_reservations n));
  r_out : forall a nid k, In a (s_apps s) -> In (nid, k) (ap_reservations a) -> ~ exempt e (ap_id a) k -> outstanding_at a nid k;
  r_qcount : forall a q, In a (s_apps s) -> In q (s_queues s) -> q_id q = ap_queue a ->
             qcount (q_reserved q) (ap_id a) = N.of_nat (length (ap_reservations a));
  r_qhome : forall q en, In q (s_queues s) -> In en (q_reserved q) ->
            0 < snd en /\ exists a, In a (s_apps s) /\ ap_id a = fst en /\ ap_queue a = q_id q;
  r_qnodup : forall q, In q (s_queues s) -> NoDup (map fst (q_reserved q));
  r_nrule : forall n p1 p2, In n (s_nodes s) -> In p1 (on_reservations n) -> In p2 (on_reservations n) -> p1 <> p2 -> required_ask s p1 }.
Definition RInv := RInvE None.

(* unique identifiers and allocation keys (kept by every step: part of [Inv] of C03) *)
Record Ids (s : ostate) : Prop := mkIds {
  id_apps : NoDup (map ap_id (s_apps s));
  id_nodes : NoDup (map on_id (s_nodes s));
  id_queues : NoDup (map q_id (s_queues s));
  id_keys : forall a1 a2 x1 x2, In a1 (s_apps s) -> In a2 (s_apps s) -> In x1 (ap_requests a1) -> In x2 (ap_requests a2) ->
            oa_key x1 = oa_key x2 -> ap_id a1 = ap_id a2;
  id_reqkeys : forall a, In a (s_apps s) -> NoDup (map oa_key (ap_requests a)) }.

(* the part of [Ids] the removal of a reservation needs *)
Record Ids0 (s : ostate) : Prop := mkIds0 { id0_apps : NoDup (map ap_id (s_apps s)); id0_nodes : NoDup (map on_id (s_nodes s)) }.
Lemma ids_ids0 s : Ids s -> Ids0 s. Proof. intros [H1 H2 _ _ _]. constructor; assumption. Qed.

Lemma exempt_none a k : ~ exempt None a k. Proof. intros []. Qed.
Lemma RInvE_weaken e s : RInvE None s -> RInvE e s.
Proof. intros [H1 H2 H3 H4 H5 H6 H7 H8 H9]. constructor; auto. Qed.

Lemma nodup_key_eq {A} (key : A -> N) l x y : NoDup (map key l) -> In x l -> In y l -> key x = key y -> x = y.
Proof. induction l as [|h t IH]; cbn [map]; intros H Hx Hy He; [contradiction|].
  inversion H as [|? ? Hn Ht]; subst. destruct Hx as [Hx|Hx]; destruct Hy as [Hy|Hy]; subst.
  - reflexivity.
  - exfalso. apply Hn. rewrite He. apply in_map. exact Hy.
  - exfalso. apply Hn. rewrite <- He. apply in_map. exact Hx.
  - apply IH; assumption. Qed.
Lemma find_in_nodup {A} (key : A -> N) l x : NoDup (map key l) -> In x l -> find (fun y => key y =? key x) l = Some x.
Proof. induction l as [|h t IH]; cbn [map find]; intros H Hx; [contradiction|]. inversion H as [|? ? Hn Ht]; subst.
  destruct Hx as [->|Hx]; [rewrite N.eqb_refl; reflexivity|]. destruct (N.eqb_spec (key h) (key x)) as [E|E]; [|apply IH; assumption].
  exfalso. apply Hn. rewrite E. apply in_map. exact Hx. Qed.
Lemma find_app_of s a : Ids0 s -> In a (s_apps s) -> find_app s (ap_id a) = Some a.
Proof. intros HI Ha. apply (find_in_nodup ap_id); [apply (id0_apps s HI)|exact Ha]. Qed.
Lemma find_node_of s n : Ids0 s -> In n (s_nodes s) -> find_node s (on_id n) = Some n.
Proof. intros HI Hn. apply (find_in_nodup on_id); [apply (id0_nodes s HI)|exact Hn]. Qed.
Lemma find_app_in s id a : find_app s id = Some a -> In a (s_apps s) /\ ap_id a = id.
Proof. unfold find_app. intros H. apply find_some in H. destruct H as [H1 H2]. apply N.eqb_eq in H2. auto. Qed.
Lemma find_node_in s id n : find_node s id = Some n -> In n (s_nodes s) /\ on_id n = id.
Proof. unfold find_node. intros H. apply find_some in H. destruct H as [H1 H2]. apply N.eqb_eq in H2. auto. Qed.

(* ------------------------------------------------------------------ neutral steps *)
(* every application / node / queue record is mapped by a function that keeps identity and reservation fields; an
   outstanding ask (other than the exempted one) stays outstanding; required-node asks stay *)
Record NFrame (e e' : option (N * N)) (s s' : ostate) (fa : oapp -> oapp) (fn : onode -> onode) (fq : oqueue -> oqueue) : Prop := mkNF {
  nf_apps : s_apps s' = map fa (s_apps s); nf_nodes : s_nodes s' = map fn (s_nodes s); nf_queues : s_queues s' = map fq (s_queues s);
  nf_aid : forall a, In a (s_apps s) -> ap_id (fa a) = ap_id a; nf_aq : forall a, In a (s_apps s) -> ap_queue (fa a) = ap_queue a;
  nf_ares : forall a, In a (s_apps s) -> ap_reservations (fa a) = ap_reservations a;
  nf_nid : forall n, In n (s_nodes s) -> on_id (fn n) = on_id n; nf_nres : forall n, In n (s_nodes s) -> on_reservations (fn n) = on_reservations n;
  nf_qid : forall q, In q (s_queues s) -> q_id (fq q) = q_id q; nf_qres : forall q, In q (s_queues s) -> q_reserved (fq q) = q_reserved q;
  nf_out : forall a nid k, In a (s_apps s) -> In (nid, k) (ap_reservations a) -> ~ exempt e' (ap_id a) k -> outstanding_at a nid k -> outstanding_at (fa a) nid k;
  nf_ex : forall a k, exempt e a k -> exempt e' a k;
  nf_req : forall p, required_ask s p -> (exists a nid, In a (s_apps s) /\ ap_id a = fst p /\ In (nid, snd p) (ap_reservations a)) -> required_ask s' p }.

Theorem NFrame_rinv e e' s s' fa fn fq : NFrame e e' s s' fa fn fq -> RInvE e s -> RInvE e' s'.
Proof. intros [Ea En Eq A1 A2 A3 N1 N2 Q1 Q2 Ho Hex Hreq] [H1 H2 H3 H4 H5 H6 H7 H8 H9].
  assert (IA : forall a', In a' (s_apps s') -> exists a, In a (s_apps s) /\ a' = fa a).
  { intros a' Ha'. rewrite Ea in Ha'. apply in_map_iff in Ha'. destruct Ha' as (a & <- & Ha). eauto. }
  assert (IN : forall n', In n' (s_nodes s') -> exists n, In n (s_nodes s) /\ n' = fn n).
  { intros n' Hn'. rewrite En in Hn'. apply in_map_iff in Hn'. destruct Hn' as (n & <- & Hn). eauto. }
  assert (IQ : forall q', In q' (s_queues s') -> exists q, In q (s_queues s) /\ q' = fq q).
  { intros q' Hq'. rewrite Eq in Hq'. apply in_map_iff in Hq'. destruct Hq' as (q & <- & Hq). eauto. }
  constructor.
  - intros a' nid k Ha' Hr. destruct (IA a' Ha') as (a & Ha & ->). rewrite (A3 a Ha) in Hr. rewrite (A1 a Ha).
    destruct (H1 a nid k Ha Hr) as (n & Hn & Eid & Hin). exists (fn n). rewrite En, (N1 n Hn), (N2 n Hn). split; [apply in_map; exact Hn|auto].
  - intros n' aid k Hn' Hr. destruct (IN n' Hn') as (n & Hn & ->). rewrite (N2 n Hn) in Hr. rewrite (N1 n Hn).
    destruct (H2 n aid k Hn Hr) as (a & Ha & Eid & Hin). exists (fa a). rewrite Ea, (A1 a Ha), (A3 a Ha). split; [apply in_map; exact Ha|auto].
  - intros a' Ha'. destruct (IA a' Ha') as (a & Ha & ->). rewrite (A3 a Ha). auto.
  - intros n' Hn'. destruct (IN n' Hn') as (n & Hn & ->). rewrite (N2 n Hn). auto.
  - intros a' nid k Ha' Hr Hne. destruct (IA a' Ha') as (a & Ha & ->). rewrite (A3 a Ha) in Hr. rewrite (A1 a Ha) in Hne.
    apply (Ho a nid k Ha Hr Hne). apply (H5 a nid k Ha Hr). intros C. apply Hne. apply Hex. exact C.
  - intros a' q' Ha' Hq' Eid. destruct (IA a' Ha') as (a & Ha & ->). destruct (IQ q' Hq') as (q & Hq & ->).
    rewrite (Q1 q Hq), (A2 a Ha) in Eid. rewrite (Q2 q Hq), (A1 a Ha), (A3 a Ha). auto.
  - intros q' en Hq' Hen. destruct (IQ q' Hq') as (q & Hq & ->). rewrite (Q2 q Hq) in Hen. destruct (H7 q en Hq Hen) as (Hp & a & Ha & E1 & E2).
    split; [exact Hp|]. exists (fa a). rewrite Ea, (A1 a Ha), (A2 a Ha), (Q1 q Hq). split; [apply in_map; exact Ha|auto].
  - intros q' Hq'. destruct (IQ q' Hq') as (q & Hq & ->). rewrite (Q2 q Hq). auto.
  - intros n' p1 p2 Hn' Hp1 Hp2 Hne. destruct (IN n' Hn') as (n & Hn & ->). rewrite (N2 n Hn) in Hp1, Hp2.
    apply Hreq; [apply (H9 n p1 p2 Hn Hp1 Hp2 Hne)|]. destruct p1 as [aid k]. destruct (H2 n aid k Hn Hp1) as (a & Ha & Eid & Hin). exists a, (on_id n). auto. Qed.

(* a frame that keeps every allocation record up to a field-preserving relabelling keeps all asks *)
Lemma outstanding_map f a a' nid k : FP f -> ap_requests a' = map f (ap_requests a) -> outstanding_at a nid k -> outstanding_at a' nid k.
Proof. intros Hf E (x & Hx & E1 & E2 & E3). exists (f x). rewrite E, (fp_key f Hf), (fp_allocated f Hf), (fp_reqnode f Hf).
  split; [apply in_map; exact Hx|auto]. Qed.
