(* C09 over the operational model, part 3: every scheduling cycle the fourth fragment accepts ([m_sched4]) preserves the
   reservation invariant [RInv] (and the uniqueness of identifiers / allocation keys [Ids]). *)
From Coq Require Import List ZArith NArith Bool Lia ZifyBool ZifyN.
From YK Require Import Base.Int64 Base.Res Core.Obs Core.Model Core.Model2 Core.Ledger Core.Model4 Core.NodeProofs Core.StepProofs
  Core.Model4ProofsF Core.Model4ProofsR1 Core.Model4ProofsR2.
Import ListNotations.
Open Scope N_scope.
Set Default Timeout 30.

(* ------------------------------------------------------------------ states with the same reservation-relevant content *)
Lemma RInvE_same e s s' : s_apps s' = s_apps s -> s_nodes s' = s_nodes s -> s_queues s' = s_queues s -> RInvE e s -> RInvE e s'.
Proof. intros Ea En Eq [H1 H2 H3 H4 H5 H6 H7 H8 H9]. unfold required_ask in *. constructor; rewrite ?Ea, ?En, ?Eq; auto.
  intros n p1 p2 Hn Hp1 Hp2 Hne. destruct (H9 n p1 p2 Hn Hp1 Hp2 Hne) as (a & x & Ha & R). exists a, x. rewrite Ea. auto. Qed.
Lemma Ids_same s s' : s_apps s' = s_apps s -> s_nodes s' = s_nodes s -> s_queues s' = s_queues s -> Ids s -> Ids s'.
Proof. intros Ea En Eq [H1 H2 H3 H4 H5]. constructor; rewrite ?Ea, ?En, ?Eq; auto. Qed.

Theorem LFrame_ids s s' : LFrame s s' -> Ids s -> Ids s'.
Proof. intros (f & fa & fn & fq & F & A & Nn & Q & L) [H1 H2 H3 H4 H5]. destruct L as [Ea En Eq _ _ _]. constructor.
  - rewrite Ea, map_map. erewrite map_ext; [exact H1|]. intros a. apply (as_id _ _ _ (A a)).
  - rewrite En, map_map. erewrite map_ext; [exact H2|]. intros n. apply (ns_id _ _ _ (Nn n)).
  - rewrite Eq, map_map. erewrite map_ext; [exact H3|]. intros q. apply (qs_id _ _ (Q q)).
  - intros a1' a2' x1' x2' Ha1 Ha2 Hx1 Hx2 Ek. rewrite Ea in Ha1, Ha2. apply in_map_iff in Ha1, Ha2.
    destruct Ha1 as (a1 & <- & Ha1). destruct Ha2 as (a2 & <- & Ha2).
    rewrite (as_requests _ _ _ (A a1)) in Hx1. rewrite (as_requests _ _ _ (A a2)) in Hx2. apply in_map_iff in Hx1, Hx2.
    destruct Hx1 as (x1 & <- & Hx1). destruct Hx2 as (x2 & <- & Hx2). rewrite !(fp_key f F) in Ek.
    rewrite (as_id _ _ _ (A a1)), (as_id _ _ _ (A a2)). eapply H4; eassumption.
  - intros a' Ha'. rewrite Ea in Ha'. apply in_map_iff in Ha'. destruct Ha' as (a & <- & Ha). rewrite (as_requests _ _ _ (A a)), map_map.
    erewrite map_ext; [apply (H5 a Ha)|]. intros x. apply (fp_key f F). Qed.

Theorem r_part_unreserve_rinv e s aid k : Ids0 s -> RInvE e s -> RInvE e (r_part_unreserve s aid k).
Proof. intros HI HR. unfold r_part_unreserve. pose proof (r_cancel_rinv e s aid k HI HR) as H. destruct (r_cancel s aid k) as [s1 num]. cbn [fst] in H.
  apply (RInvE_same e s1); auto. Qed.
Theorem r_part_unreserve_rinv_exempt s a k : Ids0 s -> In a (s_apps s) -> RInvE (Some (ap_id a, k)) s -> RInvE None (r_part_unreserve s (ap_id a) k).
Proof. intros HI Ha HR. unfold r_part_unreserve. pose proof (r_cancel_rinv_exempt s a k HI Ha HR) as H. destruct (r_cancel s (ap_id a) k) as [s1 num]. cbn [fst] in H.
  apply (RInvE_same None s1); auto. Qed.

(* ------------------------------------------------------------------ 1. reservations given up *)
Lemma cancel_one_ok s0 cnt mv s t : Ids s -> RInv s -> Ids (m_cancel_one s0 cnt mv s t) /\ RInv (m_cancel_one s0 cnt mv s t).
Proof. intros HI HR. split; [eapply LFrame_ids; [apply RFrame_LFrame, RFrame_cancel_one|exact HI]|].
  unfold m_cancel_one. destruct (_ || _); [apply r_part_unreserve_rinv|apply r_cancel_rinv]; try assumption; apply ids_ids0; assumption. Qed.
Lemma cancel_fold_ok s0 cnt mv l : forall s, Ids s -> RInv s ->
  Ids (fold_left (m_cancel_one s0 cnt mv) l s) /\ RInv (fold_left (m_cancel_one s0 cnt mv) l s).
Proof. induction l as [|t r IH]; intros s HI HR; [auto|]. cbn [fold_left].
  destruct (cancel_one_ok s0 cnt mv s t HI HR) as [HI1 HR1]. apply IH; assumption. Qed.
Lemma cancel_phase_ok s0 cnt mv l : Ids s0 -> RInv s0 -> Ids (m_cancel_phase s0 cnt mv l) /\ RInv (m_cancel_phase s0 cnt mv l).
Proof. intros HI HR. apply cancel_fold_ok; assumption. Qed.

(* ------------------------------------------------------------------ 2. victims *)
Lemma mark_victim_ok s aid k s' : m_mark_victim s aid k = Some s' -> RInv s -> RInv s'.
Proof. unfold m_mark_victim. destruct (find_app s aid) as [a|]; [|discriminate]. destruct (find_alloc _ _) as [x|]; [|discriminate].
  destruct (_ || _); [discriminate|]. intros H HR. inversion H; subst s'; clear H.
  set (f := mark_fn aid k). pose proof (FP_mark aid k) as Ff. fold f in Ff.
  eapply (NFrame_rinv None None s _ _ _ _); [|exact HR]. unfold q_inc_preempting, on_path, upd_queues, relabel. cbn [s_apps s_nodes s_queues].
  constructor; try reflexivity.
  - intros q _. cbv beta. destruct (memN _ _); reflexivity.
  - intros q _. cbv beta. destruct (memN _ _); reflexivity.
  - intros b nid0 k0 Hb Hr _ Ho. eapply (outstanding_map f); [exact Ff| |exact Ho]. reflexivity.
  - auto.
  - intros p (b & y & Hb & E1 & Hy & E2 & E3) _. eexists _, (f y). cbn [s_apps]. split; [apply in_map; exact Hb|]. cbn [ap_with ap_id ap_requests].
    rewrite (fp_key f Ff), (fp_reqnode f Ff). split; [exact E1|]. split; [apply in_map; exact Hy|auto]. Qed.
Lemma mark_victims_ok l : forall s s', m_mark_victims s l = Some s' -> RInv s -> RInv s'.
Proof. induction l as [|p t IH]; intros s s' H HR; cbn [m_mark_victims] in H; [inversion H; subst; exact HR|].
  destruct (m_mark_victim s (snd p) (fst p)) as [s1|] eqn:E; [|discriminate]. eapply IH; [exact H|]. eapply mark_victim_ok; eassumption. Qed.

(* ------------------------------------------------------------------ 3. the allocation *)
Lemma m_bind_shape s a ask n nid s' : m_bind s a ask n nid = Some s' ->
  exists n' a2 g,
    s_nodes s' = map (fun m => if on_id m =? nid then n' else m) (s_nodes s) /\ on_id n' = on_id n /\ on_reservations n' = on_reservations n /\
    s_apps s' = map (fun b => if ap_id b =? ap_id a then a2 else b) (s_apps s) /\ ap_id a2 = ap_id a /\ ap_queue a2 = ap_queue a /\
    ap_reservations a2 = ap_reservations a /\ ap_requests a2 = put_alloc (oa_bound ask nid) (ap_requests a) /\
    s_queues s' = map g (s_queues s) /\ (forall q, q_id (g q) = q_id q /\ q_reserved (g q) = q_reserved q).
Proof. unfold m_bind. intros H. destruct (n_add n (oa_bound ask nid) false) as [n'|] eqn:E7; [|discriminate].
  unfold q_try_inc in H. match type of H with match (if ?c then _ else None) with _ => _ end = _ => destruct c; [|discriminate] end.
  inversion H; subst s'; clear H. destruct (n_add_id _ _ _ _ E7) as (I1 & _ & _ & I4).
  eexists n', _, _. split; [reflexivity|]. split; [exact I1|]. split; [exact I4|].
  split; [cbn [add_counts upd_app q_dec_pending on_path upd_queues upd_node s_apps]; reflexivity|].
  split; [cbn [ap_with ap_id]; apply ap_event_id|]. split; [cbn [ap_with ap_queue]; unfold ap_event; destruct (_ =? _); reflexivity|].
  split; [cbn [ap_with ap_reservations]; unfold ap_event; destruct (_ =? _); reflexivity|].
  split; [cbn [ap_with ap_requests]; rewrite ap_event_requests; reflexivity|].
  split.
  - cbn [add_counts upd_app s_queues q_dec_pending on_path upd_queues upd_node]. rewrite map_map. reflexivity.
  - intros q. cbv beta. destruct (memN (q_id q) _).
    + cbn [q_with q_id]. destruct (memN _ _); [destruct (SubErrorNegative _ _)|]; split; reflexivity.
    + destruct (memN _ _); [destruct (SubErrorNegative _ _)|]; split; reflexivity. Qed.

Lemma in_put_alloc_other x l y : In y l -> oa_key y <> oa_key x -> In y (put_alloc x l).
Proof. intros Hy Hk. right. apply filter_In. split; [exact Hy|]. apply negb_true_iff, N.eqb_neq. exact Hk. Qed.

Lemma m_bind_ok s a ask n s' : Ids s -> RInv s -> In a (s_apps s) -> In n (s_nodes s) -> In ask (ap_requests a) ->
  m_bind s a ask n (on_id n) = Some s' -> Ids s' /\ RInvE (Some (ap_id a, oa_key ask)) s'.
Proof. intros HI HR Ha Hn Hask H. destruct (m_bind_shape _ _ _ _ _ _ H) as (n' & a2 & g & En & N1 & N2 & Ea & A1 & A2 & A3 & A4 & Eq & G).
  assert (Sa : forall b, In b (s_apps s) -> ap_id b = ap_id a -> b = a) by (intros b Hb E; apply (nodup_key_eq ap_id (s_apps s)); auto; apply (id_apps s HI)).
  assert (Sn : forall m, In m (s_nodes s) -> on_id m = on_id n -> m = n) by (intros m Hm E; apply (nodup_key_eq on_id (s_nodes s)); auto; apply (id_nodes s HI)).
  split.
  - destruct HI as [H1 H2 H3 H4 H5]. constructor.
    + rewrite Ea, map_map. erewrite map_ext_in; [exact H1|]. intros b Hb. cbv beta. destruct (N.eqb_spec (ap_id b) (ap_id a)); congruence.
    + rewrite En, map_map. erewrite map_ext_in; [exact H2|]. intros m Hm. cbv beta. destruct (N.eqb_spec (on_id m) (on_id n)); congruence.
    + rewrite Eq, map_map. erewrite map_ext; [exact H3|]. intros q. apply G.
    + intros b1' b2' x1 x2 Hb1 Hb2 Hx1 Hx2 Ek. rewrite Ea in Hb1, Hb2. apply in_map_iff in Hb1, Hb2.
      destruct Hb1 as (b1 & <- & Hb1). destruct Hb2 as (b2 & <- & Hb2).
      assert (K : forall b x, In b (s_apps s) -> In x (ap_requests (if ap_id b =? ap_id a then a2 else b)) ->
                  ap_id (if ap_id b =? ap_id a then a2 else b) = ap_id b /\ exists x0, In x0 (ap_requests b) /\ oa_key x0 = oa_key x).
      { intros b x Hb Hx. destruct (N.eqb_spec (ap_id b) (ap_id a)) as [E|E]; [|eauto].
        assert (b = a) by (apply Sa; assumption). subst b. split; [exact A1|]. rewrite A4 in Hx. destruct Hx as [<-|Hx]; [exists ask; auto|].
        apply filter_In in Hx. exists x. tauto. }
      destruct (K b1 x1 Hb1 Hx1) as (Ei1 & y1 & Hy1 & Ek1). destruct (K b2 x2 Hb2 Hx2) as (Ei2 & y2 & Hy2 & Ek2). rewrite Ei1, Ei2.
      apply (H4 b1 b2 y1 y2 Hb1 Hb2 Hy1 Hy2). congruence.
    + intros b' Hb'. rewrite Ea in Hb'. apply in_map_iff in Hb'. destruct Hb' as (b & <- & Hb). destruct (N.eqb_spec (ap_id b) (ap_id a)) as [E|E]; [|auto].
      rewrite A4. apply akeys_put_nodup. apply (H5 a Ha).
  - eapply (NFrame_rinv None (Some (ap_id a, oa_key ask)) s s' _ _ g); [|exact HR].
    constructor; [exact Ea|exact En|exact Eq| | | | | | | | | |].
    + intros b Hb. cbv beta. destruct (N.eqb_spec (ap_id b) (ap_id a)); congruence.
    + intros b Hb. cbv beta. destruct (N.eqb_spec (ap_id b) (ap_id a)) as [E|E]; [rewrite (Sa b Hb E); exact A2|reflexivity].
    + intros b Hb. cbv beta. destruct (N.eqb_spec (ap_id b) (ap_id a)) as [E|E]; [rewrite (Sa b Hb E); exact A3|reflexivity].
    + intros m Hm. cbv beta. destruct (N.eqb_spec (on_id m) (on_id n)); congruence.
    + intros m Hm. cbv beta. destruct (N.eqb_spec (on_id m) (on_id n)) as [E|E]; [rewrite (Sn m Hm E); exact N2|reflexivity].
    + intros q _. apply G.
    + intros q _. apply G.
    + intros b nid0 k0 Hb Hr Hne Ho. cbv beta. destruct (N.eqb_spec (ap_id b) (ap_id a)) as [E|E]; [|exact Ho].
      assert (b = a) by (apply Sa; assumption). subst b. destruct Ho as (x & Hx & E1 & E2 & E3). exists x. rewrite A4.
      split; [|auto]. apply in_put_alloc_other; [exact Hx|]. cbn [oa_bound oa_key]. intros C. apply Hne. cbn [exempt fst snd]. split; [reflexivity|congruence].
    + intros a0 k0 [].
    + intros p (b & x & Hb & E1 & Hx & E2 & E3) _.
      destruct (N.eqb_spec (ap_id b) (ap_id a)) as [E|E].
      * assert (b = a) by (apply Sa; assumption). subst b. destruct (N.eq_dec (oa_key x) (oa_key ask)) as [Ek|Ek].
        -- exists a2, (oa_bound ask (on_id n)). rewrite Ea, A1, A4. split; [apply in_map_iff; exists a; rewrite N.eqb_refl; auto|].
           split; [exact E1|]. split; [left; reflexivity|]. cbn [oa_bound oa_key oa_reqnode]. split; [congruence|].
           (* the ask with this key is [ask] itself: keys are unique *)
           intros C. apply E3. assert (x = ask); [|congruence].
           apply (nodup_key_eq oa_key (ap_requests a)); auto. apply (id_reqkeys s HI a Ha).
        -- exists a2, x. rewrite Ea, A1, A4. split; [apply in_map_iff; exists a; rewrite N.eqb_refl; auto|]. split; [exact E1|].
           split; [apply in_put_alloc_other; assumption|auto].
      * exists b, x. rewrite Ea. split; [apply in_map_iff; exists b; apply N.eqb_neq in E; rewrite E; auto|auto]. Qed.

Lemma m_sched_alloc4_ok deny s a k nid s' : Ids s -> RInv s -> In a (s_apps s) -> m_sched_alloc4 deny s a k nid = Some s' -> Ids s' /\ RInv s'.
Proof. intros HI HR Ha H. unfold m_sched_alloc4 in H.
  destruct (find_alloc (ap_requests a) k) as [ask|] eqn:Eask; [|discriminate]. destruct (find_node s nid) as [n|] eqn:En; [|discriminate].
  destruct (oa_allocated ask || oa_ph ask); [discriminate|]. destruct (negb _); [discriminate|].
  destruct (m_bind s a ask n nid) as [s1|] eqn:Eb; [|discriminate]. inversion H; subst s'; clear H.
  apply find_alloc_some in Eask. destruct Eask as [Hask Ek]. destruct (find_node_in _ _ _ En) as [Hn Enid]. subst nid k.
  destruct (m_bind_ok s a ask n s1 HI HR Ha Hn Hask Eb) as [HI1 HR1]. split.
  - eapply LFrame_ids; [apply LFrame_part_unreserve|exact HI1].
  - (* the application record after the binding *)
    destruct (m_bind_shape _ _ _ _ _ _ Eb) as (n' & a2 & g & _ & _ & _ & Ea & A1 & _).
    assert (Ha2 : In a2 (s_apps s1)) by (rewrite Ea; apply in_map_iff; exists a; rewrite N.eqb_refl; auto).
    rewrite <- A1. apply (r_part_unreserve_rinv_exempt s1 a2 (oa_key ask) (ids_ids0 _ HI1) Ha2). rewrite A1. exact HR1. Qed.

(* ------------------------------------------------------------------ 4. the reservation *)
Lemma r_part_reserve_add s a n ask s' : r_part_reserve s a n ask = Some s' ->
  s' = s \/ (r_node_reserve_ok s n ask = Some true /\ oa_allocated ask = false /\
             s_apps s' = s_apps (add_state s a n (oa_key ask)) /\ s_nodes s' = s_nodes (add_state s a n (oa_key ask)) /\ s_queues s' = s_queues (add_state s a n (oa_key ask))).
Proof. unfold r_part_reserve. destruct (oa_allocated ask) eqn:Ea; [intros H; inversion H; auto|].
  destruct (r_node_reserve_ok s n ask) as [[|]|] eqn:E; intros H; inversion H; subst s'; clear H; [|auto]. right. auto. Qed.

Lemma node_reserve_required s n ask : r_node_reserve_ok s n ask = Some true ->
  if oa_reqnode ask =? 0 then on_reservations n = [] else forall p, In p (on_reservations n) -> required_ask s p.
Proof. unfold r_node_reserve_ok. destruct (oa_reqnode ask =? 0).
  - intros H. inversion H as [H1]. apply andb_true_iff in H1. destruct H1 as [H1 _]. destruct (on_reservations n); [reflexivity|discriminate].
  - destruct (forallb _ _) eqn:E1; [|discriminate]. intros H. inversion H as [H1]. apply andb_true_iff in H1. destruct H1 as [H1 _].
    rewrite forallb_forall in H1. intros p Hp. specialize (H1 p Hp). unfold res_required, find_ask in H1.
    destruct (find_app s (fst p)) as [b|] eqn:Eb; [|discriminate]. destruct (find_alloc (ap_requests b) (snd p)) as [x|] eqn:Ex; [|discriminate].
    destruct (find_app_in _ _ _ Eb) as [Hb Eid]. apply find_alloc_some in Ex. destruct Ex as [Hx Ek].
    exists b, x. apply negb_true_iff, N.eqb_neq in H1. auto. Qed.

Lemma m_reserve4_ok deny s pre aid nid k s' : Ids s -> RInv s -> m_reserve4 deny s pre aid nid k = Some s' -> Ids s' /\ RInv s'.
Proof. intros HI HR H. split; [eapply LFrame_ids; [eapply LFrame_reserve4; exact H|exact HI]|]. unfold m_reserve4 in H.
  destruct (find_app s aid) as [a|] eqn:Ea; [|discriminate]. destruct (find_node s nid) as [n|] eqn:En; [|discriminate].
  destruct (find_alloc (ap_requests a) k) as [ask|] eqn:Eask; [|discriminate]. destruct (existsb (key_is k) (ap_reservations a)) eqn:Eex; [discriminate|].
  match type of H with (if negb ?c then None else _) = _ => destruct c eqn:Edec; [|discriminate] end. cbn [negb] in H.
  destruct (find_app_in _ _ _ Ea) as [Ha Eaid]. destruct (find_node_in _ _ _ En) as [Hn Enid]. apply find_alloc_some in Eask. destruct Eask as [Hask Ek]. subst aid nid k.
  destruct (r_part_reserve_add _ _ _ _ _ H) as [->|(Eok & Ena & E1 & E2 & E3)]; [exact HR|].
  apply (RInvE_same None (add_state s a n (oa_key ask))); [exact E1|exact E2|exact E3|].
  apply (add_rinv s a n ask HI HR Ha Hn Hask Ena).
  - destruct (oa_reqnode ask =? 0) eqn:Er; cbn [negb] in Edec; [left; apply N.eqb_eq; exact Er|right; apply N.eqb_eq; exact Edec].
  - intros p Hp C. assert (X : existsb (key_is (oa_key ask)) (ap_reservations a) = true); [|congruence].
    apply existsb_exists. exists p. split; [exact Hp|]. unfold key_is. apply N.eqb_eq. exact C.
  - apply node_reserve_required. exact Eok. Qed.

(* ------------------------------------------------------------------ C09d.1: the scheduling cycle *)
Theorem m_sched_with_ok deny s st cnt fx s' : Ids s -> RInv s -> m_sched_with deny s st cnt fx = Some s' -> Ids s' /\ RInv s'.
Proof. unfold m_sched_with. cbv zeta. intros HI HR H.
  match type of H with (if ?c then None else _) = _ => destruct c; [discriminate|] end.
  match type of H with (if ?c then None else _) = _ => destruct c; [discriminate|] end.
  match type of H with (if ?c then None else _) = _ => destruct c; [discriminate|] end.
  match type of H with match m_mark_victims ?S1 ?V with _ => _ end = _ => set (s1 := S1) in *; destruct (m_mark_victims s1 V) as [s2|] eqn:Ev; [|discriminate] end.
  destruct (cancel_phase_ok s cnt (fun t => fx && negb (nilb (victims_of (st_events st))) && is_moved (sched_added s st) t)
              (filter (fun t => negb (existsb (fun x => (fst (fst (fst x)) =? snd t) && (snd (fst (fst x)) =? fst (fst t))) (new_allocs (st_events st))))
                      (sched_removed s st)) HI HR) as [HI1 HR1]. fold s1 in HI1, HR1.
  assert (HI2 : Ids s2) by (eapply LFrame_ids; [eapply LFrame_mark_victims; exact Ev|exact HI1]).
  assert (HR2 : RInv s2) by (eapply mark_victims_ok; eassumption).
  match type of H with match ?X with Some _ => _ | None => None end = _ => destruct X as [s3|] eqn:Ea; [|discriminate] end.
  assert (H3 : Ids s3 /\ RInv s3).
  { destruct (new_allocs (st_events st)) as [|[[[k aid] nid] ph] [|y t]] eqn:En; try (inversion Ea; subst; split; assumption).
    destruct (find_app s2 aid) as [a|] eqn:Eapp; [|discriminate]. destruct (find_app_in _ _ _ Eapp) as [Hina _].
    eapply m_sched_alloc4_ok; eassumption. }
  destruct H3 as [HI3 HR3].
  destruct (sched_added s st) as [|t [|t2 l]]; try (inversion H; subst; split; assumption).
  eapply m_reserve4_ok; eassumption. Qed.
