(* Proofs for Core/AppLife.v (property C10). *)
From Coq Require Import List NArith Bool Lia.
From YK Require Import Core.Obs Generated.AppFsm Core.AppLife.
Import ListNotations.
Open Scope N_scope.

(* ---- finite checks over the generated table (the proof obligation that breaks when eventDesc() changes) ---- *)
Lemma table_in_doc_ok : table_in_doc app_fsm_table = true.
Proof. vm_compute. reflexivity. Qed.
Lemma doc_in_table_ok : doc_in_table app_fsm_table = true.
Proof. vm_compute. reflexivity. Qed.
Lemma table_functional_ok : table_functional app_fsm_table = true.
Proof. vm_compute. reflexivity. Qed.
Lemma table_wellformed_ok : table_wellformed app_fsm_table = true.
Proof. vm_compute. reflexivity. Qed.
Lemma table_terminal_ok : table_terminal app_fsm_table = true.
Proof. vm_compute. reflexivity. Qed.
Lemma table_size_ok : app_fsm_nstates = 10 /\ app_fsm_nevents = 6.
Proof. split; reflexivity. Qed.

Lemma documented_in : forall a b, documented a b = true <-> In (a, b) doc_pairs.
Proof.
  intros a b. unfold documented. rewrite existsb_exists. split.
  - intros [[x y] [Hin Heq]]. cbn [fst snd] in Heq. apply andb_true_iff in Heq as [H1 H2].
    apply N.eqb_eq in H1. apply N.eqb_eq in H2. subst. exact Hin.
  - intros Hin. exists (a, b). split; [exact Hin|]. cbn [fst snd]. now rewrite !N.eqb_refl.
Qed.

(* every transition of the real state machine that changes the state is documented,
   and every documented change is produced by some event of the real state machine *)
Theorem fsm_documented :
  (forall s e d, In (s, e, d) app_fsm_table -> s = d \/ documented s d = true) /\
  (forall a b, documented a b = true -> exists e, In (a, e, b) app_fsm_table).
Proof.
  split.
  - intros s e d Hin. pose proof table_in_doc_ok as H. unfold table_in_doc in H.
    rewrite forallb_forall in H. specialize (H _ Hin). cbn beta iota in H.
    apply orb_true_iff in H as [H|H]; [left; now apply N.eqb_eq|right; exact H].
  - intros a b Hd. apply documented_in in Hd.
    pose proof doc_in_table_ok as H. unfold doc_in_table in H. rewrite forallb_forall in H.
    specialize (H _ Hd). rewrite existsb_exists in H. destruct H as [[[s e] d] [Hin Heq]].
    cbn [fst snd] in Heq. apply andb_true_iff in Heq as [H1 H2].
    apply N.eqb_eq in H1. apply N.eqb_eq in H2. subst. now exists e.
Qed.

Lemma fsm_lookup_in : forall t s e d, fsm_lookup t s e = Some d -> In (s, e, d) t.
Proof.
  induction t as [|[[s' e'] d'] r IH]; intros s e d H; cbn in H; [discriminate|].
  destruct ((s' =? s) && (e' =? e)) eqn:E.
  - apply andb_true_iff in E as [E1 E2]. apply N.eqb_eq in E1. apply N.eqb_eq in E2. inversion H. subst. now left.
  - right. now apply IH.
Qed.

(* one event: either the state is unchanged or the move is documented (and only a real move is recorded) *)
Theorem handle_event_documented : forall s e,
  match handle_event s e with
  | (d, Moved) => documented s d = true /\ d <> s
  | (d, _) => d = s
  end.
Proof.
  intros s e. unfold handle_event, handle_event_with.
  destruct (fsm_lookup app_fsm_table s e) as [d|] eqn:L; [|reflexivity].
  destruct (d =? s) eqn:E; [reflexivity|].
  apply N.eqb_neq in E. split; [|exact E].
  apply fsm_lookup_in in L. destruct (proj1 fsm_documented _ _ _ L) as [H|H]; [congruence|exact H].
Qed.

Lemma handle_event_step : forall s e, let d := fst (handle_event s e) in (d =? s) || documented s d = true.
Proof.
  intros s e. pose proof (handle_event_documented s e) as H. cbn zeta.
  destruct (handle_event s e) as [d r]. cbn [fst]. destruct r.
  - destruct H as [H _]. rewrite H. now rewrite orb_true_r.
  - subst. now rewrite N.eqb_refl.
  - subst. now rewrite N.eqb_refl.
Qed.

(* along any sequence of events from any state every consecutive pair of distinct states is documented *)
Lemma visited_chain : forall es s, chain_ok s (visited s es) = true.
Proof.
  induction es as [|e t IH]; intros s; cbn [visited chain_ok]; [reflexivity|].
  rewrite (handle_event_step s e). cbn. apply IH.
Qed.

Lemma last_cons_default : forall (l : list N) x a b, last (x :: l) a = last (x :: l) b.
Proof. induction l as [|y t IH]; intros x a b; [reflexivity|]. change (last (y :: t) a = last (y :: t) b). apply IH. Qed.

Lemma chain_strict_app : forall l s d, chain_strict s (l ++ [d]) = chain_strict s l && documented (last l s) d.
Proof.
  induction l as [|x t IH]; intros s d.
  - cbn. now rewrite andb_true_r.
  - cbn [app chain_strict]. rewrite IH. rewrite <- andb_assoc. f_equal. f_equal.
    destruct t as [|n t']; [reflexivity|]. change (last (x :: n :: t') s) with (last (n :: t') s).
    f_equal. apply last_cons_default.
Qed.

Definition al_inv (a : alife) : Prop := chain_strict ST_New (al_log a) = true /\ al_state a = last (al_log a) ST_New.

Lemma al_step_inv : forall a e, al_inv a -> al_inv (al_step a e).
Proof.
  intros a e [Hc Hs]. unfold al_step. pose proof (handle_event_documented (al_state a) e) as H.
  destruct (handle_event (al_state a) e) as [d r]. destruct r; try (split; assumption).
  destruct H as [Hd _]. split; cbn [al_log al_state].
  - rewrite chain_strict_app, Hc, <- Hs, Hd. reflexivity.
  - now rewrite last_last.
Qed.

Lemma al_run_inv : forall es a, al_inv a -> al_inv (al_run a es).
Proof. induction es as [|e t IH]; intros a H; cbn; [exact H|]. apply IH. now apply al_step_inv. Qed.

(* the state log and the reported state of an application driven by ANY sequence of events from New:
   consecutive log entries (starting from New) are documented moves, the current state is the last entry *)
Theorem trace_documented : forall es,
  chain_ok ST_New (visited ST_New es) = true /\
  chain_strict ST_New (al_log (al_run al_init es)) = true /\
  al_state (al_run al_init es) = last (al_log (al_run al_init es)) ST_New.
Proof.
  intros es. split; [apply visited_chain|]. apply al_run_inv. split; reflexivity.
Qed.

(* terminal states: nothing leaves Expired; Rejected/Completed/Failed only move to Expired *)
Theorem terminal_only_expires : forall s e,
  is_terminal s = true -> let d := fst (handle_event s e) in d = s \/ (d = ST_Expired /\ s <> ST_Expired).
Proof.
  intros s e Ht. cbn zeta. unfold handle_event, handle_event_with.
  destruct (fsm_lookup app_fsm_table s e) as [d|] eqn:L; [|now left].
  destruct (d =? s) eqn:E; [now left|]. cbn [fst]. right.
  apply fsm_lookup_in in L. pose proof table_terminal_ok as H. unfold table_terminal in H.
  rewrite forallb_forall in H. specialize (H _ L). cbn beta iota in H. rewrite Ht in H. cbn in H.
  apply andb_true_iff in H as [H1 H2]. apply N.eqb_eq in H1. apply negb_true_iff in H2. apply N.eqb_neq in H2. now split.
Qed.

(* chain_strict implies chain_ok (the oracle uses the strict form on the state log, the weak one on update streams) *)
Lemma chain_strict_ok : forall l s, chain_strict s l = true -> chain_ok s l = true.
Proof.
  induction l as [|x t IH]; intros s H; [reflexivity|]. cbn in *. apply andb_true_iff in H as [H1 H2].
  rewrite H1, orb_true_r. cbn. now apply IH.
Qed.

(* the hypotheses are satisfiable on a non-trivial run: New -run-> Accepted -run-> Running -run-> Running (no move)
   -complete-> Completing -run-> Running -complete-> Completing -complete-> Completed -expire-> Expired -run-> (invalid) *)
Example trace_example :
  al_run al_init [EV_Run; EV_Run; EV_Run; EV_Complete; EV_Run; EV_Complete; EV_Complete; EV_Expire; EV_Run]
  = mkAL ST_Expired [ST_Accepted; ST_Running; ST_Completing; ST_Running; ST_Completing; ST_Completed; ST_Expired].
Proof. vm_compute. reflexivity. Qed.
