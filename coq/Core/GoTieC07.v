(* Tie theorem (C07): the priority bookkeeping fragment of Queue.findPreemptionFenceRoot GENERATED from
   pkg/scheduler/objects/queue.go is one step of Preempt/Victims.v fenceRoot. *)
From Coq Require Import String List ZArith NArith Bool Lia ZifyBool ZifyN ZifyNat.
From YK Require Import Base.Int64 Base.Res Preempt.Snapshot Preempt.Victims
  Generated.GoPrelude Generated.GoObjects Base.GoTieLib.
Import ListNotations.
Open Scope Z_scope.

Definition prio_small (z : Z) : Prop := - 2^61 <= z <= 2^61.

(* one step of Preempt/Victims.fenceRoot: the new current priority and the map entry written for the queue *)
Theorem gotie_fence_step sq pm cur :
  prio_small cur -> prio_small (Queue_priorityOffset sq) ->
  let '(pm', cur') := GoObjects.findPreemptionFenceRoot_frag sq pm cur in
  cur' = (if Queue_priorityPolicy sq =? 1 then Queue_priorityOffset sq else cur + Queue_priorityOffset sq) /\
  (forall id, mget pm' id = Victims.pm_get ((Queue_QueuePath sq, cur') :: pm) id).
Proof.
  intros Hc Ho. unfold GoObjects.findPreemptionFenceRoot_frag, GoObjects.GetPriorityPolicyAndOffset. cbv zeta.
  unfold prio_small in *.
  assert (E : (if Queue_priorityPolicy sq =? 1 then Queue_priorityOffset sq else wrap64 (cur + Queue_priorityOffset sq)) =
              (if Queue_priorityPolicy sq =? 1 then Queue_priorityOffset sq else cur + Queue_priorityOffset sq)).
  { destruct (Queue_priorityPolicy sq =? 1); [reflexivity|]. unfold wrap64. rewrite Z.mod_small; lia. }
  rewrite E. split; [reflexivity|].
  intros id. rewrite mget_mset. cbn [Victims.pm_get]. rewrite (N.eqb_sym id).
  destruct (N.eqb (Queue_QueuePath sq) id); [reflexivity|].
  induction pm as [|[k v] t IH]; cbn; [reflexivity|].
  rewrite (N.eqb_sym id k). destruct (N.eqb k id); [reflexivity|exact IH].
Qed.
