(* C20: stream bridging (history followed by live events with the 'seen' filter):
   exact outside the known window, refuted inside it. *)
From Coq Require Import List NArith Bool Lia ZifyN ZifyNat ZifyBool PeanoNat.
From YK Require Import Events.Ring Events.RingSpec Events.RingLemmas Events.RingProofs
  Events.RingQueryProofs Events.RingRefine.
Import ListNotations.
Open Scope N_scope.

(* ---- k adds on a ring that is never resized ---- *)
Lemma add_n_inv k : forall r n,
  Inv r n -> n + N.of_nat k < W64 ->
  exists r', add_n r n k = Ok r' /\ Inv r' (n + N.of_nat k) /\
             capacity r' = capacity r /\ resizeOffset r' = resizeOffset r.
Proof.
  induction k as [|k IH]; intros r n I Hn.
  - exists r. cbn [add_n]. replace (n + N.of_nat 0) with n by lia. auto.
  - cbn [add_n]. destruct (add_inv r n I) as (r1 & -> & I1 & _ & Hc1 & Ho1); [lia|].
    destruct (IH r1 (n + 1) I1) as (r2 & -> & I2 & Hc2 & Ho2); [lia|].
    exists r2. replace (n + N.of_nat (S k)) with (n + 1 + N.of_nat k) by lia.
    refine (conj eq_refl (conj I2 (conj _ _))); congruence.
Qed.

Lemma recent_ok r n count :
  Inv r n ->
  getRecentEvents r count =
    Ok (let k := N.min count (n - lowestId r) in nseq (n - k) (N.to_nat k)).
Proof.
  intros I. pose proof (recent_exact r n count I) as H.
  unfold rstep, spec_recent, abs in H. cbn [h_n h_ret] in H.
  assert (Hr : rid r = n) by (destruct I; assumption). rewrite Hr in H.
  destruct (getRecentEvents r count) as [l|]; cbn [snd] in H; [|discriminate].
  injection H as ->. reflexivity.
Qed.

(* ---- lists of ids ---- *)
Lemma somes_nseq a len : somes (nseq a len) = nlist a len.
Proof. revert a; induction len as [|k IH]; intros a; cbn; [reflexivity|]. f_equal. apply IH. Qed.

Lemma nlist_app a k1 k2 : nlist a (k1 + k2) = nlist a k1 ++ nlist (a + N.of_nat k1) k2.
Proof.
  revert a; induction k1 as [|k1 IH]; intros a.
  - cbn [nlist app Nat.add]. f_equal. lia.
  - cbn [nlist app Nat.add]. f_equal. rewrite IH. f_equal. f_equal. lia.
Qed.

Lemma existsb_nlist e a len :
  existsb (N.eqb e) (nlist a len) = (a <=? e) && (e <? a + N.of_nat len).
Proof.
  revert a; induction len as [|k IH]; intros a; cbn [nlist existsb].
  - destruct (N.leb_spec a e); destruct (N.ltb_spec e (a + N.of_nat 0)); cbn; lia.
  - rewrite IH.
    destruct (N.eqb_spec e a); destruct (N.leb_spec (a + 1) e); destruct (N.leb_spec a e);
      destruct (N.ltb_spec e (a + 1 + N.of_nat k)); destruct (N.ltb_spec e (a + N.of_nat (S k)));
      cbn; lia.
Qed.

Lemma In_nlist e a len : In e (nlist a len) -> a <= e /\ e < a + N.of_nat len.
Proof.
  revert a; induction len as [|k IH]; intros a; cbn [nlist In]; [tauto|].
  intros [<-|H]; [lia|]. apply IH in H. lia.
Qed.

(* ---- the bridging goroutine ---- *)
Lemma bridge_inactive l : forall seen, bridge seen false l = l.
Proof. induction l as [|e t IH]; intros seen; cbn [bridge andb]; [reflexivity|]. f_equal. apply IH. Qed.

Lemma bridge_nil_seen l : bridge [] true l = l.
Proof. destruct l as [|e t]; cbn [bridge existsb andb]; [reflexivity|]. f_equal. apply bridge_inactive. Qed.

Lemma bridge_skip seen l1 l2 :
  (forall e, In e l1 -> existsb (N.eqb e) seen = true) ->
  bridge seen true (l1 ++ l2) = bridge seen true l2.
Proof.
  induction l1 as [|e t IH]; intros H; [reflexivity|].
  cbn [app bridge andb]. rewrite (H e) by (left; reflexivity).
  apply IH. intros e' He'. apply H. right. exact He'.
Qed.

Lemma bridge_first_unseen seen l :
  match l with [] => True | e :: _ => existsb (N.eqb e) seen = false end ->
  bridge seen true l = l.
Proof.
  destruct l as [|e t]; intros H; [reflexivity|].
  cbn [bridge andb]. rewrite H. f_equal. apply bridge_inactive.
Qed.

(* MAIN THEOREM (stream), partial: outside the known window the subscriber receives the requested
   history followed by every later event once and in order.
   Full statement (false, see stream_exact_refuted):
     forall c, size_ok (sc_cap c) -> ... -> stream_model c = Some (stream_spec c). *)
Theorem stream_exact_partial c :
  size_ok (sc_cap c) ->
  sc_before c + (if sc_split c then 1 else 0) + sc_between c < W64 ->
  stream_known_window c = false ->
  stream_model c = Some (stream_spec c).
Proof.
  intros Hcap Ha Hwin. unfold stream_model, stream_spec, stream_known_window in *.
  destruct c as [cap p split between after count].
  cbn [sc_cap sc_before sc_split sc_between sc_after sc_count] in *.
  set (sp := if split then 1 else 0) in *.
  assert (Hsp : sp <= 1) by (subst sp; destruct split; lia).
  remember (p + sp + between) as a eqn:Ea.
  destruct (add_n_inv (N.to_nat a) (newRing cap) 0 (newRing_inv cap Hcap)) as (r & -> & I & Hc & Ho); [lia|].
  replace (0 + N.of_nat (N.to_nat a)) with a in I by lia.
  cbn [newRing capacity resizeOffset] in Hc, Ho.
  rewrite (recent_ok r a count I). cbv zeta.
  (* number of retained events: min a cap *)
  assert (Hret : a - lowestId r = N.min a cap).
  { destruct I as [Hcp Hcm Hlen Hrid Hnw Hol Hlr Hret Hfull Hlf Hlnf Hhead Hev]. clear Hhead Hev.
    rewrite Hc, Ho, Hrid in *. destruct (full r).
    - specialize (Hlf eq_refl). lia.
    - specialize (Hlnf eq_refl). lia. }
  rewrite Hret. clear Hret I Hc Ho r.
  remember (N.min count (N.min a cap)) as k eqn:Ek.
  rewrite somes_nseq. f_equal.
  destruct (N.eqb_spec count 0) as [Hc0|Hc0].
  - replace k with 0 by lia. cbn [N.to_nat nlist app]. apply bridge_nil_seen.
  - assert (Hk : sp + between <= k).
    { destruct (N.ltb_spec 0 count); [|lia]. cbn [andb] in Hwin. apply N.ltb_ge in Hwin. lia. }
    replace (N.to_nat (a + after - p)) with (N.to_nat (a - p) + N.to_nat after)%nat by lia.
    rewrite nlist_app. replace (p + N.of_nat (N.to_nat (a - p))) with a by lia.
    rewrite bridge_skip.
    + rewrite bridge_first_unseen.
      * replace (N.to_nat (a + after - (a - k))) with (N.to_nat k + N.to_nat after)%nat by lia.
        rewrite nlist_app. f_equal. f_equal. lia.
      * destruct (N.to_nat after) as [|x]; cbn [nlist]; [exact Logic.I|].
        rewrite existsb_nlist.
        destruct (N.leb_spec (a - k) a); destruct (N.ltb_spec a (a - k + N.of_nat (N.to_nat k))); cbn; lia.
    + intros e He. apply In_nlist in He. rewrite existsb_nlist.
      destruct (N.leb_spec (a - k) e); destruct (N.ltb_spec e (a - k + N.of_nat (N.to_nat k))); cbn; lia.
Qed.

(* inside the window the clause is false of the faithful model (known finding C20-stream-window):
   capacity 4, 2 events before registration, 2 between registration and the history read,
   1 afterwards, history of 1 requested: the subscriber gets [3] and then 2, 3 again. *)
Definition stream_witness : stream_case_t := mkStreamCase 4 2 false 2 1 1.

Theorem stream_exact_refuted : exists c, stream_model c <> Some (stream_spec c).
Proof. exists stream_witness. vm_compute. discriminate. Qed.

Example stream_witness_in_window :
  stream_known_window stream_witness = true /\
  stream_model stream_witness = Some [3; 2; 3; 4] /\ stream_spec stream_witness = [3; 4].
Proof. repeat split; vm_compute; reflexivity. Qed.

(* non-vacuity of the partial theorem: a wrapped ring (6 adds into capacity 4), events published
   between registration and history read, all covered by the requested history *)
Example stream_partial_example :
  let c := mkStreamCase 4 3 true 2 3 5 in
  stream_known_window c = false /\ stream_model c = Some [2; 3; 4; 5; 6; 7; 8] /\
  stream_spec c = [2; 3; 4; 5; 6; 7; 8].
Proof. repeat split; vm_compute; reflexivity. Qed.
