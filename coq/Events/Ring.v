(* Executable model of pkg/events/event_ringbuffer.go and event_store.go (yunikorn-core),
   written at the fidelity of the Go code: uint64 arithmetic wraps modulo 2^64, slice
   expressions and make() panic (Crash) exactly where Go's would.
   Events are represented by a payload number (the harness stores it in the record). *)
From Coq Require Import List NArith Bool Lia.
Import ListNotations.
Open Scope N_scope.

Definition W64 : N := 18446744073709551616.
Definition sub64 (a b : N) : N := (a + W64 - b mod W64) mod W64.
Definition add64 (a b : N) : N := (a + b) mod W64.

Record ring := mkRing {
  events : list (option N);   (* None = nil slot *)
  capacity : N; head : N; full : bool;
  rid : N;                    (* id of the next event *)
  lowestId : N; resizeOffset : N }.

Definition newRing (cap : N) : ring :=
  mkRing (repeat None (N.to_nat cap)) cap 0 false 0 0 0.

Fixpoint upd {A} (n : nat) (x : A) (l : list A) : list A :=
  match l, n with
  | [], _ => []
  | _ :: t, O => x :: t
  | h :: t, S n' => h :: upd n' x t
  end.

Inductive res (A : Type) := Ok (a : A) | Crash.
Arguments Ok {A} a. Arguments Crash {A}.

(* Add: e.events[e.head] = event (index out of range panics) *)
Definition add (r : ring) (ev : N) : res ring :=
  if N.of_nat (length (events r)) <=? head r then Crash else
  if capacity r =? 0 then Crash else
  let evs := upd (N.to_nat (head r)) (Some ev) (events r) in
  let full' := if full r then true else head r =? sub64 (capacity r) 1 in
  let low' := if full r then add64 (lowestId r) 1 else lowestId r in
  Ok (mkRing evs (capacity r) ((add64 (head r) 1) mod capacity r) full'
        (add64 (rid r) 1) low' (resizeOffset r)).

Definition lastEventID (r : ring) : N := if rid r =? 0 then 0 else rid r - 1.

Definition id2pos (r : ring) (id : N) : res (option N) :=
  if (id <? lowestId r) || (rid r <=? id) then Ok None else
  if capacity r =? 0 then Crash else
  Ok (Some ((sub64 id (resizeOffset r)) mod capacity r)).

(* e.events[a:b] *)
Definition slice {A} (a b : N) (l : list A) : res (list A) :=
  if (b <? a) || (N.of_nat (length l) <? b) then Crash
  else Ok (firstn (N.to_nat (b - a)) (skipn (N.to_nat a) l)).

(* copy(dst, src) *)
Definition copy_into {A} (dst src : list A) : list A :=
  firstn (length dst) src ++ skipn (length src) dst.

(* make([]T, end-start) with uint64 length: panics when it does not fit an int *)
Definition make_len (n : N) : res (list (option N)) :=
  if 9223372036854775807 <? n then Crash else Ok (repeat None (N.to_nat n)).

Definition entriesFromRanges (r : ring) (s1 e1 : N) (r2 : option (N * N)) : res (list (option N)) :=
  match r2 with
  | None =>
      match make_len (sub64 e1 s1), slice s1 (N.of_nat (length (events r))) (events r) with
      | Ok dst, Ok src => Ok (copy_into dst src)
      | _, _ => Crash
      end
  | Some (s2, e2) =>
      let n1 := sub64 e1 s1 in
      match make_len (add64 n1 (sub64 e2 s2)),
            slice s1 (N.of_nat (length (events r))) (events r),
            slice s2 (N.of_nat (length (events r))) (events r) with
      | Ok dst, Ok src1, Ok src2 =>
          let dst1 := copy_into dst src1 in
          if N.of_nat (length dst1) <? n1 then Crash else
          Ok (firstn (N.to_nat n1) dst1 ++ copy_into (skipn (N.to_nat n1) dst1) src2)
      | _, _, _ => Crash
      end
  end.

Record qresult := mkQ { q_events : list (option N); q_low : N; q_high : N }.

Definition getEventsFromID (r : ring) (id count : N) : res qresult :=
  let lowest := lowestId r in
  match id2pos r id with
  | Crash => Crash
  | Ok None => Ok (mkQ [] lowest (lastEventID r))
  | Ok (Some pos) =>
      let count := N.min count (capacity r) in
      if full r && (head r <=? pos) then
        let e1 := N.min (add64 pos count) (capacity r) in
        let r2 := if capacity r <? add64 pos count
                  then Some (0, N.min (sub64 (add64 pos count) (capacity r)) (head r)) else None in
        match entriesFromRanges r pos e1 r2 with
        | Ok l => Ok (mkQ l lowest (lastEventID r))
        | Crash => Crash
        end
      else
        let e1 := N.min (add64 pos count) (head r) in
        match entriesFromRanges r pos e1 None with
        | Ok l => Ok (mkQ l lowest (lastEventID r))
        | Crash => Crash
        end
  end.

Definition getRecentEvents (r : ring) (count : N) : res (list (option N)) :=
  let lastID := lastEventID r in
  let startID := if lastID <? count then 0 else add64 (sub64 lastID count) 1 in
  let startID := N.max startID (lowestId r) in
  match getEventsFromID r startID count with
  | Ok q => Ok (q_events q)
  | Crash => Crash
  end.

Definition updateLowestID (r : ring) (beginSize endSize : N) : N :=
  if beginSize <? endSize then lowestId r
  else if sub64 (rid r) (lowestId r) <=? endSize then lowestId r
  else sub64 (rid r) endSize.

Definition resize (r : ring) (newSize : N) : res ring :=
  if newSize =? capacity r then Ok r else
  if capacity r =? 0 then Crash else
  match make_len newSize with
  | Crash => Crash
  | Ok newEvents =>
    let numCopy := N.min (sub64 (rid r) (lowestId r)) newSize in
    let startIndex := (sub64 (add64 (head r) (capacity r)) numCopy) mod capacity r in
    let endIndex := (sub64 (add64 startIndex numCopy) 1) mod capacity r in
    let low' := updateLowestID r (capacity r) newSize in
    let copied :=
      if startIndex <=? endIndex then
        match slice startIndex (add64 endIndex 1) (events r) with
        | Ok src => Ok (copy_into newEvents src)
        | Crash => Crash
        end
      else
        match slice startIndex (N.of_nat (length (events r))) (events r),
              slice 0 (add64 endIndex 1) (events r) with
        | Ok src1, Ok src2 =>
            let d1 := copy_into newEvents src1 in
            let off := sub64 (capacity r) startIndex in
            if N.of_nat (length d1) <? off then Crash else
            Ok (firstn (N.to_nat off) d1 ++ copy_into (skipn (N.to_nat off) d1) src2)
        | _, _ => Crash
        end in
    match copied with
    | Crash => Crash
    | Ok evs =>
      if newSize =? 0 then Crash else
      Ok (mkRing evs newSize (numCopy mod newSize) (numCopy =? newSize)
            (rid r) low' low')
    end
  end.

(* ---- operations as driven by the harness ---- *)
Inductive rop :=
| RAdd                       (* payload = number of events added so far *)
| RResize (n : N)
| RQuery (id count : N)
| RRecent (count : N).

Inductive rout :=
| OUnit
| OQuery (evs : list (option N)) (low high : N)
| ORecent (evs : list (option N))
| OCrash.

Definition rstate := (ring * N)%type.   (* ring, number of adds so far *)

Definition rstep (s : rstate) (o : rop) : rstate * rout :=
  let '(r, n) := s in
  match o with
  | RAdd => match add r n with Ok r' => ((r', n + 1), OUnit) | Crash => (s, OCrash) end
  | RResize k => match resize r k with Ok r' => ((r', n), OUnit) | Crash => (s, OCrash) end
  | RQuery i c => match getEventsFromID r i c with
                  | Ok q => (s, OQuery (q_events q) (q_low q) (q_high q)) | Crash => (s, OCrash) end
  | RRecent c => match getRecentEvents r c with
                 | Ok l => (s, ORecent l) | Crash => (s, OCrash) end
  end.

Fixpoint rrun (s : rstate) (ops : list rop) : list rout :=
  match ops with
  | [] => []
  | o :: t => let '(s', out) := rstep s o in out :: rrun s' t
  end.

Definition ring_run (cap : N) (ops : list rop) : list rout := rrun (newRing cap, 0) ops.

(* ---- event store ---- *)
Record store := mkStore { s_events : list (option N); s_idx : N; s_size : N; s_lastSize : N }.
Definition newStore (size : N) : store := mkStore (repeat None (N.to_nat size)) 0 size size.
Definition store_put (s : store) (ev : N) : store :=
  if s_idx s =? N.of_nat (length (s_events s)) then s
  else mkStore (upd (N.to_nat (s_idx s)) (Some ev) (s_events s)) (add64 (s_idx s) 1) (s_size s) (s_lastSize s).
Definition store_collect (s : store) : list (option N) * store :=
  let msgs := firstn (N.to_nat (s_idx s)) (s_events s) in
  let evs := if s_size s =? s_lastSize s then s_events s else repeat None (N.to_nat (s_size s)) in
  (msgs, mkStore evs 0 (s_size s) (s_size s)).
Definition store_setSize (s : store) (n : N) : store :=
  mkStore (s_events s) (s_idx s) n (s_lastSize s).

Inductive sop := SPut | SCollect | SSetSize (n : N).
Fixpoint srun (s : store) (n : N) (ops : list sop) : list (list (option N)) :=
  match ops with
  | [] => []
  | SPut :: t => srun (store_put s n) (n + 1) t
  | SCollect :: t => let '(m, s') := store_collect s in m :: srun s' n t
  | SSetSize k :: t => srun (store_setSize s k) n t
  end.
