(* C20: the ring buffer model refines the abstract history; corollaries. *)
From Coq Require Import List NArith Bool Lia ZifyN ZifyNat ZifyBool PeanoNat.
From YK Require Import Events.Ring Events.RingSpec Events.RingLemmas Events.RingProofs Events.RingQueryProofs.
Import ListNotations.
Open Scope N_scope.

(* ---- refinement of whole runs ---- *)
Definition op_fits (o : rop) : bool := match o with RResize k => k <=? MAXLEN | _ => true end.
Fixpoint nadds (ops : list rop) : N :=
  match ops with [] => 0 | RAdd :: t => 1 + nadds t | _ :: t => nadds t end.

Lemma nadds_le_length ops : nadds ops <= N.of_nat (length ops).
Proof. induction ops as [|[| | |] t IH]; cbn [nadds length]; lia. Qed.

Definition rfinal (s : rstate) (ops : list rop) : rstate :=
  fold_left (fun s o => fst (rstep s o)) ops s.
Definition spec_final (s : hspec) (ops : list rop) : hspec :=
  fold_left (fun s o => fst (spec_step s o)) ops s.

(* one step: the invariant is kept, outputs and abstract states agree, nothing crashes *)
Lemma rstep_refines r n o :
  Inv r n -> op_ok o = true -> op_fits o = true -> n + nadds [o] < W64 ->
  let '(r', n') := fst (rstep (r, n) o) in
  Inv r' n' /\ abs r' = fst (spec_step (abs r) o) /\ n' = n + nadds [o] /\
  snd (rstep (r, n) o) = snd (spec_step (abs r) o).
Proof.
  intros I Hok Hfit Hn. destruct o as [|k|id c|c].
  - cbn [nadds] in Hn. destruct (add_inv r n I) as (r' & E & I' & Ha & _); [lia|].
    cbn [rstep]. rewrite E. cbn [fst snd]. refine (conj _ (conj _ (conj _ _))); try assumption; try reflexivity; cbn [nadds]; lia.
  - cbn [op_ok op_fits] in *. apply N.ltb_lt in Hok. apply N.leb_le in Hfit.
    destruct (resize_inv r n k I) as (r' & E & I' & Ha); [split; assumption|].
    cbn [rstep]. rewrite E. cbn [fst snd]. refine (conj _ (conj _ (conj _ _))); try assumption; try reflexivity; cbn [nadds]; lia.
  - pose proof (query_exact r n id c I) as Hq.
    assert (Hs : fst (rstep (r, n) (RQuery id c)) = (r, n))
      by (cbn [rstep]; destruct (getEventsFromID r id c); reflexivity).
    rewrite Hs. refine (conj _ (conj _ (conj _ _))); try assumption; try reflexivity; cbn [nadds]; lia.
  - pose proof (recent_exact r n c I) as Hq.
    assert (Hs : fst (rstep (r, n) (RRecent c)) = (r, n))
      by (cbn [rstep]; destruct (getRecentEvents r c); reflexivity).
    rewrite Hs. refine (conj _ (conj _ (conj _ _))); try assumption; try reflexivity; cbn [nadds]; lia.
Qed.

Lemma nadds_cons o t : nadds (o :: t) = nadds [o] + nadds t.
Proof. destruct o; cbn [nadds]; lia. Qed.

Lemma rrun_refines ops : forall r n,
  Inv r n -> forallb op_ok ops = true -> forallb op_fits ops = true -> n + nadds ops < W64 ->
  rrun (r, n) ops = spec_run (abs r) ops /\
  (let '(r', n') := rfinal (r, n) ops in
   Inv r' n' /\ abs r' = spec_final (abs r) ops /\ n' = n + nadds ops).
Proof.
  induction ops as [|o t IH]; intros r n I Hok Hfit Hn.
  - cbn [rrun spec_run rfinal spec_final fold_left nadds].
    refine (conj eq_refl (conj I (conj eq_refl _))). lia.
  - cbn [forallb] in Hok, Hfit. apply andb_prop in Hok, Hfit.
    destruct Hok as [Hok1 Hok2]. destruct Hfit as [Hfit1 Hfit2].
    rewrite nadds_cons in Hn.
    pose proof (rstep_refines r n o I Hok1 Hfit1 ltac:(lia)) as Hstep.
    cbn [rrun spec_run rfinal spec_final fold_left].
    destruct (rstep (r, n) o) as [[r' n'] out]. destruct (spec_step (abs r) o) as [s' out'].
    cbn [fst snd] in Hstep |- *. destruct Hstep as (I' & Ha & Hn' & Hout). subst s' out' n'.
    destruct (IH r' (n + nadds [o]) I' Hok2 Hfit2 ltac:(lia)) as [IH1 IH2].
    split.
    + rewrite IH1. reflexivity.
    + fold (rfinal (r', n + nadds [o]) t). fold (spec_final (abs r') t).
      destruct (rfinal (r', n + nadds [o]) t) as [r'' n''].
      destruct IH2 as (I'' & Ha'' & Hn''). refine (conj I'' (conj Ha'' _)).
      rewrite nadds_cons. lia.
Qed.

(* MAIN THEOREM (ring): for every capacity 0 < cap <= MaxInt64, every sequence of add / resize /
   query / recent operations whose resize targets are in the same range and with fewer than 2^64
   adds, the ring buffer model answers exactly like the abstract history. *)
Theorem ring_refines cap ops :
  size_ok cap -> forallb op_ok ops = true -> forallb op_fits ops = true -> nadds ops < W64 ->
  ring_run cap ops = spec_run (spec_init cap) ops.
Proof.
  intros Hcap Hok Hfit Hn. unfold ring_run.
  rewrite <- newRing_abs. apply rrun_refines; auto using newRing_inv.
Qed.

Corollary ring_refines_len cap ops :
  size_ok cap -> forallb op_ok ops = true -> forallb op_fits ops = true ->
  N.of_nat (length ops) < W64 ->
  ring_run cap ops = spec_run (spec_init cap) ops.
Proof.
  intros Hcap Hok Hfit Hn. apply ring_refines; auto.
  pose proof (nadds_le_length ops). lia.
Qed.

Theorem ring_reach cap ops :
  size_ok cap -> forallb op_ok ops = true -> forallb op_fits ops = true -> nadds ops < W64 ->
  let '(r, n) := rfinal (newRing cap, 0) ops in
  Inv r n /\ abs r = spec_final (spec_init cap) ops /\ n = nadds ops.
Proof.
  intros Hcap Hok Hfit Hn.
  pose proof (rrun_refines ops (newRing cap) 0 (newRing_inv cap Hcap) Hok Hfit ltac:(lia)) as [_ H].
  destruct (rfinal (newRing cap, 0) ops) as [r n]. rewrite newRing_abs in H.
  destruct H as (I & Ha & Hn'). refine (conj I (conj Ha _)). lia.
Qed.

(* ---- corollaries ---- *)
Lemma spec_run_no_crash ops : forall s, ~ In OCrash (spec_run s ops).
Proof.
  induction ops as [|o t IH]; intros s; cbn [spec_run]; [tauto|].
  destruct (spec_step s o) as [s' out] eqn:E. cbn [In]. intros [H|H]; [|exact (IH s' H)].
  destruct o; cbn [spec_step] in E; injection E as <- <-; try discriminate H.
  unfold spec_query in H. destruct (_ && _); discriminate H.
Qed.

Corollary ring_no_crash cap ops :
  size_ok cap -> forallb op_ok ops = true -> forallb op_fits ops = true -> nadds ops < W64 ->
  ~ In OCrash (ring_run cap ops).
Proof.
  intros Hcap Hok Hfit Hn. rewrite ring_refines by assumption. apply spec_run_no_crash.
Qed.

(* every recorded event gets the next consecutive id: the id counter equals the number of events
   added so far, and (payload i = i-th event added) id i designates the i-th event *)
Corollary ring_ids_consecutive cap ops :
  size_ok cap -> forallb op_ok ops = true -> forallb op_fits ops = true -> nadds ops < W64 ->
  let '(r, n) := rfinal (newRing cap, 0) ops in
  rid r = nadds ops /\ n = nadds ops /\
  forall i pos, id2pos r i = Ok (Some pos) -> nth (N.to_nat pos) (events r) None = Some i.
Proof.
  intros Hcap Hok Hfit Hn. pose proof (ring_reach cap ops Hcap Hok Hfit Hn) as H.
  destruct (rfinal (newRing cap, 0) ops) as [r n]. destruct H as (I & Ha & Hn').
  destruct I as [Hc Hcm Hlen Hrid Hnw Hol Hlr Hret Hfull Hlf Hlnf Hhead Hev].
  repeat split; try congruence.
  intros i pos. unfold id2pos.
  destruct (N.ltb_spec i (lowestId r)); destruct (N.leb_spec (rid r) i); cbn [orb]; try discriminate.
  destruct (N.eqb_spec (capacity r) 0); [discriminate|].
  intros E. inversion E; subst pos. rewrite sub64_small by (clear Hhead; lia).
  apply Hev; assumption.
Qed.

(* the buffer holds exactly the most recent [h_ret] events, where h_ret follows the abstract
   recurrence (min (ret+1) cap on add, min ret k on resize to k) *)
Corollary ring_holds_recent cap ops :
  size_ok cap -> forallb op_ok ops = true -> forallb op_fits ops = true -> nadds ops < W64 ->
  let '(r, n) := rfinal (newRing cap, 0) ops in
  let s := spec_final (spec_init cap) ops in
  h_n s = nadds ops /\ h_ret s <= h_n s /\ h_ret s <= h_cap s /\
  (forall i, h_n s - h_ret s <= i -> i < h_n s ->
     exists pos, id2pos r i = Ok (Some pos) /\ nth (N.to_nat pos) (events r) None = Some i) /\
  (forall i, i < h_n s - h_ret s \/ h_n s <= i -> id2pos r i = Ok None).
Proof.
  intros Hcap Hok Hfit Hn. pose proof (ring_reach cap ops Hcap Hok Hfit Hn) as H.
  destruct (rfinal (newRing cap, 0) ops) as [r n]. destruct H as (I & Ha & Hn').
  cbv zeta. rewrite <- Ha. unfold abs. cbn [h_n h_ret h_cap].
  destruct I as [Hc Hcm Hlen Hrid Hnw Hol Hlr Hret Hfull Hlf Hlnf Hhead Hev]. clear Hhead.
  replace (rid r - (rid r - lowestId r)) with (lowestId r) by lia.
  repeat split; try lia.
  - intros i Hi1 Hi2. unfold id2pos.
    destruct (N.ltb_spec i (lowestId r)); [lia|]. destruct (N.leb_spec (rid r) i); [lia|].
    cbn [orb]. destruct (N.eqb_spec (capacity r) 0); [lia|].
    eexists; split; [reflexivity|]. rewrite sub64_small by lia. apply Hev; assumption.
  - intros i Hi. unfold id2pos.
    destruct (N.ltb_spec i (lowestId r)); destruct (N.leb_spec (rid r) i); cbn [orb]; try reflexivity.
    lia.
Qed.

(* without resizes the number of retained events is min(#added, capacity) *)
Lemma spec_ret_no_resize cap ops :
  (forall k, ~ In (RResize k) ops) ->
  let s := spec_final (spec_init cap) ops in
  h_n s = nadds ops /\ h_cap s = cap /\ h_ret s = N.min (nadds ops) cap.
Proof.
  intros Hnr. cbv zeta.
  assert (G : forall s, (forall k, ~ In (RResize k) ops) ->
            let s' := spec_final s ops in
            h_n s' = h_n s + nadds ops /\ h_cap s' = h_cap s /\
            (h_ret s = N.min (h_n s) (h_cap s) -> h_ret s' = N.min (h_n s + nadds ops) (h_cap s))).
  { clear Hnr. induction ops as [|o t IH]; intros s Hnr; cbv zeta.
    - cbn. repeat split; try lia.
    - assert (Hnr' : forall k, ~ In (RResize k) t) by (intros k Hk; apply (Hnr k); right; exact Hk).
      cbn [spec_final fold_left]. fold (spec_final (fst (spec_step s o)) t).
      specialize (IH (fst (spec_step s o)) Hnr'). cbv zeta in IH.
      destruct IH as (IH1 & IH2 & IH3). rewrite nadds_cons.
      destruct o as [|k|id c|c]; cbn [spec_step fst h_n h_ret h_cap nadds] in *.
      + repeat split; try lia. all: intros E; rewrite IH3 by lia; lia.
      + exfalso. apply (Hnr k). left. reflexivity.
      + repeat split; try lia. all: intros E; rewrite IH3 by lia; lia.
      + repeat split; try lia. all: intros E; rewrite IH3 by lia; lia. }
  specialize (G (spec_init cap) Hnr). cbv zeta in G. cbn [spec_init h_n h_ret h_cap] in G.
  destruct G as (G1 & G2 & G3). rewrite G3 by lia. repeat split; lia.
Qed.

(* ---- non-vacuity: a resized and wrapped ring that satisfies the invariant ---- *)
Definition example_ops : list rop :=
  [RAdd; RAdd; RAdd; RAdd; RAdd; RAdd; RResize 3; RAdd; RAdd].

Definition example_ring : ring :=
  mkRing [Some 6; Some 7; Some 5] 3 2 true 8 5 3.

Lemma size_ok_small k : 0 < k -> k <= 1000 -> size_ok k.
Proof. intros H1 H2. split; [exact H1|]. unfold MAXLEN. lia. Qed.

Example example_ring_reached : rfinal (newRing 4, 0) example_ops = (example_ring, 8).
Proof. vm_compute. reflexivity. Qed.

Example example_ring_inv : Inv example_ring 8.
Proof.
  pose proof (ring_reach 4 example_ops) as H.
  rewrite example_ring_reached in H. apply H.
  - apply size_ok_small; lia.
  - reflexivity.
  - reflexivity.
  - vm_compute. reflexivity.
Qed.

(* the theorem's hypotheses hold for this run, and its (identical) two sides are not trivial:
   in-window, out-of-window, count beyond the newest event, wrap-around reads, shrink *)
Example example_run :
  let ops := example_ops ++ [RQuery 5 2; RQuery 6 100; RQuery 4 1; RQuery 8 1; RRecent 2; RRecent 10;
                             RResize 2; RRecent 10; RResize 6; RAdd; RQuery 6 5] in
  forallb op_ok ops = true /\ forallb op_fits ops = true /\
  ring_run 4 ops = spec_run (spec_init 4) ops /\
  skipn 9 (ring_run 4 ops) =
    [OQuery [Some 5; Some 6] 5 7; OQuery [Some 6; Some 7] 5 7; OQuery [] 5 7; OQuery [] 5 7;
     ORecent [Some 6; Some 7]; ORecent [Some 5; Some 6; Some 7];
     OUnit; ORecent [Some 6; Some 7]; OUnit; OUnit; OQuery [Some 6; Some 7; Some 8] 6 8].
Proof. cbv zeta. repeat split; vm_compute; reflexivity. Qed.
