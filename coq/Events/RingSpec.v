(* Abstract specification of the event history (property C20), independent of the ring
   buffer representation: the history is the sequence of all events ever added (event i has id i),
   of which the most recent [retained] are available. *)
From Coq Require Import List NArith Bool Lia.
From YK Require Import Events.Ring.
Import ListNotations.
Open Scope N_scope.

Record hspec := mkSpec { h_n : N; h_ret : N; h_cap : N }.

Definition spec_init (cap : N) : hspec := mkSpec 0 0 cap.

(* ids a, a+1, ..., a+len-1 as Some payloads: event i carries payload i *)
Fixpoint nseq (a : N) (len : nat) : list (option N) :=
  match len with O => [] | S k => Some a :: nseq (a + 1) k end.

Definition spec_low (s : hspec) : N := h_n s - h_ret s.
Definition spec_high (s : hspec) : N := if h_n s =? 0 then 0 else h_n s - 1.

Definition spec_query (s : hspec) (id count : N) : rout :=
  if (spec_low s <=? id) && (id <? h_n s)
  then OQuery (nseq id (N.to_nat (N.min count (h_n s - id)))) (spec_low s) (spec_high s)
  else OQuery [] (spec_low s) (spec_high s).

(* the most recent [count] events, or all retained ones when fewer are available *)
Definition spec_recent (s : hspec) (count : N) : rout :=
  let k := N.min count (h_ret s) in
  ORecent (nseq (h_n s - k) (N.to_nat k)).

Definition spec_step (s : hspec) (o : rop) : hspec * rout :=
  match o with
  | RAdd => (mkSpec (h_n s + 1) (N.min (h_ret s + 1) (h_cap s)) (h_cap s), OUnit)
  | RResize k => (mkSpec (h_n s) (N.min (h_ret s) k) k, OUnit)
  | RQuery i c => (s, spec_query s i c)
  | RRecent c => (s, spec_recent s c)
  end.

Fixpoint spec_run (s : hspec) (ops : list rop) : list rout :=
  match ops with
  | [] => []
  | o :: t => let '(s', out) := spec_step s o in out :: spec_run s' t
  end.

(* the sequences the theorem quantifies over: capacities and resize targets are positive *)
Definition op_ok (o : rop) : bool := match o with RResize k => 0 <? k | _ => true end.

(* ---- event store: a collected batch never exceeds the size in force ---- *)
Fixpoint store_spec (cur : list N) (limit size : N) (n : N) (ops : list sop) : list (list (option N)) :=
  match ops with
  | [] => []
  | SPut :: t => if N.of_nat (length cur) <? limit then store_spec (cur ++ [n]) limit size (n + 1) t
                 else store_spec cur limit size (n + 1) t
  | SCollect :: t => map Some cur :: store_spec [] size size n t
  | SSetSize k :: t => store_spec cur limit k n t
  end.

(* ---- streaming: interleaving of one subscriber with the event goroutine ---- *)
Record stream_case_t := mkStreamCase {
  sc_cap : N; sc_before : N; sc_split : bool; sc_between : N; sc_after : N; sc_count : N }.

Fixpoint add_n (r : ring) (first : N) (k : nat) : res ring :=
  match k with
  | O => Ok r
  | S k' => match add r first with Ok r' => add_n r' (first + 1) k' | Crash => Crash end
  end.

(* the bridging goroutine: history first, then the local channel with the 'seen' filter which is
   dropped at the first unseen event *)
Fixpoint bridge (seen : list N) (active : bool) (local : list N) : list N :=
  match local with
  | [] => []
  | e :: t => if active && existsb (N.eqb e) seen then bridge seen active t
              else e :: bridge [] false t
  end.

Fixpoint somes (l : list (option N)) : list N :=
  match l with [] => [] | Some x :: t => x :: somes t | None :: t => somes t end.

Fixpoint nlist (a : N) (len : nat) : list N :=
  match len with O => [] | S k => a :: nlist (a + 1) k end.

Definition stream_model (c : stream_case_t) : option (list N) :=
  let p := sc_before c in
  let a := p + (if sc_split c then 1 else 0) + sc_between c in
  let n := a + sc_after c in
  match add_n (newRing (sc_cap c)) 0 (N.to_nat a) with
  | Crash => None
  | Ok r =>
    match getRecentEvents r (sc_count c) with
    | Crash => None
    | Ok hist =>
      let h := somes hist in
      Some (h ++ bridge h true (nlist p (N.to_nat (n - p))))
    end
  end.

(* what the property promises: the requested history (the most recent [count] retained events at
   the moment the history is read) followed by every later event, once and in order *)
Definition stream_spec (c : stream_case_t) : list N :=
  let p := sc_before c in
  let a := p + (if sc_split c then 1 else 0) + sc_between c in
  let n := a + sc_after c in
  let k := N.min (sc_count c) (N.min a (sc_cap c)) in
  if sc_count c =? 0 then nlist p (N.to_nat (n - p))   (* no history: everything after registration *)
  else nlist (a - k) (N.to_nat (n - (a - k))).

(* the window in which the code is known to deviate (known finding C20-stream-window) *)
Definition stream_known_window (c : stream_case_t) : bool :=
  (0 <? sc_count c) &&
  (N.min (sc_count c) (N.min (sc_before c + (if sc_split c then 1 else 0) + sc_between c) (sc_cap c))
     <? (if sc_split c then 1 else 0) + sc_between c).
