(* C20: GetEventsFromID / GetRecentEvents return exactly the specified range (under Inv). *)
From Coq Require Import List NArith Bool Lia ZifyN ZifyNat ZifyBool PeanoNat.
From YK Require Import Events.Ring Events.RingSpec Events.RingLemmas Events.RingProofs.
Import ListNotations.
Open Scope N_scope.

(* ---- getEntriesFromRanges ---- *)
Lemma entries_one r s e :
  s <= e -> e <= N.of_nat (length (events r)) -> e < W64 -> e - s <= MAXLEN ->
  exists l, entriesFromRanges r s e None = Ok l /\ length l = N.to_nat (e - s) /\
    forall j, (j < N.to_nat (e - s))%nat -> nth j l None = nth (N.to_nat s + j) (events r) None.
Proof.
  intros H1 H2 H3 H4. unfold entriesFromRanges.
  rewrite sub64_small by lia. rewrite make_len_ok by exact H4.
  rewrite slice_ok by lia.
  eexists; split; [reflexivity|]. split.
  - rewrite length_copy_into. apply repeat_length.
  - intros j Hj. rewrite nth_copy_lt.
    + apply nth_subl. lia.
    + rewrite repeat_length. exact Hj.
    + rewrite length_subl by lia. lia.
Qed.

Lemma entries_two r s e2 (L := N.of_nat (length (events r))) :
  s <= L -> e2 <= L -> L < W64 -> L - s + e2 <= MAXLEN ->
  exists l, entriesFromRanges r s L (Some (0, e2)) = Ok l /\
    length l = N.to_nat (L - s + e2) /\
    (forall j, (j < N.to_nat (L - s))%nat -> nth j l None = nth (N.to_nat s + j) (events r) None) /\
    (forall j, (N.to_nat (L - s) <= j)%nat -> (j < N.to_nat (L - s + e2))%nat ->
               nth j l None = nth (j - N.to_nat (L - s)) (events r) None).
Proof.
  intros H1 H2 H3 H4. pose proof MAXLEN_W64 as HM. unfold entriesFromRanges. fold L.
  rewrite (sub64_small L s) by lia. rewrite (sub64_small e2 0) by lia.
  rewrite N.sub_0_r. rewrite add64_small by lia.
  rewrite make_len_ok by exact H4.
  rewrite !slice_ok by (unfold L; lia).
  set (dst := repeat None (N.to_nat (L - s + e2))).
  assert (Hdst : length dst = N.to_nat (L - s + e2)) by apply repeat_length.
  rewrite length_copy_into.
  destruct (N.ltb_spec (N.of_nat (length dst)) (L - s)) as [Hx|_]; [lia|].
  assert (Hs1 : length (subl s L (events r)) = N.to_nat (L - s))
    by (apply length_subl; unfold L; lia).
  assert (Hs2 : length (subl 0 L (events r)) = N.to_nat L)
    by (rewrite length_subl by (unfold L; lia); lia).
  eexists; split; [reflexivity|]. split; [|split].
  - rewrite length_copy2; rewrite length_copy_into; lia.
  - intros j Hj. rewrite nth_copy2_lt; [| rewrite length_copy_into; lia | lia].
    rewrite nth_copy_lt by lia. apply nth_subl. lia.
  - intros j Hj1 Hj2.
    rewrite nth_copy2_ge; [| lia | rewrite length_copy_into; lia | lia].
    rewrite nth_subl by lia. f_equal.
Qed.

(* ---- getEventsFromID inside the retained window ---- *)
Lemma query_in_window r n id count :
  Inv r n -> lowestId r <= id -> id < n ->
  getEventsFromID r id count =
    Ok (mkQ (nseq id (N.to_nat (N.min count (n - id)))) (lowestId r) (lastEventID r)).
Proof.
  intros I Hid1 Hid2.
  destruct I as [Hc Hcm Hlen Hrid Hnw Hol Hlr Hret Hfull Hlf Hlnf Hhead Hev].
  unfold getEventsFromID, id2pos, lastEventID.
  destruct r as [evs cap hd fl rid' low off].
  cbn [events capacity head full rid lowestId resizeOffset] in *.
  pose proof MAXLEN_W64 as HM. subst rid'.
  destruct (N.ltb_spec id low) as [Hx|_]; [lia|].
  destruct (N.leb_spec n id) as [Hx|_]; [lia|].
  cbn [orb].
  destruct (N.eqb_spec cap 0) as [Hx|_]; [lia|].
  rewrite (sub64_small id off) by lia.
  set (r := mkRing evs cap hd fl n low off).
  assert (HL : N.of_nat (length (events r)) = cap) by (cbn [r events]; lia).
  assert (Hevr : events r = evs) by reflexivity.
  remember (n - id) as d eqn:Hd.
  assert (Hp_lt : (id - off) mod cap < cap) by (apply mod_lt'; exact Hc).
  (* where the head is relative to the position of id *)
  assert (HheadA : (id - off) mod cap + d < cap -> hd = (id - off) mod cap + d).
  { intros H. rewrite Hhead. replace (n - off) with (id - off + d) by lia.
    apply mod_add_small; assumption. }
  assert (HheadB : cap <= (id - off) mod cap + d -> hd = (id - off) mod cap + d - cap).
  { intros H. rewrite Hhead. replace (n - off) with (id - off + d) by lia.
    apply mod_add_wrap; [assumption|assumption|]. clear Hhead. lia. }
  assert (Hnf : fl = false -> (id - off) mod cap + d < cap).
  { intros ->. rewrite N.mod_small; symmetry in Hfull; apply N.leb_gt in Hfull;
      clear Hhead HheadA HheadB Hp_lt; lia. }
  assert (Hpos : forall j, j < d ->
            nth (N.to_nat (if (id - off) mod cap + j <? cap then (id - off) mod cap + j
                           else (id - off) mod cap + j - cap)) evs None = Some (id + j)).
  { intros j Hj. rewrite <- (Hev (id + j)) by lia. f_equal. f_equal.
    replace (id + j - off) with (id - off + j) by lia.
    destruct (N.ltb_spec ((id - off) mod cap + j) cap) as [H|H].
    - symmetry. apply mod_add_small; assumption.
    - symmetry. apply mod_add_wrap; [assumption|assumption|].
      clear Hhead HheadA HheadB Hnf. lia. }
  clear Hhead Hev.
  remember ((id - off) mod cap) as p eqn:Ep. clear Ep.
  remember (N.min count cap) as cnt eqn:Hcnt.
  rewrite (add64_small p cnt) by lia.
  assert (Hlenres : N.min count d = N.min cnt d) by lia.
  rewrite Hlenres.
  destruct fl; cbn [andb]; [destruct (N.leb_spec hd p) as [Hhp|Hhp]|].
  - (* full, position on or after the head: the window wraps at the end of the slice *)
    assert (HB : cap <= p + d) by (destruct (N.lt_ge_cases (p + d) cap) as [H|H]; [specialize (HheadA H); lia|exact H]).
    specialize (HheadB HB). clear HheadA Hnf.
    destruct (N.ltb_spec cap (p + cnt)) as [Hw|Hw].
    + rewrite (sub64_small (p + cnt) cap) by lia.
      replace (N.min (p + cnt) cap) with (N.of_nat (length (events r))) by lia.
      destruct (entries_two r p (N.min (p + cnt - cap) hd)) as (l & -> & Hl & Hn1 & Hn2); try lia.
      f_equal. f_equal. apply list_eq_nseq; [lia|].
      intros j Hj. rewrite HL in *. rewrite Hevr in *.
      destruct (Nat.lt_ge_cases j (N.to_nat (cap - p))) as [Hj1|Hj1].
      * rewrite Hn1 by exact Hj1.
        specialize (Hpos (N.of_nat j) ltac:(lia)).
        destruct (N.ltb_spec (p + N.of_nat j) cap) as [_|Hx]; [|lia].
        rewrite <- Hpos. f_equal. lia.
      * rewrite Hn2 by lia.
        specialize (Hpos (N.of_nat j) ltac:(lia)).
        destruct (N.ltb_spec (p + N.of_nat j) cap) as [Hx|_]; [lia|].
        rewrite <- Hpos. f_equal. lia.
    + replace (N.min (p + cnt) cap) with (p + cnt) by lia.
      destruct (entries_one r p (p + cnt)) as (l & -> & Hl & Hn1); try lia.
      f_equal. f_equal. apply list_eq_nseq; [lia|].
      intros j Hj. rewrite Hevr in *.
      rewrite Hn1 by lia.
      specialize (Hpos (N.of_nat j) ltac:(lia)).
      destruct (N.ltb_spec (p + N.of_nat j) cap) as [_|Hx]; [|lia].
      rewrite <- Hpos. f_equal. lia.
  - (* full, position before the head *)
    assert (HA : p + d < cap) by (destruct (N.lt_ge_cases (p + d) cap) as [H|H]; [exact H|specialize (HheadB H); lia]).
    specialize (HheadA HA). clear HheadB Hnf.
    destruct (entries_one r p (N.min (p + cnt) hd)) as (l & -> & Hl & Hn1); try lia.
    f_equal. f_equal. apply list_eq_nseq; [lia|].
    intros j Hj. rewrite Hevr in *.
    rewrite Hn1 by lia.
    specialize (Hpos (N.of_nat j) ltac:(lia)).
    destruct (N.ltb_spec (p + N.of_nat j) cap) as [_|Hx]; [|lia].
    rewrite <- Hpos. f_equal. lia.
  - (* not full *)
    specialize (Hnf eq_refl). specialize (HheadA Hnf). clear HheadB.
    destruct (entries_one r p (N.min (p + cnt) hd)) as (l & -> & Hl & Hn1); try lia.
    f_equal. f_equal. apply list_eq_nseq; [lia|].
    intros j Hj. rewrite Hevr in *.
    rewrite Hn1 by lia.
    specialize (Hpos (N.of_nat j) ltac:(lia)).
    destruct (N.ltb_spec (p + N.of_nat j) cap) as [_|Hx]; [|lia].
    rewrite <- Hpos. f_equal. lia.
Qed.

Lemma query_outside r n id count :
  Inv r n -> (id < lowestId r \/ n <= id) ->
  getEventsFromID r id count = Ok (mkQ [] (lowestId r) (lastEventID r)).
Proof.
  intros I H. destruct I as [Hc Hcm Hlen Hrid Hnw Hol Hlr Hret Hfull Hlf Hlnf Hhead Hev].
  unfold getEventsFromID, id2pos. rewrite Hrid.
  destruct (N.ltb_spec id (lowestId r)); destruct (N.leb_spec n id); cbn [orb]; try reflexivity.
  clear Hhead. lia.
Qed.

Lemma spec_low_abs r n : Inv r n -> spec_low (abs r) = lowestId r.
Proof. intros I. destruct I. unfold spec_low, abs. cbn [h_n h_ret]. lia. Qed.

Lemma spec_high_abs r : spec_high (abs r) = lastEventID r.
Proof. reflexivity. Qed.

(* GetEventsFromID returns exactly what the specification says *)
Theorem query_exact r n id count :
  Inv r n ->
  snd (rstep (r, n) (RQuery id count)) = spec_query (abs r) id count.
Proof.
  intros I. unfold rstep, spec_query.
  rewrite (spec_low_abs r n I), spec_high_abs.
  assert (Hn : h_n (abs r) = n) by (destruct I; assumption). rewrite Hn.
  destruct (N.leb_spec (lowestId r) id) as [H1|H1]; destruct (N.ltb_spec id n) as [H2|H2]; cbn [andb].
  - rewrite (query_in_window r n id count I H1 H2). reflexivity.
  - rewrite (query_outside r n id count I) by (right; exact H2). reflexivity.
  - rewrite (query_outside r n id count I) by (left; exact H1). reflexivity.
  - rewrite (query_outside r n id count I) by (left; exact H1). reflexivity.
Qed.

(* GetRecentEvents *)
Theorem recent_exact r n count :
  Inv r n ->
  snd (rstep (r, n) (RRecent count)) = spec_recent (abs r) count.
Proof.
  intros I. unfold rstep, spec_recent, getRecentEvents.
  pose proof I as [Hc Hcm Hlen Hrid Hnw Hol Hlr Hret Hfull Hlf Hlnf Hhead Hev]. clear Hhead Hev.
  unfold abs. cbn [h_n h_ret]. unfold lastEventID at 1 2. rewrite Hrid.
  set (low := lowestId r) in *.
  destruct (N.eqb_spec n 0) as [Hn0|Hn0].
  { (* empty *)
    rewrite (query_outside r n _ count I).
    - cbn [q_events]. replace (N.min count (n - low)) with 0 by lia. reflexivity.
    - right. destruct (N.ltb_spec 0 count); lia. }
  destruct (N.ltb_spec (n - 1) count) as [Hc1|Hc1].
  - (* asked for at least everything *)
    replace (N.max 0 low) with low by lia.
    destruct (N.eq_dec low n) as [E|E].
    + rewrite (query_outside r n low count I) by (right; lia).
      cbn [q_events]. replace (N.min count (n - low)) with 0 by lia. reflexivity.
    + rewrite (query_in_window r n low count I) by (fold low; lia).
      cbn [q_events]. replace (N.min count (n - low)) with (n - low) by lia.
      replace (n - (n - low)) with low by lia. reflexivity.
  - rewrite (sub64_small (n - 1) count) by lia.
    rewrite add64_small by lia.
    set (st := N.max (n - 1 - count + 1) low).
    destruct (N.lt_ge_cases st n) as [Hs|Hs].
    + rewrite (query_in_window r n st count I) by (fold low; lia).
      cbn [q_events].
      replace (N.min count (n - st)) with (N.min count (n - low)) by lia.
      replace (n - N.min count (n - low)) with st by lia. reflexivity.
    + rewrite (query_outside r n st count I) by (right; lia).
      cbn [q_events]. replace (N.min count (n - low)) with 0 by lia. reflexivity.
Qed.

