(* Tie theorems for pkg/events/event_ringbuffer.go: the definitions GENERATED from the Go source
   (Generated/GoEvents.v, rewritten on every run) equal the hand-written model Events/Ring.v that
   the C20 theorems are about, for ALL inputs (a ring is mapped field by field; the model's Crash
   is the translation's GPanic).  Where the model uses unbounded arithmetic (lastEventID) the tie
   carries the hypothesis rid r < 2^64, which the representation invariant Inv provides. *)
From Coq Require Import List ZArith NArith Bool Lia ZifyBool ZifyN ZifyNat.
From YK Require Import Base.Int64 Generated.GoPrelude Generated.GoEvents Base.GoTieLib Events.Ring.
Import ListNotations.
Open Scope N_scope.

Definition toGo (r : ring) : eventRingBuffer :=
  mk_eventRingBuffer (events r) (capacity r) (head r) (full r) (rid r) (lowestId r) (resizeOffset r).
Definition ofGo (e : eventRingBuffer) : ring :=
  mkRing (eventRingBuffer_events e) (eventRingBuffer_capacity e) (eventRingBuffer_head e)
         (eventRingBuffer_full e) (eventRingBuffer_id e) (eventRingBuffer_lowestId e)
         (eventRingBuffer_resizeOffset e).
Lemma ofGo_toGo r : ofGo (toGo r) = r.
Proof. destruct r; reflexivity. Qed.
Lemma toGo_ofGo e : toGo (ofGo e) = e.
Proof. destruct e; reflexivity. Qed.

(* model outcome -> translation outcome *)
Definition lift {A B} (f : A -> B) (x : Ring.res A) : gres B :=
  match x with Ring.Ok a => GOk (f a) | Ring.Crash => GPanic end.

(* ---- the uint64 operations are the model's ---- *)
Lemma u64_add_add64 a b : u64_add a b = add64 a b.
Proof. reflexivity. Qed.
Lemma u64_sub_sub64 a b : u64_sub a b = sub64 a b.
Proof. reflexivity. Qed.
Lemma u64_rem_mod a b : u64_rem a b = if b =? 0 then GPanic else GOk (a mod b).
Proof. reflexivity. Qed.

Ltac proj_toGo :=
  repeat match goal with
  | |- context [eventRingBuffer_events (toGo ?r)] => change (eventRingBuffer_events (toGo r)) with (events r)
  | |- context [eventRingBuffer_capacity (toGo ?r)] => change (eventRingBuffer_capacity (toGo r)) with (capacity r)
  | |- context [eventRingBuffer_head (toGo ?r)] => change (eventRingBuffer_head (toGo r)) with (head r)
  | |- context [eventRingBuffer_full (toGo ?r)] => change (eventRingBuffer_full (toGo r)) with (full r)
  | |- context [eventRingBuffer_id (toGo ?r)] => change (eventRingBuffer_id (toGo r)) with (rid r)
  | |- context [eventRingBuffer_lowestId (toGo ?r)] => change (eventRingBuffer_lowestId (toGo r)) with (lowestId r)
  | |- context [eventRingBuffer_resizeOffset (toGo ?r)] => change (eventRingBuffer_resizeOffset (toGo r)) with (resizeOffset r)
  end.
Ltac norm64 := change u64_sub with sub64 in *; change u64_add with add64 in *.

(* ---- slices ---- *)
Lemma make_slice_make_len n :
  make_slice (None : option N) (Z.of_N n) = lift (fun x => x) (make_len n).
Proof.
  unfold make_slice, make_len, MAX.
  replace (Z.of_N n <? 0)%Z with false by lia. cbn [orb].
  destruct (N.ltb_spec 9223372036854775807 n) as [H|H];
    [replace (2 ^ 63 - 1 <? Z.of_N n)%Z with true by lia|replace (2 ^ 63 - 1 <? Z.of_N n)%Z with false by lia];
    cbn [lift]; [reflexivity|]. now rewrite Z_N_nat'.
Qed.

Lemma slice_sub_slice {A} (l : list A) a b :
  slice_sub l (Z.of_N a) (Z.of_N b) = lift (fun x => x) (slice a b l).
Proof.
  unfold slice_sub, slice.
  replace (Z.of_N a <? 0)%Z with false by lia. cbn [orb].
  replace (Z.of_N b <? Z.of_N a)%Z with (b <? a) by lia.
  replace (Z.of_nat (length l) <? Z.of_N b)%Z with (N.of_nat (length l) <? b) by lia.
  destruct ((b <? a) || (N.of_nat (length l) <? b)) eqn:E; cbn [lift]; [reflexivity|].
  rewrite Z_N_nat'. replace (Z.to_nat (Z.of_N b - Z.of_N a)) with (N.to_nat (b - a)) by lia. reflexivity.
Qed.
Lemma slice_sub_slice_len {A} (l : list A) a :
  slice_sub l (Z.of_N a) (Z.of_nat (length l)) = lift (fun x => x) (slice a (N.of_nat (length l)) l).
Proof. rewrite <- slice_sub_slice. f_equal. lia. Qed.
Lemma slice_sub_slice_0 {A} (l : list A) b :
  slice_sub l 0%Z (Z.of_N b) = lift (fun x => x) (slice 0 b l).
Proof. rewrite <- slice_sub_slice. reflexivity. Qed.

Lemma copy_into_eq {A} (d s : list A) : GoPrelude.copy_into d s = Ring.copy_into d s.
Proof. reflexivity. Qed.
Lemma copy_at_model {A} (d : list A) n (s : list A) :
  copy_at d (Z.of_N n) s =
  if N.of_nat (length d) <? n then GPanic
  else GOk (firstn (N.to_nat n) d ++ Ring.copy_into (skipn (N.to_nat n) d) s).
Proof.
  unfold copy_at. replace (Z.of_N n <? 0)%Z with false by lia. cbn [orb].
  replace (Z.of_nat (length d) <? Z.of_N n)%Z with (N.of_nat (length d) <? n) by lia.
  destruct (N.of_nat (length d) <? n); [reflexivity|]. now rewrite Z_N_nat'.
Qed.
Lemma upd_eq {A} n (x : A) l : GoPrelude.upd n x l = Ring.upd n x l.
Proof. reflexivity. Qed.

(* ---- getLowestID, getLastEventID ---- *)
Theorem gotie_getLowestID r : GoEvents.getLowestID (toGo r) = lowestId r.
Proof. reflexivity. Qed.

Theorem gotie_getLastEventID r : rid r < W64 -> GoEvents.getLastEventID (toGo r) = lastEventID r.
Proof.
  intros H. unfold GoEvents.getLastEventID, lastEventID, toGo; cbn [eventRingBuffer_id].
  destruct (N.eqb_spec (rid r) 0); [reflexivity|].
  unfold u64_sub, GoPrelude.W64. unfold Ring.W64 in H. lia.
Qed.
Theorem gotie_GetLastEventID r : rid r < W64 -> GoEvents.GetLastEventID (toGo r) = lastEventID r.
Proof. exact (gotie_getLastEventID r). Qed.

(* ---- id2pos: (0,false) for an id outside the window, a panic for capacity 0 ---- *)
Definition pos_out (x : option N) : N * bool :=
  match x with Some p => (p, true) | None => (0, false) end.
Theorem gotie_id2pos r id : GoEvents.id2pos (toGo r) id = lift pos_out (Ring.id2pos r id).
Proof.
  unfold GoEvents.id2pos, Ring.id2pos, toGo;
    cbn [eventRingBuffer_lowestId eventRingBuffer_id eventRingBuffer_resizeOffset eventRingBuffer_capacity].
  destruct ((id <? lowestId r) || (rid r <=? id)); [reflexivity|].
  rewrite u64_rem_mod. destruct (capacity r =? 0); reflexivity.
Qed.

(* ---- updateLowestID ---- *)
Definition setLow (r : ring) (v : N) : ring :=
  mkRing (events r) (capacity r) (head r) (full r) (rid r) v (resizeOffset r).
Theorem gotie_updateLowestID r b e :
  GoEvents.updateLowestID (toGo r) b e = toGo (setLow r (Ring.updateLowestID r b e)).
Proof.
  unfold GoEvents.updateLowestID, Ring.updateLowestID, GoEvents.getLowestID, toGo, setLow;
    cbn [eventRingBuffer_lowestId eventRingBuffer_id set_eventRingBuffer_lowestId
         eventRingBuffer_events eventRingBuffer_capacity eventRingBuffer_head eventRingBuffer_full
         eventRingBuffer_resizeOffset events capacity head full rid lowestId resizeOffset].
  destruct (b <? e); [reflexivity|].
  norm64. destruct (sub64 (rid r) (lowestId r) <=? e); reflexivity.
Qed.

(* ---- Add ---- *)
Theorem gotie_Add r ev : GoEvents.Add (toGo r) (Some ev) = lift toGo (Ring.add r ev).
Proof.
  unfold GoEvents.Add, Ring.add, toGo;
    cbn [eventRingBuffer_events eventRingBuffer_head eventRingBuffer_full eventRingBuffer_capacity].
  unfold slice_set. replace (Z.of_N (head r) <? 0)%Z with false by lia. cbn [orb].
  replace (Z.of_nat (length (events r)) <=? Z.of_N (head r))%Z
    with (N.of_nat (length (events r)) <=? head r) by lia.
  destruct (N.of_nat (length (events r)) <=? head r); [reflexivity|].
  cbn [gbind]. rewrite Z_N_nat', upd_eq.
  destruct (full r) eqn:Ef;
    cbn [negb set_eventRingBuffer_events set_eventRingBuffer_full set_eventRingBuffer_lowestId
         set_eventRingBuffer_head set_eventRingBuffer_id
         eventRingBuffer_events eventRingBuffer_head eventRingBuffer_full eventRingBuffer_capacity
         eventRingBuffer_id eventRingBuffer_lowestId eventRingBuffer_resizeOffset];
    rewrite u64_rem_mod; destruct (capacity r =? 0); reflexivity.
Qed.

(* ---- getEntriesFromRanges ---- *)
Definition toRange (x : N * N) : eventRange := mk_eventRange (fst x) (snd x).
Theorem gotie_getEntriesFromRanges r s1 e1 r2 :
  GoEvents.getEntriesFromRanges (toGo r) (Some (mk_eventRange s1 e1)) (option_map toRange r2) =
  lift (fun x => x) (Ring.entriesFromRanges r s1 e1 r2).
Proof.
  unfold GoEvents.getEntriesFromRanges, Ring.entriesFromRanges, toGo.
  destruct r2 as [[s2 e2]|]; cbn [option_map is_nil deref gbind toRange fst snd
     eventRange_start eventRange_end eventRingBuffer_events].
  - norm64. rewrite make_slice_make_len, !slice_sub_slice_len.
    destruct (make_len (add64 (sub64 e1 s1) (sub64 e2 s2))) as [dst|]; cbn [lift gbind]; [|reflexivity].
    destruct (slice s1 (N.of_nat (length (events r))) (events r)) as [src1|]; cbn [lift gbind]; [|reflexivity].
    destruct (slice s2 (N.of_nat (length (events r))) (events r)) as [src2|]; cbn [lift gbind]; [|reflexivity].
    rewrite copy_at_model, copy_into_eq.
    destruct (N.of_nat (length (Ring.copy_into dst src1)) <? sub64 e1 s1); reflexivity.
  - norm64. rewrite make_slice_make_len, slice_sub_slice_len.
    destruct (make_len (sub64 e1 s1)) as [dst|]; cbn [lift gbind]; [|reflexivity].
    destruct (slice s1 (N.of_nat (length (events r))) (events r)) as [src1|]; cbn [lift gbind]; reflexivity.
Qed.

Lemma gefr_none r s1 e1 :
  GoEvents.getEntriesFromRanges (toGo r) (Some (mk_eventRange s1 e1)) None =
  lift (fun x => x) (Ring.entriesFromRanges r s1 e1 None).
Proof. exact (gotie_getEntriesFromRanges r s1 e1 None). Qed.
Lemma gefr_some r s1 e1 s2 e2 :
  GoEvents.getEntriesFromRanges (toGo r) (Some (mk_eventRange s1 e1)) (Some (mk_eventRange s2 e2)) =
  lift (fun x => x) (Ring.entriesFromRanges r s1 e1 (Some (s2, e2))).
Proof. exact (gotie_getEntriesFromRanges r s1 e1 (Some (s2, e2))). Qed.

(* ---- getEventsFromID / GetEventsFromID ---- *)
Definition q_out (q : qresult) : list (option N) * N * N := (q_events q, q_low q, q_high q).
Theorem gotie_getEventsFromID r id count :
  rid r < W64 ->
  GoEvents.getEventsFromID (toGo r) id count = lift q_out (Ring.getEventsFromID r id count).
Proof.
  intros Hrid. unfold GoEvents.getEventsFromID, Ring.getEventsFromID.
  rewrite gotie_id2pos, (gotie_getLastEventID r Hrid), gotie_getLowestID.
  destruct (Ring.id2pos r id) as [[pos|]|]; cbn [lift pos_out gbind negb]; try reflexivity.
  norm64. cbv zeta. proj_toGo.
  destruct (full r && (head r <=? pos)).
  - destruct (capacity r <? add64 pos (N.min count (capacity r))).
    + rewrite gefr_some.
      match goal with |- context [entriesFromRanges ?a ?b ?c ?d] => destruct (entriesFromRanges a b c d) end;
        reflexivity.
    + rewrite gefr_none.
      match goal with |- context [entriesFromRanges ?a ?b ?c ?d] => destruct (entriesFromRanges a b c d) end;
        reflexivity.
  - rewrite gefr_none.
    match goal with |- context [entriesFromRanges ?a ?b ?c ?d] => destruct (entriesFromRanges a b c d) end;
      reflexivity.
Qed.
Theorem gotie_GetEventsFromID r id count :
  rid r < W64 ->
  GoEvents.GetEventsFromID (toGo r) id count = lift q_out (Ring.getEventsFromID r id count).
Proof.
  intros H. unfold GoEvents.GetEventsFromID. rewrite (gotie_getEventsFromID r id count H).
  destruct (Ring.getEventsFromID r id count); reflexivity.
Qed.

(* ---- GetRecentEvents ---- *)
Theorem gotie_GetRecentEvents r count :
  rid r < W64 ->
  GoEvents.GetRecentEvents (toGo r) count = lift (fun x => x) (Ring.getRecentEvents r count).
Proof.
  intros Hrid. unfold GoEvents.GetRecentEvents, Ring.getRecentEvents.
  rewrite (gotie_getLastEventID r Hrid), gotie_getLowestID. norm64.
  cbv zeta.
  match goal with |- context [GoEvents.getEventsFromID _ ?s _] =>
    rewrite (gotie_getEventsFromID r s count Hrid) end.
  match goal with |- context [Ring.getEventsFromID r ?s count] =>
    replace (Ring.getEventsFromID r s count) with
      (Ring.getEventsFromID r (N.max (if lastEventID r <? count then 0 else add64 (sub64 (lastEventID r) count) 1) (lowestId r)) count);
    [destruct (Ring.getEventsFromID r (N.max (if lastEventID r <? count then 0 else add64 (sub64 (lastEventID r) count) 1) (lowestId r)) count)|]
  end; reflexivity.
Qed.

(* ---- Resize ---- *)
Theorem gotie_Resize r k : GoEvents.Resize (toGo r) k = lift toGo (Ring.resize r k).
Proof.
  unfold GoEvents.Resize, Ring.resize.
  proj_toGo.
  destruct (k =? capacity r); [reflexivity|].
  rewrite make_slice_make_len, gotie_getLowestID. cbv zeta. rewrite gotie_updateLowestID.
  proj_toGo. rewrite u64_rem_mod. norm64.
  destruct (capacity r =? 0) eqn:Ec.
  { destruct (make_len k); reflexivity. }
  destruct (make_len k) as [newEvents|]; cbn [lift gbind]; [|reflexivity].
  cbv zeta. rewrite u64_rem_mod, Ec. cbn [gbind]. norm64.
  set (numCopy := N.min (sub64 (rid r) (lowestId r)) k).
  set (startIndex := sub64 (add64 (head r) (capacity r)) numCopy mod capacity r).
  set (endIndex := sub64 (add64 startIndex numCopy) 1 mod capacity r).
  set (low' := Ring.updateLowestID r (capacity r) k).
  unfold toGo, setLow;
    cbn [eventRingBuffer_events eventRingBuffer_capacity events capacity head full rid lowestId resizeOffset].
  destruct (startIndex <=? endIndex).
  - rewrite slice_sub_slice.
    destruct (slice startIndex (add64 endIndex 1) (events r)) as [src|]; cbn [lift gbind]; [|reflexivity].
    cbn [set_eventRingBuffer_capacity set_eventRingBuffer_events set_eventRingBuffer_head
         set_eventRingBuffer_resizeOffset set_eventRingBuffer_full
         eventRingBuffer_events eventRingBuffer_capacity eventRingBuffer_head eventRingBuffer_full
         eventRingBuffer_id eventRingBuffer_lowestId eventRingBuffer_resizeOffset].
    rewrite u64_rem_mod. destruct (k =? 0); reflexivity.
  - rewrite slice_sub_slice_len, slice_sub_slice_0.
    destruct (slice startIndex (N.of_nat (length (events r))) (events r)) as [src1|]; cbn [lift gbind]; [|reflexivity].
    destruct (slice 0 (add64 endIndex 1) (events r)) as [src2|]; cbn [lift gbind]; [|reflexivity].
    rewrite copy_at_model, copy_into_eq.
    destruct (N.of_nat (length (Ring.copy_into newEvents src1)) <? sub64 (capacity r) startIndex);
      cbn [lift gbind]; [reflexivity|].
    cbn [set_eventRingBuffer_capacity set_eventRingBuffer_events set_eventRingBuffer_head
         set_eventRingBuffer_resizeOffset set_eventRingBuffer_full
         eventRingBuffer_events eventRingBuffer_capacity eventRingBuffer_head eventRingBuffer_full
         eventRingBuffer_id eventRingBuffer_lowestId eventRingBuffer_resizeOffset].
    rewrite u64_rem_mod. destruct (k =? 0); reflexivity.
Qed.

(* ---- consequences used by Props/GoTie.v: the generated code inherits the model's theorems ---- *)
Example gotie_ring_example :
  GoEvents.id2pos (toGo (mkRing [Some 4; Some 5; Some 3] 3 2 true 6 3 1)) 5 = GOk (1, true).
Proof. reflexivity. Qed.

(* ================================================================ event_store.go *)
Definition toS (s : store) : EventStore := mk_EventStore (s_events s) (s_idx s) (s_size s) (s_lastSize s).

Definition store_ok (s : store) : Prop :=
  s_idx s <= N.of_nat (length (s_events s)) /\ N.of_nat (length (s_events s)) <= 9223372036854775807.

Theorem gotie_Store s ev : store_ok s -> GoEvents.Store (toS s) (Some ev) = GOk (toS (store_put s ev)).
Proof.
  intros [H1 H2]. unfold GoEvents.Store, store_put, toS; cbn [EventStore_idx EventStore_events].
  assert (E : i64_to_u64 (Z.of_nat (length (s_events s))) = N.of_nat (length (s_events s))).
  { unfold i64_to_u64. rewrite Z.mod_small by lia. lia. }
  rewrite E. destruct (N.eqb_spec (s_idx s) (N.of_nat (length (s_events s)))) as [Ei|Ei]; [reflexivity|].
  unfold slice_set. replace (Z.of_N (s_idx s) <? 0)%Z with false by lia.
  replace (Z.of_nat (length (s_events s)) <=? Z.of_N (s_idx s))%Z with false by lia.
  cbn [orb gbind]. rewrite Z_N_nat'. reflexivity.
Qed.

Lemma copy_into_full {A} (d s : list A) : length d = length s -> GoPrelude.copy_into d s = s.
Proof.
  intros H. unfold GoPrelude.copy_into. rewrite H, firstn_all, skipn_all2 by lia. apply app_nil_r.
Qed.

Theorem gotie_CollectEvents s : store_ok s -> s_size s <= 9223372036854775807 ->
  GoEvents.CollectEvents (toS s) = GOk (toS (snd (store_collect s)), fst (store_collect s)).
Proof.
  intros [H1 H2] H3. unfold GoEvents.CollectEvents, store_collect, toS;
    cbn [EventStore_idx EventStore_events EventStore_size EventStore_lastSize fst snd].
  unfold slice_sub. cbn [Z.ltb Z.compare orb].
  replace (Z.of_N (s_idx s) <? 0)%Z with false by lia.
  replace (Z.of_nat (length (s_events s)) <? Z.of_N (s_idx s))%Z with false by lia.
  cbn [orb gbind skipn]. replace (Z.to_nat (Z.of_N (s_idx s) - 0)) with (N.to_nat (s_idx s)) by lia.
  cbn [Z.to_nat skipn].
  assert (L : length (firstn (N.to_nat (s_idx s)) (s_events s)) = N.to_nat (s_idx s)) by (rewrite firstn_length; lia).
  unfold make_slice, MAX. rewrite L.
  replace (Z.of_nat (N.to_nat (s_idx s)) <? 0)%Z with false by lia.
  replace (2 ^ 63 - 1 <? Z.of_nat (N.to_nat (s_idx s)))%Z with false by lia.
  cbn [orb gbind]. rewrite copy_into_full by (rewrite repeat_length, L; lia).
  destruct (N.eqb_spec (s_size s) (s_lastSize s)) as [E|E]; cbn [negb gbind].
  - cbn [set_EventStore_idx set_EventStore_lastSize EventStore_events EventStore_idx EventStore_size EventStore_lastSize].
    reflexivity.
  - replace (Z.of_N (s_size s) <? 0)%Z with false by lia.
    replace (2 ^ 63 - 1 <? Z.of_N (s_size s))%Z with false by lia.
    cbn [orb gbind set_EventStore_events set_EventStore_idx set_EventStore_lastSize
         EventStore_events EventStore_idx EventStore_size EventStore_lastSize].
    rewrite Z_N_nat'. reflexivity.
Qed.

Theorem gotie_CountStoredEvents s : GoEvents.CountStoredEvents (toS s) = s_idx s.
Proof. reflexivity. Qed.
Theorem gotie_SetStoreSize s n : GoEvents.SetStoreSize (toS s) n = toS (store_setSize s n).
Proof. reflexivity. Qed.
