(* C20: representation invariant of the event ring buffer and its preservation by Add and Resize. *)
From Coq Require Import List NArith Bool Lia ZifyN ZifyNat ZifyBool PeanoNat.
From YK Require Import Events.Ring Events.RingSpec Events.RingLemmas.
Import ListNotations.
Open Scope N_scope.

(* [Inv r n]: r is a ring into which n events (payloads 0..n-1, in this order) have been added. *)
Record Inv (r : ring) (n : N) : Prop := mkInv {
  inv_cap_pos : 0 < capacity r;
  inv_cap_max : capacity r <= MAXLEN;
  inv_len : length (events r) = N.to_nat (capacity r);
  inv_rid : rid r = n;
  inv_n : n < W64;
  inv_off_low : resizeOffset r <= lowestId r;
  inv_low_rid : lowestId r <= rid r;
  inv_ret : rid r - lowestId r <= capacity r;
  inv_full : full r = (capacity r <=? rid r - resizeOffset r);
  inv_low_full : full r = true -> lowestId r = rid r - capacity r;
  inv_low_nfull : full r = false -> lowestId r = resizeOffset r;
  inv_head : head r = (rid r - resizeOffset r) mod capacity r;
  inv_ev : forall i, lowestId r <= i -> i < rid r ->
     nth (N.to_nat ((i - resizeOffset r) mod capacity r)) (events r) None = Some i }.

(* abstraction function: number of events ever added, number retained, capacity *)
Definition abs (r : ring) : hspec := mkSpec (rid r) (rid r - lowestId r) (capacity r).

Definition size_ok (k : N) : Prop := 0 < k /\ k <= MAXLEN.

Lemma newRing_inv cap : size_ok cap -> Inv (newRing cap) 0.
Proof.
  intros [H1 H2]. pose proof W64_pos.
  constructor; cbn [newRing events capacity head full rid lowestId resizeOffset]; try lia.
  apply repeat_length.
Qed.

Lemma newRing_abs cap : abs (newRing cap) = spec_init cap.
Proof. reflexivity. Qed.

(* ---- Add ---- *)
Lemma add_inv r n :
  Inv r n -> n + 1 < W64 ->
  exists r', add r n = Ok r' /\ Inv r' (n + 1) /\
             abs r' = fst (spec_step (abs r) RAdd) /\
             capacity r' = capacity r /\ resizeOffset r' = resizeOffset r.
Proof.
  intros I Hn. destruct I as [Hc Hcm Hlen Hrid Hnw Hol Hlr Hret Hfull Hlf Hlnf Hhead Hev].
  destruct r as [evs cap hd fl id low off].
  cbn [events capacity head full rid lowestId resizeOffset] in *.
  pose proof MAXLEN_W64 as HM. subst id.
  pose proof (mod_lt' (n - off) cap Hc) as Hhd. rewrite <- Hhead in Hhd.
  unfold add. cbn [events capacity head full rid lowestId resizeOffset].
  destruct (N.leb_spec (N.of_nat (length evs)) hd) as [Hx|_]; [lia|].
  destruct (N.eqb_spec cap 0) as [Hx|_]; [lia|].
  rewrite (sub64_small cap 1) by lia.
  rewrite (add64_small hd 1) by lia.
  rewrite (add64_small n 1) by lia.
  eexists; split; [reflexivity|].
  assert (Hhd' : (hd + 1) mod cap = (n + 1 - off) mod cap).
  { replace (n + 1 - off) with ((n - off) + 1) by lia.
    rewrite <- (N.add_mod_idemp_l (n - off) 1 cap) by lia. rewrite <- Hhead. reflexivity. }
  assert (Hlen' : length (upd (N.to_nat hd) (Some n) evs) = N.to_nat cap)
    by (rewrite length_upd; exact Hlen).
  assert (Hev' : forall i, (if fl then low + 1 else low) <= i -> i < n + 1 ->
            nth (N.to_nat ((i - off) mod cap)) (upd (N.to_nat hd) (Some n) evs) None = Some i).
  { intros i Hi1 Hi2.
    assert (Hd : n - (if fl then low + 1 else low) < cap).
    { destruct fl; [specialize (Hlf eq_refl); lia|].
      specialize (Hlnf eq_refl). symmetry in Hfull. apply N.leb_gt in Hfull. lia. }
    destruct (N.eq_dec i n) as [->|Hne].
    - rewrite <- Hhead. apply nth_upd_eq. lia.
    - rewrite nth_upd_neq.
      + apply Hev; destruct fl; lia.
      + rewrite Hhead. intro E. apply N2Nat.inj in E. symmetry in E. revert E.
        apply mod_neq; destruct fl; lia. }
  destruct fl.
  - (* full: the oldest event is overwritten *)
    specialize (Hlf eq_refl). clear Hlnf.
    symmetry in Hfull. apply N.leb_le in Hfull.
    rewrite (add64_small low 1) by lia.
    split; [|split; [|split; reflexivity]].
    + constructor; cbn [events capacity head full rid lowestId resizeOffset]; try lia; assumption.
    + unfold abs, spec_step. cbn [events capacity head full rid lowestId resizeOffset h_n h_ret h_cap fst].
      f_equal; lia.
  - (* not full *)
    specialize (Hlnf eq_refl). clear Hlf. subst low.
    symmetry in Hfull. apply N.leb_gt in Hfull.
    assert (Hhd0 : hd = n - off) by (rewrite Hhead; apply N.mod_small; exact Hfull).
    split; [|split; [|split; reflexivity]].
    + constructor; cbn [events capacity head full rid lowestId resizeOffset]; try lia; assumption.
    + unfold abs, spec_step. cbn [events capacity head full rid lowestId resizeOffset h_n h_ret h_cap fst].
      f_equal; lia.
Qed.

(* ---- Resize ---- *)
(* the copy phase of Resize: the m events starting at position si (cyclically) end up at 0..m-1 *)
Lemma resize_copy (evs : list (option N)) cap si m k ei (g : N -> option N) :
  0 < cap -> cap <= MAXLEN -> length evs = N.to_nat cap -> si < cap ->
  m <= cap -> m <= k -> 0 < k -> k <= MAXLEN ->
  (m = 0 -> si = 0) ->
  ei = sub64 (si + m) 1 mod cap ->
  (forall j, j < m -> nth (N.to_nat ((si + j) mod cap)) evs None = g j) ->
  exists out,
    (if si <=? ei
       then
        match slice si (ei + 1) evs with
        | Ok src => Ok (copy_into (repeat None (N.to_nat k)) src)
        | Crash => Crash
        end
       else
        match slice si (N.of_nat (length evs)) evs with
        | Ok src1 =>
            match slice 0 (ei + 1) evs with
            | Ok src2 =>
                if
                 N.of_nat
                   (length (copy_into (repeat None (N.to_nat k)) src1)) <?
                 cap - si
                then Crash
                else
                 Ok
                   (firstn (N.to_nat (cap - si))
                      (copy_into (repeat None (N.to_nat k)) src1) ++
                    copy_into
                      (skipn (N.to_nat (cap - si))
                         (copy_into (repeat None (N.to_nat k)) src1)) src2)
            | Crash => Crash
            end
        | Crash => Crash
        end) = Ok out /\ length out = N.to_nat k /\
    forall j, j < m -> nth (N.to_nat j) out None = g j.
Proof.
  intros Hc Hcm Hlen Hsi_lt Hm1 Hm2 Hk Hkm Hm0si Hei Hold.
  pose proof MAXLEN_W64 as HM.
  assert (Hei_lt : ei < cap) by (rewrite Hei; apply mod_lt'; exact Hc).
  set (new := repeat None (N.to_nat k)).
  assert (Hnew : length new = N.to_nat k) by apply repeat_length.
  destruct (N.eq_dec m 0) as [Hm0|Hm0].
  - (* empty buffer: nothing to copy *)
    clear Hei. specialize (Hm0si Hm0).
    destruct (N.leb_spec si ei) as [_|Hx]; [|lia].
    rewrite slice_ok by lia.
    eexists; split; [reflexivity|]. split; [rewrite length_copy_into; exact Hnew|].
    intros j Hj. lia.
  - rewrite sub64_small in Hei by lia.
    destruct (N.lt_ge_cases (si + m - 1) cap) as [Hw|Hw].
    + (* one contiguous range *)
      rewrite N.mod_small in Hei by exact Hw.
      destruct (N.leb_spec si ei) as [_|Hx]; [|lia].
      rewrite slice_ok by lia.
      eexists; split; [reflexivity|]. split; [rewrite length_copy_into; exact Hnew|].
      intros j Hj.
      rewrite nth_copy_lt; [| lia | rewrite length_subl by lia; lia].
      rewrite nth_subl by lia.
      rewrite <- (Hold j Hj). f_equal.
      rewrite N.mod_small by lia. lia.
    + (* wrapped: two ranges *)
      assert (Hei' : ei = si + m - 1 - cap).
      { rewrite Hei. symmetry. apply N.mod_unique with (q := 1); lia. }
      clear Hei.
      destruct (N.leb_spec si ei) as [Hx|_]; [lia|].
      rewrite !slice_ok by lia.
      rewrite length_copy_into.
      destruct (N.ltb_spec (N.of_nat (length new)) (cap - si)) as [Hx|_]; [lia|].
      eexists; split; [reflexivity|].
      split; [rewrite length_copy2; rewrite length_copy_into; lia|].
      intros j Hj.
      destruct (N.lt_ge_cases j (cap - si)) as [Hj1|Hj1].
      * rewrite nth_copy2_lt; [| rewrite length_copy_into; lia | lia].
        rewrite nth_copy_lt; [| lia | rewrite length_subl by lia; lia].
        rewrite nth_subl by lia.
        rewrite <- (Hold j Hj). f_equal.
        rewrite N.mod_small by lia. lia.
      * rewrite nth_copy2_ge;
          [| lia | rewrite length_copy_into; lia | rewrite length_subl by lia; lia].
        rewrite nth_subl by lia.
        rewrite <- (Hold j Hj). f_equal.
        assert (E : (si + j) mod cap = si + j - cap).
        { symmetry. apply N.mod_unique with (q := 1); lia. }
        rewrite E. lia.
Qed.

Lemma resize_inv r n k :
  Inv r n -> size_ok k ->
  exists r', resize r k = Ok r' /\ Inv r' n /\ abs r' = fst (spec_step (abs r) (RResize k)).
Proof.
  intros I [Hk Hkm].
  unfold resize. destruct (N.eqb_spec k (capacity r)) as [->|Hne].
  { exists r. split; [reflexivity|]. split; [exact I|].
    destruct I. unfold abs, spec_step. cbn [h_n h_ret h_cap fst]. f_equal. lia. }
  destruct I as [Hc Hcm Hlen Hrid Hnw Hol Hlr Hret Hfull Hlf Hlnf Hhead Hev].
  destruct r as [evs cap hd fl id low off].
  cbn [events capacity head full rid lowestId resizeOffset] in *.
  pose proof MAXLEN_W64 as HM. subst id.
  pose proof (mod_lt' (n - off) cap Hc) as Hhd. rewrite <- Hhead in Hhd.
  destruct (N.eqb_spec cap 0) as [Hx|_]; [lia|].
  rewrite (make_len_ok k Hkm).
  unfold updateLowestID. cbn [events capacity head full rid lowestId resizeOffset].
  rewrite (sub64_small n low) by lia.
  rewrite (add64_small hd cap) by lia.
  remember (N.min (n - low) k) as m eqn:Hm.
  assert (Hm1 : m <= cap) by lia. assert (Hm2 : m <= k) by lia. assert (Hm3 : m <= n - low) by lia.
  rewrite (sub64_small (hd + cap) m) by lia.
  assert (Hsi : (hd + cap - m) mod cap = (n - m - off) mod cap).
  { rewrite Hhead. replace (n - off) with ((n - m - off) + m) by lia.
    rewrite mod_head_back by lia. reflexivity. }
  assert (Hm0si : m = 0 -> (hd + cap - m) mod cap = 0).
  { intros Hm0. rewrite Hsi.
    destruct fl; [specialize (Hlf eq_refl)|specialize (Hlnf eq_refl)].
    - clear Hsi Hhead. lia.
    - replace (n - m - off) with 0 by (clear Hsi Hhead; lia). apply N.mod_0_l. lia. }
  assert (Hsi_lt : (hd + cap - m) mod cap < cap) by (apply mod_lt'; exact Hc).
  remember ((hd + cap - m) mod cap) as si eqn:Esi. clear Esi Hhead.
  assert (Hpos : forall j, (si + j) mod cap = (n - m - off + j) mod cap).
  { intros j. rewrite Hsi. apply N.add_mod_idemp_l. lia. }
  clear Hsi.
  rewrite (add64_small si m) by lia.
  remember (sub64 (si + m) 1 mod cap) as ei eqn:Eei.
  assert (Hei_lt : ei < cap) by (rewrite Eei; apply mod_lt'; exact Hc).
  rewrite (add64_small ei 1) by lia.
  rewrite (sub64_small cap si) by lia.
  destruct (resize_copy evs cap si m k ei (fun j => Some (n - m + j)))
    as (out & Eout & Hlo & Hnth); try assumption.
  { intros j Hj. rewrite Hpos.
    replace (n - m - off + j) with (n - m + j - off) by lia. apply Hev; lia. }
  rewrite Eout. clear Eout Eei.
  destruct (N.eqb_spec k 0) as [Hx|_]; [lia|].
  assert (Hlow' : (if cap <? k then low else if n - low <=? k then low else sub64 n k) = n - m).
  { destruct (N.ltb_spec cap k); [lia|].
    destruct (N.leb_spec (n - low) k); [lia|]. rewrite sub64_small by lia. lia. }
  rewrite Hlow'.
  eexists; split; [reflexivity|]. split.
  - assert (Hev' : forall i, n - m <= i -> i < n ->
              nth (N.to_nat ((i - (n - m)) mod k)) out None = Some i).
    { intros i Hi1 Hi2. rewrite N.mod_small by lia.
      rewrite (Hnth (i - (n - m))) by lia. f_equal. lia. }
    constructor; cbn [events capacity head full rid lowestId resizeOffset];
      [lia|lia|exact Hlo|reflexivity|lia|lia|lia|lia|lia|lia|lia|f_equal; lia|exact Hev'].
  - unfold abs, spec_step. cbn [events capacity head full rid lowestId resizeOffset h_n h_ret h_cap fst].
    f_equal. lia.
Qed.
