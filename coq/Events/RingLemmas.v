(* Helper lemmas for the C20 proofs: uint64 arithmetic without wrap, modular arithmetic with a
   variable modulus, and list lemmas for upd / slice / copy_into / nseq. *)
From Coq Require Import List NArith Bool Lia ZifyN ZifyNat ZifyBool PeanoNat.
From YK Require Import Events.Ring Events.RingSpec.
Import ListNotations.
Open Scope N_scope.

(* largest slice length make() accepts: MaxInt64 *)
Definition MAXLEN : N := 9223372036854775807.

Lemma W64_pos : 0 < W64. Proof. reflexivity. Qed.
Lemma MAXLEN_W64 : 2 * MAXLEN < W64. Proof. reflexivity. Qed.

Lemma sub64_small a b : b <= a -> a < W64 -> sub64 a b = a - b.
Proof.
  intros Hba Ha. unfold sub64.
  rewrite (N.mod_small b W64) by lia.
  symmetry. apply N.mod_unique with (q := 1); lia.
Qed.

Lemma add64_small a b : a + b < W64 -> add64 a b = a + b.
Proof. intros H. unfold add64. apply N.mod_small; exact H. Qed.

Lemma make_len_ok n : n <= MAXLEN -> make_len n = Ok (repeat None (N.to_nat n)).
Proof.
  intros H. unfold make_len, MAXLEN in *.
  destruct (N.ltb_spec 9223372036854775807 n) as [H1|H1]; [lia|reflexivity].
Qed.

Global Opaque W64.

(* ---- modular arithmetic, modulus c > 0 ---- *)
Lemma mod_lt' a c : 0 < c -> a mod c < c.
Proof. intros H. apply N.mod_lt. lia. Qed.

Lemma mod_add_small a j c : 0 < c -> a mod c + j < c -> (a + j) mod c = a mod c + j.
Proof.
  intros Hc H. rewrite <- N.add_mod_idemp_l by lia. apply N.mod_small. exact H.
Qed.

Lemma mod_add_wrap a j c :
  0 < c -> c <= a mod c + j -> a mod c + j < 2 * c -> (a + j) mod c = a mod c + j - c.
Proof.
  intros Hc H1 H2. rewrite <- N.add_mod_idemp_l by lia.
  symmetry. apply N.mod_unique with (q := 1); lia.
Qed.

Lemma mod_self_add r c : 0 < c -> r < c -> (r + c) mod c = r.
Proof. intros Hc Hr. symmetry. apply N.mod_unique with (q := 1); lia. Qed.

(* position of the oldest of the last m elements, computed back from the head *)
Lemma mod_head_back a m c :
  0 < c -> m <= c -> ((a + m) mod c + c - m) mod c = a mod c.
Proof.
  intros Hc Hm. pose proof (mod_lt' a c Hc) as Hr.
  destruct (N.lt_ge_cases (a mod c + m) c) as [H|H].
  - rewrite (mod_add_small a m c Hc H).
    replace (a mod c + m + c - m) with (a mod c + c) by lia.
    apply mod_self_add; assumption.
  - rewrite (mod_add_wrap a m c Hc H) by lia.
    replace (a mod c + m - c + c - m) with (a mod c) by lia.
    apply N.mod_small; assumption.
Qed.

Lemma mod_neq a b c : 0 < c -> a < b -> b - a < c -> a mod c <> b mod c.
Proof.
  intros Hc Hab Hd. pose proof (mod_lt' a c Hc) as Hr.
  replace b with (a + (b - a)) by lia.
  destruct (N.lt_ge_cases (a mod c + (b - a)) c) as [H|H].
  - rewrite (mod_add_small a (b - a) c Hc H). lia.
  - rewrite (mod_add_wrap a (b - a) c Hc H) by lia. lia.
Qed.

(* ---- lists ---- *)
Section Lists.
Context {A : Type}.
Implicit Types (l : list A) (d x : A).

Lemma length_upd n x l : length (upd n x l) = length l.
Proof. revert n; induction l as [|h t IH]; intros [|n]; simpl; auto. Qed.

Lemma nth_upd_eq n x l d : (n < length l)%nat -> nth n (upd n x l) d = x.
Proof.
  revert n; induction l as [|h t IH]; intros [|n] H; simpl in *; try lia; auto.
  apply IH. lia.
Qed.

Lemma nth_upd_neq n m x l d : n <> m -> nth m (upd n x l) d = nth m l d.
Proof.
  revert n m; induction l as [|h t IH]; intros [|n] [|m] H; simpl; auto; try congruence.
Qed.

Lemma nth_firstn' n j l d : (j < n)%nat -> nth j (firstn n l) d = nth j l d.
Proof.
  revert j l; induction n as [|n IH]; intros j l H; [lia|].
  destruct l as [|h t]; [destruct j; reflexivity|].
  destruct j as [|j]; simpl; [reflexivity|]. apply IH. lia.
Qed.

Lemma nth_skipn' n j l d : nth j (skipn n l) d = nth (n + j) l d.
Proof.
  revert l; induction n as [|n IH]; intros l; [reflexivity|].
  destruct l as [|h t]; simpl; [destruct j; reflexivity|]. apply IH.
Qed.

Lemma length_copy_into (dst src : list A) : length (copy_into dst src) = length dst.
Proof.
  unfold copy_into. rewrite app_length, firstn_length, skipn_length. lia.
Qed.

Lemma nth_copy_lt (dst src : list A) j d :
  (j < length dst)%nat -> (j < length src)%nat -> nth j (copy_into dst src) d = nth j src d.
Proof.
  intros H1 H2. unfold copy_into.
  rewrite app_nth1 by (rewrite firstn_length; lia).
  apply nth_firstn'. exact H1.
Qed.

(* the sub-slice l[a:b] *)
Definition subl (a b : N) l : list A := firstn (N.to_nat (b - a)) (skipn (N.to_nat a) l).

Lemma slice_ok a b l : a <= b -> b <= N.of_nat (length l) -> slice a b l = Ok (subl a b l).
Proof.
  intros H1 H2. unfold slice, subl.
  destruct (N.ltb_spec b a); [lia|].
  destruct (N.ltb_spec (N.of_nat (length l)) b); [lia|]. reflexivity.
Qed.

Lemma length_subl a b l : a <= b -> b <= N.of_nat (length l) ->
  length (subl a b l) = N.to_nat (b - a).
Proof. intros H1 H2. unfold subl. rewrite firstn_length, skipn_length. lia. Qed.

Lemma nth_subl a b l j d : (j < N.to_nat (b - a))%nat ->
  nth j (subl a b l) d = nth (N.to_nat a + j) l d.
Proof. intros H. unfold subl. rewrite nth_firstn' by exact H. apply nth_skipn'. Qed.

(* dst[:n] ++ copy(dst[n:], src): what two consecutive copy() calls leave behind *)
Lemma length_copy2 (dst1 src2 : list A) n : (n <= length dst1)%nat ->
  length (firstn n dst1 ++ copy_into (skipn n dst1) src2) = length dst1.
Proof.
  intros H. rewrite app_length, firstn_length, length_copy_into, skipn_length. lia.
Qed.

Lemma nth_copy2_lt (dst1 src2 : list A) n j d : (n <= length dst1)%nat -> (j < n)%nat ->
  nth j (firstn n dst1 ++ copy_into (skipn n dst1) src2) d = nth j dst1 d.
Proof.
  intros H1 H2. rewrite app_nth1 by (rewrite firstn_length; lia). apply nth_firstn'. exact H2.
Qed.

Lemma nth_copy2_ge (dst1 src2 : list A) n j d :
  (n <= j)%nat -> (j < length dst1)%nat -> (j - n < length src2)%nat ->
  nth j (firstn n dst1 ++ copy_into (skipn n dst1) src2) d = nth (j - n) src2 d.
Proof.
  intros H1 H2 H3. rewrite app_nth2 by (rewrite firstn_length; lia).
  rewrite firstn_length. replace (Nat.min n (length dst1)) with n by lia.
  apply nth_copy_lt; [rewrite skipn_length; lia | exact H3].
Qed.
End Lists.

(* ---- nseq / nlist ---- *)
Lemma length_nseq a len : length (nseq a len) = len.
Proof. revert a; induction len as [|k IH]; intros a; simpl; auto. Qed.

Lemma nth_nseq a len j : (j < len)%nat -> nth j (nseq a len) None = Some (a + N.of_nat j).
Proof.
  revert a j; induction len as [|k IH]; intros a j H; [lia|].
  destruct j as [|j]; simpl nth.
  - f_equal. lia.
  - rewrite IH by lia. f_equal. lia.
Qed.

Lemma list_eq_nseq (l : list (option N)) a len :
  length l = len ->
  (forall j, (j < len)%nat -> nth j l None = Some (a + N.of_nat j)) ->
  l = nseq a len.
Proof.
  intros Hl Hn. apply nth_ext with (d := None) (d' := None).
  - rewrite length_nseq. exact Hl.
  - intros j Hj. rewrite nth_nseq by lia. apply Hn. lia.
Qed.

Lemma nth_repeat_None (n j : nat) : nth j (repeat (@None N) n) None = None.
Proof. revert j; induction n as [|n IH]; intros [|j]; simpl; auto. Qed.
