(* C20: the event store (batch handed to the shim) refines store_spec; batch size bound. *)
From Coq Require Import List NArith Bool Lia ZifyN ZifyNat ZifyBool PeanoNat.
From YK Require Import Events.Ring Events.RingSpec Events.RingLemmas.
Import ListNotations.
Open Scope N_scope.

(* sizes are uint64 values *)
Definition sop_ok (o : sop) : bool := match o with SSetSize k => k <? W64 | _ => true end.

Record SInv (s : store) (cur : list N) (limit sz : N) : Prop := mkSInv {
  si_last : s_lastSize s = limit;
  si_len : length (s_events s) = N.to_nat limit;
  si_idx : s_idx s = N.of_nat (length cur);
  si_idx_le : s_idx s <= limit;
  si_cur : firstn (N.to_nat (s_idx s)) (s_events s) = map Some cur;
  si_size : s_size s = sz;
  si_limit64 : limit < W64;
  si_sz64 : sz < W64 }.

Lemma firstn_upd_snoc {A} n (x : A) l :
  (n < length l)%nat -> firstn (S n) (upd n x l) = firstn n l ++ [x].
Proof.
  revert n; induction l as [|h t IH]; intros [|n] H; cbn [length] in H; try lia.
  - reflexivity.
  - cbn [upd firstn app]. f_equal. apply IH. lia.
Qed.

Lemma newStore_inv size : size < W64 -> SInv (newStore size) [] size size.
Proof.
  intros H. constructor; cbn [newStore s_events s_idx s_size s_lastSize length map]; try lia.
  - apply repeat_length.
  - reflexivity.
Qed.

Lemma store_put_inv s cur limit sz n :
  SInv s cur limit sz ->
  SInv (store_put s n) (if N.of_nat (length cur) <? limit then cur ++ [n] else cur) limit sz.
Proof.
  intros [H1 H2 H3 H4 H5 H6 H7 H8]. unfold store_put.
  destruct (N.eqb_spec (s_idx s) (N.of_nat (length (s_events s)))) as [E|E].
  - destruct (N.ltb_spec (N.of_nat (length cur)) limit); [lia|]. constructor; assumption.
  - destruct (N.ltb_spec (N.of_nat (length cur)) limit); [|lia].
    rewrite add64_small by lia.
    constructor; cbn [s_events s_idx s_size s_lastSize]; try assumption.
    + rewrite length_upd. exact H2.
    + rewrite app_length. cbn [length]. lia.
    + lia.
    + replace (N.to_nat (s_idx s + 1)) with (S (N.to_nat (s_idx s))) by lia.
      rewrite firstn_upd_snoc by lia. rewrite H5, map_app. reflexivity.
Qed.

Lemma store_collect_inv s cur limit sz :
  SInv s cur limit sz ->
  fst (store_collect s) = map Some cur /\ SInv (snd (store_collect s)) [] sz sz.
Proof.
  intros [H1 H2 H3 H4 H5 H6 H7 H8]. unfold store_collect. cbn [fst snd]. split; [exact H5|].
  constructor; cbn [s_events s_idx s_size s_lastSize length map firstn N.to_nat]; try lia; try reflexivity.
  destruct (N.eqb_spec (s_size s) (s_lastSize s)) as [E|E].
  - lia.
  - rewrite repeat_length. lia.
Qed.

Lemma store_setSize_inv s cur limit sz k :
  SInv s cur limit sz -> k < W64 -> SInv (store_setSize s k) cur limit k.
Proof.
  intros [H1 H2 H3 H4 H5 H6 H7 H8] Hk. constructor; cbn [store_setSize s_events s_idx s_size s_lastSize]; auto.
Qed.

Lemma srun_refines ops : forall s cur limit sz n,
  SInv s cur limit sz -> forallb sop_ok ops = true ->
  srun s n ops = store_spec cur limit sz n ops.
Proof.
  induction ops as [|o t IH]; intros s cur limit sz n I Hok; [reflexivity|].
  cbn [forallb] in Hok. apply andb_prop in Hok. destruct Hok as [Hok1 Hok2].
  destruct o as [| |k]; cbn [srun store_spec].
  - pose proof (store_put_inv s cur limit sz n I) as I'.
    destruct (N.of_nat (length cur) <? limit); apply IH; assumption.
  - destruct (store_collect_inv s cur limit sz I) as [E I'].
    destruct (store_collect s) as [m s']. cbn [fst snd] in *. subst m. f_equal.
    apply IH; assumption.
  - cbn [sop_ok] in Hok1. apply N.ltb_lt in Hok1.
    apply IH; [apply (store_setSize_inv s cur limit sz k)|]; assumption.
Qed.

(* MAIN THEOREM (store) *)
Theorem store_refines size ops :
  size < W64 -> forallb sop_ok ops = true ->
  srun (newStore size) 0 ops = store_spec [] size size 0 ops.
Proof. intros H Hok. apply srun_refines; [apply newStore_inv|]; assumption. Qed.

(* the limit each collected batch is subject to: the configured size at the time of the previous
   collect (initially the construction size); SetStoreSize takes effect at the next collect *)
Fixpoint batch_limits (limit size : N) (ops : list sop) : list N :=
  match ops with
  | [] => []
  | SPut :: t => batch_limits limit size t
  | SCollect :: t => limit :: batch_limits size size t
  | SSetSize k :: t => batch_limits limit k t
  end.

Lemma store_spec_bound ops : forall cur limit sz n,
  N.of_nat (length cur) <= limit ->
  Forall2 (fun b l => N.of_nat (length b) <= l) (store_spec cur limit sz n ops) (batch_limits limit sz ops).
Proof.
  induction ops as [|o t IH]; intros cur limit sz n H; [constructor|].
  destruct o as [| |k]; cbn [store_spec batch_limits].
  - destruct (N.ltb_spec (N.of_nat (length cur)) limit); apply IH; [|assumption].
    rewrite app_length. cbn [length]. lia.
  - constructor; [rewrite map_length; exact H|]. apply IH. cbn [length]. lia.
  - apply IH. exact H.
Qed.

Corollary store_batch_le size ops :
  size < W64 -> forallb sop_ok ops = true ->
  Forall2 (fun b l => N.of_nat (length b) <= l) (srun (newStore size) 0 ops) (batch_limits size size ops).
Proof.
  intros H Hok. rewrite store_refines by assumption. apply store_spec_bound. cbn [length]. lia.
Qed.

(* non-vacuity: a store that is filled beyond its size, shrunk, collected twice *)
Example store_example :
  srun (newStore 2) 0 [SPut; SPut; SPut; SSetSize 1; SCollect; SPut; SPut; SCollect]
    = [[Some 0; Some 1]; [Some 3]]
  /\ batch_limits 2 2 [SPut; SPut; SPut; SSetSize 1; SCollect; SPut; SPut; SCollect] = [2; 1].
Proof. split; vm_compute; reflexivity. Qed.
