(* C15: the theorems about whole configurations, assembled from the per-partition lemmas. *)
From Coq Require Import List NArith ZArith Bool Lia.
From YK Require Import Base.Res Conf.Str Conf.Config Conf.Validate Conf.Load Conf.WF Conf.Lemmas.
From YK Require Import Conf.ConfSound Conf.ConfSoundRes Conf.ConfSoundLimits Conf.ConfSoundRules Conf.ConfLoad.
Import ListNotations.

Section Main.
Variable compiles : str -> bool.

Lemma lift_root (P : queue -> bool) :
  (forall p p' root, PartOk compiles p p' root -> P root = true) ->
  forall c c', Validate compiles c = VOk c' -> Forall (fun p' => P (rootq p') = true) c'.
Proof.
  intros HP c c' E. apply validated_parts in E. eapply Forall_impl; [|exact E].
  intros p' (p & root & H). destruct (partok_rootq _ _ _ _ H) as (-> & _). eapply HP; eassumption.
Qed.

(* validate_sound, conjunct by conjunct *)
Theorem validate_sound_root c c' : Validate compiles c = VOk c' -> Forall (fun p => wf_root p = true) c'.
Proof.
  intros E. apply validated_parts in E. eapply Forall_impl; [|exact E].
  intros p' (p & root & H). eapply sound_root; eassumption.
Qed.
Theorem validate_sound_names c c' : Validate compiles c = VOk c' -> Forall (fun p => wf_names (rootq p) = true) c'.
Proof. apply (lift_root wf_names). apply sound_names. Qed.
Theorem validate_sound_quantities c c' : Validate compiles c = VOk c' -> Forall (fun p => wf_quantities (rootq p) = true) c'.
Proof. apply (lift_root wf_quantities). apply sound_quantities. Qed.
Theorem validate_sound_max_parent c c' : Validate compiles c = VOk c' -> Forall (fun p => wf_max_parent (rootq p) = true) c'.
Proof. apply (lift_root wf_max_parent). apply sound_max_parent. Qed.
Theorem validate_sound_gua_max c c' : Validate compiles c = VOk c' -> Forall (fun p => wf_gua_max (rootq p) = true) c'.
Proof. apply (lift_root wf_gua_max). apply sound_gua_max. Qed.
Theorem validate_sound_sum_gua c c' : Validate compiles c = VOk c' -> Forall (fun p => wf_sum_gua (rootq p) = true) c'.
Proof. apply (lift_root wf_sum_gua). apply sound_sum_gua. Qed.
Theorem validate_sound_maxapps c c' : Validate compiles c = VOk c' -> Forall (fun p => wf_maxapps (rootq p) = true) c'.
Proof. apply (lift_root wf_maxapps). apply sound_maxapps. Qed.
Theorem validate_sound_limit_queue c c' : Validate compiles c = VOk c' -> Forall (fun p => wf_limit_queue (rootq p) = true) c'.
Proof. apply (lift_root wf_limit_queue). apply sound_limit_queue. Qed.
(* conjuncts 9 and 10: the part that holds (see sound_limit_anc_res_refuted / sound_limit_anc_apps_refuted) *)
Theorem validate_sound_limits_partial c c' : Validate compiles c = VOk c' ->
  Forall (fun p => wf_limit_named_res (rootq p) = true /\ wf_limit_wild_res (rootq p) = true /\
                   wf_limit_named_apps (rootq p) = true /\ wf_limit_wild_apps (rootq p) = true) c'.
Proof.
  intros E. apply validated_parts in E. eapply Forall_impl; [|exact E].
  intros p' (p & root & H). destruct (partok_rootq _ _ _ _ H) as (-> & _).
  repeat split; [eapply sound_limit_named_res | eapply sound_limit_wild_res | eapply sound_limit_named_apps | eapply sound_limit_wild_apps]; eassumption.
Qed.
(* conjunct 11: the part that holds (see sound_rules_refuted) *)
Theorem validate_sound_rules_partial c c' : Validate compiles c = VOk c' ->
  Forall (fun p => forallb (fun r => resolvable (rootq p) r || rule_offroot r) (p_rules p) = true) c'.
Proof.
  intros E. apply validated_parts in E. eapply Forall_impl; [|exact E].
  intros p' (p & root & H). destruct (partok_rootq _ _ _ _ H) as (-> & _ & ->). eapply sound_rules_partial; eassumption.
Qed.

(* everything that is proved of an accepted configuration *)
Definition WFp_proved (p : partition) : Prop :=
  wf_root p = true /\ wf_names (rootq p) = true /\ wf_quantities (rootq p) = true /\
  wf_max_parent (rootq p) = true /\ wf_gua_max (rootq p) = true /\ wf_sum_gua (rootq p) = true /\
  wf_maxapps (rootq p) = true /\ wf_limit_queue (rootq p) = true /\
  wf_limit_named_res (rootq p) = true /\ wf_limit_wild_res (rootq p) = true /\
  wf_limit_named_apps (rootq p) = true /\ wf_limit_wild_apps (rootq p) = true /\
  forallb (fun r => resolvable (rootq p) r || rule_offroot r) (p_rules p) = true.

(* full statement (refuted, validate_sound_refuted):  Validate c = VOk c' -> WF c'
   missing in the partial form: conjuncts 9/10 only against ancestors that NAME the user/group and against wildcards
   when no ancestor names it; conjunct 11 up to fixed rules whose queue starts with "root" outside the hierarchy *)
Theorem validate_sound_partial c c' : Validate compiles c = VOk c' -> Forall WFp_proved c'.
Proof.
  intros E.
  pose proof (validate_sound_root _ _ E) as H1. pose proof (validate_sound_names _ _ E) as H2.
  pose proof (validate_sound_quantities _ _ E) as H3. pose proof (validate_sound_max_parent _ _ E) as H4.
  pose proof (validate_sound_gua_max _ _ E) as H5. pose proof (validate_sound_sum_gua _ _ E) as H6.
  pose proof (validate_sound_maxapps _ _ E) as H7. pose proof (validate_sound_limit_queue _ _ E) as H8.
  pose proof (validate_sound_limits_partial _ _ E) as H9. pose proof (validate_sound_rules_partial _ _ E) as H10.
  rewrite Forall_forall in *. intros p Hp. unfold WFp_proved.
  destruct (H9 p Hp) as (A & B & C & D). repeat split; auto.
Qed.

(* when the two windows are excluded the accepted configuration is well formed in the full sense *)
Theorem validate_sound_conditional c c' : Validate compiles c = VOk c' ->
  Forall (fun p => wf_limit_anc_res (rootq p) = true /\ wf_limit_anc_apps (rootq p) = true /\
                   forallb (fun r => negb (rule_offroot r)) (p_rules p) = true) c' -> WF c'.
Proof.
  intros E HC. pose proof (validate_sound_partial _ _ E) as HP. unfold WF. rewrite Forall_forall in *.
  intros p Hp. destruct (HP p Hp) as (H1 & H2 & H3 & H4 & H5 & H6 & H7 & H8 & _ & _ & _ & _ & H13).
  destruct (HC p Hp) as (C1 & C2 & C3). unfold WFp. repeat split; auto.
  unfold wf_rules. apply forallb_forall. intros r Hr. rewrite forallb_forall in H13, C3.
  specialize (H13 r Hr). specialize (C3 r Hr). apply negb_true_iff in C3. rewrite C3, orb_false_r in H13. exact H13.
Qed.
End Main.

Theorem validate_sound_refuted :
  exists c c', Validate (fun _ => false) c = VOk c' /\ ~ WF c'.
Proof.
  exists wit_apps. eexists. split; [vm_compute; reflexivity|]. intros H. inversion H as [|p t Hp _]; subst.
  destruct Hp as (_ & _ & _ & _ & _ & _ & _ & _ & _ & H10 & _). vm_compute in H10. discriminate.
Qed.

(* the hypotheses are satisfiable: a three level configuration with maxima, guaranteed resources, limits (named and
   wildcard) and a rule chain is accepted, is well formed in the full sense, and loads *)
From Coq Require String.
Import String.StringSyntax.
Local Open Scope string_scope.
Local Open Scope list_scope.
Definition ex_leaf (n : str) (g m : rmap) (apps : N) (ls : list limit) : queue :=
  Queue n false (Some g) (Some m) apps [] [] [] emptyTemplate [] ls.
Definition ex_conf : sconfig :=
  [mkPartition [] (Some [
     Queue (sb "Root") false None None 0 [] (sb "admin admin") (sb "*") emptyTemplate
       [Queue (sb "Dev") true (Some [(1%N, sb "8Gi")]) (Some [(0%N, sb "10"); (1%N, sb "16Gi")]) 20 [] [] (sb " g1")
          (mkTemplate 5 [] None (Some [(1%N, sb "1Gi")]))
          [ex_leaf (sb "a") [(1%N, sb "2Gi")] [(1%N, sb "4 Gi"); (0%N, sb "2500m")] 10
             [mkLimit (sb "l") (Some [sb "u1"]) None (Some [(1%N, sb "1Gi")]) 2];
           ex_leaf (sb "b") [(1%N, sb "6Gi")] [(1%N, sb "16Gi")] 10 []]
          [mkLimit (sb "named") (Some [sb "u1"]) (Some [sb "g1"]) (Some [(1%N, sb "2Gi")]) 4;
           mkLimit (sb "wild") (Some [s_star]) (Some [s_star]) (Some [(1%N, sb "3Gi")]) 8];
        ex_leaf (sb "prod") [] [(1%N, sb "100Gi")] 0 []]
       []])
     [PRule (sb "user") true (mkFilter (sb "allow") [sb "u1"] []) (Some (PRule (sb "Fixed") false (mkFilter [] [] []) None (sb "root.dev"))) [];
      PRule (sb "fixed") false (mkFilter [] [] []) None (sb "root.prod")]
     [] (sb "fair") [(sb "vcore", false)]].
Example validate_example :
  exists c', Validate (fun _ => false) ex_conf = VOk c' /\ Forall WFp_proved c' /\ WF c' /\
             loaded_ok (LoadNew c') = true /\ loaded_ok (LoadReload [s_default] c') = true.
Proof.
  eexists. split; [vm_compute; reflexivity|].
  split; [repeat constructor; vm_compute; reflexivity|].
  split; [repeat constructor; vm_compute; reflexivity|]. split; vm_compute; reflexivity.
Qed.
