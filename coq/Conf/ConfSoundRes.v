(* validate_sound, part 2: the resource hierarchy.
   W4  each queue's maximum within the maximum of EVERY ancestor (also through levels that do not define a type)
   W6  sum of the children's guaranteed within the parent's guaranteed and maximum (saturating int64 sums) *)
From Coq Require Import List NArith ZArith Bool Lia.
From YK Require Import Base.Int64 Base.Int64Laws Base.Res Base.ResSpec Base.ResLemmas Base.ResLaws Base.ResLaws2 Base.ResLawsPred.
From YK Require Import Conf.Str Conf.Config Conf.Validate Conf.Load Conf.WF Conf.Lemmas Conf.ConfSound.
Import ListNotations.
Open Scope Z_scope.

(* ---- parsed quantities: unique keys, values in [0, MaxInt64] ---- *)
Lemma span_forall {A} (f : A -> bool) l : forall x y, span f l = (x, y) -> Forall (fun a => f a = true) x.
Proof.
  induction l as [|a t IH]; intros x y E; cbn [span] in E.
  - inversion E. constructor.
  - destruct (f a) eqn:Ea.
    + destruct (span f t) as [x' y'] eqn:Es. inversion E; subst. constructor; eauto.
    + inversion E. constructor.
Qed.
Lemma digits_val_nonneg d : Forall (fun c => is_digit c = true) d -> forall acc, 0 <= acc -> 0 <= fold_left (fun acc c => acc * 10 + (Z.of_N c - 48)) d acc.
Proof.
  induction 1 as [|c t Hc _ IH]; intros acc Ha; cbn [fold_left]; [assumption|].
  apply IH. unfold is_digit in Hc. apply andb_true_iff in Hc. destruct Hc as [H1 H2].
  apply N.leb_le in H1. lia.
Qed.
Lemma multiplier_pos s m z : multiplier s m = Some z -> 0 < z.
Proof.
  unfold multiplier. intros E.
  repeat match type of E with
         | match ?x with _ => _ end = _ => destruct x; try discriminate
         | (if ?b then _ else _) = _ => destruct b; try discriminate
         end; inversion E; lia.
Qed.
Lemma parseQ_range milli v z : parseQ milli v = Some z -> 0 <= z <= MAXQ.
Proof.
  unfold parseQ. destruct (span is_digit (trimSpace v)) as [ds rest] eqn:Es.
  destruct ds as [|d0 dt]; [discriminate|].
  destruct (negb (suffix_syntax (dropWhile is_re_space rest))); [discriminate|].
  destruct (MAXQ <? digits_val (d0 :: dt)) eqn:E1; [discriminate|].
  destruct (multiplier (dropWhile is_re_space rest) milli) as [scale|] eqn:Em; [|discriminate].
  pose proof (multiplier_pos _ _ _ Em) as Hs.
  assert (Hn : 0 <= digits_val (d0 :: dt)).
  { unfold digits_val. apply digits_val_nonneg; [|lia]. eapply span_forall; eassumption. }
  set (r := if milli && negb (str_eqb (dropWhile is_re_space rest) [109%N]) then digits_val (d0 :: dt) * scale * 1000 else digits_val (d0 :: dt) * scale).
  destruct (MAXQ <? r) eqn:E2; [discriminate|]. intros E. inversion E; subst z.
  apply Z.ltb_ge in E2. split; [|exact E2]. subst r.
  destruct (milli && negb (str_eqb (dropWhile is_re_space rest) [109%N])); nia.
Qed.

Definition nn (r : res) : Prop := wf r /\ forall k v, get r k = Some v -> 0 <= v <= MAX.
Lemma MAXQ_MAX : MAXQ = MAX. Proof. reflexivity. Qed.
Lemma nn_nil : nn []. Proof. split; [apply wf_nil | intros k v E; discriminate]. Qed.
Lemma nn_set k z r : 0 <= z <= MAX -> nn r -> nn (set k z r).
Proof.
  intros Hz [Hw Hv]. split; [apply wf_set; assumption|]. intros k' v. rewrite get_set.
  destruct (N.eqb k' k); [intros E; inversion E; subst; assumption | apply Hv].
Qed.
Lemma parseEntries_nn m : forall acc r, parseEntries m acc = Some r -> nn acc -> nn r.
Proof.
  induction m as [|[k v] t IH]; intros acc r E Ha; cbn [parseEntries] in E.
  - inversion E; subst; assumption.
  - destruct (parseQ (N.eqb k 0) v) as [z|] eqn:Ez; [|discriminate].
    apply (IH _ _ E). apply nn_set; [|assumption]. rewrite <- MAXQ_MAX. eapply parseQ_range; eassumption.
Qed.
Lemma parseRes_nn m r : parseRes m = Some r -> nn r.
Proof. intros E. eapply parseEntries_nn; [exact E | apply nn_nil]. Qed.
Lemma pres_nn m : nn (pres m).
Proof. unfold pres. destruct (parseRes m) eqn:E; [eapply parseRes_nn; eassumption | apply nn_nil]. Qed.

Lemma nn_getz r k : nn r -> 0 <= getz r k <= MAX.
Proof.
  intros [_ Hv]. unfold getz. destruct (get r k) eqn:E; [eapply Hv; eassumption | unfold MAX; lia].
Qed.

(* ---- W4 ---- *)
(* pm is below a: on every type a defines, pm defines it with a value that is not larger *)
Definition below (pm a : res) : Prop := forall k l, get a k = Some l -> exists l', get pm k = Some l' /\ l' <= l.

Lemma within_of_below pm a s :
  wf s -> below pm a -> FitInMaxUndef (Some pm) (Some s) = true -> within a s = true.
Proof.
  intros Hs Hb Hf. unfold within. apply FitInMaxUndef_spec; [exact Hs|]. cbn [oget].
  intros k v l Es Ea. destruct (Hb k l Ea) as (l' & El' & Hle).
  apply (FitInMaxUndef_spec (Some pm) (Some s) Hs) with (k := k) (v := v) (l := l') in Hf; cbn [oget]; auto. lia.
Qed.
Lemma below_cwMin_left curM pm : wf curM -> wf pm -> below (cwMin curM pm) curM.
Proof.
  intros H1 H2 k l E. rewrite cwMin_get by assumption. rewrite E. unfold cwmin_at.
  destruct (get pm k) as [x|]; eexists; split; try reflexivity; lia.
Qed.
Lemma below_cwMin_right curM pm a : wf curM -> wf pm -> below pm a -> below (cwMin curM pm) a.
Proof.
  intros H1 H2 Hb k l E. destruct (Hb k l E) as (l' & El' & Hle). rewrite cwMin_get by assumption.
  rewrite El'. unfold cwmin_at. destruct (get curM k) as [x|]; eexists; split; try reflexivity; lia.
Qed.
Lemma below_refl a : below a a.
Proof. intros k l E. exists l. split; [assumption | lia]. Qed.

Definition maxP (anc : list queue) (q : queue) : bool :=
  forallb (fun a => within (pres (q_max a)) (pres (q_max q))) anc.

Lemma max_parent_ind q : forall anc pm g,
  checkQueueResource q pm = VOk g -> owf pm ->
  Forall (fun a => below (oget pm) (pres (q_max a))) anc ->
  forallb (fun aq => maxP (fst aq) (snd aq)) (walk anc q) = true.
Proof.
  induction q as [n p gu m a pr ad su t qs ls IH] using queue_ind'. intros anc pm g E Hw Hinv.
  rewrite (forallb_walk maxP). apply checkQueueResource_inv in E.
  destruct E as (curG & curM & sumG & _ & H2 & _ & G & H0 & _).
  set (q := Queue n p gu m a pr ad su t qs ls) in *.
  assert (Em : pres (q_max q) = curM) by (unfold pres; rewrite H2; reflexivity).
  pose proof (parseRes_wf _ _ H2) as Hwm.
  apply andb_true_iff. split.
  - unfold maxP. apply forallb_Forall. eapply Forall_impl; [|exact Hinv]. intros a0 Hb. rewrite Em.
    destruct pm as [pmr|].
    + cbn [oget] in Hb. apply (within_of_below pmr); [exact Hwm | exact Hb | exact G].
    + (* no parent maximum: only possible without ancestors that define anything *)
      unfold within. apply FitInMaxUndef_spec; [exact Hwm|]. cbn [oget]. intros k v' l Es Ea.
      destruct (Hb k l Ea) as (l' & El' & _). cbn in El'. discriminate.
  - cbn [q_queues]. apply forallb_Forall.
    apply foldV_ok_each in H0. rewrite Forall_forall in *. intros c Hc.
    destruct (H0 c Hc) as (s1 & s2 & Ec). unfold sumChild in Ec.
    apply bind_ok in Ec. destruct Ec as (cg & Ec & _).
    eapply (IH c Hc); [exact Ec | |].
    + apply owf_cwm; assumption.
    + apply Forall_forall. intros a0 [<-|Ha0].
      * rewrite Em. destruct pm as [pmr|]; cbn [ComponentWiseMin oget]; [apply below_cwMin_left; assumption | apply below_refl].
      * specialize (Hinv a0 Ha0). destruct pm as [pmr|]; cbn [ComponentWiseMin oget] in *.
        -- apply below_cwMin_right; assumption.
        -- intros k l Ea. destruct (Hinv k l Ea) as (l' & El' & _). cbn in El'. discriminate.
Qed.

Theorem sound_max_parent compiles p p' root : PartOk compiles p p' root -> wf_max_parent root = true.
Proof.
  intros H. destruct (po_res _ _ _ _ H) as (g & E). unfold wf_max_parent, allq.
  exact (max_parent_ind root [] None g E wf_nil (Forall_nil _)).
Qed.

(* ---- W6 ---- *)
Lemma clamp_mono x y : x <= y -> clamp x <= clamp y.
Proof.
  intros H. unfold clamp. destruct (x <? MIN) eqn:E1, (y <? MIN) eqn:E2, (MAX <? x) eqn:E3, (MAX <? y) eqn:E4;
    try apply Z.ltb_lt in E1; try apply Z.ltb_ge in E1; try apply Z.ltb_lt in E2; try apply Z.ltb_ge in E2;
    try apply Z.ltb_lt in E3; try apply Z.ltb_ge in E3; try apply Z.ltb_lt in E4; try apply Z.ltb_ge in E4;
    unfold MIN, MAX in *; lia.
Qed.
Lemma nn_in_range v : 0 <= v <= MAX -> in_range v.
Proof. unfold in_range, MIN, MAX. lia. Qed.
Lemma addVal_mono a a' b b' :
  0 <= a <= MAX -> 0 <= a' <= MAX -> 0 <= b <= MAX -> 0 <= b' <= MAX -> a <= a' -> b <= b' -> addVal a b <= addVal a' b'.
Proof.
  intros. rewrite !addVal_clamp by (apply nn_in_range; assumption). apply clamp_mono. lia.
Qed.
Lemma addVal_nn a b : 0 <= a <= MAX -> 0 <= b <= MAX -> 0 <= addVal a b <= MAX.
Proof.
  intros Ha Hb. rewrite addVal_clamp by (apply nn_in_range; assumption).
  unfold clamp. destruct (a + b <? MIN) eqn:E1; [apply Z.ltb_lt in E1; unfold MIN, MAX in *; lia|].
  destruct (MAX <? a + b) eqn:E2; [unfold MAX; lia|]. apply Z.ltb_ge in E2. lia.
Qed.
Lemma addVal_0_r a : 0 <= a <= MAX -> addVal a 0 = a.
Proof. intros Ha. rewrite addVal_exact; [lia | apply nn_in_range; assumption | apply in_range_0 | apply nn_in_range; lia]. Qed.

Lemma getz_addTo l r k : nn l -> nn r -> getz (addTo l r) k = addVal (getz l k) (getz r k).
Proof.
  intros Hl [Hwr Hvr]. rewrite !getz_get. rewrite addTo_get by assumption.
  destruct (get r k) as [y|] eqn:Er; cbn [oz]; [reflexivity|].
  symmetry. apply addVal_0_r. rewrite <- getz_get. apply nn_getz. assumption.
Qed.
Lemma nn_addTo l r : nn l -> nn r -> nn (addTo l r).
Proof.
  intros Hl Hr. split.
  - change (addTo l r) with (Add (Some l) (Some r)). apply Add_wf. exact (proj1 Hl).
  - intros k v E. rewrite addTo_get in E by exact (proj1 Hr).
    destruct (get r k) as [y|] eqn:Er.
    + inversion E; subst. apply addVal_nn; [rewrite <- getz_get; apply nn_getz; assumption | exact (proj2 Hr _ _ Er)].
    + exact (proj2 Hl _ _ E).
Qed.

(* the guaranteed resource a queue reports to its parent dominates its configured guaranteed resource *)
Definition Dom (q : queue) : Prop :=
  forall pm g, checkQueueResource q pm = VOk g -> nn g /\ forall k, getz (pres (q_gua q)) k <= getz g k.

Lemma fold_sum_ge cm qs : Forall Dom qs -> forall acc s,
  foldV (sumChild cm) qs acc = VOk s -> nn acc ->
  nn s /\ forall k low, 0 <= low <= getz acc k ->
                        fold_left (fun a c => addVal a (getz (pres (q_gua c)) k)) qs low <= getz s k.
Proof.
  induction 1 as [|c t Hc _ IH]; intros acc s E Ha; cbn [foldV] in E.
  - inversion E; subst. split; [assumption|]. intros k low Hl. cbn. lia.
  - apply bind_ok in E. destruct E as (acc' & Hst & E). unfold sumChild in Hst.
    apply bind_ok in Hst. destruct Hst as (cg & H0 & Hst). inversion Hst; subst acc'. clear Hst.
    destruct (Hc _ _ H0) as [Hn Hd].
    destruct (IH _ _ E (nn_addTo _ _ Ha Hn)) as [Hs Hk]. split; [assumption|].
    intros k low Hl. cbn [fold_left]. apply Hk. rewrite getz_addTo by assumption.
    pose proof (nn_getz _ k (pres_nn (q_gua c))) as B1. pose proof (nn_getz _ k Hn) as B2.
    pose proof (nn_getz _ k Ha) as B3. specialize (Hd k).
    split.
    + apply addVal_nn; lia.
    + apply addVal_mono; lia.
Qed.

Lemma Dom_all q : Dom q.
Proof.
  induction q as [n p gu m a pr ad su t qs ls IH] using queue_ind'. intros pm g E.
  apply checkQueueResource_inv in E. destruct E as (curG & curM & sumG & H1 & _ & _ & _ & H0 & _ & _ & -> & _).
  cbn [q_queues] in H0.
  destruct (fold_sum_ge _ _ IH _ _ H0 nn_nil) as [Hs _].
  pose proof (parseRes_nn _ _ H1) as HnG.
  assert (Eg : pres (q_gua (Queue n p gu m a pr ad su t qs ls)) = curG) by (unfold pres; rewrite H1; reflexivity).
  destruct (IsZero (Some curG)) eqn:Ez.
  - split; [assumption|]. intros k. rewrite Eg. apply (IsZero_spec (Some curG) (proj1 HnG)) with (k := k) in Ez.
    cbn [oget] in Ez. rewrite Ez. apply (nn_getz _ k Hs).
  - split; [assumption|]. intros k. rewrite Eg. lia.
Qed.

Lemma sum_within_of big sumG f :
  nn big -> nn sumG -> (forall k, f k <= getz sumG k) ->
  (forall k v l, get sumG k = Some v -> get big k = Some l -> v <= Z.max 0 l) ->
  sum_within big f = true.
Proof.
  intros Hb Hs Hf Hfit. unfold sum_within. apply forallb_forall. intros [k v] Hin. cbn [fst snd].
  apply Z.leb_le. rewrite zmax_max. specialize (Hf k).
  pose proof (in_get _ _ _ (proj1 Hb) Hin) as Eb.
  unfold getz in Hf. destruct (get sumG k) as [s|] eqn:Es; [specialize (Hfit k s v Es Eb); lia | lia].
Qed.

Lemma sum_local q : ResOk q ->
  sum_within (pres (q_gua q)) (sumChildrenGua q) && sum_within (pres (q_max q)) (sumChildrenGua q) = true.
Proof.
  intros (pm & g & Hw & E). apply checkQueueResource_inv in E.
  destruct E as (curG & curM & sumG & H1 & H2 & _ & _ & H0 & G0 & G1 & _).
  assert (HD : Forall Dom (q_queues q)) by (apply Forall_forall; intros c _; apply Dom_all).
  destruct (fold_sum_ge _ _ HD _ _ H0 nn_nil) as [Hs Hk].
  assert (Hf : forall k, sumChildrenGua q k <= getz sumG k).
  { intros k. unfold sumChildrenGua. apply Hk. cbn. lia. }
  pose proof (parseRes_nn _ _ H1) as HnG. pose proof (parseRes_nn _ _ H2) as HnM.
  assert (Eg : pres (q_gua q) = curG) by (unfold pres; rewrite H1; reflexivity).
  assert (Em : pres (q_max q) = curM) by (unfold pres; rewrite H2; reflexivity).
  rewrite Eg, Em. apply andb_true_iff. split.
  - apply (sum_within_of curG sumG); auto. intros k s l Es El.
    exact (proj1 (FitInMaxUndef_spec (Some curG) (Some sumG) (proj1 Hs)) G0 k s l Es El).
  - apply (sum_within_of curM sumG); auto. intros k s l Es El.
    assert (Hb : below (oget (ComponentWiseMin (Some curM) pm)) curM).
    { destruct pm as [pmr|]; cbn [ComponentWiseMin oget]; [|apply below_refl].
      apply below_cwMin_left; [exact (proj1 HnM) | exact Hw]. }
    destruct (Hb k l El) as (l' & El' & Hle).
    pose proof (proj1 (FitInMaxUndef_spec (ComponentWiseMin (Some curM) pm) (Some sumG) (proj1 Hs)) G1 k s l' Es El'). lia.
Qed.

Theorem sound_sum_gua compiles p p' root : PartOk compiles p p' root -> wf_sum_gua root = true.
Proof.
  intros H. unfold wf_sum_gua, allq.
  apply (allq_local (fun q => sum_within (pres (q_gua q)) (sumChildrenGua q) && sum_within (pres (q_max q)) (sumChildrenGua q)) ResOk);
    [|exact (PartOk_ResOk _ _ _ _ H)].
  intros q Hq. split; [apply sum_local; assumption | apply ResOk_children; assumption].
Qed.
