(* Abstract theory of the "carried limits" recursion of checkLimitResource / checkLimitMaxApplications:
   a map name -> value is carried from the root downwards; at each queue every name of every limit is compared
   with the carried entry of the same name, else with the carried wildcard entry, and then overwritten.
   Shown once for an abstract value type and instantiated four times (resources / max applications x users / groups).
   Result: what the carried map guarantees with respect to EVERY ancestor that names the user (group), and with
   respect to every ancestor's wildcard when no ancestor names it. *)
From Coq Require Import List NArith ZArith Bool Lia.
From YK Require Import Conf.Str Conf.Config Conf.Validate Conf.WF Conf.Lemmas Conf.ConfSound.
Import ListNotations.

Lemma str_eqb_sym a b : str_eqb a b = str_eqb b a.
Proof.
  destruct (str_eqb a b) eqn:E1, (str_eqb b a) eqn:E2; try reflexivity.
  - apply str_eqb_eq in E1. subst. rewrite str_eqb_refl in E2. discriminate.
  - apply str_eqb_eq in E2. subst. rewrite str_eqb_refl in E1. discriminate.
Qed.
Lemma str_eq_dec (a b : str) : {a = b} + {a <> b}.
Proof.
  destruct (str_eqb a b) eqn:E; [left; apply str_eqb_eq; assumption | right].
  intros ->. rewrite str_eqb_refl in E. discriminate.
Qed.
Lemma sl_get_set {A} k (v : A) m k' : sl_get (sl_set k v m) k' = if str_eqb k' k then Some v else sl_get m k'.
Proof.
  induction m as [|[k0 v0] t IH]; cbn [sl_set sl_get].
  - reflexivity.
  - destruct (str_eqb k k0) eqn:E0; cbn [sl_get].
    + apply str_eqb_eq in E0. subst k0. destruct (str_eqb k' k); reflexivity.
    + destruct (str_eqb k' k0) eqn:E1.
      * destruct (str_eqb k' k) eqn:E2; [|reflexivity].
        apply str_eqb_eq in E1, E2. subst. rewrite str_eqb_refl in E0. discriminate.
      * exact IH.
Qed.
Lemma mem_str_false s l : mem_str s l = false <-> ~ In s l.
Proof.
  rewrite <- mem_str_In. destruct (mem_str s l); split; intros H; try discriminate; try reflexivity.
  exfalso. apply H. reflexivity.
Qed.

Lemma NoDup_app_r {A} (a b : list A) : NoDup (a ++ b) -> NoDup b.
Proof. induction a as [|x t IH]; cbn; intros H; [assumption|]. inversion H; subst. auto. Qed.

Section Chain.
Variable V : Type.
Variable bad : V -> V -> bool.          (* bad carried limit: the limit exceeds the carried value *)
Variable merge : V -> V -> V.           (* merge limit carried: the new carried entry when one existed *)
Variables e1 e2 : verr.
Variable getv : limit -> vres V.        (* value of a limit entry *)
Variable sel : limit -> list str.       (* users or groups *)
Variable good : V -> Prop.
Variable le : V -> V -> Prop.           (* le carried x: the carried value is at least as strict as x *)
Variable C : V -> V -> bool.            (* the comparison of WF: C x lim *)

Hypothesis getv_good : forall l v, getv l = VOk v -> good v.
Hypothesis le_refl : forall x, good x -> le x x.
Hypothesis merge_l : forall lim ex, good lim -> good ex -> le (merge lim ex) lim.
Hypothesis merge_r : forall lim ex x, good lim -> good ex -> le ex x -> bad ex lim = false -> le (merge lim ex) x.
Hypothesis merge_good : forall lim ex, good lim -> good ex -> good (merge lim ex).
Hypothesis sound : forall v x lim, le v x -> bad v lim = false -> good lim -> C x lim = true.

Definition vmap := list (str * V).

Definition limName (par : vmap) (lim : V) (cur : vmap) (name : str) : vres vmap :=
  match sl_get par name with
  | Some ex => if bad ex lim then VErr e1 else VOk (sl_set name (merge lim ex) cur)
  | None =>
      match sl_get par s_star with
      | Some ex =>
          if negb (str_eqb name s_star) then
            if bad ex lim then VErr e2 else VOk (sl_set name lim cur)
          else VOk (sl_set name lim cur)
      | None => VOk (sl_set name lim cur)
      end
  end.
Definition dimStep (par cur : vmap) (l : limit) : vres vmap :=
  lim <- getv l ;; foldV (limName par lim) (sel l) cur.

Definition entry (par : vmap) (lim : V) (u : str) : V :=
  match sl_get par u with Some ex => merge lim ex | None => lim end.
Definition passed (par : vmap) (lim : V) (u : str) : Prop :=
  match sl_get par u with
  | Some ex => bad ex lim = false
  | None => match sl_get par s_star with
            | Some ex => str_eqb u s_star = true \/ bad ex lim = false
            | None => True
            end
  end.

Lemma limName_ok par lim cur name cur' :
  limName par lim cur name = VOk cur' -> cur' = sl_set name (entry par lim name) cur /\ passed par lim name.
Proof.
  unfold limName, entry, passed. destruct (sl_get par name) as [ex|].
  - destruct (bad ex lim); intros E; inversion E. auto.
  - destruct (sl_get par s_star) as [ex|].
    + destruct (str_eqb name s_star); cbn [negb].
      * intros E; inversion E. auto.
      * destruct (bad ex lim); intros E; inversion E. auto.
    + intros E; inversion E. auto.
Qed.

Lemma foldV_limName par lim names : forall cur cur',
  foldV (limName par lim) names cur = VOk cur' ->
  (forall u, In u names -> sl_get cur' u = Some (entry par lim u) /\ passed par lim u) /\
  (forall u, ~ In u names -> sl_get cur' u = sl_get cur u).
Proof.
  induction names as [|n t IH]; intros cur cur' E; cbn [foldV] in E.
  - inversion E; subst. split; [intros u [] | reflexivity].
  - apply bind_ok in E. destruct E as (cur1 & E1 & E). apply limName_ok in E1. destruct E1 as [-> Hp].
    destruct (IH _ _ E) as [A B]. split.
    + intros u [<-|Hu]; [|apply A; assumption].
      destruct (in_dec str_eq_dec n t) as [Hin|Hnin]; [apply A; assumption|].
      rewrite (B n Hnin). rewrite sl_get_set, str_eqb_refl. auto.
    + intros u Hu. rewrite (B u) by (intros Hin; apply Hu; right; assumption).
      rewrite sl_get_set. destruct (str_eqb u n) eqn:En; [|reflexivity].
      apply str_eqb_eq in En. subst. exfalso. apply Hu. left. reflexivity.
Qed.

(* one queue level: all limits *)
Lemma level_ok par ls : forall cur cur',
  foldV (dimStep par) ls cur = VOk cur' -> NoDup (flat_map sel ls) ->
  forall u,
    (forall l, In l ls -> In u (sel l) ->
               exists v, getv l = VOk v /\ sl_get cur' u = Some (entry par v u) /\ passed par v u) /\
    ((forall l, In l ls -> ~ In u (sel l)) -> sl_get cur' u = sl_get cur u).
Proof.
  induction ls as [|l t IH]; intros cur cur' E Hnd u; cbn [foldV] in E.
  - inversion E; subst. split; [intros l [] | reflexivity].
  - apply bind_ok in E. destruct E as (cur1 & E1 & E). unfold dimStep in E1.
    apply bind_ok in E1. destruct E1 as (v & Ev & E1). apply foldV_limName in E1. destruct E1 as [A B].
    cbn [flat_map] in Hnd. pose proof (NoDup_app_r _ _ Hnd) as Hnd_t.
    destruct (IH _ _ E Hnd_t u) as [IH1 IH2]. split.
    + intros l0 [<-|Hl0] Hu; [|apply IH1; assumption].
      exists v. split; [assumption|]. destruct (A u Hu) as [A1 A2]. split; [|assumption].
      rewrite IH2; [assumption|]. intros l2 Hl2 Hu2.
      (* u would occur twice in the concatenation *)
      assert (Hin : In u (flat_map sel t)) by (apply in_flat_map; exists l2; auto).
      clear - Hnd Hu Hin. induction (sel l) as [|x r IHr]; [destruct Hu|].
      cbn in Hnd. inversion Hnd as [|? ? Hx Hr]; subst. destruct Hu as [->|Hu].
      * apply Hx. apply in_or_app. right. assumption.
      * apply IHr; assumption.
    + intros Hno. rewrite IH2 by (intros l2 Hl2; apply Hno; right; assumption).
      apply B. apply Hno. left. reflexivity.
Qed.

(* ---- the tree ---- *)
Variable S : Type.
Variable chk : queue -> S -> vres unit.
Variable level : list limit -> S -> vres S.
Variable dim : S -> vmap.
Hypothesis chk_eq : forall q par, chk q par = (cur <- level (q_limits q) par ;; each (fun c => chk c cur) (q_queues q)).
Hypothesis level_dim : forall ls par cur, level ls par = VOk cur -> foldV (dimStep (dim par)) ls (dim par) = VOk (dim cur).

Definition named (a : queue) (u : str) : option limit := namedLimit sel a u.

Lemma named_some a u l : named a u = Some l -> In l (q_limits a) /\ In u (sel l).
Proof.
  unfold named, namedLimit. intros E. apply find_some in E. destruct E as [A B]. apply mem_str_In in B. auto.
Qed.
Lemma named_none a u : named a u = None -> forall l, In l (q_limits a) -> ~ In u (sel l).
Proof.
  unfold named, namedLimit. intros E l Hl. pose proof (find_none _ _ E l Hl) as F. cbn in F.
  apply mem_str_false. assumption.
Qed.

Definition Inv (anc : list queue) (par : vmap) : Prop :=
  (forall a u l', In a anc -> named a u = Some l' ->
                  exists v x, sl_get par u = Some v /\ getv l' = VOk x /\ le v x /\ good v) /\
  (forall u v, sl_get par u = Some v -> good v /\ exists a, In a anc /\ named a u <> None).

Definition uniq (q : queue) : Prop := NoDup (flat_map sel (q_limits q)).

(* the two conclusions at one queue *)
Definition namedP (anc : list queue) (q : queue) : bool :=
  forallb (fun l => forallb (fun u => forallb (fun a => match named a u with
                                                       | Some l' => match getv l', getv l with
                                                                    | VOk x, VOk lim => C x lim
                                                                    | _, _ => false
                                                                    end
                                                       | None => true
                                                       end) anc) (sel l)) (q_limits q).
Definition wildP (anc : list queue) (q : queue) : bool :=
  forallb (fun l => forallb (fun u => str_eqb u s_star || existsb (fun a => is_some (named a u)) anc ||
                                      forallb (fun a => match named a s_star with
                                                        | Some l' => match getv l', getv l with
                                                                     | VOk x, VOk lim => C x lim
                                                                     | _, _ => false
                                                                     end
                                                        | None => true
                                                        end) anc) (sel l)) (q_limits q).

Lemma level_step q anc par cur :
  Inv anc (dim par) -> uniq q -> level (q_limits q) par = VOk cur ->
  namedP anc q = true /\ wildP anc q = true /\ Inv (q :: anc) (dim cur).
Proof.
  intros [I1 I2] Hu El. apply level_dim in El. pose proof (level_ok _ _ _ _ El Hu) as L.
  split; [|split; [|split]].
  - (* named *)
    unfold namedP. apply forallb_forall. intros l Hl. apply forallb_forall. intros u Hul.
    apply forallb_forall. intros a Ha. destruct (named a u) as [l'|] eqn:En; [|reflexivity].
    destruct (I1 a u l' Ha En) as (v & x & Ev & Ex & Hle & Hg). rewrite Ex.
    destruct (proj1 (L u) l Hl Hul) as (lim & Elim & _ & Hp). rewrite Elim.
    unfold passed in Hp. rewrite Ev in Hp. eapply sound; eauto.
  - (* wildcard *)
    unfold wildP. apply forallb_forall. intros l Hl. apply forallb_forall. intros u Hul.
    destruct (str_eqb u s_star) eqn:Es; [reflexivity|]. cbn [orb].
    destruct (existsb (fun a => is_some (named a u)) anc) eqn:Ee; [reflexivity|]. cbn [orb].
    apply forallb_forall. intros a Ha. destruct (named a s_star) as [l'|] eqn:En; [|reflexivity].
    destruct (I1 a s_star l' Ha En) as (v & x & Ev & Ex & Hle & Hg). rewrite Ex.
    destruct (proj1 (L u) l Hl Hul) as (lim & Elim & _ & Hp). rewrite Elim.
    assert (Hnone : sl_get (dim par) u = None).
    { destruct (sl_get (dim par) u) as [w|] eqn:Ew; [|reflexivity].
      destruct (I2 u w Ew) as (_ & a' & Ha' & Hn'). exfalso.
      assert (F : existsb (fun a => is_some (named a u)) anc = true).
      { apply existsb_exists. exists a'. split; [assumption|]. destruct (named a' u); [reflexivity | congruence]. }
      congruence. }
    unfold passed in Hp. rewrite Hnone, Ev in Hp. destruct Hp as [Hp|Hp]; [congruence|].
    eapply sound; eauto.
  - (* invariant, part 1 *)
    intros a u l' [<-|Ha] En.
    + destruct (named_some _ _ _ En) as [Hl Hul].
      destruct (proj1 (L u) l' Hl Hul) as (lim & Elim & Ecur & Hp).
      exists (entry (dim par) lim u), lim. split; [assumption|]. split; [assumption|].
      pose proof (getv_good _ _ Elim) as Hgl. unfold entry.
      destruct (sl_get (dim par) u) as [ex|] eqn:Eex.
      * destruct (I2 u ex Eex) as [Hgex _]. split; [apply merge_l | apply merge_good]; assumption.
      * split; [apply le_refl|]; assumption.
    + destruct (I1 a u l' Ha En) as (v & x & Ev & Ex & Hle & Hg).
      destruct (named q u) as [lq|] eqn:Eq.
      * destruct (named_some _ _ _ Eq) as [Hl Hul].
        destruct (proj1 (L u) lq Hl Hul) as (lim & Elim & Ecur & Hp).
        pose proof (getv_good _ _ Elim) as Hgl.
        exists (entry (dim par) lim u), x. split; [assumption|]. split; [assumption|].
        unfold entry, passed in *. rewrite Ev in *. split; [apply merge_r | apply merge_good]; assumption.
      * exists v, x. rewrite (proj2 (L u) (named_none _ _ Eq)). auto.
  - (* invariant, part 2 *)
    intros u v Ev. destruct (named q u) as [lq|] eqn:Eq.
    + destruct (named_some _ _ _ Eq) as [Hl Hul].
      destruct (proj1 (L u) lq Hl Hul) as (lim & Elim & Ecur & Hp).
      rewrite Ecur in Ev. inversion Ev; subst v. pose proof (getv_good _ _ Elim) as Hgl. split.
      * unfold entry. destruct (sl_get (dim par) u) as [ex|] eqn:Eex; [|assumption].
        destruct (I2 u ex Eex) as [Hgex _]. apply merge_good; assumption.
      * exists q. split; [left; reflexivity | congruence].
    + rewrite (proj2 (L u) (named_none _ _ Eq)) in Ev. destruct (I2 u v Ev) as (Hg & a & Ha & Hn).
      split; [assumption|]. exists a. split; [right; assumption | assumption].
Qed.

Lemma chain_tree q : forall anc par,
  chk q par = VOk tt -> Inv anc (dim par) ->
  Forall (fun aq => uniq (snd aq)) (walk anc q) ->
  forallb (fun aq => namedP (fst aq) (snd aq) && wildP (fst aq) (snd aq)) (walk anc q) = true.
Proof.
  induction q as [n p gu m a pr ad su t qs ls IH] using queue_ind'. intros anc par E HI HU.
  set (q := Queue n p gu m a pr ad su t qs ls) in *.
  rewrite (forallb_walk (fun anc q => namedP anc q && wildP anc q)).
  rewrite chk_eq in E. apply bind_ok in E. destruct E as (cur & El & E).
  rewrite walk_eq in HU. inversion HU as [|? ? Hq HUc]; subst. cbn [snd] in Hq.
  destruct (level_step q anc par cur HI Hq El) as (A & B & HI').
  rewrite A, B. cbn [andb]. apply forallb_Forall. apply each_ok in E.
  rewrite Forall_forall in *. intros c Hc. apply (IH c Hc (q :: anc) cur); auto.
  apply Forall_forall. intros aq Haq. apply HUc. apply in_flat_map. exists c. auto.
Qed.

End Chain.
