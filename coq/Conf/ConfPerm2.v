(* validate_perm, part 2: the relation "same configuration up to the order of map entries" on limits, queues and
   partitions, and one relational lemma per check function. *)
From Coq Require Import List NArith ZArith Bool Lia Permutation.
From YK Require Import Base.Int64 Base.Res Base.ResSpec Base.ResLemmas Base.ResLaws Base.ResLaws2 Base.ResLawsPred.
From YK Require Import Conf.Str Conf.Config Conf.Validate Conf.WF Conf.Lemmas Conf.ConfSound Conf.LimitChain Conf.ConfPerm.
Import ListNotations.

Definition lperm (l l' : limit) : Prop :=
  l_name l = l_name l' /\ l_users l = l_users l' /\ l_groups l = l_groups l' /\
  omperm (l_maxres l) (l_maxres l') /\ l_maxapps l = l_maxapps l'.
(* the properties of a child template are not looked at by validation *)
Definition tperm (t t' : template) : Prop :=
  t_maxapps t = t_maxapps t' /\ omperm (t_gua t) (t_gua t') /\ omperm (t_max t) (t_max t').

Fixpoint qperm (q q' : queue) {struct q} : Prop :=
  match q, q' with
  | Queue n p g m a pr ad su t qs ls, Queue n' p' g' m' a' pr' ad' su' t' qs' ls' =>
      n = n' /\ p = p' /\ omperm g g' /\ omperm m m' /\ a = a' /\ ad = ad' /\ su = su' /\ tperm t t' /\
      (fix go (l l' : list queue) : Prop :=
         match l, l' with
         | [], [] => True
         | x :: r, y :: r' => qperm x y /\ go r r'
         | _, _ => False
         end) qs qs' /\
      Forall2 lperm ls ls'
  end.

Lemma qperm_go qs : forall qs',
  (fix go (l l' : list queue) : Prop :=
     match l, l' with
     | [], [] => True
     | x :: r, y :: r' => qperm x y /\ go r r'
     | _, _ => False
     end) qs qs' <-> Forall2 qperm qs qs'.
Proof.
  induction qs as [|x r IH]; intros [|y r'].
  - split; intros _; [constructor | exact I].
  - split; [intros [] | intros H; inversion H].
  - split; [intros [] | intros H; inversion H].
  - split.
    + intros [H1 H2]. constructor; [exact H1 | apply IH; exact H2].
    + intros H. inversion H; subst. split; [assumption | apply IH; assumption].
Qed.
Lemma qperm_inv q q' : qperm q q' ->
  q_name q = q_name q' /\ q_parent q = q_parent q' /\ omperm (q_gua q) (q_gua q') /\ omperm (q_max q) (q_max q') /\
  q_maxapps q = q_maxapps q' /\ q_admin q = q_admin q' /\ q_submit q = q_submit q' /\ tperm (q_tmpl q) (q_tmpl q') /\
  Forall2 qperm (q_queues q) (q_queues q') /\ Forall2 lperm (q_limits q) (q_limits q').
Proof.
  destruct q, q'. cbn [qperm q_name q_parent q_gua q_max q_maxapps q_admin q_submit q_tmpl q_queues q_limits].
  intros (A & B & C & D & E & F & G & H & I & J). apply qperm_go in I. auto 12.
Qed.

(* ---- generic relational folds ---- *)
Lemma each_rel {A B} (R : A -> B -> Prop) f g l l' :
  Forall2 R l l' -> (forall a b, In a l -> R a b -> vrel (fun _ _ => True) (f a) (g b)) ->
  vrel (fun _ _ : unit => True) (each f l) (each g l').
Proof.
  induction 1 as [|a b t t' Hab _ IH]; intros Hf; cbn [each]; [exact I|].
  eapply vrel_bind; [apply Hf; [left; reflexivity | exact Hab]|]. intros _ _ _. apply IH.
  intros a0 b0 Hin. apply Hf. right. assumption.
Qed.
Lemma foldV_rel {A B S T} (R : A -> B -> Prop) (Q : S -> T -> Prop) f g l l' :
  Forall2 R l l' -> (forall s t a b, In a l -> Q s t -> R a b -> vrel Q (f s a) (g t b)) ->
  forall s t, Q s t -> vrel Q (foldV f l s) (foldV g l' t).
Proof.
  induction 1 as [|a b r r' Hab _ IH]; intros Hf s t Hst; cbn [foldV]; [exact Hst|].
  eapply vrel_bind; [apply Hf; [left; reflexivity | exact Hst | exact Hab]|]. intros s1 t1 H1. apply IH; [|exact H1].
  intros s0 t0 a0 b0 Hin. apply Hf. right. assumption.
Qed.

(* ---- checkLimit / checkLimits ---- *)
Lemma users_perm l l' : lperm l l' -> users l = users l' /\ groups l = groups l'.
Proof. intros (_ & A & B & _). unfold users, groups. rewrite A, B. auto. Qed.

Lemma checkLimit_perm l l' su sg q q' :
  lperm l l' -> q_name q = q_name q' -> q_maxapps q = q_maxapps q' -> omperm (q_max q) (q_max q') ->
  vrel eq (checkLimit l su sg q) (checkLimit l' su sg q').
Proof.
  intros Hl Hn Ha Hm. destruct (users_perm _ _ Hl) as [Eu Eg]. destruct Hl as (_ & _ & _ & Hr & Hap).
  unfold checkLimit. rewrite <- Eu, <- Eg, <- Hap, <- Hn, <- Ha, <- (omperm_nilb _ _ Hr).
  eapply vrel_bind; [apply vrel_guard; reflexivity|]. intros _ _ _.
  eapply vrel_bind; [apply vrel_refl_eq|]. intros su1 su2 <-.
  eapply vrel_bind; [apply vrel_refl_eq|]. intros sg1 sg2 <-.
  eapply vrel_bind; [apply vrel_guard; reflexivity|]. intros _ _ _.
  eapply (vrel_bind req).
  { destruct (nilb (omap_list (l_maxres l))); [cbn; apply req_refl; apply wf_nil|].
    eapply vrel_bind; [apply parseResV_perm; exact Hr|]. intros r r' Hrr.
    eapply vrel_bind; [apply vrel_guard; f_equal; apply SGTZ_req; exact Hrr|]. intros _ _ _. exact Hrr. }
  intros lr lr' Hlr.
  eapply vrel_bind; [apply vrel_guard; reflexivity|]. intros _ _ _.
  eapply vrel_bind; [apply vrel_guard; reflexivity|]. intros _ _ _.
  eapply (vrel_bind (fun _ _ => True)).
  { destruct (negb (str_eqb (q_name q) s_root)); [|exact I].
    eapply vrel_bind; [apply parseResV_perm; exact Hm|]. intros qm qm' Hqm.
    apply vrel_guard. f_equal. apply (fit_req (Some qm) (Some qm')); assumption. }
  intros _ _ _. cbn. reflexivity.
Qed.

Lemma checkLimitsLoop_perm ls ls' q q' :
  Forall2 lperm ls ls' -> q_name q = q_name q' -> q_maxapps q = q_maxapps q' -> omperm (q_max q) (q_max q') ->
  forall su sg, vrel (fun _ _ => True) (checkLimitsLoop ls su sg q) (checkLimitsLoop ls' su sg q').
Proof.
  intros H Hn Ha Hm. induction H as [|l l' t t' Hl _ IH]; intros su sg; cbn [checkLimitsLoop]; [exact I|].
  eapply vrel_bind; [apply checkLimit_perm; eassumption|]. intros s s' <-. apply IH.
Qed.

Lemma checkChildNames_perm qs qs' : Forall2 qperm qs qs' -> forall seen, checkChildNames qs seen = checkChildNames qs' seen.
Proof.
  induction 1 as [|c c' t t' Hc _ IH]; intros seen; cbn [checkChildNames]; [reflexivity|].
  destruct (qperm_inv _ _ Hc) as (En & _). rewrite <- En.
  destruct (negb (queueNameOK (q_name c))); [reflexivity|].
  destruct (str_eqb (lower (q_name c)) s_root); [reflexivity|].
  destruct (mem_str (lower (q_name c)) seen); [reflexivity|]. apply IH.
Qed.

Lemma checkQueues_perm q : forall q', qperm q q' -> vrel (fun _ _ => True) (checkQueues q) (checkQueues q').
Proof.
  induction q as [n p gu m a pr ad su t qs ls IH] using queue_ind'. intros q' H.
  destruct (qperm_inv _ _ H) as (En & Ep & Eg & Em & Ea & Ead & Esu & Et & Eqs & Els).
  rewrite !checkQueues_eq. rewrite <- Ead, <- Esu.
  eapply vrel_bind; [apply vrel_refl_eq|]. intros _ _ _.
  eapply vrel_bind; [apply vrel_refl_eq|]. intros _ _ _.
  eapply vrel_bind; [apply checkLimitsLoop_perm; assumption|]. intros _ _ _.
  rewrite (checkChildNames_perm _ _ Eqs).
  eapply vrel_bind; [apply vrel_refl_eq|]. intros _ _ _.
  apply (each_rel qperm); [exact Eqs|]. intros c c' Hin Hc. cbn [q_queues] in Hin.
  rewrite Forall_forall in IH. exact (IH c Hin c' Hc).
Qed.

(* ---- resources ---- *)
Lemma checkResourceConfig_perm q q' : qperm q q' ->
  vrel (fun x y => req (fst x) (fst y) /\ req (snd x) (snd y)) (checkResourceConfig q) (checkResourceConfig q').
Proof.
  intros H. destruct (qperm_inv _ _ H) as (_ & _ & Eg & Em & _ & _ & _ & (_ & Etg & Etm) & _).
  unfold checkResourceConfig.
  eapply vrel_bind; [apply parseResV_perm; exact Eg|]. intros g g' Hg.
  eapply vrel_bind; [apply parseResV_perm; exact Em|]. intros m m' Hm.
  eapply vrel_bind; [apply vrel_guard; f_equal; apply (fit_req (Some m) (Some m')); assumption|]. intros _ _ _.
  eapply vrel_bind; [apply parseResV_perm; exact Etg|]. intros _ _ _.
  eapply vrel_bind; [apply parseResV_perm; exact Etm|]. intros _ _ _.
  cbn. auto.
Qed.

Lemma checkQueueResource_perm q : forall q' pm pm', qperm q q' -> oreq pm pm' ->
  vrel req (checkQueueResource q pm) (checkQueueResource q' pm').
Proof.
  induction q as [n p gu m a pr ad su t qs ls IH] using queue_ind'. intros q' pm pm' H Hpm.
  destruct (qperm_inv _ _ H) as (_ & _ & _ & _ & _ & _ & _ & _ & Eqs & _).
  rewrite !checkQueueResource_eq.
  eapply vrel_bind; [apply checkResourceConfig_perm; exact H|]. intros [g mx] [g' mx'] [Hg Hm]. cbn [fst snd] in *.
  eapply vrel_bind; [apply vrel_guard; f_equal; apply fit_req; assumption|]. intros _ _ _.
  pose proof (cwm_req _ _ _ _ Hm Hpm) as Hc.
  eapply (vrel_bind req).
  { apply (foldV_rel qperm req); [exact Eqs | | apply req_refl; apply wf_nil].
    intros s s' c c' Hin Hs Hcc. unfold sumChild. cbn [q_queues] in Hin. rewrite Forall_forall in IH.
    eapply vrel_bind; [exact (IH c Hin c' _ _ Hcc Hc)|]. intros cg cg' Hcg. cbn. apply addTo_req; assumption. }
  intros sg sg' Hsg.
  eapply vrel_bind; [apply vrel_guard; f_equal; apply (fit_req (Some g) (Some g')); assumption|]. intros _ _ _.
  eapply vrel_bind; [apply vrel_guard; f_equal; apply fit_req; assumption|]. intros _ _ _.
  cbn [vrel]. rewrite (IsZero_req _ _ Hg). destruct (IsZero (Some g')); assumption.
Qed.

(* ---- max applications: no maps involved ---- *)
Lemma each_ext {A B} (R : A -> B -> Prop) (f : A -> vres unit) (g : B -> vres unit) l l' :
  Forall2 R l l' -> (forall a b, In a l -> R a b -> f a = g b) -> each f l = each g l'.
Proof.
  induction 1 as [|a b t t' Hab _ IH]; intros Hf; cbn [each]; [reflexivity|].
  rewrite (Hf a b (or_introl eq_refl) Hab). apply bind_ext. intros _. apply IH. intros a0 b0 Hin. apply Hf. right. assumption.
Qed.
Lemma checkQueueMaxApplications_perm q : forall q', qperm q q' -> checkQueueMaxApplications q = checkQueueMaxApplications q'.
Proof.
  induction q as [n p gu m a pr ad su t qs ls IH] using queue_ind'. intros q' H.
  destruct (qperm_inv _ _ H) as (_ & _ & _ & _ & Ea & _ & _ & _ & Eqs & _).
  rewrite !checkQueueMaxApplications_eq. rewrite <- Ea. apply (each_ext qperm); [exact Eqs|].
  intros c c' Hin Hc. cbn [q_queues] in Hin. unfold maxAppsChild. destruct (qperm_inv _ _ Hc) as (_ & _ & _ & _ & Eca & _).
  rewrite <- Eca. rewrite Forall_forall in IH. rewrite (IH c Hin c' Hc). reflexivity.
Qed.

(* ---- limits against the ancestors: resources ---- *)
Definition lmrel (a b : lmap) : Prop := Forall2 (fun x y => fst x = fst y /\ req (snd x) (snd y)) a b.
Definition oget_rel (x y : option res) : Prop :=
  match x, y with Some a, Some b => req a b | None, None => True | _, _ => False end.
Lemma lmrel_get a b k : lmrel a b -> oget_rel (sl_get a k) (sl_get b k).
Proof.
  induction 1 as [|[k1 v1] [k2 v2] t t' [Hk Hv] _ IH]; cbn [sl_get]; [exact I|]. cbn [fst snd] in *. subst k2.
  destruct (str_eqb k k1); [exact Hv | exact IH].
Qed.
Lemma lmrel_set a b k v v' : lmrel a b -> req v v' -> lmrel (sl_set k v a) (sl_set k v' b).
Proof.
  induction 1 as [|[k1 v1] [k2 v2] t t' [Hk Hv] Ht IH]; intros Hvv; cbn [sl_set].
  - constructor; [split; [reflexivity | exact Hvv] | constructor].
  - cbn [fst snd] in *. subst k2. destruct (str_eqb k k1).
    + constructor; [split; [reflexivity | exact Hvv] | exact Ht].
    + constructor; [split; [reflexivity | exact Hv] | apply IH; exact Hvv].
Qed.

Lemma limitResName_perm par par' lim lim' cur cur' name :
  lmrel par par' -> req lim lim' -> lmrel cur cur' ->
  vrel lmrel (limitResName par lim cur name) (limitResName par' lim' cur' name).
Proof.
  intros Hp Hl Hc. unfold limitResName.
  pose proof (lmrel_get _ _ name Hp) as G1. pose proof (lmrel_get _ _ s_star Hp) as G2.
  destruct (sl_get par name) as [ex|], (sl_get par' name) as [ex'|]; cbn in G1; try contradiction.
  - rewrite (fit_req (Some ex) (Some ex') lim lim' G1 Hl). destruct (negb (FitInMaxUndef (Some ex') (Some lim'))); cbn; [exact I|].
    apply lmrel_set; [exact Hc|]. destruct G1 as (A & B & C), Hl as (D & E & F). repeat split; try apply cwMin_wf.
    intros k. rewrite !cwMin_get by assumption. rewrite F, C. reflexivity.
  - destruct (sl_get par s_star) as [ex|], (sl_get par' s_star) as [ex'|]; cbn in G2; try contradiction.
    + destruct (negb (str_eqb name s_star)).
      * rewrite (fit_req (Some ex) (Some ex') lim lim' G2 Hl). destruct (negb (FitInMaxUndef (Some ex') (Some lim'))); cbn; [exact I|].
        apply lmrel_set; assumption.
      * cbn. apply lmrel_set; assumption.
    + cbn. apply lmrel_set; assumption.
Qed.
Lemma foldV_same {A S T} (Q : S -> T -> Prop) (f : S -> A -> vres S) (g : T -> A -> vres T) l :
  (forall s t a, Q s t -> vrel Q (f s a) (g t a)) -> forall s t, Q s t -> vrel Q (foldV f l s) (foldV g l t).
Proof.
  intros Hf. induction l as [|a r IH]; intros s t Hst; cbn [foldV]; [exact Hst|].
  eapply vrel_bind; [apply Hf; exact Hst|]. intros s1 t1 H1. apply IH. exact H1.
Qed.
Definition lmrel2 (a b : lmap * lmap) : Prop := lmrel (fst a) (fst b) /\ lmrel (snd a) (snd b).
Lemma limitResLimit_perm pu pu' pg pg' cur cur' l l' :
  lmrel pu pu' -> lmrel pg pg' -> lmrel2 cur cur' -> lperm l l' ->
  vrel lmrel2 (limitResLimit pu pg cur l) (limitResLimit pu' pg' cur' l').
Proof.
  intros Hu Hg [Hc1 Hc2] Hl. destruct (users_perm _ _ Hl) as [Eu Eg]. destruct Hl as (_ & _ & _ & Hr & _).
  unfold limitResLimit. rewrite <- Eu, <- Eg.
  eapply vrel_bind; [apply parseResV_perm; exact Hr|]. intros lim lim' Hlim.
  eapply (vrel_bind lmrel); [apply foldV_same; [|exact Hc1]; intros s t a Hst; apply limitResName_perm; assumption|].
  intros cu cu' Hcu.
  eapply (vrel_bind lmrel); [apply foldV_same; [|exact Hc2]; intros s t a Hst; apply limitResName_perm; assumption|].
  intros cg cg' Hcg. cbn. split; assumption.
Qed.
Lemma checkLimitResource_perm q : forall q' pu pu' pg pg', qperm q q' -> lmrel pu pu' -> lmrel pg pg' ->
  vrel (fun _ _ => True) (checkLimitResource q pu pg) (checkLimitResource q' pu' pg').
Proof.
  induction q as [n p gu m a pr ad su t qs ls IH] using queue_ind'. intros q' pu pu' pg pg' H Hu Hg.
  destruct (qperm_inv _ _ H) as (_ & _ & _ & _ & _ & _ & _ & _ & Eqs & Els).
  rewrite !checkLimitResource_eq.
  eapply (vrel_bind lmrel2).
  { apply (foldV_rel lperm lmrel2); [exact Els | | split; assumption].
    intros s s' l l' _ Hs Hl. apply limitResLimit_perm; assumption. }
  intros cur cur' [Hc1 Hc2]. apply (each_rel qperm); [exact Eqs|]. intros c c' Hin Hc. cbn [q_queues] in Hin.
  rewrite Forall_forall in IH. exact (IH c Hin c' _ _ _ _ Hc Hc1 Hc2).
Qed.

(* ---- limits against the ancestors: max applications (no maps) ---- *)
Lemma limitAppsLimit_perm pu pg cur l l' : lperm l l' -> limitAppsLimit pu pg cur l = limitAppsLimit pu pg cur l'.
Proof.
  intros Hl. destruct (users_perm _ _ Hl) as [Eu Eg]. destruct Hl as (_ & _ & _ & _ & Ea).
  unfold limitAppsLimit. rewrite Eu, Eg, Ea. reflexivity.
Qed.
Lemma foldV_ext {A B S} (R : A -> B -> Prop) (f : S -> A -> vres S) (g : S -> B -> vres S) l l' :
  Forall2 R l l' -> (forall s a b, R a b -> f s a = g s b) -> forall s, foldV f l s = foldV g l' s.
Proof.
  induction 1 as [|a b t t' Hab _ IH]; intros Hf s; cbn [foldV]; [reflexivity|].
  rewrite (Hf s a b Hab). apply bind_ext. intros s1. apply IH. exact Hf.
Qed.
Lemma checkLimitMaxApplications_perm q : forall q' pu pg, qperm q q' ->
  checkLimitMaxApplications q pu pg = checkLimitMaxApplications q' pu pg.
Proof.
  induction q as [n p gu m a pr ad su t qs ls IH] using queue_ind'. intros q' pu pg H.
  destruct (qperm_inv _ _ H) as (_ & _ & _ & _ & _ & _ & _ & _ & Eqs & Els).
  rewrite !checkLimitMaxApplications_eq.
  rewrite (foldV_ext lperm (limitAppsLimit pu pg) (limitAppsLimit pu pg) _ _ Els
             (fun s l l' Hl => limitAppsLimit_perm pu pg s l l' Hl)).
  apply bind_ext. intros cur. apply (each_ext qperm); [exact Eqs|]. intros c c' Hin Hc. cbn [q_queues] in Hin.
  rewrite Forall_forall in IH. exact (IH c Hin c' _ _ Hc).
Qed.

(* ---- placement rules: only names, parent flags and the shape of the tree are used ---- *)
Lemma find_perm (f : queue -> bool) conf conf' :
  Forall2 qperm conf conf' -> (forall q q', qperm q q' -> f q = f q') ->
  match find f conf, find f conf' with
  | Some a, Some b => qperm a b
  | None, None => True
  | _, _ => False
  end.
Proof.
  induction 1 as [|c c' t t' Hc _ IH]; intros Hf; cbn [find]; [exact I|].
  rewrite <- (Hf c c' Hc). destruct (f c); [exact Hc | apply IH; exact Hf].
Qed.
Lemma checkHier_perm fixed path create dyn : forall conf conf' pc pc',
  Forall2 qperm conf conf' ->
  match pc, pc' with Some a, Some b => qperm a b | None, None => True | _, _ => False end ->
  checkHier fixed path create dyn conf pc = checkHier fixed path create dyn conf' pc'.
Proof.
  induction path as [|qn rest IH]; intros conf conf' pc pc' Hc Hp; cbn [checkHier]; [reflexivity|].
  destruct Hc as [|c c' t t' Hcc Ht].
  - destruct pc as [a|], pc' as [b|]; try contradiction; [|reflexivity].
    destruct (qperm_inv _ _ Hp) as (_ & Epar & _). rewrite Epar. reflexivity.
  - pose proof (find_perm (fun q => str_eqb (if fixed then lower (q_name q) else q_name q) qn) (c :: t) (c' :: t')
                  (Forall2_cons _ _ Hcc Ht)) as F.
    assert (Hf : forall q q', qperm q q' -> str_eqb (if fixed then lower (q_name q) else q_name q) qn =
                                            str_eqb (if fixed then lower (q_name q') else q_name q') qn).
    { intros q q' Hq. destruct (qperm_inv _ _ Hq) as (En & _). rewrite En. reflexivity. }
    specialize (F Hf).
    destruct (find _ (c :: t)) as [qc|], (find _ (c' :: t')) as [qc'|]; try contradiction; [|reflexivity].
    destruct (qperm_inv _ _ F) as (_ & Epar & _ & _ & _ & _ & _ & _ & Eqs & _).
    destruct rest as [|n2 r2].
    + rewrite Epar. assert (En : nilb (q_queues qc) = nilb (q_queues qc')) by (destruct Eqs; reflexivity).
      rewrite En. reflexivity.
    + apply IH; assumption.
Qed.
Lemma checkPlacementRulesG_perm compiles fixed root root' rules :
  qperm root root' -> checkPlacementRulesG compiles fixed [root] rules = checkPlacementRulesG compiles fixed [root'] rules.
Proof.
  intros H. unfold checkPlacementRulesG. destruct rules as [|r0 rs]; [reflexivity|].
  apply bind_ext. intros _. apply bind_ext. intros _.
  apply (each_ext eq); [clear; induction (r0 :: rs); constructor; auto|]. intros r r' _ <-.
  unfold checkRulePath. apply bind_ext. intros pd. destruct (negb (hasPrefix (fst pd) s_root)); [reflexivity|].
  rewrite (checkHier_perm fixed _ (r_create r) (snd pd) [root] [root'] None None); [reflexivity | | exact I].
  constructor; [exact H | constructor].
Qed.
