(* validate_sound, part 1: what an accepted partition looks like, and the conjuncts of WF that only need the local
   checks (root, names, quantities, guaranteed within max, max applications, limits against their own queue). *)
From Coq Require Import List NArith ZArith Bool Lia.
From YK Require Import Base.Int64 Base.Res Base.ResSpec Base.ResLemmas Base.ResLaws2 Base.ResLawsPred.
From YK Require Import Conf.Str Conf.Config Conf.Validate Conf.Load Conf.WF Conf.Lemmas.
Import ListNotations.

Section Sound.
Variable compiles : str -> bool.

(* ---- shape of an accepted configuration ---- *)
Lemma validateLoop_parts ps : forall seen c',
  validateLoop compiles ps seen = VOk c' -> Forall2 (fun p p' => validatePartition compiles p = VOk p') ps c'.
Proof.
  induction ps as [|p t IH]; intros seen c' E; cbn [validateLoop] in E.
  - inversion E. constructor.
  - ginv E. vinv E. vinv E. inversion E; subst. constructor; eauto.
Qed.

Record PartOk (p p' : partition) (root : queue) : Prop := {
  po_struct : exists root0, checkQueuesStructureG true p = VOk root0 /\ checkLimitsStructure p root0 = VOk root;
  po_queues : checkQueues root = VOk tt;
  po_res : exists g, checkQueueResource root None = VOk g;
  po_rules : checkPlacementRules compiles [root] (p_rules p) = VOk tt;
  po_sort : checkNodeSortingPolicy p = VOk tt;
  po_maxapps : checkQueueMaxApplications root = VOk tt;
  po_limres : checkLimitResource root [] [] = VOk tt;
  po_limapps : checkLimitMaxApplications root [] [] = VOk tt;
  po_out : p' = mkPartition (normPartitionName (p_name p)) (Some [root]) (p_rules p) (p_limits p) (p_sort_type p) (p_weights p)
}.

Lemma unit_eta (u : unit) : u = tt. Proof. destruct u; reflexivity. Qed.

Lemma validatePartition_inv p p' :
  validatePartition compiles p = VOk p' -> exists root, PartOk p p' root.
Proof.
  unfold validatePartition. intros E.
  apply bind_ok in E. destruct E as (root0 & E0 & E).
  apply bind_ok in E. destruct E as (root & E1 & E).
  apply bind_ok in E. destruct E as (u1 & E2 & E).
  apply bind_ok in E. destruct E as (g & E3 & E).
  apply bind_ok in E. destruct E as (u2 & E4 & E).
  apply bind_ok in E. destruct E as (u3 & E5 & E).
  apply bind_ok in E. destruct E as (u4 & E6 & E).
  apply bind_ok in E. destruct E as (u5 & E7 & E).
  apply bind_ok in E. destruct E as (u6 & E8 & E).
  rewrite (unit_eta u1) in E2. rewrite (unit_eta u2) in E4. rewrite (unit_eta u3) in E5.
  rewrite (unit_eta u4) in E6. rewrite (unit_eta u5) in E7. rewrite (unit_eta u6) in E8.
  exists root. constructor; eauto. inversion E. reflexivity.
Qed.

Lemma partok_rootq p p' root : PartOk p p' root -> rootq p' = root /\ p_queues p' = Some [root] /\ p_rules p' = p_rules p.
Proof. intros H. rewrite (po_out _ _ _ H). cbn. auto. Qed.

(* ---- W1: single root, canonical name, parent flag, no resources ---- *)
Lemma structure_root p root0 :
  checkQueuesStructureG true p = VOk root0 ->
  q_name root0 = s_root /\ q_parent root0 = true /\ q_gua root0 = None /\ q_max root0 = None.
Proof.
  unfold checkQueuesStructureG. destruct (p_queues p) as [qs|]; [|discriminate].
  set (root := match qs with [Queue n pa g m a pr ad su t cs ls] => _ | _ => rootOf qs end).
  assert (Hn : q_name root = s_root /\ q_parent root = true).
  { subst root. destruct qs as [|[n pa g m a pr ad su t cs ls] [|q2 r]]; cbn; auto.
    destruct (str_eqb (lower n) s_root); cbn; auto. }
  destruct (q_gua root) eqn:Eg; [discriminate|]. destruct (q_max root) eqn:Em; [discriminate|].
  intros E. inversion E; subst. tauto.
Qed.
Lemma limits_structure_root p root0 root :
  checkLimitsStructure p root0 = VOk root ->
  q_name root = q_name root0 /\ q_parent root = q_parent root0 /\ q_gua root = q_gua root0 /\ q_max root = q_max root0.
Proof.
  unfold checkLimitsStructure. intros E. ginv E. ginv E. inversion E; subst.
  destruct (negb (nilb (p_limits p)) && nilb (q_limits root0)); [|auto].
  destruct root0; cbn; auto.
Qed.

Theorem sound_root p p' root : PartOk p p' root -> wf_root p' = true.
Proof.
  intros H. destruct (po_struct _ _ _ H) as (root0 & E0 & E1).
  destruct (structure_root _ _ E0) as (A & B & C & D).
  destruct (limits_structure_root _ _ _ E1) as (A' & B' & C' & D').
  rewrite (po_out _ _ _ H). unfold wf_root. cbn [p_queues].
  rewrite A', A, B', B, C', C, D', D. reflexivity.
Qed.

(* ---- W2: names ---- *)
Lemma str_eqb_refl s : str_eqb s s = true.
Proof. induction s as [|c t IH]; cbn; [reflexivity|]. rewrite N.eqb_refl, IH. reflexivity. Qed.
Lemma str_eqb_eq a b : str_eqb a b = true <-> a = b.
Proof.
  split; [|intros ->; apply str_eqb_refl].
  revert b. induction a as [|c t IH]; destruct b as [|d u]; cbn; intros E; try discriminate; [reflexivity|].
  apply andb_true_iff in E. destruct E as [E1 E2]. apply N.eqb_eq in E1. apply IH in E2. congruence.
Qed.
Lemma mem_str_In s l : mem_str s l = true <-> In s l.
Proof.
  unfold mem_str. rewrite existsb_exists. split.
  - intros (x & Hx & E). apply str_eqb_eq in E. subst. assumption.
  - intros Hin. exists s. split; [assumption | apply str_eqb_refl].
Qed.

Lemma checkChildNames_ok qs : forall seen,
  checkChildNames qs seen = VOk tt ->
  forallb (fun c => queueNameOK (q_name c)) qs = true /\
  nodupb (map (fun c => lower (q_name c)) qs) = true /\
  (forall c, In c qs -> mem_str (lower (q_name c)) seen = false /\ str_eqb (lower (q_name c)) s_root = false).
Proof.
  induction qs as [|c t IH]; intros seen E; cbn [checkChildNames] in E.
  - cbn. split; [reflexivity|]. split; [reflexivity|]. intros c0 [].
  - destruct (queueNameOK (q_name c)) eqn:En; cbn [negb] in E; [|discriminate].
    destruct (str_eqb (lower (q_name c)) s_root) eqn:Er; [discriminate|].
    destruct (mem_str (lower (q_name c)) seen) eqn:Em; [discriminate|].
    destruct (IH _ E) as (A & B & C). cbn [forallb map nodupb]. rewrite En, A, B. cbn [andb].
    split; [reflexivity|]. split.
    + rewrite andb_true_r. apply negb_true_iff. apply not_true_iff_false. intros Hin.
      apply mem_str_In in Hin. apply in_map_iff in Hin. destruct Hin as (c' & Ec & Hc').
      destruct (C c' Hc') as [C1 _]. unfold mem_str in C1. cbn [existsb] in C1.
      rewrite Ec, str_eqb_refl in C1. discriminate.
    + intros c' [<-|Hc']; [split; assumption|]. destruct (C c' Hc') as [C1 C2]. split; [|assumption].
      unfold mem_str in *. cbn [existsb] in C1. apply orb_false_iff in C1. tauto.
Qed.

Definition QueuesOk (q : queue) : Prop := checkQueues q = VOk tt.
Lemma QueuesOk_children q : QueuesOk q -> Forall QueuesOk (q_queues q).
Proof.
  unfold QueuesOk. rewrite checkQueues_eq. intros E. vinv E. vinv E. vinv E. vinv E.
  apply each_ok in E. exact E.
Qed.

Theorem sound_names p p' root : PartOk p p' root -> wf_names root = true.
Proof.
  intros H. unfold wf_names, allq.
  apply (allq_local (fun q => forallb (fun c => queueNameOK (q_name c)) (q_queues q) &&
                              nodupb (map (fun c => lower (q_name c)) (q_queues q))) QueuesOk);
    [|exact (po_queues _ _ _ H)].
  intros q Hq. split; [|apply QueuesOk_children; assumption].
  unfold QueuesOk in Hq. rewrite checkQueues_eq in Hq. vinv Hq. vinv Hq. vinv Hq. vinv Hq.
  destruct v2. destruct (checkChildNames_ok _ _ H3) as (A & B & _). rewrite A, B. reflexivity.
Qed.

(* ---- resources: every queue of an accepted tree passed checkQueueResource with some parent maximum ---- *)
Lemma parseResV_ok m r : parseResV m = VOk r <-> parseRes m = Some r.
Proof. unfold parseResV. destruct (parseRes m); split; intros E; inversion E; reflexivity. Qed.

Lemma foldV_ok_each {A S} (f : S -> A -> vres S) l : forall s s',
  foldV f l s = VOk s' -> Forall (fun a => exists s1 s2, f s1 a = VOk s2) l.
Proof.
  induction l as [|a t IH]; intros s s' E; [constructor|]. cbn [foldV] in E. vinv E.
  constructor; eauto.
Qed.

(* parse results have unique keys *)
Lemma parseEntries_wf m : forall acc r, parseEntries m acc = Some r -> wf acc -> wf r.
Proof.
  induction m as [|[k v] t IH]; intros acc r E Ha; cbn [parseEntries] in E.
  - inversion E; subst; assumption.
  - destruct (parseQ (N.eqb k 0) v) as [z|]; [|discriminate]. apply (IH _ _ E). apply wf_set. assumption.
Qed.
Lemma parseRes_wf m r : parseRes m = Some r -> wf r.
Proof. intros E. eapply parseEntries_wf; [exact E | apply wf_nil]. Qed.

Lemma checkResourceConfig_ok q gm :
  checkResourceConfig q = VOk gm ->
  parseRes (q_gua q) = Some (fst gm) /\ parseRes (q_max q) = Some (snd gm) /\
  FitInMaxUndef (Some (snd gm)) (Some (fst gm)) = true /\
  is_some (parseRes (t_gua (q_tmpl q))) = true /\ is_some (parseRes (t_max (q_tmpl q))) = true.
Proof.
  unfold checkResourceConfig. intros H.
  apply bind_ok in H. destruct H as (g & Hg & H). apply bind_ok in H. destruct H as (m & Hm & H).
  apply bind_ok in H. destruct H as (u & Hf & H). apply guard_ok in Hf.
  apply bind_ok in H. destruct H as (tg & Htg & H). apply bind_ok in H. destruct H as (tm & Htm & H).
  inversion H; subst gm. apply parseResV_ok in Hg, Hm, Htg, Htm. apply negb_false_iff in Hf.
  cbn [fst snd]. rewrite Htg, Htm. auto.
Qed.

(* everything an accepted checkQueueResource call established *)
Lemma checkQueueResource_inv q pm g :
  checkQueueResource q pm = VOk g ->
  exists curG curM sumG,
    parseRes (q_gua q) = Some curG /\ parseRes (q_max q) = Some curM /\
    FitInMaxUndef (Some curM) (Some curG) = true /\
    FitInMaxUndef pm (Some curM) = true /\
    foldV (sumChild (ComponentWiseMin (Some curM) pm)) (q_queues q) [] = VOk sumG /\
    FitInMaxUndef (Some curG) (Some sumG) = true /\
    FitInMaxUndef (ComponentWiseMin (Some curM) pm) (Some sumG) = true /\
    g = (if IsZero (Some curG) then sumG else curG) /\
    is_some (parseRes (t_gua (q_tmpl q))) = true /\ is_some (parseRes (t_max (q_tmpl q))) = true.
Proof.
  rewrite checkQueueResource_eq. intros E.
  apply bind_ok in E. destruct E as ([curG curM] & Hc & E). cbn [fst snd] in E.
  apply bind_ok in E. destruct E as (u1 & Hp & E). apply guard_ok in Hp. apply negb_false_iff in Hp.
  apply bind_ok in E. destruct E as (sumG & Hs & E).
  apply bind_ok in E. destruct E as (u2 & Hg & E). apply guard_ok in Hg. apply negb_false_iff in Hg.
  apply bind_ok in E. destruct E as (u3 & Hm & E). apply guard_ok in Hm. apply negb_false_iff in Hm.
  inversion E; subst g. apply checkResourceConfig_ok in Hc. cbn [fst snd] in Hc.
  destruct Hc as (A & B & C & D & F). exists curG, curM, sumG. auto 12.
Qed.

Definition ResOk (q : queue) : Prop := exists pm g, owf pm /\ checkQueueResource q pm = VOk g.
Lemma owf_cwm curM pm : wf curM -> owf pm -> owf (ComponentWiseMin (Some curM) pm).
Proof. intros H1 H2. destruct pm as [pmr|]; cbn; [apply Base.ResLaws2.cwMin_wf | assumption]. Qed.
Lemma ResOk_children q : ResOk q -> Forall ResOk (q_queues q).
Proof.
  intros (pm & g & Hw & E). apply checkQueueResource_inv in E.
  destruct E as (curG & curM & sumG & _ & Hm & _ & _ & Hs & _).
  apply foldV_ok_each in Hs. eapply Forall_impl; [|exact Hs]. intros c (s1 & s2 & Ec).
  unfold sumChild in Ec. apply bind_ok in Ec. destruct Ec as (cg & Ec & _).
  exists (ComponentWiseMin (Some curM) pm), cg. split; [|assumption].
  apply owf_cwm; [eapply parseRes_wf; eassumption | assumption].
Qed.
Lemma ResOk_local q : ResOk q ->
  exists g m, parseRes (q_gua q) = Some g /\ parseRes (q_max q) = Some m /\
              FitInMaxUndef (Some m) (Some g) = true /\
              is_some (parseRes (t_gua (q_tmpl q))) = true /\ is_some (parseRes (t_max (q_tmpl q))) = true.
Proof.
  intros (pm & g & _ & E). apply checkQueueResource_inv in E.
  destruct E as (curG & curM & sumG & A & B & C & _ & _ & _ & _ & _ & D & F). exists curG, curM. auto.
Qed.
Lemma PartOk_ResOk p p' root : PartOk p p' root -> ResOk root.
Proof. intros H. destruct (po_res _ _ _ H) as (g & E). exists None, g. split; [apply wf_nil | assumption]. Qed.

Lemma checkNames_ok okf names : forall seen seen',
  checkNames okf names seen = VOk seen' -> forallb (fun n => str_eqb n s_star || okf n) names = true.
Proof.
  induction names as [|n t IH]; intros seen seen' E; [reflexivity|]. cbn [checkNames] in E.
  destruct (str_eqb n s_star) eqn:Es; cbn [negb andb] in E.
  - destruct (mem_str n seen); [discriminate|]. destruct (mem_str s_star (n :: seen) && false); [discriminate|].
    cbn [forallb]. rewrite Es. cbn [orb andb]. eauto.
  - destruct (okf n) eqn:Eo; cbn [negb] in E; [|discriminate].
    destruct (mem_str n seen); [discriminate|]. destruct (mem_str s_star (n :: seen) && true); [discriminate|].
    cbn [forallb]. rewrite Es, Eo. cbn [orb andb]. eauto.
Qed.

Lemma within_nil s : within [] s = true.
Proof. unfold within, FitInMaxUndef, fitIn. apply forallb_forall. intros kv _. reflexivity. Qed.

(* what one accepted limit entry guarantees *)
Lemma checkLimit_ok l su sg q s :
  checkLimit l su sg q = VOk s ->
  limit_shape l = true /\
  (N.eqb (q_maxapps q) 0 || N.leb (l_maxapps l) (q_maxapps q)) = true /\
  is_some (parseRes (l_maxres l)) = true /\
  (str_eqb (q_name q) s_root = false -> within (pres (q_max q)) (pres (l_maxres l)) = true).
Proof.
  unfold checkLimit. intros E. ginv E. vinv E. vinv E. ginv E. vinv E. ginv E. ginv E. vinv E.
  apply checkNames_ok in H, H0.
  assert (Hp : is_some (parseRes (l_maxres l)) = true /\ v3 = pres (l_maxres l)).
  { destruct (nilb (omap_list (l_maxres l))) eqn:En.
    - inversion H1; subst. unfold pres, parseRes. destruct (omap_list (l_maxres l)); [cbn; auto | discriminate].
    - vinv H1. ginv H1. inversion H1; subst. apply parseResV_ok in H3. unfold pres. rewrite H3. cbn. auto. }
  destruct Hp as [Hp ->].
  repeat split.
  - unfold limit_shape. rewrite G, H, H0, G1. reflexivity.
  - destruct (N.eqb (q_maxapps q) 0) eqn:E0; [reflexivity|]. cbn [negb andb orb] in *.
    apply N.ltb_ge in G2. apply N.leb_le. exact G2.
  - exact Hp.
  - intros Hn. rewrite Hn in H2. cbn [negb] in H2. vinv H2. apply guard_ok in H2.
    apply parseResV_ok in H3. unfold pres at 1. rewrite H3. apply negb_false_iff in H2. exact H2.
Qed.
Lemma checkLimitsLoop_ok ls : forall su sg q,
  checkLimitsLoop ls su sg q = VOk tt -> Forall (fun l => exists su sg s, checkLimit l su sg q = VOk s) ls.
Proof.
  induction ls as [|l t IH]; intros su sg q E; [constructor|]. cbn [checkLimitsLoop] in E. vinv E.
  constructor; eauto.
Qed.

(* ---- W3 quantities, W5 guaranteed within max ---- *)
Definition QR (q : queue) : Prop := QueuesOk q /\ ResOk q.
Lemma QR_children q : QR q -> Forall QR (q_queues q).
Proof.
  intros [A B]. apply QueuesOk_children in A. apply ResOk_children in B.
  rewrite Forall_forall in *. intros c Hc. split; auto.
Qed.
Lemma QueuesOk_limits q : QueuesOk q -> Forall (fun l => exists su sg s, checkLimit l su sg q = VOk s) (q_limits q).
Proof.
  unfold QueuesOk. rewrite checkQueues_eq. intros E. vinv E. vinv E. vinv E. destruct v1.
  unfold checkLimits in H1. eapply checkLimitsLoop_ok; eassumption.
Qed.

Theorem sound_quantities p p' root : PartOk p p' root -> wf_quantities root = true.
Proof.
  intros H. unfold wf_quantities, allq.
  apply (allq_local (fun q => is_some (parseRes (q_gua q)) && is_some (parseRes (q_max q)) &&
                              forallb (fun l => is_some (parseRes (l_maxres l))) (q_limits q)) QR);
    [|split; [exact (po_queues _ _ _ H) | exact (PartOk_ResOk _ _ _ H)]].
  intros q Hq. split; [|apply QR_children; assumption]. destruct Hq as [A B].
  destruct (ResOk_local _ B) as (g & m & Eg & Em & _). rewrite Eg, Em. cbn [is_some andb].
  apply forallb_Forall. eapply Forall_impl; [|exact (QueuesOk_limits _ A)].
  intros l (su & sg & s & E). apply checkLimit_ok in E. tauto.
Qed.

Theorem sound_gua_max p p' root : PartOk p p' root -> wf_gua_max root = true.
Proof.
  intros H. unfold wf_gua_max, allq.
  apply (allq_local (fun q => within (pres (q_max q)) (pres (q_gua q))) ResOk);
    [|exact (PartOk_ResOk _ _ _ H)].
  intros q Hq. split; [|apply ResOk_children; assumption].
  destruct (ResOk_local _ Hq) as (g & m & Eg & Em & F & _). unfold within, pres. rewrite Eg, Em. exact F.
Qed.

(* ---- W7 max applications ---- *)
Definition AppsOk (q : queue) : Prop := checkQueueMaxApplications q = VOk tt.
Lemma AppsOk_inv q : AppsOk q ->
  Forall (fun c => (negb (N.eqb (q_maxapps q) 0) && N.ltb (q_maxapps q) (q_maxapps c)) = false /\
                   (negb (N.eqb (q_maxapps q) 0) && N.eqb (q_maxapps c) 0) = false /\ AppsOk c) (q_queues q).
Proof.
  unfold AppsOk. rewrite checkQueueMaxApplications_eq. intros E. apply each_ok in E.
  eapply Forall_impl; [|exact E]. intros c Ec. unfold maxAppsChild in Ec. ginv Ec. ginv Ec. auto.
Qed.
Theorem sound_maxapps p p' root : PartOk p p' root -> wf_maxapps root = true.
Proof.
  intros H. unfold wf_maxapps, allq.
  apply (allq_local (fun q => N.eqb (q_maxapps q) 0 ||
                              forallb (fun c => negb (N.eqb (q_maxapps c) 0) && N.leb (q_maxapps c) (q_maxapps q)) (q_queues q)) AppsOk);
    [|exact (po_maxapps _ _ _ H)].
  intros q Hq. apply AppsOk_inv in Hq. split.
  - destruct (N.eqb (q_maxapps q) 0) eqn:E0; [reflexivity|]. cbn [orb]. apply forallb_Forall.
    eapply Forall_impl; [|exact Hq]. cbn [negb andb]. intros c (A & B & _).
    rewrite B. cbn [negb andb]. apply N.ltb_ge in A. apply N.leb_le. exact A.
  - eapply Forall_impl; [|exact Hq]. intros c (_ & _ & C). exact C.
Qed.

(* ---- W8 limits against their own queue ---- *)
Definition LimQOk (q : queue) : Prop := QueuesOk q /\ ResOk q /\ (q_max q = None \/ str_eqb (q_name q) s_root = false).
Lemma lower_root_name n : str_eqb n s_root = true -> str_eqb (lower n) s_root = true.
Proof. intros E. apply str_eqb_eq in E. subst. reflexivity. Qed.
Lemma LimQOk_children q : LimQOk q -> Forall LimQOk (q_queues q).
Proof.
  intros (A & B & _). pose proof (QueuesOk_children _ A) as A'. pose proof (ResOk_children _ B) as B'.
  unfold QueuesOk in A. rewrite checkQueues_eq in A. vinv A. vinv A. vinv A. vinv A. destruct v2.
  destruct (checkChildNames_ok _ _ H2) as (_ & _ & C).
  rewrite Forall_forall in *. intros c Hc. repeat split; auto. right.
  destruct (C c Hc) as [_ C2]. destruct (str_eqb (q_name c) s_root) eqn:En; [|reflexivity].
  apply lower_root_name in En. congruence.
Qed.
Theorem sound_limit_queue p p' root : PartOk p p' root -> wf_limit_queue root = true.
Proof.
  intros H. unfold wf_limit_queue, allq.
  apply (allq_local (fun q => forallb (fun l => limit_shape l &&
                                     (N.eqb (q_maxapps q) 0 || N.leb (l_maxapps l) (q_maxapps q)) &&
                                     within (pres (q_max q)) (pres (l_maxres l))) (q_limits q)) LimQOk).
  - intros q Hq. split; [|apply LimQOk_children; assumption]. destruct Hq as (A & B & C).
    apply forallb_Forall. eapply Forall_impl; [|exact (QueuesOk_limits _ A)].
    intros l (su & sg & s & E). apply checkLimit_ok in E. destruct E as (E1 & E2 & _ & E4).
    rewrite E1, E2. cbn [andb]. destruct C as [C|C].
    + unfold pres at 1. rewrite C. cbn. apply within_nil.
    + apply E4. exact C.
  - split; [exact (po_queues _ _ _ H)|]. split; [exact (PartOk_ResOk _ _ _ H)|].
    left. destruct (po_struct _ _ _ H) as (root0 & E0 & E1).
    destruct (structure_root _ _ E0) as (_ & _ & _ & D). destruct (limits_structure_root _ _ _ E1) as (_ & _ & _ & D').
    congruence.
Qed.

End Sound.
