(* Byte strings and the string predicates used by the configuration code (yunikorn-core):
   Go strings are lists of byte values; the generators produce ASCII only and the model is stated
   for ASCII (strings.ToLower / TrimSpace / Fields / unicode classes are modelled on bytes < 128).
   The regular expressions of configvalidator.go are implemented by hand as boolean functions
   (validated by the correspondence run):
     QueueNameRegExp  ^[a-zA-Z0-9_:#/@-]{1,64}$
     UserRegExp       ^[_a-zA-Z][a-zA-Z0-9:#/_.@-]*[$]?$
     GroupRegExp      ^[_a-zA-Z][a-zA-Z0-9:_.-]*$
     SpecialRegExp    [\^$*+?()\[{}|]
     RuleNameRegExp   ^[_a-zA-Z][a-zA-Z0-9_]*$
   and the quantity syntax of resources/quantity.go
     legal            ^(?P<Number>[0-9]+)\s*(?P<Suffix>([mkKMGTPE]i?)?)$   after strings.TrimSpace *)
From Coq Require Import List NArith ZArith Bool.
From Coq Require String Ascii.
Import ListNotations.
Open Scope N_scope.

Definition str := list N.
(* literal: the harness writes printable ASCII strings as Coq string literals (faster to parse) *)
Definition sb (x : String.string) : str := List.map Ascii.N_of_ascii (String.list_ascii_of_string x).

Fixpoint str_eqb (a b : str) : bool :=
  match a, b with
  | [], [] => true
  | x :: a', y :: b' => N.eqb x y && str_eqb a' b'
  | _, _ => false
  end.

Definition mem_str (s : str) (l : list str) : bool := existsb (str_eqb s) l.

Definition is_upper (c : N) : bool := (65 <=? c) && (c <=? 90).
Definition is_lower (c : N) : bool := (97 <=? c) && (c <=? 122).
Definition is_digit (c : N) : bool := (48 <=? c) && (c <=? 57).
Definition is_alpha (c : N) : bool := is_upper c || is_lower c.
Definition is_alnum (c : N) : bool := is_alpha c || is_digit c.

(* strings.ToLower on ASCII *)
Definition lowerb (c : N) : N := if is_upper c then c + 32 else c.
Definition lower (s : str) : str := map lowerb s.

(* strings.HasPrefix *)
Fixpoint hasPrefix (s p : str) : bool :=
  match p with
  | [] => true
  | c :: p' => match s with [] => false | d :: s' => N.eqb c d && hasPrefix s' p' end
  end.

(* strings.Split(s, sep) for a separator of one byte: never returns an empty list *)
Fixpoint splitOn (sep : N) (s : str) : list str :=
  match s with
  | [] => [[]]
  | c :: t =>
      if N.eqb c sep then [] :: splitOn sep t
      else match splitOn sep t with
           | h :: r => (c :: h) :: r
           | [] => [[c]]
           end
  end.

(* unicode.IsSpace on ASCII: \t \n \v \f \r and space *)
Definition is_space (c : N) : bool := ((9 <=? c) && (c <=? 13)) || (c =? 32).
(* \s of RE2: [\t\n\f\r ] (no \v) *)
Definition is_re_space (c : N) : bool := (c =? 9) || (c =? 10) || (c =? 12) || (c =? 13) || (c =? 32).

Fixpoint dropWhile {A} (f : A -> bool) (l : list A) : list A :=
  match l with
  | [] => []
  | a :: t => if f a then dropWhile f t else l
  end.
(* strings.TrimSpace *)
Definition trimSpace (s : str) : str := rev (dropWhile is_space (rev (dropWhile is_space s))).

(* strings.Fields: maximal runs of non-space bytes *)
Fixpoint fields_aux (s : str) (cur : str) : list str :=
  match s with
  | [] => match cur with [] => [] | _ => [rev cur] end
  | c :: t =>
      if is_space c then match cur with [] => fields_aux t [] | _ => rev cur :: fields_aux t [] end
      else fields_aux t (c :: cur)
  end.
Definition fields (s : str) : list str := fields_aux s [].

(* ---- literals ---- *)
Definition s_root : str := [114;111;111;116].
Definition s_default : str := [100;101;102;97;117;108;116].
Definition s_star : str := [42].
Definition s_fixed : str := [102;105;120;101;100].
Definition s_user : str := [117;115;101;114].
Definition s_provided : str := [112;114;111;118;105;100;101;100].
Definition s_tag : str := [116;97;103].
Definition s_test : str := [116;101;115;116].
Definition s_recovery : str := [114;101;99;111;118;101;114;121].
Definition s_allow : str := [97;108;108;111;119].
Definition s_deny : str := [100;101;110;121].
Definition s_fair : str := [102;97;105;114].
Definition s_binpacking : str := [98;105;110;112;97;99;107;105;110;103].
Definition s_dynamic : str := [60;100;121;110;97;109;105;99;62].   (* "<dynamic>" *)
Definition c_dot : N := 46.
Definition c_space : N := 32.

(* ---- the regular expressions ---- *)
Definition queue_char (c : N) : bool :=
  is_alnum c || (c =? 95) || (c =? 58) || (c =? 35) || (c =? 47) || (c =? 64) || (c =? 45).
Definition queueNameOK (s : str) : bool :=
  match s with
  | [] => false
  | _ => forallb queue_char s && (N.of_nat (length s) <=? 64)
  end.

Definition user_char (c : N) : bool :=
  is_alnum c || (c =? 58) || (c =? 35) || (c =? 47) || (c =? 95) || (c =? 46) || (c =? 64) || (c =? 45).
Definition name_start (c : N) : bool := is_alpha c || (c =? 95).
(* [chars]*[$]?$ : all but the last byte are chars, the last is a char or '$' *)
Fixpoint user_tail (s : str) : bool :=
  match s with
  | [] => true
  | [c] => user_char c || (c =? 36)
  | c :: t => user_char c && user_tail t
  end.
Definition userNameOK (s : str) : bool :=
  match s with
  | [] => false
  | c :: t => name_start c && user_tail t
  end.

Definition group_char (c : N) : bool :=
  is_alnum c || (c =? 58) || (c =? 95) || (c =? 46) || (c =? 45).
Definition groupNameOK (s : str) : bool :=
  match s with
  | [] => false
  | c :: t => name_start c && forallb group_char t
  end.

Definition special_char (c : N) : bool :=
  (c =? 94) || (c =? 36) || (c =? 42) || (c =? 43) || (c =? 63) || (c =? 40) || (c =? 41) ||
  (c =? 91) || (c =? 123) || (c =? 125) || (c =? 124).
Definition hasSpecial (s : str) : bool := existsb special_char s.

Definition rule_char (c : N) : bool := is_alnum c || (c =? 95).
Definition ruleNameOK (s : str) : bool :=
  match s with
  | [] => false
  | c :: t => name_start c && forallb rule_char t
  end.

(* ---- quantities (resources/quantity.go parse) ---- *)
Open Scope Z_scope.
Definition MAXQ : Z := 9223372036854775807.

Fixpoint span {A} (f : A -> bool) (l : list A) : list A * list A :=
  match l with
  | [] => ([], [])
  | a :: t => if f a then let '(x, y) := span f t in (a :: x, y) else ([], l)
  end.

Definition digits_val (d : str) : Z :=
  fold_left (fun acc c => acc * 10 + (Z.of_N c - 48)) d 0.

(* multipliers[suffix]; None = "invalid suffix" (also the regexp admits K, mi, ki which the map lacks) *)
Definition multiplier (suffix : str) (milli : bool) : option Z :=
  match suffix with
  | [] => Some 1
  | [109%N] => if milli then Some 1 else None                      (* m *)
  | [107%N] => Some 1000                                           (* k *)
  | [77%N] => Some 1000000                                         (* M *)
  | [71%N] => Some 1000000000                                      (* G *)
  | [84%N] => Some 1000000000000                                   (* T *)
  | [80%N] => Some 1000000000000000                                (* P *)
  | [69%N] => Some 1000000000000000000                             (* E *)
  | [75%N; 105%N] => Some 1024                                     (* Ki *)
  | [77%N; 105%N] => Some 1048576
  | [71%N; 105%N] => Some 1073741824
  | [84%N; 105%N] => Some 1099511627776
  | [80%N; 105%N] => Some 1125899906842624
  | [69%N; 105%N] => Some 1152921504606846976
  | _ => None
  end.

Definition suffix_letter (c : N) : bool :=
  ((c =? 109) || (c =? 107) || (c =? 75) || (c =? 77) || (c =? 71) || (c =? 84) || (c =? 80) || (c =? 69))%N.
(* does the rest (after the digits and \s* ) match ([mkKMGTPE]i?)?$ *)
Definition suffix_syntax (s : str) : bool :=
  match s with
  | [] => true
  | [c] => suffix_letter c
  | [c; i] => suffix_letter c && (i =? 105)%N
  | _ => false
  end.

(* parse(value, milli): None = error (invalid quantity / invalid suffix / overflow) *)
Definition parseQ (milli : bool) (value : str) : option Z :=
  let v := trimSpace value in
  let '(ds, rest) := span is_digit v in
  match ds with
  | [] => None
  | _ =>
      let suffix := dropWhile is_re_space rest in
      if negb (suffix_syntax suffix) then None else
      let n := digits_val ds in
      if MAXQ <? n then None else
      match multiplier suffix milli with
      | None => None
      | Some scale =>
          let r := n * scale in
          let r := if milli && negb (str_eqb suffix [109%N]) then r * 1000 else r in
          if MAXQ <? r then None else Some r
      end
  end.
