(* validate_perm, part 3: partitions, the structure checks (root insertion, limits copy, reflect.DeepEqual of the
   limit lists) and the theorem. *)
From Coq Require Import List NArith ZArith Bool Lia Permutation.
From YK Require Import Base.Int64 Base.Res Base.ResSpec Base.ResLemmas Base.ResLawsPred.
From YK Require Import Conf.Str Conf.Config Conf.Validate Conf.WF Conf.Lemmas Conf.ConfSound Conf.LimitChain Conf.ConfPerm Conf.ConfPerm2.
Import ListNotations.

Definition oqperm (a b : option (list queue)) : Prop :=
  match a, b with None, None => True | Some x, Some y => Forall2 qperm x y | _, _ => False end.
Definition pperm (p p' : partition) : Prop :=
  p_name p = p_name p' /\ oqperm (p_queues p) (p_queues p') /\ p_rules p = p_rules p' /\
  Forall2 lperm (p_limits p) (p_limits p') /\ p_sort_type p = p_sort_type p' /\
  Permutation (p_weights p) (p_weights p').
Definition cperm (c c' : sconfig) : Prop := Forall2 pperm c c'.

Lemma forallb_ext' {A} (f g : A -> bool) l : (forall x, f x = g x) -> forallb f l = forallb g l.
Proof. intros H. induction l as [|a t IH]; cbn; [reflexivity|]. rewrite H, IH. reflexivity. Qed.

(* ---- reflect.DeepEqual of two limit lists ---- *)
Lemma rmap_eqb_perm a a' b b' : mperm a a' -> mperm b b' -> rmap_eqb a b = rmap_eqb a' b'.
Proof.
  intros Ha Hb. unfold rmap_eqb. rewrite (Permutation_length (proj1 Ha)), (Permutation_length (proj1 Hb)). f_equal.
  rewrite (forallb_perm _ _ _ (proj1 Ha)). apply forallb_ext'. intros kv. rewrite (rm_get_perm _ _ (fst kv) Hb). reflexivity.
Qed.
Lemma limit_eqb_perm l1 l1' l2 l2' : lperm l1 l1' -> lperm l2 l2' -> limit_eqb l1 l2 = limit_eqb l1' l2'.
Proof.
  intros (A1 & B1 & C1 & D1 & E1) (A2 & B2 & C2 & D2 & E2). unfold limit_eqb.
  assert (X : opt_eqb rmap_eqb (l_maxres l1) (l_maxres l2) = opt_eqb rmap_eqb (l_maxres l1') (l_maxres l2')).
  { destruct (l_maxres l1) as [a|], (l_maxres l1') as [a'|]; cbn in D1; try contradiction;
      destruct (l_maxres l2) as [b|], (l_maxres l2') as [b'|]; cbn in D2; try contradiction; cbn [opt_eqb]; try reflexivity.
    apply rmap_eqb_perm; assumption. }
  rewrite A1, B1, C1, E1, A2, B2, C2, E2, X. reflexivity.
Qed.
Lemma limits_eqb_perm a a' : Forall2 lperm a a' -> forall b b', Forall2 lperm b b' -> list_eqb limit_eqb a b = list_eqb limit_eqb a' b'.
Proof.
  induction 1 as [|x x' t t' Hx _ IH]; intros b b' Hb; destruct Hb as [|y y' r r' Hy Hr]; cbn [list_eqb]; try reflexivity.
  rewrite (limit_eqb_perm _ _ _ _ Hx Hy), (IH _ _ Hr). reflexivity.
Qed.
Lemma Forall2_nilb {A B} (R : A -> B -> Prop) l l' : Forall2 R l l' -> nilb l = nilb l'.
Proof. destruct 1; reflexivity. Qed.

(* ---- checkQueuesStructure / checkLimitsStructure ---- *)
Lemma omperm_none a b : omperm a b -> is_none a = is_none b.
Proof. destruct a, b; cbn; intros H; try contradiction; reflexivity. Qed.
Lemma qperm_rootOf qs qs' : Forall2 qperm qs qs' -> qperm (rootOf qs) (rootOf qs').
Proof.
  intros H. unfold rootOf. cbn [qperm]. repeat split; try exact I.
  - apply qperm_go. exact H.
  - constructor.
Qed.
Lemma structure_perm canon p p' : oqperm (p_queues p) (p_queues p') ->
  vrel qperm (checkQueuesStructureG canon p) (checkQueuesStructureG canon p').
Proof.
  unfold checkQueuesStructureG. destruct (p_queues p) as [qs|], (p_queues p') as [qs'|]; cbn [oqperm]; intros H; try contradiction; [|exact I].
  set (root := match qs with [Queue n pa g m a pr ad su t cs ls] => _ | _ => rootOf qs end).
  set (root' := match qs' with [Queue n pa g m a pr ad su t cs ls] => _ | _ => rootOf qs' end).
  assert (Hr : qperm root root').
  { subst root root'. destruct H as [|q q' t t' Hq Ht]; [apply qperm_rootOf; constructor|].
    destruct Ht as [|q2 q2' t2 t2' Hq2 Ht2].
    - pose proof Hq as Hq0. destruct q as [n pa g m a pr ad su tm cs ls], q' as [n' pa' g' m' a' pr' ad' su' tm' cs' ls'].
      cbn [qperm] in Hq. destruct Hq as (En & Ep & Eg & Em & Ea & Ead & Esu & Et & Ecs & Els). subst n'.
      destruct (str_eqb (lower n) s_root).
      + subst pa' a' ad' su'. cbn [qperm]. destruct Et as (T1 & T2 & T3). repeat split; try assumption; try reflexivity.
      + apply qperm_rootOf. constructor; [exact Hq0 | constructor].
    - assert (HF : Forall2 qperm (q :: q2 :: t2) (q' :: q2' :: t2')) by (repeat constructor; assumption).
      destruct q, q'. apply qperm_rootOf. exact HF. }
  destruct (qperm_inv _ _ Hr) as (_ & _ & Eg & Em & _).
  pose proof (omperm_none _ _ Eg) as Ng. pose proof (omperm_none _ _ Em) as Nm.
  destruct (q_gua root), (q_gua root'); cbn in Ng; try discriminate; cbn; try exact I.
  destruct (q_max root), (q_max root'); cbn in Nm; try discriminate; cbn; [exact I | exact Hr].
Qed.
Lemma set_limits_perm q q' ls ls' : qperm q q' -> Forall2 lperm ls ls' -> qperm (set_limits q ls) (set_limits q' ls').
Proof.
  destruct q, q'. cbn [set_limits qperm]. intros (A & B & C & D & E & F & G & (H1 & H2 & H3) & I & J) Hl.
  repeat split; try assumption.
Qed.
Lemma limits_structure_perm p p' root root' :
  Forall2 lperm (p_limits p) (p_limits p') -> qperm root root' ->
  vrel qperm (checkLimitsStructure p root) (checkLimitsStructure p' root').
Proof.
  intros Hl Hr. destruct (qperm_inv _ _ Hr) as (En & _ & _ & _ & _ & _ & _ & _ & _ & Els).
  unfold checkLimitsStructure. rewrite <- En.
  rewrite <- (Forall2_nilb _ _ _ Hl), <- (Forall2_nilb _ _ _ Els), <- (limits_eqb_perm _ _ Hl _ _ Els).
  eapply vrel_bind; [apply vrel_refl_eq|]. intros _ _ _.
  eapply vrel_bind; [apply vrel_refl_eq|]. intros _ _ _. cbn [vrel].
  destruct (negb (nilb (p_limits p)) && nilb (q_limits root)); [apply set_limits_perm; assumption | exact Hr].
Qed.

Lemma sort_perm p p' : p_sort_type p = p_sort_type p' -> Permutation (p_weights p) (p_weights p') ->
  checkNodeSortingPolicy p = checkNodeSortingPolicy p'.
Proof. intros E Hp. unfold checkNodeSortingPolicy. rewrite <- E, (existsb_perm _ _ _ Hp). reflexivity. Qed.

Section Perm.
Variable compiles : str -> bool.

Lemma validatePartition_perm p p' : pperm p p' ->
  vrel (fun _ _ => True) (validatePartition compiles p) (validatePartition compiles p').
Proof.
  intros (En & Eq & Er & El & Es & Ew). unfold validatePartition.
  eapply vrel_bind; [apply structure_perm; exact Eq|]. intros r0 r0' H0.
  eapply vrel_bind; [apply limits_structure_perm; eassumption|]. intros root root' Hr.
  eapply vrel_bind; [apply checkQueues_perm; exact Hr|]. intros _ _ _.
  eapply vrel_bind; [apply (checkQueueResource_perm root root' None None Hr I)|]. intros _ _ _.
  unfold checkPlacementRules. rewrite (checkPlacementRulesG_perm compiles true root root' (p_rules p) Hr), <- Er.
  eapply vrel_bind; [apply vrel_refl_eq|]. intros _ _ _.
  rewrite (sort_perm _ _ Es Ew).
  eapply vrel_bind; [apply vrel_refl_eq|]. intros _ _ _.
  rewrite (checkQueueMaxApplications_perm root root' Hr).
  eapply vrel_bind; [apply vrel_refl_eq|]. intros _ _ _.
  eapply vrel_bind; [apply (checkLimitResource_perm root root' [] [] [] [] Hr); constructor|]. intros _ _ _.
  rewrite (checkLimitMaxApplications_perm root root' [] [] Hr).
  eapply vrel_bind; [apply vrel_refl_eq|]. intros _ _ _. exact I.
Qed.

Lemma validateLoop_perm ps ps' : Forall2 pperm ps ps' -> forall seen,
  vrel (fun _ _ => True) (validateLoop compiles ps seen) (validateLoop compiles ps' seen).
Proof.
  induction 1 as [|p p' t t' Hp _ IH]; intros seen; cbn [validateLoop]; [exact I|].
  pose proof Hp as (En & _). rewrite <- En.
  eapply vrel_bind; [apply vrel_refl_eq|]. intros _ _ _.
  eapply vrel_bind; [apply validatePartition_perm; exact Hp|]. intros x x' _.
  eapply vrel_bind; [apply IH|]. intros r r' _. exact I.
Qed.

(* permuting the entries of the maps of the configuration does not change the verdict *)
Theorem validate_perm c c' : cperm c c' -> accepts (Validate compiles c) = accepts (Validate compiles c').
Proof. intros H. eapply vrel_accepts. apply validateLoop_perm. exact H. Qed.
End Perm.

(* the hypothesis is satisfiable on a configuration with real maps: two orders of a two entry maximum *)
Definition perm_q (m : rmap) : queue :=
  Queue s_root true None None 0 [] [] [] emptyTemplate
    [Queue [97]%N false (Some [(1%N, [53]%N)]) (Some m) 0 [] [] [] emptyTemplate [] []] [].
Definition perm_c (m : rmap) : sconfig := [mkPartition s_default (Some [perm_q m]) [] [] [] []].
Example validate_perm_example :
  cperm (perm_c [(0%N, [50]%N); (1%N, [49;48]%N)]) (perm_c [(1%N, [49;48]%N); (0%N, [50]%N)]) /\
  accepts (Validate (fun _ => false) (perm_c [(0%N, [50]%N); (1%N, [49;48]%N)])) = true.
Proof.
  split; [|vm_compute; reflexivity].
  assert (Hm : mperm [(0%N, [50]%N); (1%N, [49;48]%N)] [(1%N, [49;48]%N); (0%N, [50]%N)]).
  { split; [apply perm_swap|]. cbn. constructor; [intros [H|[]]; discriminate|]. constructor; [intros []|constructor]. }
  assert (H1 : mperm [(1%N, [53]%N)] [(1%N, [53]%N)]).
  { split; [apply Permutation_refl|]. cbn. constructor; [intros []|constructor]. }
  constructor; [|constructor]. unfold pperm, perm_c.
  cbn [p_name p_queues p_rules p_limits p_sort_type p_weights oqperm].
  split; [reflexivity|]. split; [|split; [reflexivity|]; split; [constructor|]; split; [reflexivity | constructor]].
  constructor; [|constructor]. unfold perm_q. cbn [qperm omperm tperm emptyTemplate t_maxapps t_gua t_max].
  repeat (split; try reflexivity; try exact I; try assumption); apply Forall2_nil.
Qed.
