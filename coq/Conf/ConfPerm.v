(* validate_perm: accept / reject does not depend on the order of the entries of the maps of the configuration
   (resource maps of queues, child templates and limits; properties; resource weights): wherever the Go code ranges
   over a map the model folds over a list, and every such fold is shown to respect map equality.
   Part 1: the relation "same maps", quantity parsing and the resource operations the validator uses. *)
From Coq Require Import List NArith ZArith Bool Lia Permutation.
From YK Require Import Base.Int64 Base.Res Base.ResSpec Base.ResLemmas Base.ResLaws Base.ResLaws2 Base.ResLawsPred.
From YK Require Import Conf.Str Conf.Config Conf.Validate Conf.WF Conf.Lemmas Conf.ConfSound Conf.LimitChain.
Import ListNotations.

(* ---- relation on results of the error monad: both fail, or both succeed with related values ---- *)
Definition vrel {A B} (R : A -> B -> Prop) (x : vres A) (y : vres B) : Prop :=
  match x, y with
  | VOk a, VOk b => R a b
  | VOk _, _ | _, VOk _ => False
  | _, _ => True
  end.
Lemma vrel_bind {A B A' B'} (R : A -> A' -> Prop) (S : B -> B' -> Prop) x y (f : A -> vres B) (g : A' -> vres B') :
  vrel R x y -> (forall a b, R a b -> vrel S (f a) (g b)) -> vrel S (bind x f) (bind y g).
Proof. destruct x, y; cbn; intros H Hf; try contradiction; auto. Qed.
Lemma vrel_accepts {A B} (R : A -> B -> Prop) x y : vrel R x y -> accepts x = accepts y.
Proof. destruct x, y; cbn; intros H; try contradiction; reflexivity. Qed.
Lemma vrel_guard b b' e e' : b = b' -> vrel (fun _ _ => True) (guard b e) (guard b' e').
Proof. intros ->. destruct b'; cbn; exact I. Qed.
Lemma vrel_refl_eq {A} (x : vres A) : vrel eq x x.
Proof. destruct x; cbn; auto. Qed.
Lemma vrel_weaken {A B} (R S : A -> B -> Prop) x y : (forall a b, R a b -> S a b) -> vrel R x y -> vrel S x y.
Proof. destruct x, y; cbn; auto. Qed.

(* ---- same map ---- *)
Definition req (a b : res) : Prop := wf a /\ wf b /\ forall k, get a k = get b k.
Definition oreq (a b : ores) : Prop :=
  match a, b with None, None => True | Some x, Some y => req x y | _, _ => False end.
Lemma req_refl a : wf a -> req a a. Proof. intros H. repeat split; auto. Qed.
Lemma oreq_get a b : oreq a b -> owf a /\ owf b /\ forall k, get (oget a) k = get (oget b) k.
Proof.
  destruct a as [x|], b as [y|]; cbn; intros H; try contradiction.
  - exact H.
  - repeat split; auto; apply wf_nil.
Qed.

Lemma bool_eq_iff (x y : bool) : (x = true <-> y = true) -> x = y.
Proof.
  destruct x, y; intros [H1 H2]; try reflexivity.
  - symmetry. apply H1. reflexivity.
  - apply H2. reflexivity.
Qed.

Lemma fit_req pm pm' b b' : oreq pm pm' -> req b b' -> FitInMaxUndef pm (Some b) = FitInMaxUndef pm' (Some b').
Proof.
  intros Hp (Hb & Hb' & Eb). destruct (oreq_get _ _ Hp) as (_ & _ & Ep). apply bool_eq_iff. unfold FitInMaxUndef.
  rewrite (fitIn_forall pm (Some b) true false Hb), (fitIn_forall pm' (Some b') true false Hb'). cbn [oget].
  split; intros H k; specialize (H k); [rewrite <- Ep, <- Eb | rewrite Ep, Eb]; exact H.
Qed.
Lemma cwm_req a a' pm pm' : req a a' -> oreq pm pm' -> oreq (ComponentWiseMin (Some a) pm) (ComponentWiseMin (Some a') pm').
Proof.
  intros (Ha & Ha' & Ea) Hp. destruct pm as [p|], pm' as [p'|]; cbn in *; try contradiction.
  - destruct Hp as (Hp & Hp' & Ep). repeat split; try apply cwMin_wf. intros k.
    rewrite !cwMin_get by assumption. rewrite Ea, Ep. reflexivity.
  - repeat split; auto.
Qed.
Lemma addTo_req l l' r r' : req l l' -> req r r' -> req (addTo l r) (addTo l' r').
Proof.
  intros (Hl & Hl' & El) (Hr & Hr' & Er). repeat split.
  - change (addTo l r) with (Add (Some l) (Some r)). apply Add_wf. exact Hl.
  - change (addTo l' r') with (Add (Some l') (Some r')). apply Add_wf. exact Hl'.
  - intros k. rewrite !addTo_get by assumption. rewrite El, Er. reflexivity.
Qed.
Lemma getz_req a b k : req a b -> getz a k = getz b k.
Proof. intros (_ & _ & E). unfold getz. rewrite E. reflexivity. Qed.
Lemma IsZero_req a b : req a b -> IsZero (Some a) = IsZero (Some b).
Proof.
  intros H. pose proof H as (Ha & Hb & _). apply bool_eq_iff.
  rewrite (IsZero_spec (Some a) Ha), (IsZero_spec (Some b) Hb). cbn [oget].
  split; intros E k; [rewrite <- (getz_req _ _ k H) | rewrite (getz_req _ _ k H)]; apply E.
Qed.
Lemma SGTZ_req a b : req a b -> StrictlyGreaterThanZero (Some a) = StrictlyGreaterThanZero (Some b).
Proof.
  intros H. pose proof H as (Ha & Hb & _). apply bool_eq_iff.
  rewrite (StrictlyGreaterThanZero_spec a Ha), (StrictlyGreaterThanZero_spec b Hb).
  split; intros [E1 [k E2]]; (split; [intros k'; specialize (E1 k') | exists k]).
  - rewrite <- (getz_req _ _ k' H). exact E1.
  - rewrite <- (getz_req _ _ k H). exact E2.
  - rewrite (getz_req _ _ k' H). exact E1.
  - rewrite (getz_req _ _ k H). exact E2.
Qed.

(* ---- quantity maps: permutation of the entries of a Go map ---- *)
Definition mperm (a b : rmap) : Prop := Permutation a b /\ NoDup (map fst a).
Definition omperm (a b : ormap) : Prop :=
  match a, b with None, None => True | Some x, Some y => mperm x y | _, _ => False end.

Lemma rm_get_in m k v : NoDup (map fst m) -> (rm_get m k = Some v <-> In (k, v) m).
Proof.
  induction m as [|[k0 v0] t IH]; cbn [rm_get map fst]; intros Hnd.
  - split; [discriminate | intros []].
  - inversion Hnd as [|? ? Hn Ht]; subst. destruct (N.eqb k k0) eqn:E.
    + apply N.eqb_eq in E. subst k0. split.
      * intros H. inversion H. left. reflexivity.
      * intros [H|H]; [inversion H; reflexivity|]. exfalso. apply Hn. apply in_map_iff. exists (k, v). auto.
    + rewrite (IH Ht). split; [intros H; right; assumption|]. intros [H|H]; [|assumption].
      inversion H; subst. rewrite N.eqb_refl in E. discriminate.
Qed.
Lemma rm_get_perm m m' k : mperm m m' -> rm_get m k = rm_get m' k.
Proof.
  intros [Hp Hnd]. assert (Hnd' : NoDup (map fst m')) by (eapply Permutation_NoDup; [apply Permutation_map; exact Hp | exact Hnd]).
  destruct (rm_get m k) as [v|] eqn:E.
  - symmetry. apply rm_get_in; [assumption|]. eapply Permutation_in; [exact Hp|]. apply rm_get_in; assumption.
  - destruct (rm_get m' k) as [v'|] eqn:E'; [|reflexivity].
    apply rm_get_in in E'; [|assumption]. apply Permutation_sym in Hp. pose proof (Permutation_in _ Hp E') as Hin.
    apply rm_get_in in Hin; [|assumption]. congruence.
Qed.

Lemma pe_char m : forall acc,
  match parseEntries m acc with
  | Some r => (forall k v, In (k, v) m -> exists z, parseQ (N.eqb k 0) v = Some z) /\
              (NoDup (map fst m) -> forall k, get r k = match rm_get m k with
                                                        | Some v => parseQ (N.eqb k 0) v
                                                        | None => get acc k
                                                        end)
  | None => exists k v, In (k, v) m /\ parseQ (N.eqb k 0) v = None
  end.
Proof.
  induction m as [|[k0 v0] t IH]; intros acc; cbn [parseEntries].
  - split; [intros k v [] | intros _ k; reflexivity].
  - destruct (parseQ (N.eqb k0 0) v0) as [z|] eqn:Ez.
    + specialize (IH (set k0 z acc)). destruct (parseEntries t (set k0 z acc)) as [r|].
      * destruct IH as [A B]. split.
        -- intros k v [H|H]; [inversion H; subst; eauto | eauto].
        -- intros Hnd k. cbn [map fst] in Hnd. inversion Hnd as [|? ? Hn Ht]; subst. rewrite (B Ht k). cbn [rm_get].
           destruct (N.eqb k k0) eqn:E.
           ++ apply N.eqb_eq in E. subst k0.
              destruct (rm_get t k) as [v|] eqn:Et.
              ** exfalso. apply Hn. apply rm_get_in in Et; [|assumption]. apply in_map_iff. exists (k, v). auto.
              ** rewrite get_set_same. symmetry. exact Ez.
           ++ destruct (rm_get t k); [reflexivity|]. apply get_set_other. intros ->. rewrite N.eqb_refl in E. discriminate.
      * destruct IH as (k & v & Hin & Hp). exists k, v. split; [right; assumption | assumption].
    + exists k0, v0. split; [left; reflexivity | assumption].
Qed.

Lemma parseEntries_wf' m acc r : parseEntries m acc = Some r -> wf acc -> wf r.
Proof. apply parseEntries_wf. Qed.

Definition preq (x y : option res) : Prop :=
  match x, y with Some r, Some r' => req r r' | None, None => True | _, _ => False end.
Lemma parse_perm m m' : mperm m m' -> preq (parseEntries m []) (parseEntries m' []).
Proof.
  intros Hm. pose proof Hm as [Hp Hnd].
  assert (Hnd' : NoDup (map fst m')) by (eapply Permutation_NoDup; [apply Permutation_map; exact Hp | exact Hnd]).
  pose proof (pe_char m []) as C. pose proof (pe_char m' []) as C'.
  destruct (parseEntries m []) as [r|] eqn:E, (parseEntries m' []) as [r'|] eqn:E'; cbn.
  - destruct C as [_ B], C' as [_ B']. repeat split.
    + eapply parseEntries_wf; [exact E | apply wf_nil].
    + eapply parseEntries_wf; [exact E' | apply wf_nil].
    + intros k. rewrite (B Hnd k), (B' Hnd' k), (rm_get_perm _ _ k Hm). reflexivity.
  - destruct C as [A _], C' as (k & v & Hin & Hn). apply Permutation_sym in Hp.
    destruct (A k v (Permutation_in _ Hp Hin)) as (z & Ez). congruence.
  - destruct C' as [A _], C as (k & v & Hin & Hn). destruct (A k v (Permutation_in _ Hp Hin)) as (z & Ez). congruence.
  - exact I.
Qed.
Lemma parseRes_perm m m' : omperm m m' -> preq (parseRes m) (parseRes m').
Proof.
  destruct m as [a|], m' as [b|]; cbn; intros H; try contradiction.
  - apply parse_perm. exact H.
  - apply req_refl. apply wf_nil.
Qed.
Lemma parseResV_perm m m' : omperm m m' -> vrel req (parseResV m) (parseResV m').
Proof.
  intros H. apply parseRes_perm in H. unfold parseResV.
  destruct (parseRes m), (parseRes m'); cbn in *; auto.
Qed.
Lemma omperm_nilb m m' : omperm m m' -> nilb (omap_list m) = nilb (omap_list m').
Proof.
  destruct m as [a|], m' as [b|]; cbn; intros H; try contradiction; [|reflexivity].
  destruct H as [Hp _]. destruct a, b; cbn; try reflexivity.
  - apply Permutation_nil in Hp. discriminate.
  - apply Permutation_sym in Hp. apply Permutation_nil in Hp. discriminate.
Qed.
