(* The scheduler configuration after YAML decoding (configs.SchedulerConfig), as an AST.
   YAML decoding itself (go.yaml.in/yaml/v3 with KnownFields) is OUTSIDE the model: the harness
   renders the generated configuration to YAML, decodes it with the same decoder settings as
   configs.ParseAndValidateConfig and emits the decoded structure in this form.
   Conventions:
   - strings are byte lists (Conf/Str.v);
   - resource maps (map[string]string: type name -> quantity text) have their keys interned to N by the
     harness (injective; "vcore" = 0, the only name the code treats specially); a Go map has unique keys;
   - nil and empty are kept distinct where the code can tell them apart (reflect.DeepEqual of the limits,
     "!= nil" tests): option;
   - node sort policy resource weights: only the sign test (v < 0) is used by the code, the harness
     supplies that bit;
   - Preemption flags and UserGroupResolver are not part of the AST: they are neither validated nor can
     they make loading fail (the generators emit them, the resolver type is left empty). *)
From Coq Require Import List NArith Bool.
From YK Require Import Conf.Str.
Import ListNotations.
Open Scope N_scope.

Definition rmap := list (N * str).
Definition ormap := option rmap.
Definition smap := list (str * str).

Record limit := mkLimit {
  l_name : str;
  l_users : option (list str);
  l_groups : option (list str);
  l_maxres : ormap;
  l_maxapps : N }.

Record template := mkTemplate {
  t_maxapps : N;
  t_props : smap;
  t_gua : ormap;
  t_max : ormap }.

Inductive queue :=
  Queue (name : str) (parent : bool) (gua max : ormap) (maxapps : N) (props : smap)
        (admin submit : str) (tmpl : template) (queues : list queue) (limits : list limit).

Definition q_name (q : queue) := let 'Queue n _ _ _ _ _ _ _ _ _ _ := q in n.
Definition q_parent (q : queue) := let 'Queue _ p _ _ _ _ _ _ _ _ _ := q in p.
Definition q_gua (q : queue) := let 'Queue _ _ g _ _ _ _ _ _ _ _ := q in g.
Definition q_max (q : queue) := let 'Queue _ _ _ m _ _ _ _ _ _ _ := q in m.
Definition q_maxapps (q : queue) := let 'Queue _ _ _ _ a _ _ _ _ _ _ := q in a.
Definition q_props (q : queue) := let 'Queue _ _ _ _ _ p _ _ _ _ _ := q in p.
Definition q_admin (q : queue) := let 'Queue _ _ _ _ _ _ a _ _ _ _ := q in a.
Definition q_submit (q : queue) := let 'Queue _ _ _ _ _ _ _ s _ _ _ := q in s.
Definition q_tmpl (q : queue) := let 'Queue _ _ _ _ _ _ _ _ t _ _ := q in t.
Definition q_queues (q : queue) := let 'Queue _ _ _ _ _ _ _ _ _ qs _ := q in qs.
Definition q_limits (q : queue) := let 'Queue _ _ _ _ _ _ _ _ _ _ l := q in l.

Definition users (l : limit) : list str := match l_users l with Some x => x | None => [] end.
Definition groups (l : limit) : list str := match l_groups l with Some x => x | None => [] end.
Definition omap_list (m : ormap) : rmap := match m with Some l => l | None => [] end.

Record pfilter := mkFilter { f_type : str; f_users : list str; f_groups : list str }.

Inductive prule := PRule (name : str) (create : bool) (filter : pfilter) (parent : option prule) (value : str).
Definition r_name (r : prule) := let 'PRule n _ _ _ _ := r in n.
Definition r_create (r : prule) := let 'PRule _ c _ _ _ := r in c.
Definition r_filter (r : prule) := let 'PRule _ _ f _ _ := r in f.
Definition r_parent (r : prule) := let 'PRule _ _ _ p _ := r in p.
Definition r_value (r : prule) := let 'PRule _ _ _ _ v := r in v.

Record partition := mkPartition {
  p_name : str;
  p_queues : option (list queue);        (* nil slice = None *)
  p_rules : list prule;
  p_limits : list limit;
  p_sort_type : str;
  p_weights : list (str * bool) }.       (* resource weight name, (value < 0) *)

Definition sconfig := list partition.

Definition emptyTemplate : template := mkTemplate 0 [] None None.
Definition is_some {A} (o : option A) : bool := match o with Some _ => true | None => false end.
Definition is_none {A} (o : option A) : bool := match o with Some _ => false | None => true end.
Definition nilb {A} (l : list A) : bool := match l with [] => true | _ => false end.

(* ---- structural equality (used to compare the validated configuration of model and implementation
        and for reflect.DeepEqual of limit lists) ---- *)
Fixpoint list_eqb {A} (eq : A -> A -> bool) (a b : list A) : bool :=
  match a, b with
  | [], [] => true
  | x :: a', y :: b' => eq x y && list_eqb eq a' b'
  | _, _ => false
  end.
Definition opt_eqb {A} (eq : A -> A -> bool) (a b : option A) : bool :=
  match a, b with
  | None, None => true
  | Some x, Some y => eq x y
  | _, _ => false
  end.
Fixpoint rm_get (m : rmap) (k : N) : option str :=
  match m with [] => None | (k', v) :: t => if N.eqb k k' then Some v else rm_get t k end.
(* equality of Go maps (unique keys): same size, same value under every key *)
Definition rmap_eqb (a b : rmap) : bool :=
  Nat.eqb (length a) (length b) &&
  forallb (fun kv => match rm_get b (fst kv) with Some v => str_eqb v (snd kv) | None => false end) a.
Fixpoint sm_get (m : smap) (k : str) : option str :=
  match m with [] => None | (k', v) :: t => if str_eqb k k' then Some v else sm_get t k end.
Definition smap_eqb (a b : smap) : bool :=
  Nat.eqb (length a) (length b) &&
  forallb (fun kv => match sm_get b (fst kv) with Some v => str_eqb v (snd kv) | None => false end) a.

Definition limit_eqb (a b : limit) : bool :=
  str_eqb (l_name a) (l_name b) &&
  opt_eqb (list_eqb str_eqb) (l_users a) (l_users b) &&
  opt_eqb (list_eqb str_eqb) (l_groups a) (l_groups b) &&
  opt_eqb rmap_eqb (l_maxres a) (l_maxres b) &&
  N.eqb (l_maxapps a) (l_maxapps b).

Definition template_eqb (a b : template) : bool :=
  N.eqb (t_maxapps a) (t_maxapps b) && smap_eqb (t_props a) (t_props b) &&
  opt_eqb rmap_eqb (t_gua a) (t_gua b) && opt_eqb rmap_eqb (t_max a) (t_max b).

Fixpoint queue_eqb (a b : queue) {struct a} : bool :=
  match a, b with
  | Queue n1 p1 g1 m1 a1 pr1 ad1 su1 t1 qs1 l1, Queue n2 p2 g2 m2 a2 pr2 ad2 su2 t2 qs2 l2 =>
      str_eqb n1 n2 && Bool.eqb p1 p2 && opt_eqb rmap_eqb g1 g2 && opt_eqb rmap_eqb m1 m2 &&
      N.eqb a1 a2 && smap_eqb pr1 pr2 && str_eqb ad1 ad2 && str_eqb su1 su2 && template_eqb t1 t2 &&
      (fix qs_eqb (x : list queue) (y : list queue) {struct x} : bool :=
         match x, y with
         | [], [] => true
         | q1 :: x', q2 :: y' => queue_eqb q1 q2 && qs_eqb x' y'
         | _, _ => false
         end) qs1 qs2 &&
      list_eqb limit_eqb l1 l2
  end.

Definition filter_eqb (a b : pfilter) : bool :=
  str_eqb (f_type a) (f_type b) && list_eqb str_eqb (f_users a) (f_users b) &&
  list_eqb str_eqb (f_groups a) (f_groups b).
Fixpoint rule_eqb (a b : prule) {struct a} : bool :=
  match a, b with
  | PRule n1 c1 f1 p1 v1, PRule n2 c2 f2 p2 v2 =>
      str_eqb n1 n2 && Bool.eqb c1 c2 && filter_eqb f1 f2 && str_eqb v1 v2 &&
      match p1, p2 with
      | None, None => true
      | Some x, Some y => rule_eqb x y
      | _, _ => false
      end
  end.
Definition weights_eqb (a b : list (str * bool)) : bool :=
  Nat.eqb (length a) (length b) &&
  forallb (fun kv => existsb (fun kv' => str_eqb (fst kv) (fst kv') && Bool.eqb (snd kv) (snd kv')) b) a.
Definition partition_eqb (a b : partition) : bool :=
  str_eqb (p_name a) (p_name b) && opt_eqb (list_eqb queue_eqb) (p_queues a) (p_queues b) &&
  list_eqb rule_eqb (p_rules a) (p_rules b) && list_eqb limit_eqb (p_limits a) (p_limits b) &&
  str_eqb (p_sort_type a) (p_sort_type b) && weights_eqb (p_weights a) (p_weights b).
Definition sconfig_eqb (a b : sconfig) : bool := list_eqb partition_eqb a b.
