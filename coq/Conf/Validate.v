(* Executable model of pkg/common/configs/configvalidator.go (yunikorn-core, current tree: with the fix:
   commits for the root name, the ACL test, the child template quantities and the placement path check).
   Every check* function is transcribed with the same guards in the same order; the mutations performed by
   Validate (partition name, root insertion, Parent flag and canonical name of the root, partition limits
   copied to the root) are part of the result.  Go maps are association lists; loops over Go maps are folds
   (validate_perm in ConfPerm.v shows that accept/reject does not depend on the order).
   checkChildNames_pinned: before fix 143145b a child queue could be called root.
   [compiles] stands for "regexp.Compile(s) succeeds" (external; the harness supplies the table).
   The functions of the pinned tree that were repaired are kept with the suffix _pinned. *)
From Coq Require Import List NArith ZArith Bool.
From YK Require Import Base.Int64 Base.Res Conf.Str Conf.Config.
Import ListNotations.

Inductive verr :=
| EDupPartition | EQueuesNotSet | ERootLimits | ETopNotRoot | ELimitsNotEquiv
| EACL
| ELimitEmpty | ELimitName | ELimitDup | ELimitWildOrder | ELimitOnlyWildGroup | ELimitZero | ELimitNull
| ELimitQApps | ELimitQRes
| EQuantity
| EQueueName | ERootReserved | EDupQueue
| EGuaMax | EMaxParent | ESumGua | ESumMax
| ERuleName | EFilter | ERuleFixed | ERuleNotLeaf | ERuleNoQueue | ERuleLastLeaf
| ESortPolicy | ESortWeight
| EMaxAppsParent | EMaxAppsZero
| ELimResNamed | ELimResWild | ELimAppsNamed | ELimAppsWild.

Inductive vres (A : Type) := VOk (a : A) | VErr (e : verr) | VCrash.
Arguments VOk {A} a. Arguments VErr {A} e. Arguments VCrash {A}.

Definition bind {A B} (x : vres A) (f : A -> vres B) : vres B :=
  match x with VOk a => f a | VErr e => VErr e | VCrash => VCrash end.
Notation "x <- a ;; b" := (bind a (fun x => b)) (at level 61, a at next level, right associativity).
Definition guard (bad : bool) (e : verr) : vres unit := if bad then VErr e else VOk tt.

(* run f over a list, stop at the first failure *)
Fixpoint each {A} (f : A -> vres unit) (l : list A) : vres unit :=
  match l with
  | [] => VOk tt
  | a :: t => _ <- f a ;; each f t
  end.

(* ---- resources.NewResourceFromConf: nil and empty map give an empty resource; "vcore" (key 0) is
        parsed as milli cpu; any unparsable entry is an error ---- *)
Fixpoint parseEntries (m : rmap) (acc : res) : option res :=
  match m with
  | [] => Some acc
  | (k, v) :: t =>
      match parseQ (N.eqb k 0) v with
      | Some z => parseEntries t (set k z acc)
      | None => None
      end
  end.
Definition parseRes (m : ormap) : option res := parseEntries (omap_list m) [].
Definition parseResV (m : ormap) : vres res :=
  match parseRes m with Some r => VOk r | None => VErr EQuantity end.

(* ---- checkACL ---- *)
Definition checkACL (acl : str) : vres unit :=
  guard (2 <? length (splitOn c_space acl))%nat EACL.
(* pinned tree: TrimSpace, "" and "*" accepted, then strings.Fields *)
Definition checkACL_pinned (acl : str) : vres unit :=
  let a := trimSpace acl in
  if str_eqb a [] || str_eqb a s_star then VOk tt
  else guard (2 <? length (fields a))%nat EACL.

(* ---- checkLimit / checkLimits ---- *)
Fixpoint checkNames (ok : str -> bool) (names seen : list str) : vres (list str) :=
  match names with
  | [] => VOk seen
  | n :: t =>
      if negb (str_eqb n s_star) && negb (ok n) then VErr ELimitName
      else if mem_str n seen then VErr ELimitDup
      else let seen' := n :: seen in
           if mem_str s_star seen' && negb (str_eqb n s_star) then VErr ELimitWildOrder
           else checkNames ok t seen'
  end.


Definition checkLimit (l : limit) (seenU seenG : list str) (q : queue) : vres (list str * list str) :=
  _ <- guard (nilb (users l) && nilb (groups l)) ELimitEmpty ;;
  seenU' <- checkNames userNameOK (users l) seenU ;;
  seenG' <- checkNames groupNameOK (groups l) seenG ;;
  _ <- guard (mem_str s_star seenG' && Nat.eqb (length seenG') 1) ELimitOnlyWildGroup ;;
  limitResource <- (if nilb (omap_list (l_maxres l)) then VOk []
                    else r <- parseResV (l_maxres l) ;;
                         _ <- guard (negb (StrictlyGreaterThanZero (Some r))) ELimitZero ;; VOk r) ;;
  _ <- guard (N.eqb (l_maxapps l) 0 && nilb (omap_list (l_maxres l))) ELimitNull ;;
  _ <- guard (negb (N.eqb (q_maxapps q) 0) && N.ltb (q_maxapps q) (l_maxapps l)) ELimitQApps ;;
  _ <- (if negb (str_eqb (q_name q) s_root) then
          qm <- parseResV (q_max q) ;;
          guard (negb (FitInMaxUndef (Some qm) (Some limitResource))) ELimitQRes
        else VOk tt) ;;
  VOk (seenU', seenG').

Fixpoint checkLimitsLoop (ls : list limit) (seenU seenG : list str) (q : queue) : vres unit :=
  match ls with
  | [] => VOk tt
  | l :: t => s <- checkLimit l seenU seenG q ;; checkLimitsLoop t (fst s) (snd s) q
  end.
Definition checkLimits (ls : list limit) (q : queue) : vres unit := checkLimitsLoop ls [] [] q.

(* ---- checkQueues: ACLs, limits, child names valid and unique (case-insensitive), then the children ---- *)
Fixpoint checkChildNames (qs : list queue) (seen : list str) : vres unit :=
  match qs with
  | [] => VOk tt
  | c :: t =>
      if negb (queueNameOK (q_name c)) then VErr EQueueName
      else if str_eqb (lower (q_name c)) s_root then VErr ERootReserved
      else if mem_str (lower (q_name c)) seen then VErr EDupQueue
      else checkChildNames t (lower (q_name c) :: seen)
  end.

Fixpoint checkChildNames_pinned (qs : list queue) (seen : list str) : vres unit :=
  match qs with
  | [] => VOk tt
  | c :: t =>
      if negb (queueNameOK (q_name c)) then VErr EQueueName
      else if mem_str (lower (q_name c)) seen then VErr EDupQueue
      else checkChildNames_pinned t (lower (q_name c) :: seen)
  end.

Fixpoint checkQueues (q : queue) : vres unit :=
  match q with
  | Queue name parent gua max maxapps props admin submit tmpl queues limits =>
      _ <- checkACL admin ;;
      _ <- checkACL submit ;;
      _ <- checkLimits limits q ;;
      _ <- checkChildNames queues [] ;;
      (fix children (l : list queue) : vres unit :=
         match l with
         | [] => VOk tt
         | c :: t => _ <- checkQueues c ;; children t
         end) queues
  end.

(* ---- checkResourceConfig / checkQueueResource ---- *)
Definition checkResourceConfig (q : queue) : vres (res * res) :=
  g <- parseResV (q_gua q) ;;
  m <- parseResV (q_max q) ;;
  _ <- guard (negb (FitInMaxUndef (Some m) (Some g))) EGuaMax ;;
  _ <- parseResV (t_gua (q_tmpl q)) ;;
  _ <- parseResV (t_max (q_tmpl q)) ;;
  VOk (g, m).
Definition checkResourceConfig_pinned (q : queue) : vres (res * res) :=
  g <- parseResV (q_gua q) ;;
  m <- parseResV (q_max q) ;;
  _ <- guard (negb (FitInMaxUndef (Some m) (Some g))) EGuaMax ;;
  VOk (g, m).

(* result: the guaranteed resource the parent has to account for *)
Fixpoint checkQueueResource (q : queue) (parentM : ores) {struct q} : vres res :=
  match q with
  | Queue name parent gua max maxapps props admin submit tmpl queues limits =>
      gm <- checkResourceConfig q ;;
      let curG := fst gm in let curM := snd gm in
      _ <- guard (negb (FitInMaxUndef parentM (Some curM))) EMaxParent ;;
      let curM' := ComponentWiseMin (Some curM) parentM in
      sumG <- (fix children (l : list queue) (sumG : res) : vres res :=
                 match l with
                 | [] => VOk sumG
                 | c :: t => childG <- checkQueueResource c curM' ;; children t (addTo sumG childG)
                 end) queues [] ;;
      _ <- guard (negb (FitInMaxUndef (Some curG) (Some sumG))) ESumGua ;;
      _ <- guard (negb (FitInMaxUndef curM' (Some sumG))) ESumMax ;;
      VOk (if IsZero (Some curG) then sumG else curG)
  end.

(* ---- checkQueueMaxApplications ---- *)
Fixpoint checkQueueMaxApplications (q : queue) : vres unit :=
  match q with
  | Queue name parent gua max maxapps props admin submit tmpl queues limits =>
      (fix children (l : list queue) : vres unit :=
         match l with
         | [] => VOk tt
         | c :: t =>
             _ <- guard (negb (N.eqb maxapps 0) && N.ltb maxapps (q_maxapps c)) EMaxAppsParent ;;
             _ <- guard (negb (N.eqb maxapps 0) && N.eqb (q_maxapps c) 0) EMaxAppsZero ;;
             _ <- checkQueueMaxApplications c ;;
             children t
         end) queues
  end.

(* ---- maps keyed by user / group name ---- *)
Fixpoint sl_get {A} (m : list (str * A)) (k : str) : option A :=
  match m with [] => None | (k', v) :: t => if str_eqb k k' then Some v else sl_get t k end.
Fixpoint sl_set {A} (k : str) (v : A) (m : list (str * A)) : list (str * A) :=
  match m with
  | [] => [(k, v)]
  | (k', v') :: t => if str_eqb k k' then (k, v) :: t else (k', v') :: sl_set k v t
  end.

(* ---- checkLimitResource ---- *)
Definition lmap := list (str * res).
(* one name of one limit: parent map, current map -> current map *)
Definition limitResName (par : lmap) (lim : res) (cur : lmap) (name : str) : vres lmap :=
  match sl_get par name with
  | Some ex =>
      if negb (FitInMaxUndef (Some ex) (Some lim)) then VErr ELimResNamed
      else VOk (sl_set name (cwMin lim ex) cur)
  | None =>
      match sl_get par s_star with
      | Some ex =>
          if negb (str_eqb name s_star) then
            if negb (FitInMaxUndef (Some ex) (Some lim)) then VErr ELimResWild
            else VOk (sl_set name lim cur)
          else VOk (sl_set name lim cur)
      | None => VOk (sl_set name lim cur)
      end
  end.
Fixpoint foldV {A S} (f : S -> A -> vres S) (l : list A) (s : S) : vres S :=
  match l with
  | [] => VOk s
  | a :: t => s' <- f s a ;; foldV f t s'
  end.
Definition limitResLimit (parU parG : lmap) (cur : lmap * lmap) (l : limit) : vres (lmap * lmap) :=
  lim <- parseResV (l_maxres l) ;;
  cu <- foldV (limitResName parU lim) (users l) (fst cur) ;;
  cg <- foldV (limitResName parG lim) (groups l) (snd cur) ;;
  VOk (cu, cg).

Fixpoint checkLimitResource (q : queue) (parU parG : lmap) {struct q} : vres unit :=
  match q with
  | Queue name parent gua max maxapps props admin submit tmpl queues limits =>
      cur <- foldV (limitResLimit parU parG) limits (parU, parG) ;;
      (fix children (l : list queue) : vres unit :=
         match l with
         | [] => VOk tt
         | c :: t => _ <- checkLimitResource c (fst cur) (snd cur) ;; children t
         end) queues
  end.

(* ---- checkLimitMaxApplications ---- *)
Definition amap := list (str * N).
Definition limitAppsName (par : amap) (lim : N) (cur : amap) (name : str) : vres amap :=
  match sl_get par name with
  | Some v =>
      if negb (N.eqb v 0) && (N.ltb v lim || N.eqb lim 0) then VErr ELimAppsNamed
      else VOk (sl_set name lim cur)
  | None =>
      match sl_get par s_star with
      | Some v =>
          if negb (str_eqb name s_star) then
            if negb (N.eqb v 0) && (N.ltb v lim || N.eqb lim 0) then VErr ELimAppsWild
            else VOk (sl_set name lim cur)
          else VOk (sl_set name lim cur)
      | None => VOk (sl_set name lim cur)
      end
  end.
Definition limitAppsLimit (parU parG : amap) (cur : amap * amap) (l : limit) : vres (amap * amap) :=
  cu <- foldV (limitAppsName parU (l_maxapps l)) (users l) (fst cur) ;;
  cg <- foldV (limitAppsName parG (l_maxapps l)) (groups l) (snd cur) ;;
  VOk (cu, cg).
Fixpoint checkLimitMaxApplications (q : queue) (parU parG : amap) {struct q} : vres unit :=
  match q with
  | Queue name parent gua max maxapps props admin submit tmpl queues limits =>
      cur <- foldV (limitAppsLimit parU parG) limits (parU, parG) ;;
      (fix children (l : list queue) : vres unit :=
         match l with
         | [] => VOk tt
         | c :: t => _ <- checkLimitMaxApplications c (fst cur) (snd cur) ;; children t
         end) queues
  end.

(* ---- checkNodeSortingPolicy ---- *)
Definition checkNodeSortingPolicy (p : partition) : vres unit :=
  let t := p_sort_type p in
  _ <- guard (negb (str_eqb t s_fair || str_eqb t [] || str_eqb t s_binpacking)) ESortPolicy ;;
  guard (existsb snd (p_weights p)) ESortWeight.

Section Placement.
Variable compiles : str -> bool.     (* regexp.Compile(s) succeeds *)

Definition checkPlacementFilter (f : pfilter) : vres unit :=
  let t := f_type f in
  _ <- guard (negb (str_eqb t []) && negb (str_eqb (lower t) s_allow) && negb (str_eqb (lower t) s_deny)) EFilter ;;
  _ <- (match f_users f with
        | [u] => guard (negb (userNameOK u) && (negb (compiles u) || negb (hasSpecial u))) EFilter
        | _ => VOk tt
        end) ;;
  match f_groups f with
  | [g] => guard (negb (groupNameOK g) && (negb (compiles g) || negb (hasSpecial g))) EFilter
  | _ => VOk tt
  end.

Fixpoint checkPlacementRule (r : prule) : vres unit :=
  match r with
  | PRule name create filter parent value =>
      _ <- guard (negb (ruleNameOK name)) ERuleName ;;
      _ <- (match parent with Some p => checkPlacementRule p | None => VOk tt end) ;;
      checkPlacementFilter filter
  end.

Fixpoint getRuleChain (r : prule) : list prule :=
  match r with
  | PRule name create filter parent value =>
      (match parent with Some p => getRuleChain p | None => [] end) ++ [r]
  end.

(* getLongestStaticPath: static path text and "a dynamic rule follows" *)
Fixpoint staticPathLoop (lc : bool) (rules : list prule) (path : str) (dyn : bool) : vres (str * bool) :=
  match rules with
  | [] => VOk (path, dyn)
  | r :: t =>
      if dyn then staticPathLoop lc t path dyn else
      let nm := if lc then lower (r_name r) else r_name r in
      if negb (str_eqb nm s_fixed) then staticPathLoop lc t (if nilb path then s_dynamic else path) true
      else
        let qn := if lc then lower (r_value r) else r_value r in
        if hasPrefix qn s_root then
          if negb (nilb path) then VErr ERuleFixed else staticPathLoop lc t qn false
        else
          let path' := if nilb path then s_root else path in
          staticPathLoop lc t (path' ++ [c_dot] ++ qn) false
  end.
Definition getLongestStaticPath (lc : bool) (r : prule) : vres (str * bool) := staticPathLoop lc (getRuleChain r) [] false.

Inductive hres := HOK | HNotLeaf | HNonExisting | HLastLeaf | HCrash.

(* checkQueueHierarchyForPlacement; [fixed] = false gives the pinned comparison (exact name, configured flag) *)
Fixpoint checkHier (fixed : bool) (path : list str) (create dyn : bool) (conf : list queue) (parentConf : option queue) : hres :=
  match path with
  | [] => HCrash                                   (* path[0] *)
  | qn :: rest =>
      match conf with
      | [] =>
          match parentConf with
          | None => HCrash                         (* parentConf.Parent on nil *)
          | Some p => if negb (q_parent p) then HLastLeaf else if negb create then HNonExisting else HOK
          end
      | _ =>
          match find (fun q => str_eqb (if fixed then lower (q_name q) else q_name q) qn) conf with
          | None => if negb create then HNonExisting else HOK
          | Some qc =>
              match rest with
              | [] =>
                  let isParent := if fixed then q_parent qc || negb (nilb (q_queues qc)) else q_parent qc in
                  if dyn then (if isParent then HOK else HNotLeaf)
                  else (if isParent then HNotLeaf else HOK)
              | _ => checkHier fixed rest create dyn (q_queues qc) (Some qc)
              end
          end
      end
  end.

Definition checkRulePath (fixed : bool) (queues : list queue) (r : prule) : vres unit :=
  pd <- getLongestStaticPath fixed r ;;
  let path := fst pd in
  if negb (hasPrefix path s_root) then VOk tt else
  match checkHier fixed (splitOn c_dot (lower path)) (r_create r) (snd pd) queues None with
  | HOK => VOk tt
  | HNotLeaf => VErr ERuleNotLeaf
  | HNonExisting => VErr ERuleNoQueue
  | HLastLeaf => VErr ERuleLastLeaf
  | HCrash => VCrash
  end.

(* the paths of all rules are computed first (an "illegal fully qualified" error of a later rule wins over a
   hierarchy error of an earlier one) *)
Definition checkPlacementRulesG (fixed : bool) (queues : list queue) (rules : list prule) : vres unit :=
  match rules with
  | [] => VOk tt
  | _ =>
      _ <- each checkPlacementRule rules ;;
      _ <- each (fun r => _ <- getLongestStaticPath fixed r ;; VOk tt) rules ;;
      each (checkRulePath fixed queues) rules
  end.
Definition checkPlacementRules := checkPlacementRulesG true.
Definition checkPlacementRules_pinned := checkPlacementRulesG false.

(* ---- checkQueuesStructure + checkLimitsStructure: the mutations ---- *)
Definition rootOf (qs : list queue) : queue :=
  Queue s_root true None None 0 [] [] [] emptyTemplate qs [].

Definition set_limits (q : queue) (ls : list limit) : queue :=
  match q with Queue n p g m a pr ad su t qs _ => Queue n p g m a pr ad su t qs ls end.

(* [canon] = the root name is rewritten to "root" (false on the pinned tree) *)
Definition checkQueuesStructureG (canon : bool) (p : partition) : vres queue :=
  match p_queues p with
  | None => VErr EQueuesNotSet
  | Some qs =>
      let root :=
        match qs with
        | [Queue n pa g m a pr ad su t cs ls] =>
            if str_eqb (lower n) s_root then Queue (if canon then s_root else n) true g m a pr ad su t cs ls
            else rootOf qs
        | _ => rootOf qs
        end in
      match q_gua root, q_max root with
      | None, None => VOk root
      | _, _ => VErr ERootLimits
      end
  end.

Definition checkLimitsStructure (p : partition) (root : queue) : vres queue :=
  _ <- guard (negb (str_eqb (lower (q_name root)) s_root)) ETopNotRoot ;;
  let pl := p_limits p in
  _ <- guard (negb (nilb pl) && negb (nilb (q_limits root)) && negb (list_eqb limit_eqb pl (q_limits root))) ELimitsNotEquiv ;;
  VOk (if negb (nilb pl) && nilb (q_limits root) then set_limits root pl else root).

Definition normPartitionName (n : str) : str :=
  if nilb n || str_eqb (lower n) s_default then s_default else n.

(* one partition of Validate: the checks in the order of the code; result = the partition written back *)
Definition validatePartition (p : partition) : vres partition :=
  let name := normPartitionName (p_name p) in
  root <- checkQueuesStructureG true p ;;
  root <- checkLimitsStructure p root ;;
  _ <- checkQueues root ;;
  _ <- checkQueueResource root None ;;
  _ <- checkPlacementRules [root] (p_rules p) ;;
  _ <- checkNodeSortingPolicy p ;;
  _ <- checkQueueMaxApplications root ;;
  _ <- checkLimitResource root [] [] ;;
  _ <- checkLimitMaxApplications root [] [] ;;
  VOk (mkPartition name (Some [root]) (p_rules p) (p_limits p) (p_sort_type p) (p_weights p)).

Fixpoint validateLoop (ps : list partition) (seen : list str) : vres (list partition) :=
  match ps with
  | [] => VOk []
  | p :: t =>
      let name := normPartitionName (p_name p) in
      _ <- guard (mem_str (lower name) seen) EDupPartition ;;
      p' <- validatePartition p ;;
      rest <- validateLoop t (lower name :: seen) ;;
      VOk (p' :: rest)
  end.

Definition Validate (c : sconfig) : vres sconfig := validateLoop c [].

End Placement.

Definition accepts {A} (r : vres A) : bool := match r with VOk _ => true | _ => false end.
