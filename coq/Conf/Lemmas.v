(* Generic lemmas for the C15 proofs: induction over queue trees, inversion of the error monad, unfolding of the
   nested recursions of the validator into [each] / [foldV], forallb over the tree walk. *)
From Coq Require Import List NArith ZArith Bool Lia.
From YK Require Import Base.Int64 Base.Res Conf.Str Conf.Config Conf.Validate Conf.Load Conf.WF.
Import ListNotations.

(* ---- induction over queue trees ---- *)
Section QueueInd.
  Variable P : queue -> Prop.
  Hypothesis H : forall n p g m a pr ad su t qs ls, Forall P qs -> P (Queue n p g m a pr ad su t qs ls).
  Fixpoint queue_ind' (q : queue) : P q :=
    match q with
    | Queue n p g m a pr ad su t qs ls =>
        H n p g m a pr ad su t qs ls
          ((fix F (l : list queue) : Forall P l :=
              match l with
              | [] => Forall_nil P
              | x :: r => Forall_cons x (queue_ind' x) (F r)
              end) qs)
    end.
End QueueInd.

(* ---- the error monad ---- *)
Lemma bind_ok {A B} (x : vres A) (f : A -> vres B) (b : B) :
  bind x f = VOk b -> exists a, x = VOk a /\ f a = VOk b.
Proof. destruct x; simpl; intros E; try discriminate. eauto. Qed.
Lemma guard_ok (bad : bool) (e : verr) (u : unit) : guard bad e = VOk u -> bad = false.
Proof. unfold guard. destruct bad; intros E; [discriminate | reflexivity]. Qed.
Lemma guard_false (e : verr) : guard false e = VOk tt.
Proof. reflexivity. Qed.

(* split one [x <- a ;; b] hypothesis *)
Ltac vinv H :=
  let a := fresh "v" in let Ha := fresh "H" in
  apply bind_ok in H; destruct H as (a & Ha & H).
Ltac ginv H :=
  let a := fresh "v" in let Ha := fresh "G" in
  apply bind_ok in H; destruct H as (a & Ha & H); apply guard_ok in Ha.

Lemma each_ok {A} (f : A -> vres unit) (l : list A) (u : unit) :
  each f l = VOk u -> Forall (fun a => f a = VOk tt) l.
Proof.
  induction l as [|a t IH]; simpl; intros E; [constructor|].
  vinv E. destruct v. constructor; auto.
Qed.
Lemma each_of_Forall {A} (f : A -> vres unit) (l : list A) :
  Forall (fun a => f a = VOk tt) l -> each f l = VOk tt.
Proof. induction 1 as [|a t Ha _ IH]; simpl; [reflexivity|]. rewrite Ha. simpl. exact IH. Qed.

(* ---- the tree walk ---- *)
Lemma walk_eq (anc : list queue) (q : queue) :
  walk anc q = (anc, q) :: flat_map (walk (q :: anc)) (q_queues q).
Proof.
  destruct q as [n p g m a pr ad su t qs ls]. reflexivity.
Qed.

Lemma forallb_flat_map {A B} (f : B -> bool) (g : A -> list B) (l : list A) :
  forallb f (flat_map g l) = forallb (fun x => forallb f (g x)) l.
Proof. induction l as [|a t IH]; simpl; [reflexivity|]. rewrite forallb_app, IH. reflexivity. Qed.

Lemma forallb_walk (P : list queue -> queue -> bool) (anc : list queue) (q : queue) :
  forallb (fun aq => P (fst aq) (snd aq)) (walk anc q) =
  P anc q && forallb (fun c => forallb (fun aq => P (fst aq) (snd aq)) (walk (q :: anc) c)) (q_queues q).
Proof. rewrite walk_eq. cbn [forallb fst snd]. rewrite forallb_flat_map. reflexivity. Qed.

Lemma forallb_Forall {A} (f : A -> bool) (l : list A) : forallb f l = true <-> Forall (fun a => f a = true) l.
Proof.
  induction l as [|a t IH]; simpl; split; intros E; try constructor.
  - apply andb_true_iff in E. tauto.
  - apply IH. apply andb_true_iff in E. tauto.
  - inversion E; subst. apply andb_true_iff. split; [assumption | apply IH; assumption].
Qed.

(* a property of all queues of the tree that does not look at the ancestors *)
Lemma allq_local (P : queue -> bool) (Q : queue -> Prop) :
  (forall q, Q q -> P q = true /\ Forall Q (q_queues q)) ->
  forall q anc, Q q -> forallb (fun aq => P (snd aq)) (walk anc q) = true.
Proof.
  intros HQ q. induction q as [n p g m a pr ad su t qs ls IH] using queue_ind'. intros anc Hq.
  rewrite (forallb_walk (fun _ x => P x)). destruct (HQ _ Hq) as [HP HC]. rewrite HP. cbn [andb q_queues] in *.
  apply forallb_Forall. rewrite Forall_forall in *. intros c Hc. apply IH; auto.
Qed.

(* ---- unfolding of the nested recursions ---- *)
Lemma bind_ext {A B} (x : vres A) (f g : A -> vres B) : (forall a, f a = g a) -> bind x f = bind x g.
Proof. intros E. destruct x; simpl; auto. Qed.

Lemma checkQueues_eq (q : queue) :
  checkQueues q =
  (_ <- checkACL (q_admin q) ;; _ <- checkACL (q_submit q) ;; _ <- checkLimits (q_limits q) q ;;
   _ <- checkChildNames (q_queues q) [] ;; each checkQueues (q_queues q)).
Proof.
  destruct q as [n p g m a pr ad su t qs ls]. cbn [checkQueues q_admin q_submit q_limits q_queues].
  do 4 (apply bind_ext; intros _).
  induction qs as [|c r IH]; [reflexivity|]. cbn [each]. apply bind_ext. intros _. exact IH.
Qed.

Definition maxAppsChild (maxapps : N) (c : queue) : vres unit :=
  _ <- guard (negb (N.eqb maxapps 0) && N.ltb maxapps (q_maxapps c)) EMaxAppsParent ;;
  _ <- guard (negb (N.eqb maxapps 0) && N.eqb (q_maxapps c) 0) EMaxAppsZero ;;
  checkQueueMaxApplications c.
Lemma checkQueueMaxApplications_eq (q : queue) :
  checkQueueMaxApplications q = each (maxAppsChild (q_maxapps q)) (q_queues q).
Proof.
  destruct q as [n p g m a pr ad su t qs ls]. cbn [checkQueueMaxApplications q_maxapps q_queues].
  induction qs as [|c r IH]; [reflexivity|]. cbn [each]. unfold maxAppsChild at 1.
  destruct (guard (negb (N.eqb a 0) && N.ltb a (q_maxapps c)) EMaxAppsParent); cbn [bind]; try reflexivity.
  destruct (guard (negb (N.eqb a 0) && N.eqb (q_maxapps c) 0) EMaxAppsZero); cbn [bind]; try reflexivity.
  apply bind_ext. intros _. exact IH.
Qed.

Definition sumChild (curM' : ores) (sumG : res) (c : queue) : vres res :=
  childG <- checkQueueResource c curM' ;; VOk (addTo sumG childG).
Lemma checkQueueResource_eq (q : queue) (parentM : ores) :
  checkQueueResource q parentM =
  (gm <- checkResourceConfig q ;;
   _ <- guard (negb (FitInMaxUndef parentM (Some (snd gm)))) EMaxParent ;;
   sumG <- foldV (sumChild (ComponentWiseMin (Some (snd gm)) parentM)) (q_queues q) [] ;;
   _ <- guard (negb (FitInMaxUndef (Some (fst gm)) (Some sumG))) ESumGua ;;
   _ <- guard (negb (FitInMaxUndef (ComponentWiseMin (Some (snd gm)) parentM) (Some sumG))) ESumMax ;;
   VOk (if IsZero (Some (fst gm)) then sumG else fst gm)).
Proof.
  destruct q as [n p g m a pr ad su t qs ls]. cbn [checkQueueResource q_queues].
  apply bind_ext. intros gm. apply bind_ext. intros _. f_equal.
  generalize (@nil (tid * Z)) as acc.
  induction qs as [|c r IH]; intros acc; [reflexivity|]. cbn [foldV]. unfold sumChild at 1.
  destruct (checkQueueResource c (ComponentWiseMin (Some (snd gm)) parentM)); cbn [bind]; try reflexivity.
  apply IH.
Qed.

Lemma checkLimitResource_eq (q : queue) (parU parG : lmap) :
  checkLimitResource q parU parG =
  (cur <- foldV (limitResLimit parU parG) (q_limits q) (parU, parG) ;;
   each (fun c => checkLimitResource c (fst cur) (snd cur)) (q_queues q)).
Proof.
  destruct q as [n p g m a pr ad su t qs ls]. cbn [checkLimitResource q_queues q_limits].
  apply bind_ext. intros cur.
  induction qs as [|c r IH]; [reflexivity|]. cbn [each]. apply bind_ext. intros _. exact IH.
Qed.
Lemma checkLimitMaxApplications_eq (q : queue) (parU parG : amap) :
  checkLimitMaxApplications q parU parG =
  (cur <- foldV (limitAppsLimit parU parG) (q_limits q) (parU, parG) ;;
   each (fun c => checkLimitMaxApplications c (fst cur) (snd cur)) (q_queues q)).
Proof.
  destruct q as [n p g m a pr ad su t qs ls]. cbn [checkLimitMaxApplications q_queues q_limits].
  apply bind_ext. intros cur.
  induction qs as [|c r IH]; [reflexivity|]. cbn [each]. apply bind_ext. intros _. exact IH.
Qed.

(* first error of a list of optional errors *)
Fixpoint firstErr {A} (f : A -> option lerr) (l : list A) : option lerr :=
  match l with [] => None | a :: t => match f a with Some e => Some e | None => firstErr f t end end.
Lemma loadQueue_eq (parentLeaf : option bool) (q : queue) :
  loadQueue parentLeaf q =
  match applyConf q with
  | Some e => Some e
  | None => match parentLeaf with
            | Some true => Some LELeafParent
            | _ => firstErr (loadQueue (Some (isLeafConf q))) (q_queues q)
            end
  end.
Proof.
  destruct q as [n p g m a pr ad su t qs ls]. cbn [loadQueue q_queues].
  destruct (applyConf _); [reflexivity|].
  assert (E : forall l, (fix children (l : list queue) : option lerr :=
                 match l with
                 | [] => None
                 | c :: t0 => match loadQueue (Some (isLeafConf (Queue n p g m a pr ad su t qs ls))) c with
                              | Some e => Some e | None => children t0 end
                 end) l = firstErr (loadQueue (Some (isLeafConf (Queue n p g m a pr ad su t qs ls)))) l).
  { induction l as [|c r IH]; [reflexivity|]. cbn [firstErr]. destruct (loadQueue _ c); [reflexivity | exact IH]. }
  destruct parentLeaf as [[|]|]; auto.
Qed.
Lemma ugmConfig_ok_eq (q : queue) :
  ugmConfig_ok q = forallb (fun l => is_some (parseRes (l_maxres l))) (q_limits q) && forallb ugmConfig_ok (q_queues q).
Proof.
  destruct q as [n p g m a pr ad su t qs ls]. reflexivity.
Qed.
