(* validate_sound, part 3: user / group limits against the ancestors (WF conjuncts 9 and 10).
   Proved: within the limit of EVERY ancestor that names the user (group); within EVERY ancestor's wildcard limit when
   no ancestor names it (wf_limit_named_res/apps, wf_limit_wild_res/apps).
   Refuted: within the limit that applies on every ancestor (named, else wildcard) - wf_limit_anc_res/apps: a wildcard-only
   level below an ancestor that names the user is skipped, and so is a type only the wildcard defines. *)
From Coq Require Import List NArith ZArith Bool Lia.
From YK Require Import Base.Int64 Base.Res Base.ResSpec Base.ResLemmas Base.ResLaws2 Base.ResLawsPred.
From YK Require Import Conf.Str Conf.Config Conf.Validate Conf.Load Conf.WF Conf.Lemmas Conf.ConfSound Conf.ConfSoundRes Conf.LimitChain.
Import ListNotations.

(* ---- names are unique over the limits of one queue ---- *)
Lemma checkNames_seen okf names : forall seen seen',
  checkNames okf names seen = VOk seen' -> NoDup seen ->
  NoDup seen' /\ NoDup names /\ (forall x, In x names -> ~ In x seen) /\ (forall x, In x seen' <-> In x names \/ In x seen).
Proof.
  induction names as [|n t IH]; intros seen seen' E Hnd; cbn [checkNames] in E.
  - inversion E; subst. repeat split; auto; try constructor; try tauto. intros [[]|]; assumption.
  - destruct (negb (str_eqb n s_star) && negb (okf n)); [discriminate|].
    destruct (mem_str n seen) eqn:Em; [discriminate|].
    destruct (mem_str s_star (n :: seen) && negb (str_eqb n s_star)); [discriminate|].
    apply mem_str_false in Em.
    destruct (IH _ _ E (NoDup_cons n Em Hnd)) as (A & B & C & D). split; [assumption|]. split.
    + constructor; [|assumption]. intros Hin. apply (C n Hin). left. reflexivity.
    + split.
      * intros x [<-|Hx]; [assumption|]. intros Hs. apply (C x Hx). right. assumption.
      * intros x. rewrite D. cbn [In]. split; intros H; [destruct H as [H|[H|H]] | destruct H as [[H|H]|H]]; auto.
Qed.

Lemma checkLimit_names l su sg q s :
  checkLimit l su sg q = VOk s ->
  checkNames userNameOK (users l) su = VOk (fst s) /\ checkNames groupNameOK (groups l) sg = VOk (snd s).
Proof.
  unfold checkLimit. intros E.
  apply bind_ok in E. destruct E as (u0 & _ & E). apply bind_ok in E. destruct E as (su' & Hu & E).
  apply bind_ok in E. destruct E as (sg' & Hg & E). apply bind_ok in E. destruct E as (u1 & _ & E).
  apply bind_ok in E. destruct E as (lr & _ & E). apply bind_ok in E. destruct E as (u2 & _ & E).
  apply bind_ok in E. destruct E as (u3 & _ & E). apply bind_ok in E. destruct E as (u4 & _ & E).
  inversion E; subst s. auto.
Qed.

Lemma NoDup_app_intro {A} (a b : list A) : NoDup a -> NoDup b -> (forall x, In x a -> ~ In x b) -> NoDup (a ++ b).
Proof.
  induction a as [|x t IH]; cbn; intros Ha Hb Hd; [assumption|]. inversion Ha; subst. constructor.
  - intros Hin. apply in_app_or in Hin. destruct Hin as [Hin|Hin]; [auto|]. apply (Hd x); [left; reflexivity | assumption].
  - apply IH; auto.
Qed.

Lemma limits_uniq ls : forall su sg q,
  checkLimitsLoop ls su sg q = VOk tt -> NoDup su -> NoDup sg ->
  (NoDup (flat_map users ls) /\ forall x, In x (flat_map users ls) -> ~ In x su) /\
  (NoDup (flat_map groups ls) /\ forall x, In x (flat_map groups ls) -> ~ In x sg).
Proof.
  induction ls as [|l t IH]; intros su sg q E Hu Hg; cbn [checkLimitsLoop] in E.
  - cbn [flat_map]. split; (split; [constructor | intros x Hx; destruct Hx]).
  - apply bind_ok in E. destruct E as (s & El & E). apply checkLimit_names in El. destruct El as [Eu Eg].
    destruct (checkNames_seen _ _ _ _ Eu Hu) as (A1 & B1 & C1 & D1).
    destruct (checkNames_seen _ _ _ _ Eg Hg) as (A2 & B2 & C2 & D2).
    destruct (IH _ _ _ E A1 A2) as [[U1 U2] [G1 G2]]. cbn [flat_map]. split; split.
    + apply NoDup_app_intro; [assumption | assumption |]. intros x Hx Hin. apply (U2 x Hin). apply D1. left. assumption.
    + intros x Hin. apply in_app_or in Hin. destruct Hin as [Hin|Hin]; [apply C1; assumption|].
      intros Hs. apply (U2 x Hin). apply D1. right. assumption.
    + apply NoDup_app_intro; [assumption | assumption |]. intros x Hx Hin. apply (G2 x Hin). apply D2. left. assumption.
    + intros x Hin. apply in_app_or in Hin. destruct Hin as [Hin|Hin]; [apply C2; assumption|].
      intros Hs. apply (G2 x Hin). apply D2. right. assumption.
Qed.

Lemma QueuesOk_uniq q : QueuesOk q -> NoDup (flat_map users (q_limits q)) /\ NoDup (flat_map groups (q_limits q)).
Proof.
  unfold QueuesOk. rewrite checkQueues_eq. intros E.
  apply bind_ok in E. destruct E as (u0 & _ & E). apply bind_ok in E. destruct E as (u1 & _ & E).
  apply bind_ok in E. destruct E as (u2 & El & _). destruct u2. unfold checkLimits in El.
  destruct (limits_uniq _ _ _ _ El (NoDup_nil _) (NoDup_nil _)) as [[A _] [B _]]. auto.
Qed.
Lemma uniq_tree (sel : limit -> list str) q :
  (forall x, QueuesOk x -> NoDup (flat_map sel (q_limits x))) ->
  forall anc, QueuesOk q -> Forall (fun aq => uniq sel (snd aq)) (walk anc q).
Proof.
  intros Hs. induction q as [n p gu m a pr ad su t qs ls IH] using queue_ind'. intros anc Hq.
  rewrite walk_eq. constructor; [apply Hs; assumption|].
  apply Forall_forall. intros aq Hin. apply in_flat_map in Hin. destruct Hin as (c & Hc & Hin).
  pose proof (QueuesOk_children _ Hq) as Hch. rewrite Forall_forall in Hch, IH.
  pose proof (IH c Hc (Queue n p gu m a pr ad su t qs ls :: anc) (Hch c Hc)) as HF.
  rewrite Forall_forall in HF. exact (HF aq Hin).
Qed.

(* ---- instance: resources ---- *)
Definition rbad (ex lim : res) : bool := negb (FitInMaxUndef (Some ex) (Some lim)).
Definition rgetv (l : limit) : vres res := parseResV (l_maxres l).

Lemma limitResName_is par lim cur name :
  limitResName par lim cur name = limName res rbad cwMin ELimResNamed ELimResWild par lim cur name.
Proof. reflexivity. Qed.

Lemma res_level_dim_u ls : forall parU parG cur cur',
  foldV (limitResLimit parU parG) ls cur = VOk cur' ->
  foldV (dimStep res rbad cwMin ELimResNamed ELimResWild rgetv users parU) ls (fst cur) = VOk (fst cur').
Proof.
  induction ls as [|l t IH]; intros parU parG cur cur' E; cbn [foldV] in *.
  - inversion E; reflexivity.
  - apply bind_ok in E. destruct E as (c1 & E1 & E). unfold limitResLimit in E1.
    apply bind_ok in E1. destruct E1 as (lim & Ev & E1). apply bind_ok in E1. destruct E1 as (cu & Eu & E1).
    apply bind_ok in E1. destruct E1 as (cg & Eg & E1). inversion E1; subst c1.
    unfold dimStep at 1. unfold rgetv. rewrite Ev. cbn [bind].
    assert (X : foldV (limName res rbad cwMin ELimResNamed ELimResWild parU lim) (users l) (fst cur) = VOk cu) by exact Eu.
    rewrite X. cbn [bind]. exact (IH _ _ _ _ E).
Qed.
Lemma res_level_dim_g ls : forall parU parG cur cur',
  foldV (limitResLimit parU parG) ls cur = VOk cur' ->
  foldV (dimStep res rbad cwMin ELimResNamed ELimResWild rgetv groups parG) ls (snd cur) = VOk (snd cur').
Proof.
  induction ls as [|l t IH]; intros parU parG cur cur' E; cbn [foldV] in *.
  - inversion E; reflexivity.
  - apply bind_ok in E. destruct E as (c1 & E1 & E). unfold limitResLimit in E1.
    apply bind_ok in E1. destruct E1 as (lim & Ev & E1). apply bind_ok in E1. destruct E1 as (cu & Eu & E1).
    apply bind_ok in E1. destruct E1 as (cg & Eg & E1). inversion E1; subst c1.
    unfold dimStep at 1. unfold rgetv. rewrite Ev. cbn [bind].
    assert (X : foldV (limName res rbad cwMin ELimResNamed ELimResWild parG lim) (groups l) (snd cur) = VOk cg) by exact Eg.
    rewrite X. cbn [bind]. exact (IH _ _ _ _ E).
Qed.

Lemma rgetv_good l v : rgetv l = VOk v -> wf v.
Proof. unfold rgetv. intros E. apply parseResV_ok in E. eapply parseRes_wf; eassumption. Qed.
Lemma rgetv_pres l v : rgetv l = VOk v -> v = pres (l_maxres l).
Proof. unfold rgetv. intros E. apply parseResV_ok in E. unfold pres. rewrite E. reflexivity. Qed.
Lemma r_sound v x lim : below v x -> rbad v lim = false -> wf lim -> within x lim = true.
Proof. intros Hb Hbad Hw. apply negb_false_iff in Hbad. eapply within_of_below; eauto. Qed.

Lemma checkLimitResource_eq' q (par : lmap * lmap) :
  checkLimitResource q (fst par) (snd par) =
  (cur <- foldV (limitResLimit (fst par) (snd par)) (q_limits q) par ;;
   each (fun c => checkLimitResource c (fst cur) (snd cur)) (q_queues q)).
Proof. destruct par as [a b]. apply checkLimitResource_eq. Qed.

Section ResInstance.
Variable sel : limit -> list str.
Variable dim : lmap * lmap -> lmap.
Hypothesis level_dim : forall ls par cur,
  foldV (limitResLimit (fst par) (snd par)) ls par = VOk cur ->
  foldV (dimStep res rbad cwMin ELimResNamed ELimResWild rgetv sel (dim par)) ls (dim par) = VOk (dim cur).
Hypothesis Huniq : forall x, QueuesOk x -> NoDup (flat_map sel (q_limits x)).

Lemma res_chain root :
  QueuesOk root -> checkLimitResource root [] [] = VOk tt -> dim ([], []) = [] ->
  forallb (fun aq => namedP res rgetv sel within (fst aq) (snd aq) && wildP res rgetv sel within (fst aq) (snd aq))
          (walk [] root) = true.
Proof.
  intros Hq E Hd.
  apply (chain_tree res rbad cwMin ELimResNamed ELimResWild rgetv sel (@wf) below within
           rgetv_good (fun x _ => below_refl x)
           (fun lim ex Hl He => below_cwMin_left lim ex Hl He)
           (fun lim ex x Hl He Hb _ => below_cwMin_right lim ex x Hl He Hb)
           (fun lim ex _ _ => cwMin_wf lim ex)
           r_sound
           (lmap * lmap) (fun q par => checkLimitResource q (fst par) (snd par))
           (fun ls par => foldV (limitResLimit (fst par) (snd par)) ls par) dim
           checkLimitResource_eq' level_dim
           root [] ([], [])); [exact E | | apply uniq_tree; assumption].
  rewrite Hd. split; [intros a u l' [] | intros u v Ev; discriminate].
Qed.
End ResInstance.

(* from the chain form to the form of WF *)
Lemma named_to_wf (sel : limit -> list str) anc q :
  namedP res rgetv sel within anc q = true ->
  forallb (fun l => forallb (fun u => forallb (fun a => match namedLimit sel a u with Some l' => res_le l' l | None => true end) anc) (sel l)) (q_limits q) = true.
Proof.
  unfold namedP. intros H. apply forallb_forall. intros l Hl. apply forallb_forall. intros u Hu.
  apply forallb_forall. intros a Ha.
  rewrite forallb_forall in H. specialize (H l Hl). rewrite forallb_forall in H. specialize (H u Hu).
  rewrite forallb_forall in H. specialize (H a Ha). unfold named in H.
  destruct (namedLimit sel a u) as [l'|]; [|reflexivity].
  destruct (rgetv l') as [x| |] eqn:E1; try discriminate. destruct (rgetv l) as [lim| |] eqn:E2; try discriminate.
  unfold res_le. rewrite <- (rgetv_pres _ _ E1), <- (rgetv_pres _ _ E2). exact H.
Qed.
Lemma wild_to_wf (sel : limit -> list str) anc q :
  wildP res rgetv sel within anc q = true ->
  forallb (fun l => forallb (fun u => str_eqb u s_star || existsb (fun a => is_some (namedLimit sel a u)) anc ||
                                      forallb (fun a => match namedLimit sel a s_star with Some l' => res_le l' l | None => true end) anc) (sel l)) (q_limits q) = true.
Proof.
  unfold wildP. intros H. apply forallb_forall. intros l Hl. apply forallb_forall. intros u Hu.
  rewrite forallb_forall in H. specialize (H l Hl). rewrite forallb_forall in H. specialize (H u Hu).
  unfold named in H. destruct (str_eqb u s_star); [reflexivity|]. cbn [orb] in *.
  destruct (existsb (fun a => is_some (namedLimit sel a u)) anc); [reflexivity|]. cbn [orb] in *.
  apply forallb_forall. intros a Ha. rewrite forallb_forall in H. specialize (H a Ha).
  destruct (namedLimit sel a s_star) as [l'|]; [|reflexivity].
  destruct (rgetv l') as [x| |] eqn:E1; try discriminate. destruct (rgetv l) as [lim| |] eqn:E2; try discriminate.
  unfold res_le. rewrite <- (rgetv_pres _ _ E1), <- (rgetv_pres _ _ E2). exact H.
Qed.

Lemma forallb_and {A} (f g : A -> bool) l : forallb (fun x => f x && g x) l = forallb f l && forallb g l.
Proof. induction l as [|a t IH]; cbn; [reflexivity|]. rewrite IH. destruct (f a), (g a), (forallb f t); reflexivity. Qed.
Lemma forallb_impl {A} (f g : A -> bool) l : (forall x, f x = true -> g x = true) -> forallb f l = true -> forallb g l = true.
Proof. intros H E. apply forallb_forall. intros x Hx. apply H. rewrite forallb_forall in E. auto. Qed.

Section WithCompiles.
Variable compiles : str -> bool.

Theorem sound_limit_named_res p p' root : PartOk compiles p p' root -> wf_limit_named_res root = true.
Proof.
  intros H. pose proof (po_queues _ _ _ _ H) as Hq. pose proof (po_limres _ _ _ _ H) as E.
  pose proof (res_chain users fst (fun ls par cur => res_level_dim_u ls (fst par) (snd par) par cur)
                (fun x Hx => proj1 (QueuesOk_uniq x Hx)) root Hq E eq_refl) as HU.
  pose proof (res_chain groups snd (fun ls par cur => res_level_dim_g ls (fst par) (snd par) par cur)
                (fun x Hx => proj2 (QueuesOk_uniq x Hx)) root Hq E eq_refl) as HG.
  unfold wf_limit_named_res, limits_vs_ancestors, allq. apply forallb_forall. intros aq Haq.
  rewrite forallb_forall in HU, HG. specialize (HU aq Haq). specialize (HG aq Haq).
  apply andb_true_iff in HU, HG. rewrite forallb_and. apply andb_true_iff. split.
  - exact (named_to_wf users _ _ (proj1 HU)).
  - exact (named_to_wf groups _ _ (proj1 HG)).
Qed.
Theorem sound_limit_wild_res p p' root : PartOk compiles p p' root -> wf_limit_wild_res root = true.
Proof.
  intros H. pose proof (po_queues _ _ _ _ H) as Hq. pose proof (po_limres _ _ _ _ H) as E.
  pose proof (res_chain users fst (fun ls par cur => res_level_dim_u ls (fst par) (snd par) par cur)
                (fun x Hx => proj1 (QueuesOk_uniq x Hx)) root Hq E eq_refl) as HU.
  pose proof (res_chain groups snd (fun ls par cur => res_level_dim_g ls (fst par) (snd par) par cur)
                (fun x Hx => proj2 (QueuesOk_uniq x Hx)) root Hq E eq_refl) as HG.
  unfold wf_limit_wild_res, limits_vs_wildcards, allq. apply forallb_forall. intros aq Haq.
  rewrite forallb_forall in HU, HG. specialize (HU aq Haq). specialize (HG aq Haq).
  apply andb_true_iff in HU, HG. rewrite forallb_and. apply andb_true_iff. split.
  - exact (wild_to_wf users _ _ (proj2 HU)).
  - exact (wild_to_wf groups _ _ (proj2 HG)).
Qed.
End WithCompiles.

(* ---- instance: max applications ---- *)
Definition abad (v lim : N) : bool := negb (N.eqb v 0) && (N.ltb v lim || N.eqb lim 0).
Definition agetv (l : limit) : vres N := VOk (l_maxapps l).
Definition ale (v x : N) : Prop := x = 0%N \/ (v <> 0%N /\ (v <= x)%N).
Definition aC (x lim : N) : bool := N.eqb x 0 || (negb (N.eqb lim 0) && N.leb lim x).
Definition amerge (lim ex : N) : N := lim.

Lemma abad_false v lim : abad v lim = false -> v = 0%N \/ ((lim <= v)%N /\ lim <> 0%N).
Proof.
  unfold abad. destruct (N.eqb v 0) eqn:E0; cbn [negb andb]; [left; apply N.eqb_eq; assumption|].
  intros E. right. apply orb_false_iff in E. destruct E as [E1 E2]. apply N.ltb_ge in E1. apply N.eqb_neq in E2. auto.
Qed.
Lemma a_refl x : True -> ale x x.
Proof. intros _. unfold ale. destruct (N.eq_dec x 0); [left; assumption | right; split; [assumption | lia]]. Qed.
Lemma a_merge_r lim ex x : True -> True -> ale ex x -> abad ex lim = false -> ale (amerge lim ex) x.
Proof.
  intros _ _ [Hx|[Hn Hle]] Hb; [left; assumption|]. apply abad_false in Hb. destruct Hb as [Hb|[Hb1 Hb2]]; [contradiction|].
  right. unfold amerge. split; [assumption | lia].
Qed.
Lemma a_sound v x lim : ale v x -> abad v lim = false -> True -> aC x lim = true.
Proof.
  intros [Hx|[Hn Hle]] Hb _; unfold aC.
  - subst. reflexivity.
  - apply abad_false in Hb. destruct Hb as [Hb|[Hb1 Hb2]]; [contradiction|].
    apply orb_true_iff. right. apply andb_true_iff. split; [apply negb_true_iff; apply N.eqb_neq; assumption | apply N.leb_le; lia].
Qed.

Lemma limitAppsName_is par lim cur name :
  limitAppsName par lim cur name = limName N abad amerge ELimAppsNamed ELimAppsWild par lim cur name.
Proof. reflexivity. Qed.

Lemma apps_level_dim_u ls : forall parU parG cur cur',
  foldV (limitAppsLimit parU parG) ls cur = VOk cur' ->
  foldV (dimStep N abad amerge ELimAppsNamed ELimAppsWild agetv users parU) ls (fst cur) = VOk (fst cur').
Proof.
  induction ls as [|l t IH]; intros parU parG cur cur' E; cbn [foldV] in *.
  - inversion E; reflexivity.
  - apply bind_ok in E. destruct E as (c1 & E1 & E). unfold limitAppsLimit in E1.
    apply bind_ok in E1. destruct E1 as (cu & Eu & E1).
    apply bind_ok in E1. destruct E1 as (cg & Eg & E1). inversion E1; subst c1.
    unfold dimStep at 1. unfold agetv. cbn [bind].
    assert (X : foldV (limName N abad amerge ELimAppsNamed ELimAppsWild parU (l_maxapps l)) (users l) (fst cur) = VOk cu) by exact Eu.
    rewrite X. cbn [bind]. exact (IH _ _ _ _ E).
Qed.
Lemma apps_level_dim_g ls : forall parU parG cur cur',
  foldV (limitAppsLimit parU parG) ls cur = VOk cur' ->
  foldV (dimStep N abad amerge ELimAppsNamed ELimAppsWild agetv groups parG) ls (snd cur) = VOk (snd cur').
Proof.
  induction ls as [|l t IH]; intros parU parG cur cur' E; cbn [foldV] in *.
  - inversion E; reflexivity.
  - apply bind_ok in E. destruct E as (c1 & E1 & E). unfold limitAppsLimit in E1.
    apply bind_ok in E1. destruct E1 as (cu & Eu & E1).
    apply bind_ok in E1. destruct E1 as (cg & Eg & E1). inversion E1; subst c1.
    unfold dimStep at 1. unfold agetv. cbn [bind].
    assert (X : foldV (limName N abad amerge ELimAppsNamed ELimAppsWild parG (l_maxapps l)) (groups l) (snd cur) = VOk cg) by exact Eg.
    rewrite X. cbn [bind]. exact (IH _ _ _ _ E).
Qed.
Lemma checkLimitMaxApplications_eq' q (par : amap * amap) :
  checkLimitMaxApplications q (fst par) (snd par) =
  (cur <- foldV (limitAppsLimit (fst par) (snd par)) (q_limits q) par ;;
   each (fun c => checkLimitMaxApplications c (fst cur) (snd cur)) (q_queues q)).
Proof. destruct par as [a b]. apply checkLimitMaxApplications_eq. Qed.

Section AppsInstance.
Variable sel : limit -> list str.
Variable dim : amap * amap -> amap.
Hypothesis level_dim : forall ls par cur,
  foldV (limitAppsLimit (fst par) (snd par)) ls par = VOk cur ->
  foldV (dimStep N abad amerge ELimAppsNamed ELimAppsWild agetv sel (dim par)) ls (dim par) = VOk (dim cur).
Hypothesis Huniq : forall x, QueuesOk x -> NoDup (flat_map sel (q_limits x)).

Lemma apps_chain root :
  QueuesOk root -> checkLimitMaxApplications root [] [] = VOk tt -> dim ([], []) = [] ->
  forallb (fun aq => namedP N agetv sel aC (fst aq) (snd aq) && wildP N agetv sel aC (fst aq) (snd aq))
          (walk [] root) = true.
Proof.
  intros Hq E Hd.
  apply (chain_tree N abad amerge ELimAppsNamed ELimAppsWild agetv sel (fun _ => True) ale aC
           (fun _ _ _ => I) a_refl
           (fun lim ex _ _ => a_refl lim I)
           a_merge_r
           (fun _ _ _ _ => I)
           a_sound
           (amap * amap) (fun q par => checkLimitMaxApplications q (fst par) (snd par))
           (fun ls par => foldV (limitAppsLimit (fst par) (snd par)) ls par) dim
           checkLimitMaxApplications_eq' level_dim
           root [] ([], [])); [exact E | | apply uniq_tree; assumption].
  rewrite Hd. split; [intros a u l' [] | intros u v Ev; discriminate].
Qed.
End AppsInstance.

Lemma anamed_to_wf (sel : limit -> list str) anc q :
  namedP N agetv sel aC anc q = true ->
  forallb (fun l => forallb (fun u => forallb (fun a => match namedLimit sel a u with Some l' => apps_le l' l | None => true end) anc) (sel l)) (q_limits q) = true.
Proof. intros H. exact H. Qed.
Lemma awild_to_wf (sel : limit -> list str) anc q :
  wildP N agetv sel aC anc q = true ->
  forallb (fun l => forallb (fun u => str_eqb u s_star || existsb (fun a => is_some (namedLimit sel a u)) anc ||
                                      forallb (fun a => match namedLimit sel a s_star with Some l' => apps_le l' l | None => true end) anc) (sel l)) (q_limits q) = true.
Proof. intros H. exact H. Qed.

Section WithCompiles2.
Variable compiles : str -> bool.

Theorem sound_limit_named_apps p p' root : PartOk compiles p p' root -> wf_limit_named_apps root = true.
Proof.
  intros H. pose proof (po_queues _ _ _ _ H) as Hq. pose proof (po_limapps _ _ _ _ H) as E.
  pose proof (apps_chain users fst (fun ls par cur => apps_level_dim_u ls (fst par) (snd par) par cur)
                (fun x Hx => proj1 (QueuesOk_uniq x Hx)) root Hq E eq_refl) as HU.
  pose proof (apps_chain groups snd (fun ls par cur => apps_level_dim_g ls (fst par) (snd par) par cur)
                (fun x Hx => proj2 (QueuesOk_uniq x Hx)) root Hq E eq_refl) as HG.
  unfold wf_limit_named_apps, limits_vs_ancestors, allq. apply forallb_forall. intros aq Haq.
  rewrite forallb_forall in HU, HG. specialize (HU aq Haq). specialize (HG aq Haq).
  apply andb_true_iff in HU, HG. rewrite forallb_and. apply andb_true_iff. split.
  - exact (anamed_to_wf users _ _ (proj1 HU)).
  - exact (anamed_to_wf groups _ _ (proj1 HG)).
Qed.
Theorem sound_limit_wild_apps p p' root : PartOk compiles p p' root -> wf_limit_wild_apps root = true.
Proof.
  intros H. pose proof (po_queues _ _ _ _ H) as Hq. pose proof (po_limapps _ _ _ _ H) as E.
  pose proof (apps_chain users fst (fun ls par cur => apps_level_dim_u ls (fst par) (snd par) par cur)
                (fun x Hx => proj1 (QueuesOk_uniq x Hx)) root Hq E eq_refl) as HU.
  pose proof (apps_chain groups snd (fun ls par cur => apps_level_dim_g ls (fst par) (snd par) par cur)
                (fun x Hx => proj2 (QueuesOk_uniq x Hx)) root Hq E eq_refl) as HG.
  unfold wf_limit_wild_apps, limits_vs_wildcards, allq. apply forallb_forall. intros aq Haq.
  rewrite forallb_forall in HU, HG. specialize (HU aq Haq). specialize (HG aq Haq).
  apply andb_true_iff in HU, HG. rewrite forallb_and. apply andb_true_iff. split.
  - exact (awild_to_wf users _ _ (proj2 HU)).
  - exact (awild_to_wf groups _ _ (proj2 HG)).
Qed.
End WithCompiles2.

(* ---- the strict reading (limit that applies on EVERY ancestor: named, else wildcard) is refuted ---- *)
From Coq Require String.
Import String.StringSyntax.
Local Open Scope string_scope.
Local Open Scope list_scope.
Definition lim_apps (name : str) (us : list str) (n : N) : limit := mkLimit name (Some us) None None n.
Definition lim_res (name : str) (us : list str) (m : rmap) : limit := mkLimit name (Some us) None (Some m) 0.
Definition qleaf (n : str) (ls : list limit) : queue := Queue n false None None 0 [] [] [] emptyTemplate [] ls.
Definition qpar (n : str) (ls : list limit) (qs : list queue) : queue := Queue n true None None 0 [] [] [] emptyTemplate qs ls.
Definition part_of (root : queue) : partition := mkPartition s_default (Some [root]) [] [] [] [].

(* root: u1 -> 5 applications;  root.b: * -> 3;  root.b.c: u1 -> 4   (4 > 3, the wildcard of root.b applies to u1 there) *)
Definition wit_apps : sconfig :=
  [part_of (qpar s_root [lim_apps (sb "a") [sb "u1"] 5]
              [qpar (sb "b") [lim_apps (sb "w") [s_star] 3]
                 [qleaf (sb "c") [lim_apps (sb "c") [sb "u1"] 4]]])].
(* root: * -> {memory(1): 5};  root.b: u1 -> {vcore(0): 3};  root.b.c: u1 -> {memory: 7} *)
Definition wit_res : sconfig :=
  [part_of (qpar s_root [lim_res (sb "w") [s_star] [(1%N, sb "5")]]
              [qpar (sb "b") [lim_res (sb "u") [sb "u1"] [(0%N, sb "3")]]
                 [qleaf (sb "c") [lim_res (sb "c") [sb "u1"] [(1%N, sb "7")]]]])].

Theorem sound_limit_anc_apps_refuted :
  exists c c', Validate (fun _ => false) c = VOk c' /\ existsb (fun p => negb (wf_limit_anc_apps (rootq p))) c' = true.
Proof. exists wit_apps. eexists. split; [vm_compute; reflexivity | vm_compute; reflexivity]. Qed.
Theorem sound_limit_anc_res_refuted :
  exists c c', Validate (fun _ => false) c = VOk c' /\ existsb (fun p => negb (wf_limit_anc_res (rootq p))) c' = true.
Proof. exists wit_res. eexists. split; [vm_compute; reflexivity | vm_compute; reflexivity]. Qed.
