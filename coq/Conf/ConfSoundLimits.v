(* validate_sound, part 3: user / group limits against the ancestors (WF conjuncts 9 and 10).
   Proved: within the limit of EVERY ancestor that names the user (group); within EVERY ancestor's wildcard limit when
   no ancestor names it (wf_limit_named_res/apps, wf_limit_wild_res/apps).
   Refuted: within the limit that applies on every ancestor (named, else wildcard) - wf_limit_anc_res/apps: a wildcard-only
   level below an ancestor that names the user is skipped, and so is a type only the wildcard defines. *)
From Coq Require Import List NArith ZArith Bool Lia.
From YK Require Import Base.Int64 Base.Res Base.ResSpec Base.ResLemmas Base.ResLaws2 Base.ResLawsPred.
From YK Require Import Conf.Str Conf.Config Conf.Validate Conf.Load Conf.WF Conf.Lemmas Conf.ConfSound Conf.ConfSoundRes Conf.LimitChain.
Import ListNotations.

(* ---- names are unique over the limits of one queue ---- *)
Lemma checkNames_seen okf names : forall seen seen',
  checkNames okf names seen = VOk seen' -> NoDup seen ->
  NoDup seen' /\ NoDup names /\ (forall x, In x names -> ~ In x seen) /\ (forall x, In x seen' <-> In x names \/ In x seen).
Proof.
  induction names as [|n t IH]; intros seen seen' E Hnd; cbn [checkNames] in E.
  - inversion E; subst. repeat split; auto; try constructor; try tauto. intros [[]|]; assumption.
  - destruct (negb (str_eqb n s_star) && negb (okf n)); [discriminate|].
    destruct (mem_str n seen) eqn:Em; [discriminate|].
    destruct (mem_str s_star (n :: seen) && negb (str_eqb n s_star)); [discriminate|].
    apply mem_str_false in Em.
    destruct (IH _ _ E (NoDup_cons n Em Hnd)) as (A & B & C & D). split; [assumption|]. split.
    + constructor; [|assumption]. intros Hin. apply (C n Hin). left. reflexivity.
    + split.
      * intros x [<-|Hx]; [assumption|]. intros Hs. apply (C x Hx). right. assumption.
      * intros x. rewrite D. cbn [In]. split; intros H; [destruct H as [H|[H|H]] | destruct H as [[H|H]|H]]; auto.
Qed.

Lemma checkLimit_names l su sg q s :
  checkLimit l su sg q = VOk s ->
  checkNames userNameOK (users l) su = VOk (fst s) /\ checkNames groupNameOK (groups l) sg = VOk (snd s).
Proof.
  unfold checkLimit. intros E.
  apply bind_ok in E. destruct E as (u0 & _ & E). apply bind_ok in E. destruct E as (su' & Hu & E).
  apply bind_ok in E. destruct E as (sg' & Hg & E). apply bind_ok in E. destruct E as (u1 & _ & E).
  apply bind_ok in E. destruct E as (lr & _ & E). apply bind_ok in E. destruct E as (u2 & _ & E).
  apply bind_ok in E. destruct E as (u3 & _ & E). apply bind_ok in E. destruct E as (u4 & _ & E).
  inversion E; subst s. auto.
Qed.

Lemma NoDup_app_intro {A} (a b : list A) : NoDup a -> NoDup b -> (forall x, In x a -> ~ In x b) -> NoDup (a ++ b).
Proof.
  induction a as [|x t IH]; cbn; intros Ha Hb Hd; [assumption|]. inversion Ha; subst. constructor.
  - intros Hin. apply in_app_or in Hin. destruct Hin as [Hin|Hin]; [auto|]. apply (Hd x); [left; reflexivity | assumption].
  - apply IH; auto.
Qed.

Lemma limits_uniq ls : forall su sg q,
  checkLimitsLoop ls su sg q = VOk tt -> NoDup su -> NoDup sg ->
  (NoDup (flat_map users ls) /\ forall x, In x (flat_map users ls) -> ~ In x su) /\
  (NoDup (flat_map groups ls) /\ forall x, In x (flat_map groups ls) -> ~ In x sg).
Proof.
  induction ls as [|l t IH]; intros su sg q E Hu Hg; cbn [checkLimitsLoop] in E.
  - cbn [flat_map]. split; (split; [constructor | intros x Hx; destruct Hx]).
  - apply bind_ok in E. destruct E as (s & El & E). apply checkLimit_names in El. destruct El as [Eu Eg].
    destruct (checkNames_seen _ _ _ _ Eu Hu) as (A1 & B1 & C1 & D1).
    destruct (checkNames_seen _ _ _ _ Eg Hg) as (A2 & B2 & C2 & D2).
    destruct (IH _ _ _ E A1 A2) as [[U1 U2] [G1 G2]]. cbn [flat_map]. split; split.
    + apply NoDup_app_intro; [assumption | assumption |]. intros x Hx Hin. apply (U2 x Hin). apply D1. left. assumption.
    + intros x Hin. apply in_app_or in Hin. destruct Hin as [Hin|Hin]; [apply C1; assumption|].
      intros Hs. apply (U2 x Hin). apply D1. right. assumption.
    + apply NoDup_app_intro; [assumption | assumption |]. intros x Hx Hin. apply (G2 x Hin). apply D2. left. assumption.
    + intros x Hin. apply in_app_or in Hin. destruct Hin as [Hin|Hin]; [apply C2; assumption|].
      intros Hs. apply (G2 x Hin). apply D2. right. assumption.
Qed.

Lemma QueuesOk_uniq q : QueuesOk q -> NoDup (flat_map users (q_limits q)) /\ NoDup (flat_map groups (q_limits q)).
Proof.
  unfold QueuesOk. rewrite checkQueues_eq. intros E.
  apply bind_ok in E. destruct E as (u0 & _ & E). apply bind_ok in E. destruct E as (u1 & _ & E).
  apply bind_ok in E. destruct E as (u2 & El & _). destruct u2. unfold checkLimits in El.
  destruct (limits_uniq _ _ _ _ El (NoDup_nil _) (NoDup_nil _)) as [[A _] [B _]]. auto.
Qed.
Lemma uniq_tree (sel : limit -> list str) q :
  (forall x, QueuesOk x -> NoDup (flat_map sel (q_limits x))) ->
  forall anc, QueuesOk q -> Forall (fun aq => uniq sel (snd aq)) (walk anc q).
Proof.
  intros Hs. induction q as [n p gu m a pr ad su t qs ls IH] using queue_ind'. intros anc Hq.
  rewrite walk_eq. constructor; [apply Hs; assumption|].
  apply Forall_forall. intros aq Hin. apply in_flat_map in Hin. destruct Hin as (c & Hc & Hin).
  pose proof (QueuesOk_children _ Hq) as Hch. rewrite Forall_forall in Hch, IH.
  pose proof (IH c Hc (Queue n p gu m a pr ad su t qs ls :: anc) (Hch c Hc)) as HF.
  rewrite Forall_forall in HF. exact (HF aq Hin).
Qed.

(* ---- instance: resources ---- *)
Definition rbad (ex lim : res) : bool := negb (FitInMaxUndef (Some ex) (Some lim)).
Definition rgetv (l : limit) : vres res := parseResV (l_maxres l).

Lemma limitResName_is par lim cur name :
  limitResName par lim cur name = limName res rbad cwMin ELimResNamed ELimResWild par lim cur name.
Proof. reflexivity. Qed.

Lemma res_level_dim_u ls : forall parU parG cur cur',
  foldV (limitResLimit parU parG) ls cur = VOk cur' ->
  foldV (dimStep res rbad cwMin ELimResNamed ELimResWild rgetv users parU) ls (fst cur) = VOk (fst cur').
Proof.
  induction ls as [|l t IH]; intros parU parG cur cur' E; cbn [foldV] in *.
  - inversion E; reflexivity.
  - apply bind_ok in E. destruct E as (c1 & E1 & E). unfold limitResLimit in E1.
    apply bind_ok in E1. destruct E1 as (lim & Ev & E1). apply bind_ok in E1. destruct E1 as (cu & Eu & E1).
    apply bind_ok in E1. destruct E1 as (cg & Eg & E1). inversion E1; subst c1.
    unfold dimStep at 1. unfold rgetv. rewrite Ev. cbn [bind].
    assert (X : foldV (limName res rbad cwMin ELimResNamed ELimResWild parU lim) (users l) (fst cur) = VOk cu) by exact Eu.
    rewrite X. cbn [bind]. exact (IH _ _ _ _ E).
Qed.
Lemma res_level_dim_g ls : forall parU parG cur cur',
  foldV (limitResLimit parU parG) ls cur = VOk cur' ->
  foldV (dimStep res rbad cwMin ELimResNamed ELimResWild rgetv groups parG) ls (snd cur) = VOk (snd cur').
Proof.
  induction ls as [|l t IH]; intros parU parG cur cur' E; cbn [foldV] in *.
  - inversion E; reflexivity.
  - apply bind_ok in E. destruct E as (c1 & E1 & E). unfold limitResLimit in E1.
    apply bind_ok in E1. destruct E1 as (lim & Ev & E1). apply bind_ok in E1. destruct E1 as (cu & Eu & E1).
    apply bind_ok in E1. destruct E1 as (cg & Eg & E1). inversion E1; subst c1.
    unfold dimStep at 1. unfold rgetv. rewrite Ev. cbn [bind].
    assert (X : foldV (limName res rbad cwMin ELimResNamed ELimResWild parG lim) (groups l) (snd cur) = VOk cg) by exact Eg.
    rewrite X. cbn [bind]. exact (IH _ _ _ _ E).
Qed.

Lemma rgetv_good l v : rgetv l = VOk v -> wf v.
Proof. unfold rgetv. intros E. apply parseResV_ok in E. eapply parseRes_wf; eassumption. Qed.
Lemma rgetv_pres l v : rgetv l = VOk v -> v = pres (l_maxres l).
Proof. unfold rgetv. intros E. apply parseResV_ok in E. unfold pres. rewrite E. reflexivity. Qed.
Lemma r_sound v x lim : below v x -> rbad v lim = false -> wf lim -> within x lim = true.
Proof. intros Hb Hbad Hw. apply negb_false_iff in Hbad. eapply within_of_below; eauto. Qed.

Section ResInstance.
Variable sel : limit -> list str.
Variable dim : lmap * lmap -> lmap.
Hypothesis level_dim : forall ls par cur,
  foldV (limitResLimit (fst par) (snd par)) ls par = VOk cur ->
  foldV (dimStep res rbad cwMin ELimResNamed ELimResWild rgetv sel (dim par)) ls (dim par) = VOk (dim cur).
Hypothesis Huniq : forall x, QueuesOk x -> NoDup (flat_map sel (q_limits x)).

Lemma res_chain root :
  QueuesOk root -> checkLimitResource root [] [] = VOk tt -> dim ([], []) = [] ->
  forallb (fun aq => namedP res rgetv sel within (fst aq) (snd aq) && wildP res rgetv sel within (fst aq) (snd aq))
          (walk [] root) = true.
Proof.
  intros Hq E Hd.
  apply (chain_tree res rbad cwMin ELimResNamed ELimResWild rgetv sel (@wf) below within
           rgetv_good (fun x _ => below_refl x)
           (fun lim ex Hl He => below_cwMin_left lim ex Hl He)
           (fun lim ex x Hl He Hb _ => below_cwMin_right lim ex x Hl He Hb)
           (fun lim ex _ _ => cwMin_wf lim ex)
           r_sound
           (lmap * lmap) (fun q par => checkLimitResource q (fst par) (snd par))
           (fun ls par => foldV (limitResLimit (fst par) (snd par)) ls par) dim
           (fun q par => checkLimitResource_eq q (fst par) (snd par)) level_dim
           root [] ([], [])); [exact E | | apply uniq_tree; assumption].
  rewrite Hd. split; [intros a u l' [] | intros u v Ev; discriminate].
Qed.
End ResInstance.

(* from the chain form to the form of WF *)
Lemma named_to_wf (sel : limit -> list str) anc q :
  namedP res rgetv sel within anc q = true ->
  forallb (fun l => forallb (fun u => forallb (fun a => match namedLimit sel a u with Some l' => res_le l' l | None => true end) anc) (sel l)) (q_limits q) = true.
Proof.
  unfold namedP. intros H. apply forallb_forall. intros l Hl. apply forallb_forall. intros u Hu.
  apply forallb_forall. intros a Ha.
  rewrite forallb_forall in H. specialize (H l Hl). rewrite forallb_forall in H. specialize (H u Hu).
  rewrite forallb_forall in H. specialize (H a Ha). unfold named in H.
  destruct (namedLimit sel a u) as [l'|]; [|reflexivity].
  destruct (rgetv l') as [x| |] eqn:E1; try discriminate. destruct (rgetv l) as [lim| |] eqn:E2; try discriminate.
  unfold res_le. rewrite <- (rgetv_pres _ _ E1), <- (rgetv_pres _ _ E2). exact H.
Qed.
Lemma wild_to_wf (sel : limit -> list str) anc q :
  wildP res rgetv sel within anc q = true ->
  forallb (fun l => forallb (fun u => str_eqb u s_star || existsb (fun a => is_some (namedLimit sel a u)) anc ||
                                      forallb (fun a => match namedLimit sel a s_star with Some l' => res_le l' l | None => true end) anc) (sel l)) (q_limits q) = true.
Proof.
  unfold wildP. intros H. apply forallb_forall. intros l Hl. apply forallb_forall. intros u Hu.
  rewrite forallb_forall in H. specialize (H l Hl). rewrite forallb_forall in H. specialize (H u Hu).
  unfold named in H. destruct (str_eqb u s_star); [reflexivity|]. cbn [orb] in *.
  destruct (existsb (fun a => is_some (namedLimit sel a u)) anc); [reflexivity|]. cbn [orb] in *.
  apply forallb_forall. intros a Ha. rewrite forallb_forall in H. specialize (H a Ha).
  destruct (namedLimit sel a s_star) as [l'|]; [|reflexivity].
  destruct (rgetv l') as [x| |] eqn:E1; try discriminate. destruct (rgetv l) as [lim| |] eqn:E2; try discriminate.
  unfold res_le. rewrite <- (rgetv_pres _ _ E1), <- (rgetv_pres _ _ E2). exact H.
Qed.

Lemma forallb_and {A} (f g : A -> bool) l : forallb (fun x => f x && g x) l = forallb f l && forallb g l.
Proof. induction l as [|a t IH]; cbn; [reflexivity|]. rewrite IH. destruct (f a), (g a), (forallb f t); reflexivity. Qed.
Lemma forallb_impl {A} (f g : A -> bool) l : (forall x, f x = true -> g x = true) -> forallb f l = true -> forallb g l = true.
Proof. intros H E. apply forallb_forall. intros x Hx. apply H. rewrite forallb_forall in E. auto. Qed.

Section WithCompiles.
Variable compiles : str -> bool.

Theorem sound_limit_named_res p p' root : PartOk compiles p p' root -> wf_limit_named_res root = true.
Proof.
  intros H. pose proof (po_queues _ _ _ _ H) as Hq. pose proof (po_limres _ _ _ _ H) as E.
  pose proof (res_chain users fst (fun ls par cur => res_level_dim_u ls (fst par) (snd par) par cur)
                (fun x Hx => proj1 (QueuesOk_uniq x Hx)) root Hq E eq_refl) as HU.
  pose proof (res_chain groups snd (fun ls par cur => res_level_dim_g ls (fst par) (snd par) par cur)
                (fun x Hx => proj2 (QueuesOk_uniq x Hx)) root Hq E eq_refl) as HG.
  unfold wf_limit_named_res, limits_vs_ancestors, allq. apply forallb_forall. intros aq Haq.
  rewrite forallb_forall in HU, HG. specialize (HU aq Haq). specialize (HG aq Haq).
  apply andb_true_iff in HU, HG. rewrite forallb_and. apply andb_true_iff. split.
  - exact (named_to_wf users _ _ (proj1 HU)).
  - exact (named_to_wf groups _ _ (proj1 HG)).
Qed.
Theorem sound_limit_wild_res p p' root : PartOk compiles p p' root -> wf_limit_wild_res root = true.
Proof.
  intros H. pose proof (po_queues _ _ _ _ H) as Hq. pose proof (po_limres _ _ _ _ H) as E.
  pose proof (res_chain users fst (fun ls par cur => res_level_dim_u ls (fst par) (snd par) par cur)
                (fun x Hx => proj1 (QueuesOk_uniq x Hx)) root Hq E eq_refl) as HU.
  pose proof (res_chain groups snd (fun ls par cur => res_level_dim_g ls (fst par) (snd par) par cur)
                (fun x Hx => proj2 (QueuesOk_uniq x Hx)) root Hq E eq_refl) as HG.
  unfold wf_limit_wild_res, limits_vs_wildcards, allq. apply forallb_forall. intros aq Haq.
  rewrite forallb_forall in HU, HG. specialize (HU aq Haq). specialize (HG aq Haq).
  apply andb_true_iff in HU, HG. rewrite forallb_and. apply andb_true_iff. split.
  - exact (wild_to_wf users _ _ (proj2 HU)).
  - exact (wild_to_wf groups _ _ (proj2 HG)).
Qed.
End WithCompiles.
