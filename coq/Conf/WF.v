(* The documented hierarchy rules a validated configuration has to satisfy (property C15), as executable
   boolean predicates over the configuration AST: one conjunct per rule.  The same definitions are the
   ORACLE evaluated on the configuration the implementation accepted (Oracles/ConfCheck.v) and the
   conclusion of validate_sound (Conf/ConfSound*.v).  Nothing here refers to the check* functions of the
   validator except getLongestStaticPath (the definition of "static part of a rule chain").
   "within": a <= b on every resource type that b defines (types a parent leaves undefined are unlimited),
   i.e. resources.FitInMaxUndef; sums are resources.Add sums (saturating int64). *)
From Coq Require Import List NArith ZArith Bool.
From YK Require Import Base.Int64 Base.Res Conf.Str Conf.Config Conf.Validate.
Import ListNotations.

Definition pres (m : ormap) : res := match parseRes m with Some r => r | None => [] end.
Definition within (big small : res) : bool := FitInMaxUndef (Some big) (Some small).

(* every queue of the tree with its proper ancestors, nearest first *)
Fixpoint walk (anc : list queue) (q : queue) {struct q} : list (list queue * queue) :=
  match q with
  | Queue _ _ _ _ _ _ _ _ _ qs _ =>
      (anc, q) :: (fix go (l : list queue) : list (list queue * queue) :=
                     match l with [] => [] | c :: t => walk (q :: anc) c ++ go t end) qs
  end.
Definition allq (P : list queue -> queue -> bool) (root : queue) : bool :=
  forallb (fun aq => P (fst aq) (snd aq)) (walk [] root).

Fixpoint nodupb (l : list str) : bool :=
  match l with [] => true | a :: t => negb (mem_str a t) && nodupb t end.

(* W1 a single top queue, named root, flagged parent, without resource limits *)
Definition wf_root (p : partition) : bool :=
  match p_queues p with
  | Some [r] => str_eqb (q_name r) s_root && q_parent r && is_none (q_gua r) && is_none (q_max r)
  | _ => false
  end.
(* W2 valid names, unique among siblings (queue names are case-insensitive) *)
Definition wf_names (root : queue) : bool :=
  allq (fun _ q => forallb (fun c => queueNameOK (q_name c)) (q_queues q) &&
                   nodupb (map (fun c => lower (q_name c)) (q_queues q))) root.
(* W3 every quantity is readable *)
Definition wf_quantities (root : queue) : bool :=
  allq (fun _ q => is_some (parseRes (q_gua q)) && is_some (parseRes (q_max q)) &&
                   forallb (fun l => is_some (parseRes (l_maxres l))) (q_limits q)) root.
(* W4 each queue's maximum within the maximum of every ancestor *)
Definition wf_max_parent (root : queue) : bool :=
  allq (fun anc q => forallb (fun a => within (pres (q_max a)) (pres (q_max q))) anc) root.
(* W5 guaranteed within maximum *)
Definition wf_gua_max (root : queue) : bool :=
  allq (fun _ q => within (pres (q_max q)) (pres (q_gua q))) root.
(* W6 sum of the children's guaranteed within the parent's guaranteed and maximum *)
Definition sumChildrenGua (q : queue) (t : tid) : Z :=
  fold_left (fun acc c => addVal acc (getz (pres (q_gua c)) t)) (q_queues q) 0%Z.
Definition sum_within (big : res) (f : tid -> Z) : bool :=
  forallb (fun kv => (f (fst kv) <=? zmax 0 (snd kv))%Z) big.
Definition wf_sum_gua (root : queue) : bool :=
  allq (fun _ q => sum_within (pres (q_gua q)) (sumChildrenGua q) &&
                   sum_within (pres (q_max q)) (sumChildrenGua q)) root.
(* W7 max applications non-increasing downwards (0 = unlimited is not allowed below a limited parent) *)
Definition wf_maxapps (root : queue) : bool :=
  allq (fun _ q => N.eqb (q_maxapps q) 0 ||
                   forallb (fun c => negb (N.eqb (q_maxapps c) 0) && N.leb (q_maxapps c) (q_maxapps q)) (q_queues q)) root.
(* W8 user/group limits: well formed, within the queue's max applications and maximum *)
Definition limit_shape (l : limit) : bool :=
  negb (nilb (users l) && nilb (groups l)) &&
  forallb (fun u => str_eqb u s_star || userNameOK u) (users l) &&
  forallb (fun g => str_eqb g s_star || groupNameOK g) (groups l) &&
  negb (N.eqb (l_maxapps l) 0 && nilb (omap_list (l_maxres l))).
Definition wf_limit_queue (root : queue) : bool :=
  allq (fun _ q => forallb (fun l => limit_shape l &&
                                     (N.eqb (q_maxapps q) 0 || N.leb (l_maxapps l) (q_maxapps q)) &&
                                     within (pres (q_max q)) (pres (l_maxres l))) (q_limits q)) root.

(* the limit of queue a that applies to name u: the one naming u, else the wildcard one *)
Definition namedLimit (sel : limit -> list str) (a : queue) (u : str) : option limit :=
  find (fun l => mem_str u (sel l)) (q_limits a).
Definition applicable (sel : limit -> list str) (a : queue) (u : str) : option limit :=
  match namedLimit sel a u with
  | Some l => Some l
  | None => if str_eqb u s_star then None else namedLimit sel a s_star
  end.
Definition res_le (l' l : limit) : bool := within (pres (l_maxres l')) (pres (l_maxres l)).
Definition apps_le (l' l : limit) : bool :=
  N.eqb (l_maxapps l') 0 || (negb (N.eqb (l_maxapps l) 0) && N.leb (l_maxapps l) (l_maxapps l')).

Definition limits_vs_ancestors (pick : (limit -> list str) -> queue -> str -> option limit)
           (le : limit -> limit -> bool) (root : queue) : bool :=
  allq (fun anc q =>
          forallb (fun l =>
                     forallb (fun u => forallb (fun a => match pick users a u with Some l' => le l' l | None => true end) anc) (users l) &&
                     forallb (fun g => forallb (fun a => match pick groups a g with Some l' => le l' l | None => true end) anc) (groups l))
                  (q_limits q)) root.
(* W9 / W10 a user's (group's) limit within the limit that applies to it on EVERY ancestor *)
Definition wf_limit_anc_res (root : queue) : bool := limits_vs_ancestors applicable res_le root.
Definition wf_limit_anc_apps (root : queue) : bool := limits_vs_ancestors applicable apps_le root.
(* the part of W9 / W10 the validator does guarantee: within the limit of every ancestor that NAMES the user (group),
   and within every ancestor's wildcard limit when no ancestor names it *)
Definition wf_limit_named_res (root : queue) : bool := limits_vs_ancestors namedLimit res_le root.
Definition wf_limit_named_apps (root : queue) : bool := limits_vs_ancestors namedLimit apps_le root.
Definition limits_vs_wildcards (le : limit -> limit -> bool) (root : queue) : bool :=
  allq (fun anc q =>
          forallb (fun l =>
                     forallb (fun u => str_eqb u s_star || existsb (fun a => is_some (namedLimit users a u)) anc ||
                                       forallb (fun a => match namedLimit users a s_star with Some l' => le l' l | None => true end) anc) (users l) &&
                     forallb (fun g => str_eqb g s_star || existsb (fun a => is_some (namedLimit groups a g)) anc ||
                                       forallb (fun a => match namedLimit groups a s_star with Some l' => le l' l | None => true end) anc) (groups l))
                  (q_limits q)) root.
Definition wf_limit_wild_res (root : queue) : bool := limits_vs_wildcards res_le root.
Definition wf_limit_wild_apps (root : queue) : bool := limits_vs_wildcards apps_le root.

(* W11 placement rules resolvable: the static part of every rule chain (fixed rules up to the first dynamic rule,
   read the way the placement manager reads them: lower case) leads to a leaf (to a parent when a dynamic rule
   follows), or stops below a parent where the missing queues can be created *)
Definition eff_parent (q : queue) : bool := q_parent q || negb (nilb (q_queues q)).
Fixpoint descend (parts : list str) (q : queue) : queue * list str :=
  match parts with
  | [] => (q, [])
  | n :: rest =>
      match find (fun c => str_eqb (lower (q_name c)) n) (q_queues q) with
      | Some c => descend rest c
      | None => (q, parts)
      end
  end.
Definition resolvable (root : queue) (r : prule) : bool :=
  match getLongestStaticPath true r with
  | VOk (path, dyn) =>
      if negb (hasPrefix path s_root) then true else          (* starts with a dynamic rule: nothing static *)
      match splitOn c_dot (lower path) with
      | first :: rest =>
          str_eqb first s_root &&
          (let '(q, rem) := descend rest root in
           match rem with
           | [] => if dyn then eff_parent q else negb (eff_parent q)
           | _ => r_create r && eff_parent q
           end)
      | [] => false
      end
  | _ => false
  end.
Definition wf_rules (root : queue) (rules : list prule) : bool := forallb (resolvable root) rules.
(* the static path starts with the letters root but its first component is not root (rootx.y): the only kind of
   unresolvable rule validation lets through *)
Definition rule_offroot (r : prule) : bool :=
  match getLongestStaticPath true r with
  | VOk (path, _) =>
      hasPrefix path s_root &&
      match splitOn c_dot (lower path) with first :: _ => negb (str_eqb first s_root) | [] => false end
  | _ => false
  end.

Definition rootq (p : partition) : queue :=
  match p_queues p with Some (r :: _) => r | _ => rootOf [] end.

(* all conjuncts, per partition *)
Definition WFp (p : partition) : Prop :=
  wf_root p = true /\ wf_names (rootq p) = true /\ wf_quantities (rootq p) = true /\
  wf_max_parent (rootq p) = true /\ wf_gua_max (rootq p) = true /\ wf_sum_gua (rootq p) = true /\
  wf_maxapps (rootq p) = true /\ wf_limit_queue (rootq p) = true /\
  wf_limit_anc_res (rootq p) = true /\ wf_limit_anc_apps (rootq p) = true /\
  wf_rules (rootq p) (p_rules p) = true.
Definition WF (c : sconfig) : Prop := Forall WFp c.

(* boolean form per conjunct, numbered for the oracle *)
Definition wf_conjuncts (p : partition) : list (N * bool) :=
  [ (1%N, wf_root p); (2%N, wf_names (rootq p)); (3%N, wf_quantities (rootq p));
    (4%N, wf_max_parent (rootq p)); (5%N, wf_gua_max (rootq p)); (6%N, wf_sum_gua (rootq p));
    (7%N, wf_maxapps (rootq p)); (8%N, wf_limit_queue (rootq p));
    (9%N, wf_limit_anc_res (rootq p)); (10%N, wf_limit_anc_apps (rootq p));
    (11%N, wf_rules (rootq p) (p_rules p)) ].
Definition wf_failed (c : sconfig) : list N :=
  flat_map (fun p => map fst (filter (fun nb => negb (snd nb)) (wf_conjuncts p))) c.
