(* validate_loadable: loading a validated configuration into a new scheduler and as a reload of a running one.
   The full statement is refuted (placement rules the placement manager cannot build; reload that drops a partition);
   validate_loadable_partial proves it under exactly the side conditions that exclude those two windows.
   The defects of the pinned tree that were repaired (root name case, ACL spaces, child template quantities) are
   shown on the pinned versions of the check functions. *)
From Coq Require Import List NArith ZArith Bool Lia.
From YK Require Import Base.Res Base.ResSpec Base.ResLemmas.
From YK Require Import Conf.Str Conf.Config Conf.Validate Conf.Load Conf.WF Conf.Lemmas Conf.ConfSound.
Import ListNotations.

(* ---- validator and loader apply the same ACL test ---- *)
Lemma checkACL_NewACL s : checkACL s = VOk tt <-> NewACL_ok s = true.
Proof.
  unfold checkACL, NewACL_ok, guard. destruct s as [|c t].
  - cbn. tauto.
  - destruct (2 <? length (splitOn c_space (c :: t)))%nat; cbn; split; intros E; congruence.
Qed.

Lemma QR_applyConf q : QR q -> applyConf q = None.
Proof.
  intros [A B]. unfold QueuesOk in A. rewrite checkQueues_eq in A.
  apply bind_ok in A. destruct A as (u0 & Ha & A). apply bind_ok in A. destruct A as (u1 & Hs & _).
  destruct u0, u1. apply checkACL_NewACL in Ha, Hs.
  destruct (ResOk_local _ B) as (g & m & Eg & Em & _ & Tg & Tm).
  unfold applyConf. rewrite Hs, Ha. cbn [negb].
  unfold templateFromConf_ok. rewrite Tg, Tm. rewrite orb_true_r. cbn [negb andb].
  rewrite Eg, Em. cbn [is_some andb negb]. rewrite !andb_false_r. reflexivity.
Qed.

Lemma firstErr_none {A} (f : A -> option lerr) l : Forall (fun a => f a = None) l -> firstErr f l = None.
Proof. induction 1 as [|a t Ha _ IH]; cbn; [reflexivity|]. rewrite Ha. exact IH. Qed.

Lemma loadQueue_ok q : forall pl, QR q -> pl <> Some true -> loadQueue pl q = None.
Proof.
  induction q as [n p gu m a pr ad su t qs ls IH] using queue_ind'. intros pl Hq Hpl.
  rewrite loadQueue_eq. rewrite (QR_applyConf _ Hq).
  assert (Hch : firstErr (loadQueue (Some (isLeafConf (Queue n p gu m a pr ad su t qs ls)))) qs = None).
  { apply firstErr_none. pose proof (QR_children _ Hq) as Hc. cbn [q_queues] in Hc.
    rewrite Forall_forall in *. intros c Hin. apply (IH c Hin); [auto|].
    unfold isLeafConf. cbn [q_queues]. destruct qs; [destruct Hin|]. rewrite andb_false_r. discriminate. }
  cbn [q_queues]. destruct pl as [[|]|]; [congruence | exact Hch | exact Hch].
Qed.

Lemma ugm_ok_tree q : QueuesOk q -> ugmConfig_ok q = true.
Proof.
  induction q as [n p gu m a pr ad su t qs ls IH] using queue_ind'. intros Hq.
  rewrite ugmConfig_ok_eq. apply andb_true_iff. split.
  - apply forallb_Forall. eapply Forall_impl; [|exact (QueuesOk_limits _ Hq)].
    intros l (su' & sg' & s & E). apply checkLimit_ok in E. tauto.
  - cbn [q_queues]. apply forallb_Forall. pose proof (QueuesOk_children _ Hq) as Hc. cbn [q_queues] in Hc.
    rewrite Forall_forall in *. auto.
Qed.

Section Loadable.
Variable compiles : str -> bool.

Lemma part_loads p p' root : PartOk compiles p p' root -> loadQueues p' = None /\ ugm_ok p' = true.
Proof.
  intros H. destruct (po_struct _ _ _ _ H) as (root0 & E0 & E1).
  destruct (structure_root _ _ E0) as (A & _). destruct (limits_structure_root _ _ _ E1) as (A' & _).
  rewrite (po_out _ _ _ _ H). unfold loadQueues, ugm_ok. cbn [p_queues].
  assert (Hn : q_name root = s_root) by congruence. rewrite Hn, str_eqb_refl. cbn [negb]. split.
  - apply loadQueue_ok; [|discriminate]. split; [exact (po_queues _ _ _ _ H) | exact (PartOk_ResOk _ _ _ _ H)].
  - apply ugm_ok_tree. exact (po_queues _ _ _ _ H).
Qed.

Definition rules_buildable (c : sconfig) : bool := forallb (fun p => buildRules_ok (p_rules p)) c.
Definition keeps_partitions (base : list str) (c : sconfig) : bool := forallb (fun b => mem_str b (map p_name c)) base.

Lemma validated_parts c c' : Validate compiles c = VOk c' -> Forall (fun p' => exists p root, PartOk compiles p p' root) c'.
Proof.
  intros E. unfold Validate in E. apply validateLoop_parts in E.
  induction E as [|p p' ps ps' Hp _ IH]; constructor; [|assumption].
  apply validatePartition_inv in Hp. destruct Hp as (root & Hp). eauto.
Qed.

Lemma loadLoop_ok base c' :
  Forall (fun p' => exists p root, PartOk compiles p p' root) c' -> rules_buildable c' = true ->
  loadLoop base c' true = LOk true.
Proof.
  induction 1 as [|p' t (p & root & Hp) _ IH]; intros Hb; [reflexivity|]. cbn [loadLoop].
  cbn [rules_buildable forallb] in Hb. apply andb_true_iff in Hb. destruct Hb as [Hb1 Hb2].
  destruct (part_loads _ _ _ Hp) as [Hq Hu].
  unfold loadPartitionReload, loadPartitionNew. rewrite Hq, Hu, Hb1. cbn [negb].
  destruct (mem_str (p_name p') base); cbn [andb]; apply IH; exact Hb2.
Qed.

(* full statement (refuted below):
     forall c c' base, Validate c = VOk c' -> base <> [] ->
       loaded_ok (LoadNew c') = true /\ loaded_ok (LoadReload base c') = true *)
Theorem validate_loadable_partial c c' base :
  Validate compiles c = VOk c' -> base <> [] ->
  rules_buildable c' = true -> keeps_partitions base c' = true ->
  loaded_ok (LoadNew c') = true /\ loaded_ok (LoadReload base c') = true.
Proof.
  intros E Hb Hr Hk. pose proof (validated_parts _ _ E) as Hp. unfold LoadNew, LoadReload.
  rewrite (loadLoop_ok [] _ Hp Hr), (loadLoop_ok base _ Hp Hr).
  destruct base; [congruence|]. cbn [nilb]. unfold keeps_partitions in Hk. rewrite Hk. auto.
Qed.

(* in particular: never an error from the queue hierarchy, the ACLs, the quantities or the limits, and never a
   crash, whatever the rules and the running scheduler are *)
Theorem validate_load_errors c c' base :
  Validate compiles c = VOk c' -> base <> [] ->
  (LoadNew c' = LOk true \/ LoadNew c' = LOk false) /\
  (LoadReload base c' = LOk true \/ LoadReload base c' = LOk false \/ LoadReload base c' = LErr LERule \/ LoadReload base c' = LHang).
Proof.
  intros E Hb. pose proof (validated_parts _ _ E) as Hp. clear E. unfold LoadNew, LoadReload.
  assert (G : forall base0 act, (exists a, loadLoop base0 c' act = LOk a) \/ loadLoop base0 c' act = LErr LERule).
  { intros base0. induction Hp as [|p' t (p & root & Hpp) _ IH]; intros act; [left; eexists; reflexivity|].
    cbn [loadLoop]. destruct (part_loads _ _ _ Hpp) as [Hq Hu].
    unfold loadPartitionReload, loadPartitionNew. rewrite Hq, Hu.
    destruct (mem_str (p_name p') base0).
    - destruct (buildRules_ok (p_rules p')); cbn [negb].
      + apply IH.
      + right. reflexivity.
    - apply IH. }
  split.
  - destruct (G [] true) as [[a Ea]|Ee].
    + rewrite Ea. destruct a; auto.
    + exfalso. clear - Ee Hp. revert Ee. generalize true. induction Hp as [|p' t (p & root & Hpp) _ IH]; intros act; cbn [loadLoop]; [discriminate|].
      destruct (part_loads _ _ _ Hpp) as [Hq Hu]. unfold loadPartitionNew. rewrite Hq, Hu. cbn [mem_str existsb]. apply IH.
  - destruct base as [|b0 bs]; [congruence|]. cbn [nilb]. destruct (G (b0 :: bs) true) as [[a Ea]|Ee].
    + rewrite Ea. destruct (forallb _ (b0 :: bs)); [destruct a; auto | auto].
    + rewrite Ee. auto.
Qed.
End Loadable.

(* ---- refutation of the full statement ---- *)
From Coq Require String.
Import String.StringSyntax.
Local Open Scope string_scope.
Local Open Scope list_scope.

Definition root_only : queue := Queue s_root true None None 0 [] [] [] emptyTemplate [] [].
Definition wit_bogus : sconfig :=
  [mkPartition s_default (Some [root_only]) [PRule (sb "bogus") false (mkFilter [] [] []) None []] [] [] []].
Theorem validate_loadable_refuted_rules :
  exists c c', Validate (fun _ => false) c = VOk c' /\
               LoadNew c' = LOk false /\ LoadReload [s_default] c' = LErr LERule.
Proof. exists wit_bogus. eexists. repeat split; vm_compute; reflexivity. Qed.

Definition wit_gpu : sconfig := [mkPartition (sb "gpu") (Some [root_only]) [] [] [] []].
Theorem validate_loadable_refuted_partition :
  exists c c', Validate (fun _ => false) c = VOk c' /\ LoadNew c' = LOk true /\ LoadReload [s_default] c' = LHang.
Proof. exists wit_gpu. eexists. repeat split; vm_compute; reflexivity. Qed.

(* ---- the repaired defects, on the pinned check functions ---- *)
Definition Root_q : queue := Queue (sb "Root") false None None 0 [] [] [] emptyTemplate [] [].
Theorem root_case_pinned_refuted :
  exists p root0, checkQueuesStructureG false p = VOk root0 /\
                  loadQueues (mkPartition s_default (Some [root0]) [] [] [] []) = Some LERoot /\
                  exists root1, checkQueuesStructureG true p = VOk root1 /\
                                loadQueues (mkPartition s_default (Some [root1]) [] [] [] []) = None.
Proof.
  exists (mkPartition s_default (Some [Root_q]) [] [] [] []). eexists. split; [vm_compute; reflexivity|].
  split; [vm_compute; reflexivity|]. eexists. split; vm_compute; reflexivity.
Qed.
Theorem acl_pinned_refuted :
  exists s, checkACL_pinned s = VOk tt /\ NewACL_ok s = false /\ checkACL s = VErr EACL.
Proof. exists (sb "u1  g1"). repeat split; vm_compute; reflexivity. Qed.
Theorem acl_pinned_refuted_wildcard :
  checkACL_pinned (sb " * ") = VOk tt /\ NewACL_ok (sb " * ") = false.
Proof. split; vm_compute; reflexivity. Qed.
Definition tmpl_q : queue :=
  Queue (sb "a") true None None 0 [] [] [] (mkTemplate 0 [] None (Some [(1%N, sb "abc")])) [] [].
Theorem template_pinned_refuted :
  (exists gm, checkResourceConfig_pinned tmpl_q = VOk gm) /\ applyConf tmpl_q = Some LEQuantity /\
  checkResourceConfig tmpl_q = VErr EQuantity.
Proof. split; [eexists; vm_compute; reflexivity|]. split; vm_compute; reflexivity. Qed.
(* nested queue named root (before fix 143145b): the limit is not compared with the queue maximum *)
Definition nested_root : queue :=
  Queue s_root true None None 0 [] [] [] emptyTemplate
    [Queue s_root false None (Some [(1%N, sb "5")]) 0 [] [] [] emptyTemplate []
       [mkLimit (sb "l") (Some [sb "u1"]) None (Some [(1%N, sb "10")]) 0]] [].
Theorem nested_root_pinned_refuted :
  checkChildNames_pinned (q_queues nested_root) [] = VOk tt /\
  each checkQueues (q_queues nested_root) = VOk tt /\
  wf_limit_queue nested_root = false /\
  checkQueues nested_root = VErr ERootReserved.
Proof. repeat split; vm_compute; reflexivity. Qed.
