(* Executable model of everything on the configuration LOAD path that can return an error or panic:
     scheduler/context.go      updateSchedulerConfig (new partition / update of a running one with the silent dry run,
                               removal of partitions that are no longer configured)
     scheduler/partition.go    newPartitionContext, initialPartitionFromConfig, addQueue, updatePartitionDetails, updateQueues
     objects/queue.go          NewConfiguredQueue, applyConf, setTemplate, setResourcesFromConf, addChildQueue
     objects/template          FromConf
     security/acl.go           NewACL
     placement                 buildRules, newRule and the initialise functions of the rules
     ugm/manager.go            UpdateConfig (internalProcessConfig)
   UpdateQueueProperties has no error or panic path (an unparsable property value is logged and the default kept);
   the node sorting policy and the preemption flags cannot fail either: they are not modelled.
   The input is a VALIDATED configuration (what configs.LoadSchedulerConfigFromByteArray returned).
   Resource names are assumed non-empty (isMapEmpty of the template tests k != ""), partition names do not
   start with "[" (GetNormalizedPartitionName). *)
From Coq Require Import List NArith ZArith Bool.
From YK Require Import Base.Int64 Base.Res Conf.Str Conf.Config Conf.Validate.
Import ListNotations.

Inductive lerr := LERoot | LEACL | LEQuantity | LERule | LELeafParent | LENoPartitions.
(* LOk b: loaded, b = the placement manager has an active rule list;
   LHang: the call never returns (self-deadlock on the ClusterContext lock) *)
Inductive lres := LOk (rules_active : bool) | LErr (e : lerr) | LCrash | LHang.

(* security.NewACL: error when the unmodified string has more than one space *)
Definition NewACL_ok (s : str) : bool :=
  match s with
  | [] => true
  | _ => negb (2 <? length (splitOn c_space s))%nat
  end.

(* template.FromConf *)
Definition smapEmpty (m : smap) : bool := forallb (fun kv => nilb (fst kv) || nilb (snd kv)) m.
Definition rmapEmpty (m : ormap) : bool := forallb (fun kv => nilb (snd kv)) (omap_list m).
Definition templateEmpty (t : template) : bool :=
  N.eqb (t_maxapps t) 0 && smapEmpty (t_props t) && rmapEmpty (t_gua t) && rmapEmpty (t_max t).
Definition templateFromConf_ok (t : template) : bool :=
  templateEmpty t || (is_some (parseRes (t_max t)) && is_some (parseRes (t_gua t))).

Definition isLeafConf (q : queue) : bool := negb (q_parent q) && nilb (q_queues q).

(* applyConf: ACLs, template for non leaf queues, resources for all but the queue called root *)
Definition applyConf (q : queue) : option lerr :=
  if negb (NewACL_ok (q_submit q)) then Some LEACL else
  if negb (NewACL_ok (q_admin q)) then Some LEACL else
  if negb (isLeafConf q) && negb (templateFromConf_ok (q_tmpl q)) then Some LEQuantity else
  if negb (str_eqb (lower (q_name q)) s_root) &&
     negb (is_some (parseRes (q_max q)) && is_some (parseRes (q_gua q))) then Some LEQuantity
  else None.

(* NewConfiguredQueue(conf, parent) followed by addQueue(conf.Queues, thisQueue) *)
Fixpoint loadQueue (parentLeaf : option bool) (q : queue) {struct q} : option lerr :=
  match q with
  | Queue name parent gua max maxapps props admin submit tmpl queues limits =>
      match applyConf q with
      | Some e => Some e
      | None =>
          match parentLeaf with
          | Some true => Some LELeafParent            (* addChildQueue: cannot add a child queue to a leaf queue *)
          | _ =>
              (fix children (l : list queue) : option lerr :=
                 match l with
                 | [] => None
                 | c :: t => match loadQueue (Some (isLeafConf q)) c with Some e => Some e | None => children t end
                 end) queues
          end
      end
  end.

Definition loadQueues (p : partition) : option lerr :=
  match p_queues p with
  | Some (root :: _) => if negb (str_eqb (q_name root) s_root) then Some LERoot else loadQueue None root
  | _ => Some LERoot
  end.

(* placement.newRule *)
Fixpoint newRule_ok (r : prule) : bool :=
  match r with
  | PRule name create filter parent value =>
      let n := lower name in
      let parent_ok := match parent with Some p => newRule_ok p | None => true end in
      if str_eqb n s_fixed then
        let queue := lower value in
        negb (nilb queue) && forallb queueNameOK (splitOn c_dot queue) &&
        negb (hasPrefix queue s_root && is_some parent) && parent_ok
      else if str_eqb n s_tag then negb (nilb (lower value)) && parent_ok
      else if str_eqb n s_user || str_eqb n s_provided || str_eqb n s_test then parent_ok
      else false                                    (* recovery and unknown names *)
  end.
Definition buildRules_ok (rules : list prule) : bool := forallb newRule_ok rules.

(* ugm.UpdateConfig: the limit resources are parsed again *)
Fixpoint ugmConfig_ok (q : queue) : bool :=
  match q with
  | Queue name parent gua max maxapps props admin submit tmpl queues limits =>
      forallb (fun l => is_some (parseRes (l_maxres l))) limits &&
      (fix children (l : list queue) : bool :=
         match l with [] => true | c :: t => ugmConfig_ok c && children t end) queues
  end.
Definition ugm_ok (p : partition) : bool :=
  match p_queues p with Some (root :: _) => ugmConfig_ok root | _ => true end.

(* a partition that does not exist yet: newPartitionContext(conf, rmID, cc, false) *)
Definition loadPartitionNew (p : partition) : lres :=
  match loadQueues p with
  | Some e => LErr e
  | None => if ugm_ok p then LOk (buildRules_ok (p_rules p)) else LErr LEQuantity
  end.

(* a running partition: silent dry run, then updatePartitionDetails *)
Definition loadPartitionReload (p : partition) : lres :=
  match loadQueues p with                       (* newPartitionContext(p, rmID, nil, true): rule errors are swallowed *)
  | Some e => LErr e
  | None =>
      if negb (buildRules_ok (p_rules p)) then LErr LERule else      (* UpdateRules *)
      match loadQueues p with                                        (* ApplyConf / NewConfiguredQueue again *)
      | Some e => LErr e
      | None => if ugm_ok p then LOk true else LErr LEQuantity
      end
  end.

Fixpoint loadLoop (base : list str) (ps : list partition) (active : bool) : lres :=
  match ps with
  | [] => LOk active
  | p :: t =>
      match (if mem_str (p_name p) base then loadPartitionReload p else loadPartitionNew p) with
      | LOk a => loadLoop base t (active && a)
      | r => r
      end
  end.

(* scheduler.NewClusterContext after validation *)
Definition LoadNew (c : sconfig) : lres := loadLoop [] c true.
(* UpdateRMSchedulerConfig / processRMConfigUpdateEvent on a scheduler whose partitions are [base]:
   a running partition that is not in the new configuration is stopped from inside the locked section and its
   manager calls back into ClusterContext.removePartition, which takes the same lock *)
Definition LoadReload (base : list str) (c : sconfig) : lres :=
  if nilb base then LErr LENoPartitions else       (* "RM has no active partitions" *)
  match loadLoop base c true with
  | LOk a => if forallb (fun b => mem_str b (map p_name c)) base then LOk a else LHang
  | r => r
  end.

Definition loaded_ok (r : lres) : bool := match r with LOk true => true | _ => false end.
