(* validate_sound, part 4: placement rules resolvable (WF conjunct 11).
   Proved: every rule of an accepted partition is resolvable, or its static path starts with the letters root without
   being below root (rule_offroot: fixed rule "rootx.y" with create).  Refuted without that exception. *)
From Coq Require Import List NArith ZArith Bool Lia.
From YK Require Import Base.Res Conf.Str Conf.Config Conf.Validate Conf.Load Conf.WF Conf.Lemmas Conf.ConfSound Conf.LimitChain.
Import ListNotations.

Definition final_ok (create dyn : bool) (qr : queue * list str) : bool :=
  match snd qr with
  | [] => if dyn then eff_parent (fst qr) else negb (eff_parent (fst qr))
  | _ => create && eff_parent (fst qr)
  end.

Lemma hier_descend create dyn rest : forall q,
  rest <> [] -> checkHier true rest create dyn (q_queues q) (Some q) = HOK ->
  final_ok create dyn (descend rest q) = true.
Proof.
  induction rest as [|n rest' IH]; intros q Hne E; [congruence|]. cbn [checkHier] in E. cbn [descend].
  destruct (q_queues q) as [|c0 cs] eqn:Eq.
  - cbn [find]. destruct (q_parent q) eqn:Ep; cbn [negb] in E; [|discriminate].
    destruct create; cbn [negb] in E; [|discriminate]. unfold final_ok, eff_parent. cbn [fst snd]. rewrite Ep. reflexivity.
  - destruct (find (fun c => str_eqb (lower (q_name c)) n) (c0 :: cs)) as [qc|] eqn:Ef.
    + destruct rest' as [|n2 r2].
      * cbn [descend]. unfold final_ok. cbn [fst snd]. unfold eff_parent.
        destruct dyn; destruct (q_parent qc || negb (nilb (q_queues qc))); try discriminate; reflexivity.
      * apply IH; [discriminate | exact E].
    + destruct create; cbn [negb] in E; [|discriminate]. unfold final_ok, eff_parent. cbn [fst snd andb].
      rewrite Eq. cbn. apply orb_true_r.
Qed.

Lemma rule_ok root r :
  q_name root = s_root -> checkRulePath true [root] r = VOk tt -> resolvable root r || rule_offroot r = true.
Proof.
  intros Hn E. unfold checkRulePath in E. unfold resolvable, rule_offroot.
  destruct (getLongestStaticPath true r) as [[path dyn]| |] eqn:Ep; cbn [bind fst snd] in *; try discriminate.
  destruct (hasPrefix path s_root) eqn:Eh; cbn [negb andb] in *; [|reflexivity].
  destruct (splitOn c_dot (lower path)) as [|first rest] eqn:Es.
  - cbn [checkHier] in E. discriminate.
  - cbn [checkHier find] in E. rewrite Hn in E. change (lower s_root) with s_root in E.
    rewrite str_eqb_sym in E. destruct (str_eqb first s_root) eqn:Ef; cbn [andb negb orb].
    + rewrite orb_false_r. destruct rest as [|n2 r2].
      * cbn [descend]. unfold eff_parent.
        destruct dyn; destruct (q_parent root || negb (nilb (q_queues root))); try discriminate; reflexivity.
      * assert (H : final_ok (r_create r) dyn (descend (n2 :: r2) root) = true).
        { apply hier_descend; [discriminate|].
          destruct (checkHier true (n2 :: r2) (r_create r) dyn (q_queues root) (Some root)); try discriminate; reflexivity. }
        unfold final_ok in H. destruct (descend (n2 :: r2) root) as [q' rem]. exact H.
    + reflexivity.
Qed.

Theorem sound_rules_partial compiles p p' root :
  PartOk compiles p p' root -> forallb (fun r => resolvable root r || rule_offroot r) (p_rules p) = true.
Proof.
  intros H. destruct (po_struct _ _ _ _ H) as (root0 & E0 & E1).
  destruct (structure_root _ _ E0) as (A & _). destruct (limits_structure_root _ _ _ E1) as (A' & _).
  pose proof (po_rules _ _ _ _ H) as Er. unfold checkPlacementRules, checkPlacementRulesG in Er.
  destruct (p_rules p) as [|r0 rs] eqn:Erules; [reflexivity|]. rewrite <- Erules in *.
  apply bind_ok in Er. destruct Er as (u0 & _ & Er). apply bind_ok in Er. destruct Er as (u1 & _ & Er).
  apply each_ok in Er. apply forallb_Forall. eapply Forall_impl; [|exact Er].
  intros r Hr. apply rule_ok; [congruence | exact Hr].
Qed.

Corollary sound_rules_no_offroot compiles p p' root :
  PartOk compiles p p' root -> forallb (fun r => negb (rule_offroot r)) (p_rules p) = true -> wf_rules root (p_rules p) = true.
Proof.
  intros H Hn. pose proof (sound_rules_partial _ _ _ _ H) as Hp. unfold wf_rules.
  apply forallb_forall. intros r Hr. rewrite forallb_forall in Hp, Hn. specialize (Hp r Hr). specialize (Hn r Hr).
  apply negb_true_iff in Hn. rewrite Hn, orb_false_r in Hp. exact Hp.
Qed.

(* fixed rule "rootx.y" with create: accepted, can never resolve *)
Definition wit_offroot : sconfig :=
  [mkPartition s_default (Some [Queue s_root true None None 0 [] [] [] emptyTemplate [] []])
     [PRule s_fixed true (mkFilter [] [] []) None (s_root ++ [120; 46; 121]%N)] [] [] []].
Theorem sound_rules_refuted :
  exists c c', Validate (fun _ => false) c = VOk c' /\ existsb (fun p => negb (wf_rules (rootq p) (p_rules p))) c' = true.
Proof. exists wit_offroot. eexists. split; vm_compute; reflexivity. Qed.

(* the pinned path check (before fix 946c17f) accepted a fixed rule that points at a queue with children but without
   parent flag, and did not look at a rule called Fixed at all *)
Definition q_users : queue :=
  Queue [117;115;101;114;115]%N false None None 0 [] [] [] emptyTemplate
        [Queue [120]%N false None None 0 [] [] [] emptyTemplate [] []] [].
Definition root_users : queue := Queue s_root true None None 0 [] [] [] emptyTemplate [q_users] [].
Definition rule_users : prule := PRule s_fixed false (mkFilter [] [] []) None (s_root ++ [46;117;115;101;114;115]%N).
Theorem rules_pinned_refuted :
  checkPlacementRules_pinned (fun _ => false) [root_users] [rule_users] = VOk tt /\
  resolvable root_users rule_users = false /\
  checkPlacementRules (fun _ => false) [root_users] [rule_users] = VErr ERuleNotLeaf.
Proof. repeat split; vm_compute; reflexivity. Qed.
