(* Window predicates of the recorded known findings of C05 (see known_findings.d/ugm.json).
   An oracle failure inside a window is reported with the kind of the finding instead of the
   oracle's kind; everything else stays a violation.  The windows are evaluated at the reload
   that causes the failure, on the implementation's state before (s) and after (s') that
   UpdateConfig call, and the verdict is remembered (taint) for as long as the effect lasts:
     kind 20  C05-lost-named-limit   a named limit of the new configuration is missing because a
              limit of the same user/group on an ancestor queue was dropped by the same reload
              and the trackers below that ancestor could be unlinked; remembered per
              (who, queue) until the next reload changes the limit in force or the expected one;
     kind 14  C05-group-reset-usage  group usage differs from the live allocations after a
              reload dropped a limit of that group (usage and application links are wiped,
              also for applications that are still running): the group stays tainted; an
              application unlinked while holding resources stays tainted while it holds them,
              and taints the group it is linked to next;
     kind 17  C05-reload-order       the outcome of a reload depends on the Go map iteration
              order of the group reset phase (computed in Oracles/UgmCheck.v).
   The findings C05-mixed-case, C05-stale-wildcard and C05-reload-nil-user are repaired in /repo
   (fix: commits); their pinned histories in corpus/ugm.json must pass without any window. *)
From Coq Require Import List NArith ZArith Bool.
From YK Require Import Base.Int64 Base.Res Ugm.Tracker Ugm.Manager Ugm.UgmSpec.
Import ListNotations.
Open Scope N_scope.

Definition conf_limits (c : qconf) (h : path) : option (list limit) :=
  match h with
  | [] => None
  | _ :: rest => match conf_at c rest with Some (QConf _ ls _) => Some ls | None => None end
  end.
Definition named_in (c : qconf) (w : who) (h : path) : bool :=
  match conf_limits c h with
  | Some ls => match w with
               | User u => match named_limit ls lim_users u with Some _ => true | None => false end
               | Group g => match named_limit ls lim_groups g with Some _ => true | None => false end
               end
  | None => false
  end.
Definition wild_in (c : qconf) (h : path) : bool :=
  match conf_limits c h with
  | Some ls => match named_limit ls lim_users WILD with Some _ => true | None => false end
  | None => false
  end.
Definition strict_prefixes (h : path) : list path := removelast (prefixes h).
Definition no_apps_at (s : ugm_state) (w : who) (h : path) : bool :=
  match node s w h with Some q => match q_apps q with [] => true | _ => false end | None => true end.

(* C05-lost-named-limit.  unlink removes a tracker that runs no application; for a group the
   reset first wipes usage and applications of every tracker below the ancestor that has usage *)
Definition unlinkable (s : ugm_state) (w : who) (h : path) : bool :=
  match w with
  | User _ => no_apps_at s w h
  | Group _ => match node s w h with
               | Some q => match q_apps q with [] => true | _ => negb (IsZero (q_usage q)) end
               | None => true
               end
  end.
Definition lost_named (prev conf : qconf) (s : ugm_state) (w : who) (h : path) : bool :=
  named_in conf w h && unlinkable s w h &&
  existsb (fun h' => named_in prev w h' && negb (named_in conf w h') && unlinkable s w h') (strict_prefixes h).

Definition who_eqb (a b : who) : bool :=
  match a, b with User x, User y => x =? y | Group x, Group y => x =? y | _, _ => false end.

Record taint := mkTaint {
  t_apps : list app;                    (* unlinked from their group by a reload while holding resources *)
  t_groups : list gname;                (* a limit of the group was dropped by a reload *)
  t_excused : list (who * path * N) }.  (* configuration oracle failures inside a window, with the kind *)
Definition taint0 := mkTaint [] [] [].

Definition excused_kind (t : taint) (w : who) (h : path) : option N :=
  match find (fun x => who_eqb (fst (fst x)) w && path_eqb (snd (fst x)) h) (t_excused t) with
  | Some x => Some (snd x)
  | None => None
  end.

(* the kind of a configuration oracle failure for (w, h) right after a reload prev -> conf that
   took the state from s to s'; 5 = outside every window *)
Definition limit_kind_at_reload (t : taint) (prev : option qconf) (conf : qconf) (s s' : ugm_state) (w : who) (h : path) : N :=
  match prev with
  | None => 5
  | Some pc =>
      if lost_named pc conf s w h then 20
      else match excused_kind t w h with
           | Some k => if nlimit_eqb (in_force s' w h) (in_force s w h) && nlimit_eqb (spec_limit conf w h) (spec_limit pc w h)
                       then k else 5
           | None => 5
           end
  end.
(* between reloads the verdict of the last reload stands *)
Definition limit_kind_between (t : taint) (w : who) (h : path) : N :=
  match excused_kind t w h with Some k => k | None => 5 end.

Definition has_entry (l : ledger) (a : app) : bool := existsb (fun e => le_app e =? a) l.
Definition link_is (s : ugm_state) (u : uname) (a : app) (g : gname) : bool :=
  match link s u a with Some g' => g' =? g | None => false end.

(* taints after a step: [failing] are the configuration oracle failures after the step with
   their kinds (only used at reloads) *)
Definition taint_step (t : taint) (isreload : bool) (prev : option qconf) (conf : option qconf)
           (gnames : list gname) (paths : list path) (s s' : ugm_state) (l' : ledger)
           (failing : list (who * path * N)) : taint :=
  let apps0 := filter (has_entry l') (t_apps t) in
  (* a group that a tainted application has been linked to again carries the error from then on *)
  let relinked := filter (fun g => existsb (fun e => mem (le_app e) (t_apps t) && link_is s' (le_user e) (le_app e) g) l' ||
                                   existsb (fun e => mem (le_app e) (t_apps t) && link_is s (le_user e) (le_app e) g) l') gnames in
  if negb isreload then mkTaint apps0 (t_groups t ++ relinked) (t_excused t) else
  let unlinked := flat_map (fun e => match link s (le_user e) (le_app e) with
                                     | Some g => if link_is s' (le_user e) (le_app e) g then [] else [le_app e]
                                     | None => []
                                     end) l' in
  let dropped_g := match prev, conf with
                   | Some pc, Some cf =>
                       filter (fun g => existsb (fun p => named_in pc (Group g) p && negb (named_in cf (Group g) p)) paths) gnames
                   | _, _ => []
                   end in
  mkTaint (apps0 ++ unlinked) (t_groups t ++ relinked ++ dropped_g) (filter (fun x => negb (snd x =? 5)) failing).

(* C05-group-reset-usage *)
Definition known_usage (t : taint) (s : ugm_state) (l : ledger) (w : who) (h : path) : bool :=
  match w with
  | Group g => mem g (t_groups t) ||
               existsb (fun e => mem (le_app e) (t_apps t) && link_is s (le_user e) (le_app e) g) l
  | User _ => false
  end.

Definition known_crash (s : ugm_state) (o : op) : bool := false.
Definition known_enforce (b a : ugm_state) (u : uname) (ap : app) (p : path) : bool := false.
Definition known_canrun (b a : ugm_state) (u : uname) (ap : app) (p : path) : bool := false.
