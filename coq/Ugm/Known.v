(* Window predicates of the recorded known findings of C05 (see known_findings.d/ugm.json).
   An oracle failure inside a window is reported with the kind of the finding instead of the
   oracle's kind; everything else stays a violation. *)
From Coq Require Import List NArith ZArith Bool.
From YK Require Import Base.Int64 Base.Res Ugm.Tracker Ugm.Manager Ugm.UgmSpec.
Import ListNotations.
Open Scope N_scope.

Definition known_crash (s : ugm_state) (o : op) : bool := false.
Definition known_enforce (b a : ugm_state) (u : uname) (ap : app) (p : path) : bool := false.
Definition known_canrun (b a : ugm_state) (u : uname) (ap : app) (p : path) : bool := false.
Definition known_usage (hist : list op) (s : ugm_state) (l : ledger) (w : who) (h : path) : bool := false.
(* returns the kind: 5 = configuration oracle failure outside every window *)
Definition known_limit (hist : list op) (prev : option qconf) (conf : qconf) (s : ugm_state) (w : who) (h : path) : N := 5.
