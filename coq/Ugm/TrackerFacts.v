(* Facts about the QueueTracker model (Ugm/Tracker.v): association lists, the tracker reached by
   a list of child names, and what increase / headroom / canRunApp do to the trackers on the
   path.  Proofs only. *)
From Coq Require Import List NArith ZArith Bool Lia.
From YK Require Import Base.Int64 Base.Res Base.ResSpec Base.ResLemmas Base.ResLaws Base.ResLaws2 Base.ResLawsPred
     Base.Int64Laws Ugm.Tracker Ugm.Manager Ugm.UgmSpec.
Import ListNotations.
Open Scope N_scope.

(* ---- association lists keyed by N ---- *)
Lemma nlookup_nset_same {A} k (v : A) m : nlookup (nset k v m) k = Some v.
Proof.
  induction m as [|[k' x] t IH]; cbn; [rewrite N.eqb_refl; reflexivity|].
  destruct (N.eqb_spec k' k) as [->|Hne]; cbn.
  - rewrite N.eqb_refl. reflexivity.
  - destruct (N.eqb_spec k' k); [contradiction|exact IH].
Qed.
Lemma nlookup_nset_other {A} k k' (v : A) m : k' <> k -> nlookup (nset k v m) k' = nlookup m k'.
Proof.
  intros Hne. induction m as [|[k2 x] t IH]; cbn.
  - destruct (N.eqb_spec k k'); [congruence|reflexivity].
  - destruct (N.eqb_spec k2 k) as [->|Hk]; cbn.
    + destruct (N.eqb_spec k k'); [congruence|reflexivity].
    + destruct (N.eqb_spec k2 k'); [reflexivity|exact IH].
Qed.
Lemma nlookup_nset {A} k k' (v : A) m :
  nlookup (nset k v m) k' = if k' =? k then Some v else nlookup m k'.
Proof.
  destruct (N.eqb_spec k' k) as [->|Hne]; [apply nlookup_nset_same|apply nlookup_nset_other; assumption].
Qed.
Lemma nlookup_ndel_same {A} k (m : list (N * A)) : nlookup (ndel k m) k = None.
Proof.
  induction m as [|[k' x] t IH]; cbn; [reflexivity|].
  destruct (N.eqb_spec k' k) as [->|Hne]; [exact IH|]. cbn.
  destruct (N.eqb_spec k' k); [contradiction|exact IH].
Qed.
Lemma nlookup_ndel_other {A} k k' (m : list (N * A)) : k' <> k -> nlookup (ndel k m) k' = nlookup m k'.
Proof.
  intros Hne. induction m as [|[k2 x] t IH]; cbn; [reflexivity|].
  destruct (N.eqb_spec k2 k) as [->|Hk].
  - destruct (N.eqb_spec k k'); [congruence|exact IH].
  - cbn. destruct (N.eqb_spec k2 k'); [reflexivity|exact IH].
Qed.

Lemma mem_In a l : mem a l = true <-> In a l.
Proof.
  induction l as [|x t IH]; cbn; [split; [discriminate|contradiction]|].
  rewrite orb_true_iff, IH, N.eqb_eq. tauto.
Qed.
Lemma add_app_In a b l : In b (add_app a l) <-> b = a \/ In b l.
Proof.
  unfold add_app. destruct (mem a l) eqn:E.
  - apply mem_In in E. split; [auto|]. intros [->|H]; assumption.
  - rewrite in_app_iff. cbn. intuition congruence.
Qed.
Lemma add_app_length a l : (length (add_app a l) <= S (length l))%nat.
Proof. unfold add_app. destruct (mem a l); [lia|]. rewrite app_length. cbn. lia. Qed.
Lemma add_app_mem_length a l : mem a l = true -> add_app a l = l.
Proof. unfold add_app. intros ->. reflexivity. Qed.

(* ---- fields ---- *)
Lemma q_children_set_child c ch q : q_children (set_child c ch q) = nset c ch (q_children q).
Proof. destruct q; reflexivity. Qed.
Lemma q_fields_set_child c ch q :
  q_usage (set_child c ch q) = q_usage q /\ q_apps (set_child c ch q) = q_apps q /\
  q_max (set_child c ch q) = q_max q /\ q_maxApps (set_child c ch q) = q_maxApps q /\
  q_name (set_child c ch q) = q_name q /\ q_path (set_child c ch q) = q_path q /\ q_wild (set_child c ch q) = q_wild q.
Proof. destruct q; repeat split; reflexivity. Qed.
Lemma find_child_set_same c ch q : find_child c (set_child c ch q) = Some ch.
Proof. unfold find_child. rewrite q_children_set_child. apply nlookup_nset_same. Qed.
Lemma find_child_set_other c c' ch q : c' <> c -> find_child c' (set_child c ch q) = find_child c' q.
Proof. intros H. unfold find_child. rewrite q_children_set_child. apply nlookup_nset_other. assumption. Qed.
Lemma q_fields_set_usage_apps q u a :
  q_usage (set_usage_apps q u a) = u /\ q_apps (set_usage_apps q u a) = a /\
  q_max (set_usage_apps q u a) = q_max q /\ q_maxApps (set_usage_apps q u a) = q_maxApps q /\
  q_children (set_usage_apps q u a) = q_children q.
Proof. destruct q; repeat split; reflexivity. Qed.
Lemma find_child_set_usage_apps c q u a : find_child c (set_usage_apps q u a) = find_child c q.
Proof. destruct q; reflexivity. Qed.

(* ---- the tracker reached by a list of child names ---- *)
Fixpoint sub_at (names : list qname) (q : qt) : option qt :=
  match names with
  | [] => Some q
  | c :: t => match find_child c q with Some ch => sub_at t ch | None => None end
  end.
Lemma qt_at_sub x tl q : qt_at (x :: tl) q = sub_at tl q.
Proof.
  revert x q. induction tl as [|c t IH]; intros x q; [reflexivity|].
  change (qt_at (x :: c :: t) q) with (match find_child c q with Some ch => qt_at (c :: t) ch | None => None end).
  cbn [sub_at]. destruct (find_child c q) as [ch|]; [exact (IH c ch)|reflexivity].
Qed.
Lemma sub_at_app n1 n2 q : sub_at (n1 ++ n2) q = match sub_at n1 q with Some m => sub_at n2 m | None => None end.
Proof.
  revert q. induction n1 as [|c t IH]; intros q; [reflexivity|].
  rewrite <- app_comm_cons. cbn [sub_at]. destruct (find_child c q); [apply IH|reflexivity].
Qed.
Lemma sub_at_prefix_some n1 n2 q m : sub_at (n1 ++ n2) q = Some m -> exists m1, sub_at n1 q = Some m1.
Proof. rewrite sub_at_app. destruct (sub_at n1 q) as [m1|]; [eauto|discriminate]. Qed.

(* non-empty prefixes of x :: tl are x :: names with names a prefix of tl *)
Lemma prefixes_in h x tl : In h (prefixes (x :: tl)) <-> exists n1 n2, h = x :: n1 /\ tl = n1 ++ n2.
Proof.
  revert h x. induction tl as [|c t IH]; intros h x.
  - cbn. split.
    + intros [<-|[]]. exists [], []. split; reflexivity.
    + intros (n1 & n2 & -> & E). destruct n1; [left; reflexivity|discriminate].
  - cbn [prefixes]. cbn [In]. rewrite in_map_iff. split.
    + intros [<-|(h' & <- & Hin)].
      * exists [], (c :: t). split; reflexivity.
      * apply IH in Hin. destruct Hin as (n1 & n2 & -> & ->). exists (c :: n1), n2. split; reflexivity.
    + intros (n1 & n2 & -> & E). destruct n1 as [|c' n1'].
      * left. reflexivity.
      * right. cbn in E. injection E as Ec Et. subst c' t. exists (c :: n1'). split; [reflexivity|].
        apply IH. exists n1', n2. split; reflexivity.
Qed.

(* ---- unfolding equations of the path recursions ---- *)
Lemma increase_cons wc tt x c t a u q :
  increase wc tt (x :: c :: t) a u q =
  inc_here a u (set_child c (increase wc tt (c :: t) a u (child_or_new wc tt c q)) q).
Proof. reflexivity. Qed.
Lemma headroom_cons wc tt x c t q :
  headroom wc tt (x :: c :: t) q =
  let '(ch', chr) := headroom wc tt (c :: t) (child_or_new wc tt c q) in
  let q' := set_child c ch' q in (q', hr_here q' chr).
Proof. reflexivity. Qed.
Lemma canRunApp_cons wc tt x c t a q :
  canRunApp wc tt (x :: c :: t) a q =
  let '(ch', ok) := canRunApp wc tt (c :: t) a (child_or_new wc tt c q) in
  let q' := set_child c ch' q in (q', if ok then canrun_here a q' else false).
Proof. reflexivity. Qed.

Lemma q_fields_inc_here a u q :
  q_usage (inc_here a u q) = oprune (AddTo (match q_usage q with None => Some [] | x => x end) u) /\
  q_apps (inc_here a u q) = add_app a (q_apps q) /\
  q_max (inc_here a u q) = q_max q /\ q_maxApps (inc_here a u q) = q_maxApps q /\
  q_children (inc_here a u q) = q_children q.
Proof. unfold inc_here. destruct (q_fields_set_usage_apps q (oprune (AddTo (match q_usage q with None => Some [] | x => x end) u)) (add_app a (q_apps q))) as (H1 & H2 & H3 & H4 & H5). repeat split; assumption. Qed.
Lemma find_child_inc_here c a u q : find_child c (inc_here a u q) = find_child c q.
Proof. unfold inc_here. apply find_child_set_usage_apps. Qed.

Lemma child_or_new_found wc tt c q ch : find_child c q = Some ch -> child_or_new wc tt c q = ch.
Proof. unfold child_or_new. intros ->. reflexivity. Qed.

(* what an increase does to the trackers on a path that exists completely *)
Definition incd (a : app) (u : ores) (n n' : qt) : Prop :=
  q_usage n' = oprune (AddTo (match q_usage n with None => Some [] | x => x end) u) /\
  q_apps n' = add_app a (q_apps n) /\ q_max n' = q_max n /\ q_maxApps n' = q_maxApps n.

Lemma increase_at wc tt a u tl : forall x q m,
  sub_at tl q = Some m ->
  forall n1 n2, tl = n1 ++ n2 ->
  exists n n', sub_at n1 q = Some n /\ sub_at n1 (increase wc tt (x :: tl) a u q) = Some n' /\ incd a u n n'.
Proof.
  induction tl as [|c t IH]; intros x q m Hm n1 n2 E.
  - destruct n1; [|discriminate]. exists q, (inc_here a u q). cbn [sub_at]. repeat split; try reflexivity;
      destruct (q_fields_inc_here a u q) as (H1 & H2 & H3 & H4 & _); assumption.
  - rewrite increase_cons. cbn [sub_at] in Hm. destruct (find_child c q) as [ch|] eqn:Ec; [|discriminate].
    rewrite (child_or_new_found wc tt c q ch Ec).
    destruct n1 as [|c' n1'].
    + exists q. eexists. cbn [sub_at]. split; [reflexivity|]. split; [reflexivity|].
      destruct (q_fields_inc_here a u (set_child c (increase wc tt (c :: t) a u ch) q)) as (H1 & H2 & H3 & H4 & _).
      destruct (q_fields_set_child c (increase wc tt (c :: t) a u ch) q) as (F1 & F2 & F3 & F4 & _).
      unfold incd. rewrite H1, H2, H3, H4, F1, F2, F3, F4. repeat split; reflexivity.
    + cbn in E. injection E as <- ->. cbn [sub_at]. rewrite Ec.
      rewrite find_child_inc_here, find_child_set_same.
      exact (IH c ch m Hm n1' n2 eq_refl).
Qed.

(* trackers off the path, and the limits of every tracker, are not touched by an increase *)
Lemma increase_full_path wc tt a u tl : forall x q m,
  sub_at tl q = Some m -> exists m', sub_at tl (increase wc tt (x :: tl) a u q) = Some m'.
Proof.
  intros x q m Hm. destruct (increase_at wc tt a u tl x q m Hm tl [] (eq_sym (app_nil_r tl))) as (n & n' & _ & H & _).
  eauto.
Qed.

(* ---- headroom ---- *)
Definition node_wf (n : qt) : Prop :=
  owf (q_max n) /\ ores_in_range (q_max n) /\ ores_in_range (q_usage n) /\ owf (q_usage n).

(* the headroom covers tracker n: every type its limit defines is defined in the headroom, with
   at most limit - usage *)
Definition covers (hr : ores) (n : qt) : Prop :=
  IsZero (q_max n) = false ->
  forall k m, get (oget (q_max n)) k = Some m ->
  exists v, get (oget hr) k = Some v /\ (v <= clamp (m - getz (oget (q_usage n)) k))%Z.

Lemma covers_cwmin_r hr1 hr2 n : owf hr1 -> owf hr2 -> covers hr2 n -> covers (ComponentWiseMin hr1 hr2) n.
Proof.
  intros W1 W2 H Hz k m Hk. destruct (H Hz k m Hk) as (v & Hv & Hle).
  rewrite (ComponentWiseMin_get hr1 hr2 k W1 W2), Hv. unfold cwmin_at.
  destruct (get (oget hr1) k) as [x|]; eexists; (split; [reflexivity|]); lia.
Qed.
Lemma covers_cwmin_l hr1 hr2 n : owf hr1 -> owf hr2 -> covers hr1 n -> covers (ComponentWiseMin hr1 hr2) n.
Proof.
  intros W1 W2 H Hz k m Hk. destruct (H Hz k m Hk) as (v & Hv & Hle).
  rewrite (ComponentWiseMin_get hr1 hr2 k W1 W2), Hv. unfold cwmin_at.
  destruct (get (oget hr2) k) as [y|]; eexists; (split; [reflexivity|]); lia.
Qed.

Lemma IsZero_false_some m : IsZero m = false -> exists r, m = Some r.
Proof. destruct m; [eauto|discriminate]. Qed.

Lemma own_headroom_wf n : node_wf n -> owf (if negb (IsZero (q_max n)) then SubOnlyExisting (q_max n) (q_usage n) else None).
Proof.
  intros (W & _ & _ & _). destruct (IsZero (q_max n)) eqn:Ez; cbn [negb]; [apply wf_nil|].
  destruct (IsZero_false_some _ Ez) as (r & Er). rewrite Er in *. unfold owf in *. cbn [oget] in W.
  destruct (q_usage n) as [d|]; cbn [SubOnlyExisting oget]; [|assumption].
  apply (wf_map_val (fun kv => subVal (snd kv) (getz d (fst kv)))). assumption.
Qed.
Lemma own_headroom_covers n : node_wf n ->
  covers (if negb (IsZero (q_max n)) then SubOnlyExisting (q_max n) (q_usage n) else None) n.
Proof.
  intros (W & R & RU & _) Hz k m Hk. rewrite Hz. cbn [negb].
  destruct (IsZero_false_some _ Hz) as (r & Er). rewrite Er in *. cbn [oget] in Hk.
  rewrite (SubOnlyExisting_get r (q_usage n) k R RU), Hk. unfold subOnly_at.
  eexists. split; [reflexivity|]. rewrite getz_get. lia.
Qed.

Lemma hr_here_wf n chr : node_wf n -> owf chr -> owf (hr_here n chr).
Proof.
  intros Hn Hc. unfold hr_here. pose proof (own_headroom_wf n Hn) as Hw.
  destruct (if negb (IsZero (q_max n)) then SubOnlyExisting (q_max n) (q_usage n) else None) as [h|] eqn:E; [|assumption].
  apply ComponentWiseMin_wf; assumption.
Qed.
Lemma hr_here_covers_own n chr : node_wf n -> owf chr -> covers (hr_here n chr) n.
Proof.
  intros Hn Hc. unfold hr_here. pose proof (own_headroom_wf n Hn) as Hw. pose proof (own_headroom_covers n Hn) as Hcv.
  destruct (if negb (IsZero (q_max n)) then SubOnlyExisting (q_max n) (q_usage n) else None) as [h|] eqn:E.
  - apply covers_cwmin_l; assumption.
  - intros Hz k m Hk. destruct (Hcv Hz k m Hk) as (v & Hv & _). cbn in Hv. discriminate.
Qed.
Lemma hr_here_covers_child n chr n2 : node_wf n -> owf chr -> covers chr n2 -> covers (hr_here n chr) n2.
Proof.
  intros Hn Hc H. unfold hr_here. pose proof (own_headroom_wf n Hn) as Hw.
  destruct (if negb (IsZero (q_max n)) then SubOnlyExisting (q_max n) (q_usage n) else None) as [h|] eqn:E; [|assumption].
  apply covers_cwmin_r; assumption.
Qed.

(* after headroom the whole path exists, the trackers that existed keep usage and limits, and the
   headroom covers every tracker on the path *)
Lemma headroom_at wc tt tl : forall x q q' hr,
  headroom wc tt (x :: tl) q = (q', hr) ->
  (forall n1 n2 n, tl = n1 ++ n2 -> sub_at n1 q' = Some n -> node_wf n) ->
  (exists m, sub_at tl q' = Some m) /\ owf hr /\
  (forall n1 n2 n, tl = n1 ++ n2 -> sub_at n1 q' = Some n -> covers hr n).
Proof.
  induction tl as [|c t IH]; intros x q q' hr H Hwf.
  - cbn in H. injection H as <- <-.
    assert (Hq : node_wf q) by (apply (Hwf [] [] q eq_refl); reflexivity).
    split; [exists q; reflexivity|]. split; [apply hr_here_wf; [assumption|apply wf_nil]|].
    intros n1 n2 n E Hn. destruct n1; [|discriminate]. cbn in Hn. injection Hn as <-.
    apply hr_here_covers_own; [assumption|apply wf_nil].
  - rewrite headroom_cons in H.
    destruct (headroom wc tt (c :: t) (child_or_new wc tt c q)) as [ch' chr] eqn:Eh.
    cbv zeta in H. injection H as <- <-.
    assert (Hwf' : forall n1 n2 n, t = n1 ++ n2 -> sub_at n1 ch' = Some n -> node_wf n).
    { intros n1 n2 n E Hn. apply (Hwf (c :: n1) n2 n); [cbn; rewrite E; reflexivity|].
      cbn [sub_at]. rewrite find_child_set_same. assumption. }
    destruct (IH c (child_or_new wc tt c q) ch' chr Eh Hwf') as ((m & Hm) & Hw & Hcov).
    assert (Hq : node_wf (set_child c ch' q)) by (apply (Hwf [] (c :: t) _ eq_refl); reflexivity).
    split; [exists m; cbn [sub_at]; rewrite find_child_set_same; assumption|].
    split; [apply hr_here_wf; assumption|].
    intros n1 n2 n E Hn. destruct n1 as [|c' n1'].
    + cbn in Hn. injection Hn as <-. apply hr_here_covers_own; assumption.
    + cbn in E. injection E as <- ->. cbn [sub_at] in Hn. rewrite find_child_set_same in Hn.
      apply hr_here_covers_child; [assumption|assumption|]. exact (Hcov n1' n2 n eq_refl Hn).
Qed.

(* ---- canRunApp ---- *)
Lemma canRunApp_at wc tt a tl : forall x q q',
  canRunApp wc tt (x :: tl) a q = (q', true) ->
  (exists m, sub_at tl q' = Some m) /\
  (forall n1 n2 n, tl = n1 ++ n2 -> sub_at n1 q' = Some n -> canrun_here a n = true).
Proof.
  induction tl as [|c t IH]; intros x q q' H.
  - cbn in H. injection H as <- H. split; [exists q; reflexivity|].
    intros n1 n2 n E Hn. destruct n1; [|discriminate]. cbn in Hn. injection Hn as <-. assumption.
  - rewrite canRunApp_cons in H.
    destruct (canRunApp wc tt (c :: t) a (child_or_new wc tt c q)) as [ch' ok] eqn:Eh.
    cbv zeta in H. injection H as <- H. destruct ok; [|discriminate].
    destruct (IH c (child_or_new wc tt c q) ch' Eh) as ((m & Hm) & Hall).
    split; [exists m; cbn [sub_at]; rewrite find_child_set_same; assumption|].
    intros n1 n2 n E Hn. destruct n1 as [|c' n1'].
    + cbn in Hn. injection Hn as <-. assumption.
    + cbn in E. injection E as <- ->. cbn [sub_at] in Hn. rewrite find_child_set_same in Hn.
      exact (Hall n1' n2 n eq_refl Hn).
Qed.
