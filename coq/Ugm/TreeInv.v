(* How the tracker operations transform a tracker tree, read as three functions of the list of
   child names: usage (araw), running applications (aapps) and limits (alim).  increase and
   decrease change exactly the trackers on the path; headroom and canRunApp change nothing
   that can be read (they only add empty trackers); decrease removes only trackers that have no
   usage, no application and no limit.  Proofs only. *)
From Coq Require Import List NArith ZArith Bool Lia.
From YK Require Import Base.Int64 Base.Res Base.ResSpec Base.ResLemmas
     Ugm.Tracker Ugm.Manager Ugm.UgmSpec Ugm.TrackerFacts.
Import ListNotations.
Open Scope N_scope.

Definition araw (q : qt) (names : list qname) : ores :=
  match sub_at names q with Some n => q_usage n | None => None end.
Definition aapps (q : qt) (names : list qname) : list app :=
  match sub_at names q with Some n => q_apps n | None => [] end.
Definition alim (q : qt) (names : list qname) : option (ores * N) :=
  match sub_at names q with Some n => Some (q_max n, q_maxApps n) | None => None end.

(* a tracker with a limit that counts: never removed by decrease *)
Definition real (l : ores * N) : bool := negb ((snd l =? 0) && IsZero (fst l)).

(* ---- sub_at through the constructors ---- *)
Lemma sub_at_set_child c c' rest X q :
  sub_at (c' :: rest) (set_child c X q) = if c' =? c then sub_at rest X else sub_at (c' :: rest) q.
Proof.
  cbn [sub_at]. destruct (N.eqb_spec c' c) as [->|Hne].
  - rewrite find_child_set_same. reflexivity.
  - rewrite find_child_set_other by assumption. reflexivity.
Qed.
Lemma find_child_del_same c q : find_child c (del_child c q) = None.
Proof. unfold find_child. destruct q; cbn. apply nlookup_ndel_same. Qed.
Lemma find_child_del_other c c' q : c' <> c -> find_child c' (del_child c q) = find_child c' q.
Proof. intros H. unfold find_child. destruct q; cbn. apply nlookup_ndel_other. assumption. Qed.
Lemma sub_at_del_child c c' rest q :
  sub_at (c' :: rest) (del_child c q) = if c' =? c then None else sub_at (c' :: rest) q.
Proof.
  cbn [sub_at]. destruct (N.eqb_spec c' c) as [->|Hne].
  - rewrite find_child_del_same. reflexivity.
  - rewrite find_child_del_other by assumption. reflexivity.
Qed.
Lemma q_fields_del_child c q :
  q_usage (del_child c q) = q_usage q /\ q_apps (del_child c q) = q_apps q /\
  q_max (del_child c q) = q_max q /\ q_maxApps (del_child c q) = q_maxApps q.
Proof. destruct q; repeat split; reflexivity. Qed.
Lemma sub_at_inc_here c rest a u q : sub_at (c :: rest) (inc_here a u q) = sub_at (c :: rest) q.
Proof. cbn [sub_at]. rewrite find_child_inc_here. reflexivity. Qed.

Lemma newQT_fields wc tt pp c :
  q_usage (newQT wc tt pp c) = None /\ q_apps (newQT wc tt pp c) = [] /\ q_children (newQT wc tt pp c) = [].
Proof. unfold newQT. destruct (match tt with TUser => plookup wc (pp ++ [c]) | TGroup => None end); repeat split; reflexivity. Qed.
Lemma sub_at_newQT wc tt pp c c' rest : sub_at (c' :: rest) (newQT wc tt pp c) = None.
Proof. cbn [sub_at]. unfold find_child. destruct (newQT_fields wc tt pp c) as (_ & _ & ->). reflexivity. Qed.
Lemma araw_newQT wc tt pp c rest : araw (newQT wc tt pp c) rest = None.
Proof. unfold araw. destruct rest; [cbn; apply newQT_fields|rewrite sub_at_newQT; reflexivity]. Qed.
Lemma aapps_newQT wc tt pp c rest : aapps (newQT wc tt pp c) rest = [].
Proof. unfold aapps. destruct rest; [cbn; apply newQT_fields|rewrite sub_at_newQT; reflexivity]. Qed.

Lemma araw_child_or_new wc tt c q rest : araw (child_or_new wc tt c q) rest = araw q (c :: rest).
Proof.
  unfold child_or_new, araw at 2. cbn [sub_at]. destruct (find_child c q) as [ch|]; [reflexivity|apply araw_newQT].
Qed.
Lemma aapps_child_or_new wc tt c q rest : aapps (child_or_new wc tt c q) rest = aapps q (c :: rest).
Proof.
  unfold child_or_new, aapps at 2. cbn [sub_at]. destruct (find_child c q) as [ch|]; [reflexivity|apply aapps_newQT].
Qed.
Lemma alim_child_or_new wc tt c q rest l : alim q (c :: rest) = Some l -> alim (child_or_new wc tt c q) rest = Some l.
Proof.
  unfold child_or_new, alim at 1. cbn [sub_at]. destruct (find_child c q) as [ch|]; [auto|discriminate].
Qed.

Lemma is_prefix_cons c n c' t : is_prefix (c :: n) (c' :: t) = (c =? c') && is_prefix n t.
Proof. reflexivity. Qed.

(* ---- increase ---- *)
Definition inc_usage (u : ores) (old : ores) : ores := oprune (AddTo (match old with None => Some [] | Some r => Some r end) u).

Lemma increase_araw wc tt a u tl : forall x q names,
  araw (increase wc tt (x :: tl) a u q) names = if is_prefix names tl then inc_usage u (araw q names) else araw q names.
Proof.
  induction tl as [|c t IH]; intros x q names.
  - change (increase wc tt [x] a u q) with (inc_here a u q). destruct names as [|c' rest].
    + cbn. exact (proj1 (q_fields_inc_here a u q)).
    + unfold araw. rewrite sub_at_inc_here. reflexivity.
  - rewrite increase_cons. destruct names as [|c' rest].
    + unfold araw. cbn [sub_at is_prefix].
      destruct (q_fields_inc_here a u (set_child c (increase wc tt (c :: t) a u (child_or_new wc tt c q)) q)) as (-> & _).
      destruct (q_fields_set_child c (increase wc tt (c :: t) a u (child_or_new wc tt c q)) q) as (-> & _). reflexivity.
    + rewrite is_prefix_cons. unfold araw at 1. rewrite sub_at_inc_here, sub_at_set_child.
      destruct (N.eqb_spec c' c) as [->|Hne]; cbn [andb].
      * fold (araw (increase wc tt (c :: t) a u (child_or_new wc tt c q)) rest). rewrite IH, araw_child_or_new. reflexivity.
      * reflexivity.
Qed.
Lemma increase_aapps wc tt a u tl : forall x q names,
  aapps (increase wc tt (x :: tl) a u q) names = if is_prefix names tl then add_app a (aapps q names) else aapps q names.
Proof.
  induction tl as [|c t IH]; intros x q names.
  - change (increase wc tt [x] a u q) with (inc_here a u q). destruct names as [|c' rest].
    + cbn. exact (proj1 (proj2 (q_fields_inc_here a u q))).
    + unfold aapps. rewrite sub_at_inc_here. reflexivity.
  - rewrite increase_cons. destruct names as [|c' rest].
    + unfold aapps. cbn [sub_at is_prefix].
      destruct (q_fields_inc_here a u (set_child c (increase wc tt (c :: t) a u (child_or_new wc tt c q)) q)) as (_ & -> & _).
      destruct (q_fields_set_child c (increase wc tt (c :: t) a u (child_or_new wc tt c q)) q) as (_ & -> & _). reflexivity.
    + rewrite is_prefix_cons. unfold aapps at 1. rewrite sub_at_inc_here, sub_at_set_child.
      destruct (N.eqb_spec c' c) as [->|Hne]; cbn [andb].
      * fold (aapps (increase wc tt (c :: t) a u (child_or_new wc tt c q)) rest). rewrite IH, aapps_child_or_new. reflexivity.
      * reflexivity.
Qed.
Lemma increase_alim wc tt a u tl : forall x q names l,
  alim q names = Some l -> alim (increase wc tt (x :: tl) a u q) names = Some l.
Proof.
  induction tl as [|c t IH]; intros x q names l H.
  - change (increase wc tt [x] a u q) with (inc_here a u q). destruct names as [|c' rest].
    + unfold alim in *. cbn [sub_at] in *. destruct (q_fields_inc_here a u q) as (_ & _ & -> & -> & _). assumption.
    + unfold alim in *. rewrite sub_at_inc_here. assumption.
  - rewrite increase_cons. destruct names as [|c' rest].
    + unfold alim in *. cbn [sub_at] in *.
      destruct (q_fields_inc_here a u (set_child c (increase wc tt (c :: t) a u (child_or_new wc tt c q)) q)) as (_ & _ & -> & -> & _).
      destruct (q_fields_set_child c (increase wc tt (c :: t) a u (child_or_new wc tt c q)) q) as (_ & _ & -> & -> & _). assumption.
    + unfold alim at 1. rewrite sub_at_inc_here, sub_at_set_child.
      destruct (N.eqb_spec c' c) as [->|Hne].
      * fold (alim (increase wc tt (c :: t) a u (child_or_new wc tt c q)) rest). apply IH. apply alim_child_or_new. assumption.
      * exact H.
Qed.

(* ---- headroom and canRunApp: nothing readable changes ---- *)
Lemma headroom_araw wc tt tl : forall x q names, araw (fst (headroom wc tt (x :: tl) q)) names = araw q names.
Proof.
  induction tl as [|c t IH]; intros x q names; [reflexivity|].
  rewrite headroom_cons. destruct (headroom wc tt (c :: t) (child_or_new wc tt c q)) as [ch' chr] eqn:E. cbn [fst].
  destruct names as [|c' rest].
  - unfold araw. cbn [sub_at]. apply q_fields_set_child.
  - unfold araw at 1. rewrite sub_at_set_child. destruct (N.eqb_spec c' c) as [->|Hne]; [|reflexivity].
    fold (araw ch' rest). replace ch' with (fst (headroom wc tt (c :: t) (child_or_new wc tt c q))) by (rewrite E; reflexivity).
    rewrite IH. apply araw_child_or_new.
Qed.
Lemma headroom_aapps wc tt tl : forall x q names, aapps (fst (headroom wc tt (x :: tl) q)) names = aapps q names.
Proof.
  induction tl as [|c t IH]; intros x q names; [reflexivity|].
  rewrite headroom_cons. destruct (headroom wc tt (c :: t) (child_or_new wc tt c q)) as [ch' chr] eqn:E. cbn [fst].
  destruct names as [|c' rest].
  - unfold aapps. cbn [sub_at]. apply q_fields_set_child.
  - unfold aapps at 1. rewrite sub_at_set_child. destruct (N.eqb_spec c' c) as [->|Hne]; [|reflexivity].
    fold (aapps ch' rest). replace ch' with (fst (headroom wc tt (c :: t) (child_or_new wc tt c q))) by (rewrite E; reflexivity).
    rewrite IH. apply aapps_child_or_new.
Qed.
Lemma headroom_alim wc tt tl : forall x q names l,
  alim q names = Some l -> alim (fst (headroom wc tt (x :: tl) q)) names = Some l.
Proof.
  induction tl as [|c t IH]; intros x q names l H; [exact H|].
  rewrite headroom_cons. destruct (headroom wc tt (c :: t) (child_or_new wc tt c q)) as [ch' chr] eqn:E. cbn [fst].
  destruct names as [|c' rest].
  - unfold alim in *. cbn [sub_at] in *. destruct (q_fields_set_child c ch' q) as (_ & _ & -> & -> & _). assumption.
  - unfold alim at 1. rewrite sub_at_set_child. destruct (N.eqb_spec c' c) as [->|Hne]; [|exact H].
    fold (alim ch' rest). replace ch' with (fst (headroom wc tt (c :: t) (child_or_new wc tt c q))) by (rewrite E; reflexivity).
    apply IH. apply alim_child_or_new. assumption.
Qed.
Lemma canRunApp_araw wc tt a tl : forall x q names, araw (fst (canRunApp wc tt (x :: tl) a q)) names = araw q names.
Proof.
  induction tl as [|c t IH]; intros x q names; [reflexivity|].
  rewrite canRunApp_cons. destruct (canRunApp wc tt (c :: t) a (child_or_new wc tt c q)) as [ch' ok] eqn:E. cbn [fst].
  destruct names as [|c' rest].
  - unfold araw. cbn [sub_at]. apply q_fields_set_child.
  - unfold araw at 1. rewrite sub_at_set_child. destruct (N.eqb_spec c' c) as [->|Hne]; [|reflexivity].
    fold (araw ch' rest). replace ch' with (fst (canRunApp wc tt (c :: t) a (child_or_new wc tt c q))) by (rewrite E; reflexivity).
    rewrite IH. apply araw_child_or_new.
Qed.
Lemma canRunApp_aapps wc tt a tl : forall x q names, aapps (fst (canRunApp wc tt (x :: tl) a q)) names = aapps q names.
Proof.
  induction tl as [|c t IH]; intros x q names; [reflexivity|].
  rewrite canRunApp_cons. destruct (canRunApp wc tt (c :: t) a (child_or_new wc tt c q)) as [ch' ok] eqn:E. cbn [fst].
  destruct names as [|c' rest].
  - unfold aapps. cbn [sub_at]. apply q_fields_set_child.
  - unfold aapps at 1. rewrite sub_at_set_child. destruct (N.eqb_spec c' c) as [->|Hne]; [|reflexivity].
    fold (aapps ch' rest). replace ch' with (fst (canRunApp wc tt (c :: t) a (child_or_new wc tt c q))) by (rewrite E; reflexivity).
    rewrite IH. apply aapps_child_or_new.
Qed.
Lemma canRunApp_alim wc tt a tl : forall x q names l,
  alim q names = Some l -> alim (fst (canRunApp wc tt (x :: tl) a q)) names = Some l.
Proof.
  induction tl as [|c t IH]; intros x q names l H; [exact H|].
  rewrite canRunApp_cons. destruct (canRunApp wc tt (c :: t) a (child_or_new wc tt c q)) as [ch' ok] eqn:E. cbn [fst].
  destruct names as [|c' rest].
  - unfold alim in *. cbn [sub_at] in *. destruct (q_fields_set_child c ch' q) as (_ & _ & -> & -> & _). assumption.
  - unfold alim at 1. rewrite sub_at_set_child. destruct (N.eqb_spec c' c) as [->|Hne]; [|exact H].
    fold (alim ch' rest). replace ch' with (fst (canRunApp wc tt (c :: t) a (child_or_new wc tt c q))) by (rewrite E; reflexivity).
    apply IH. apply alim_child_or_new. assumption.
Qed.

(* ---- decrease ---- *)
Definition dec_usage (u : ores) (old : ores) : ores := oprune (SubFrom old u).
Definition dec_apps (a : app) (rm : bool) (l : list app) : list app := if rm then del_app a l else l.

Lemma decrease_cons x c t a u rm q :
  decrease (x :: c :: t) a u rm q =
  match find_child c q with
  | None => (q, false)
  | Some ch => let '(ch', r) := decrease (c :: t) a u rm ch in
               dec_here a u rm (if r then del_child c q else set_child c ch' q)
  end.
Proof. reflexivity. Qed.

Lemma removable_facts q : removable q = true ->
  q_children q = [] /\ q_apps q = [] /\ IsZero (q_usage q) = true /\ q_maxApps q = 0 /\ IsZero (q_max q) = true.
Proof.
  unfold removable. intros H. repeat (apply andb_true_iff in H; destruct H as [H ?]).
  destruct (q_children q); [|discriminate]. destruct (q_apps q); [|discriminate].
  repeat split; try assumption. apply N.eqb_eq. assumption.
Qed.
Lemma sub_at_no_children c rest q : q_children q = [] -> sub_at (c :: rest) q = None.
Proof. intros H. cbn [sub_at]. unfold find_child. rewrite H. reflexivity. Qed.

Lemma dec_here_fields a u rm q :
  let q' := fst (dec_here a u rm q) in
  snd (dec_here a u rm q) = removable q' /\
  q_usage q' = dec_usage u (q_usage q) /\ q_apps q' = dec_apps a rm (q_apps q) /\
  q_max q' = q_max q /\ q_maxApps q' = q_maxApps q /\ q_children q' = q_children q.
Proof. destruct q; cbn. repeat split; reflexivity. Qed.

Definition dec_post (a : app) (u : ores) (rm : bool) (tl : list qname) (q q' : qt) : Prop :=
  (forall names, if is_prefix names tl
                 then araw q' names = dec_usage u (araw q names) \/
                      (sub_at names q' = None /\ IsZero (dec_usage u (araw q names)) = true)
                 else araw q' names = araw q names) /\
  (forall names, aapps q' names = if is_prefix names tl then dec_apps a rm (aapps q names) else aapps q names) /\
  (forall names l, alim q names = Some l -> real l = true -> alim q' names = Some l).

Lemma decrease_spec a u rm tl : forall x q q' b,
  decrease (x :: tl) a u rm q = (q', b) -> (exists m, sub_at tl q = Some m) ->
  b = removable q' /\ dec_post a u rm tl q q'.
Proof.
  induction tl as [|c t IH]; intros x q q' b H (m & Hm).
  - change (decrease [x] a u rm q) with (dec_here a u rm q) in H.
    destruct (dec_here_fields a u rm q) as (Hb & Hu & Ha & Hmx & Hma & Hch). rewrite H in *. cbn [fst snd] in *.
    split; [assumption|]. split; [|split].
    + intros [|c' rest]; cbn [is_prefix].
      * left. unfold araw. cbn [sub_at]. assumption.
      * unfold araw. cbn [sub_at]. unfold find_child. rewrite Hch. reflexivity.
    + intros [|c' rest]; cbn [is_prefix].
      * unfold aapps. cbn [sub_at]. assumption.
      * unfold aapps. cbn [sub_at]. unfold find_child. rewrite Hch. reflexivity.
    + intros [|c' rest] l Hl _.
      * unfold alim in *. cbn [sub_at] in *. rewrite Hmx, Hma. assumption.
      * unfold alim in *. cbn [sub_at] in *. unfold find_child in *. rewrite Hch. assumption.
  - rewrite decrease_cons in H. cbn [sub_at] in Hm. destruct (find_child c q) as [ch|] eqn:Ec; [|discriminate].
    destruct (decrease (c :: t) a u rm ch) as [ch' r] eqn:Ed.
    destruct (IH c ch ch' r Ed (ex_intro _ m Hm)) as (Hr & Hpu & Hpa & Hpl).
    set (q1 := if r then del_child c q else set_child c ch' q) in *.
    destruct (dec_here_fields a u rm q1) as (Hb & Hu & Ha & Hmx & Hma & Hch). rewrite H in *. cbn [fst snd] in *.
    assert (F1 : q_usage q1 = q_usage q /\ q_apps q1 = q_apps q /\ q_max q1 = q_max q /\ q_maxApps q1 = q_maxApps q).
    { subst q1. destruct r.
      - apply q_fields_del_child.
      - destruct (q_fields_set_child c ch' q) as (A & B & C & D & _). repeat split; assumption. }
    destruct F1 as (F1 & F2 & F3 & F4).
    assert (Hsub : forall c' rest, sub_at (c' :: rest) q' = sub_at (c' :: rest) q1).
    { intros c' rest. cbn [sub_at]. unfold find_child. rewrite Hch. reflexivity. }
    assert (Hsub1 : forall c' rest, sub_at (c' :: rest) q1 =
                     if c' =? c then (if r then None else sub_at rest ch') else sub_at (c' :: rest) q).
    { intros c' rest. subst q1. destruct r.
      - rewrite sub_at_del_child. destruct (c' =? c); reflexivity.
      - rewrite sub_at_set_child. destruct (c' =? c); reflexivity. }
    assert (Hq : forall rest, sub_at (c :: rest) q = sub_at rest ch) by (intros rest; cbn [sub_at]; rewrite Ec; reflexivity).
    assert (Ar' : forall c' rest, araw q' (c' :: rest) = if c' =? c then (if r then None else araw ch' rest) else araw q (c' :: rest)).
    { intros c' rest. unfold araw. rewrite Hsub, Hsub1. destruct (c' =? c); [destruct r|]; reflexivity. }
    assert (Ar : forall rest, araw q (c :: rest) = araw ch rest) by (intros rest; unfold araw; rewrite Hq; reflexivity).
    assert (Ap' : forall c' rest, aapps q' (c' :: rest) = if c' =? c then (if r then [] else aapps ch' rest) else aapps q (c' :: rest)).
    { intros c' rest. unfold aapps. rewrite Hsub, Hsub1. destruct (c' =? c); [destruct r|]; reflexivity. }
    assert (Ap : forall rest, aapps q (c :: rest) = aapps ch rest) by (intros rest; unfold aapps; rewrite Hq; reflexivity).
    assert (Al' : forall c' rest, alim q' (c' :: rest) = if c' =? c then (if r then None else alim ch' rest) else alim q (c' :: rest)).
    { intros c' rest. unfold alim. rewrite Hsub, Hsub1. destruct (c' =? c); [destruct r|]; reflexivity. }
    assert (Al : forall rest, alim q (c :: rest) = alim ch rest) by (intros rest; unfold alim; rewrite Hq; reflexivity).
    split; [assumption|]. split; [|split].
    + intros [|c' rest].
      * cbn [is_prefix]. left. unfold araw. cbn [sub_at]. rewrite Hu, F1. reflexivity.
      * rewrite is_prefix_cons, Ar'. destruct (N.eqb_spec c' c) as [->|Hne]; cbn [andb]; [|reflexivity].
        rewrite Ar. specialize (Hpu rest). destruct r.
        2:{ destruct (is_prefix rest t); [|exact Hpu]. destruct Hpu as [Hpu|(Hn & Hpu)]; [left; exact Hpu|right].
            split; [rewrite Hsub, Hsub1, N.eqb_refl; exact Hn|exact Hpu]. }
        symmetry in Hr. destruct (removable_facts ch' Hr) as (Hnc & _ & Hz & _).
        assert (Hz' : IsZero (araw ch' rest) = true).
        { unfold araw. destruct rest; [cbn; assumption|rewrite (sub_at_no_children _ _ _ Hnc); reflexivity]. }
        destruct (is_prefix rest t) eqn:Ep.
        -- right. split; [rewrite Hsub, Hsub1, N.eqb_refl; reflexivity|].
           destruct Hpu as [Hpu|(_ & Hpu)]; [rewrite <- Hpu|]; assumption.
        -- rewrite <- Hpu. unfold araw. destruct rest as [|c2 r2]; [destruct t; discriminate|].
           rewrite (sub_at_no_children _ _ _ Hnc). reflexivity.
    + intros [|c' rest].
      * cbn [is_prefix]. unfold aapps. cbn [sub_at]. rewrite Ha, F2. reflexivity.
      * rewrite is_prefix_cons, Ap'. destruct (N.eqb_spec c' c) as [->|Hne]; cbn [andb]; [|reflexivity].
        rewrite Ap. specialize (Hpa rest). destruct r; [|exact Hpa].
        symmetry in Hr. destruct (removable_facts ch' Hr) as (Hnc & Hna & _).
        assert (Hz' : aapps ch' rest = []).
        { unfold aapps. destruct rest; [cbn; assumption|rewrite (sub_at_no_children _ _ _ Hnc); reflexivity]. }
        rewrite Hz' in Hpa. exact Hpa.
    + intros [|c' rest] l Hl Hreal.
      * unfold alim in *. cbn [sub_at] in *. rewrite Hmx, Hma, F3, F4. assumption.
      * rewrite Al'. destruct (N.eqb_spec c' c) as [->|Hne]; [|exact Hl].
        rewrite Al in Hl. specialize (Hpl rest l Hl Hreal). destruct r; [|exact Hpl].
        exfalso. symmetry in Hr. destruct (removable_facts ch' Hr) as (Hnc & _ & _ & Hm0 & Hmz).
        unfold alim in Hpl. destruct rest as [|c2 r2].
        -- cbn [sub_at] in Hpl. injection Hpl as <-. unfold real in Hreal. cbn [fst snd] in Hreal.
           rewrite Hm0, Hmz in Hreal. discriminate.
        -- rewrite (sub_at_no_children _ _ _ Hnc) in Hpl. discriminate.
Qed.
