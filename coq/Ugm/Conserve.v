(* C05, conservation: tracked usage = sum of the live allocations, for every history of paired
   increases and decreases (no reload inside the history).  Part 1: one tracker tree against the
   ledger entries selected for it.  Proofs only. *)
From Coq Require Import List NArith ZArith Bool Lia.
From YK Require Import Base.Int64 Base.Res Base.ResSpec Base.ResLemmas Base.ResLaws Base.ResLaws2 Base.ResLawsPred
     Base.Int64Laws Ugm.Tracker Ugm.Manager Ugm.UgmSpec Ugm.TrackerFacts Ugm.TreeInv Ugm.Enforce.
Import ListNotations.
Open Scope N_scope.

(* ------------------------------------------------------------------ sums over the ledger *)
(* the entry lies in or below the queue given by the child names *)
Definition under (names : list qname) (e : lentry) : bool :=
  match le_path e with [] => false | _ :: t => is_prefix names t end.
Definition lsum (sel : lentry -> bool) (L : ledger) (names : list qname) (k : tid) : Z :=
  fold_right (fun e acc => if sel e && under names e then (getz (le_res e) k + acc)%Z else acc) 0%Z L.
(* everything the application holds *)
Definition asum (sel : lentry -> bool) (a : app) (L : ledger) (k : tid) : Z :=
  fold_right (fun e acc => if sel e && (le_app e =? a) then (getz (le_res e) k + acc)%Z else acc) 0%Z L.

Lemma lsum_cons sel e L names k :
  lsum sel (e :: L) names k = ((if sel e && under names e then getz (le_res e) k else 0) + lsum sel L names k)%Z.
Proof. unfold lsum. cbn [fold_right]. destruct (sel e && under names e); lia. Qed.
Lemma lsum_none sel L names k : (forall e, In e L -> sel e = false) -> lsum sel L names k = 0%Z.
Proof.
  induction L as [|e t IH]; intros H; [reflexivity|]. rewrite lsum_cons, IH by (intros; apply H; right; assumption).
  rewrite (H e (or_introl eq_refl)). reflexivity.
Qed.
Lemma lsum_ext sel sel' L names k : (forall e, In e L -> sel e = sel' e) -> lsum sel L names k = lsum sel' L names k.
Proof.
  induction L as [|e t IH]; intros H; [reflexivity|]. rewrite !lsum_cons, IH by (intros; apply H; right; assumption).
  rewrite (H e (or_introl eq_refl)). reflexivity.
Qed.

(* removing the entries of an application whose entries all sit on the path x :: tl *)
Lemma lsum_filter_app sel a x tl L names k :
  (forall e, In e L -> sel e = true -> le_app e = a -> le_path e = x :: tl) ->
  lsum sel (filter (fun e => negb (le_app e =? a)) L) names k =
  (lsum sel L names k - (if is_prefix names tl then asum sel a L k else 0))%Z.
Proof.
  induction L as [|e t IH]; intros H; [cbn; destruct (is_prefix names tl); reflexivity|].
  cbn [filter]. rewrite lsum_cons. cbn [asum fold_right]. fold (asum sel a t k).
  assert (IH' := IH (fun e' Hin => H e' (or_intror Hin))).
  destruct (N.eqb_spec (le_app e) a) as [Ea|Ea]; cbn [negb].
  - rewrite IH'. destruct (sel e) eqn:Es; cbn [andb]; [|destruct (is_prefix names tl); lia].
    unfold under. rewrite (H e (or_introl eq_refl) Es Ea). destruct (is_prefix names tl); lia.
  - rewrite lsum_cons, IH'. rewrite andb_false_r. destruct (is_prefix names tl); lia.
Qed.

Lemma getz_neg_res r k : getz (neg_res r) k = (- getz r k)%Z.
Proof.
  unfold neg_res, getz. induction r as [|[k' v] t IH]; [reflexivity|]. cbn [map get fst snd].
  destruct (N.eqb k k'); [reflexivity|exact IH].
Qed.

Lemma IsZero_getz o k : IsZero o = true -> getz (oget o) k = 0%Z.
Proof.
  destruct o as [r|]; [|reflexivity]. cbn [IsZero oget]. intros H. unfold getz.
  destruct (get r k) as [v|] eqn:E; [|reflexivity]. apply get_some_in in E.
  rewrite forallb_forall in H. specialize (H (k, v) E). cbn in H. apply Z.eqb_eq in H. assumption.
Qed.

(* ------------------------------------------------------------------ one tracker tree *)
Record TInv (q : qt) (sel : lentry -> bool) (L : ledger) : Prop := mkTInv {
  ti_usage : forall names k, getz (oget (araw q names)) k = lsum sel L names k;
  ti_apps : forall names b, In b (aapps q names) <-> exists e, In e L /\ sel e = true /\ under names e = true /\ le_app e = b;
  ti_wf : forall names, owf (araw q names);
  ti_some : forall names, aapps q names <> [] -> araw q names <> None }.

(* ledger entries: vectors without duplicate types, values and all sums within int64 *)
Definition entries_wf (L : ledger) : Prop := forall e, In e L -> wf (le_res e) /\ res_in_range (le_res e).
Definition bounded (L : ledger) : Prop := forall sel names k, in_range (lsum sel L names k).

Lemma TInv_ext q sel sel' L : (forall e, In e L -> sel e = sel' e) -> TInv q sel L -> TInv q sel' L.
Proof.
  intros H [T1 T2 T3 T4]. constructor; try assumption.
  - intros names k. rewrite T1. apply lsum_ext. assumption.
  - intros names b. rewrite T2. split; intros (e & Hin & Hs & Hu & Ha); exists e; repeat split; try assumption.
    + rewrite <- (H e Hin). assumption.
    + rewrite (H e Hin). assumption.
Qed.

Lemma TInv_empty q sel L : (forall names, araw q names = None) -> (forall names, aapps q names = []) ->
  (forall e, In e L -> sel e = false) -> TInv q sel L.
Proof.
  intros Hr Ha Hs. constructor.
  - intros names k. rewrite Hr, lsum_none by assumption. reflexivity.
  - intros names b. rewrite Ha. split; [contradiction|]. intros (e & Hin & Hse & _). rewrite (Hs e Hin) in Hse. discriminate.
  - intros names. rewrite Hr. apply wf_nil.
  - intros names H. rewrite Ha in H. contradiction.
Qed.

Lemma TInv_same q q' sel L : (forall names, araw q' names = araw q names) -> (forall names, aapps q' names = aapps q names) ->
  TInv q sel L -> TInv q' sel L.
Proof.
  intros Hr Ha [T1 T2 T3 T4]. constructor; intros names; rewrite ?Hr, ?Ha; auto.
Qed.

Lemma under_mk names a u x tl r : under names (mkLE a u (x :: tl) r) = is_prefix names tl.
Proof. reflexivity. Qed.

Lemma inc_usage_getz r old k : owf old -> wf r ->
  getz (oget (inc_usage (Some r) old)) k =
  match get r k with Some y => addVal (getz (oget old) k) y | None => getz (oget old) k end.
Proof.
  intros Wo Wr. unfold inc_usage. destruct old as [us|]; cbn [AddTo oprune oget].
  - apply getz_after_inc; assumption.
  - rewrite (Prune_getz (addTo [] r) k).
    + rewrite !getz_get, (addTo_get [] r k Wr). destruct (get r k); reflexivity.
    + unfold addTo. apply (fold_upd_wf addVal). apply wf_nil.
Qed.

Lemma is_prefix_refl l : is_prefix l l = true.
Proof. induction l as [|x t IH]; [reflexivity|]. cbn. rewrite N.eqb_refl. exact IH. Qed.
Lemma is_prefix_nil l : is_prefix [] l = true.
Proof. destruct l; reflexivity. Qed.
Lemma del_app_In a b l : In b (del_app a l) <-> b <> a /\ In b l.
Proof.
  unfold del_app. rewrite filter_In. split; intros [H1 H2].
  - split; [|assumption]. intros ->. rewrite N.eqb_refl in H2. discriminate.
  - split; [assumption|]. destruct (N.eqb_spec b a); [contradiction|reflexivity].
Qed.
Lemma aapps_nonempty_sub q names : aapps q names <> [] -> exists n, sub_at names q = Some n.
Proof. unfold aapps. destruct (sub_at names q) as [n|]; [eauto|contradiction]. Qed.

(* ---- increase ---- *)
Lemma TInv_increase wc tt q sel L a u x tl r :
  TInv q sel L -> wf r -> res_in_range r -> sel (mkLE a u (x :: tl) r) = true ->
  bounded L -> bounded (mkLE a u (x :: tl) r :: L) ->
  TInv (increase wc tt (x :: tl) a (Some r) q) sel (mkLE a u (x :: tl) r :: L).
Proof.
  intros [T1 T2 T3 T4] Wr Rr Hsel B B'. set (e0 := mkLE a u (x :: tl) r) in *. constructor.
  - intros names k. rewrite increase_araw, lsum_cons, Hsel. cbn [andb]. unfold e0 at 1. rewrite under_mk.
    destruct (is_prefix names tl) eqn:Ep; [|rewrite T1; lia].
    rewrite (inc_usage_getz r (araw q names) k (T3 names) Wr), T1. cbn [le_res e0].
    pose proof (B' sel names k) as Hb. rewrite lsum_cons, Hsel in Hb. cbn [andb] in Hb. unfold e0 at 1 in Hb.
    rewrite under_mk, Ep in Hb. cbn [le_res e0] in Hb.
    rewrite (getz_get r k) in *. destruct (get r k) as [y|] eqn:Er; cbn [oz] in *; [|lia].
    rewrite addVal_exact; [lia|apply B|apply (get_in_range r k y Rr Er)|]. replace (lsum sel L names k + y)%Z with (y + lsum sel L names k)%Z by lia. exact Hb.
  - intros names b. rewrite increase_aapps. destruct (is_prefix names tl) eqn:Ep.
    + rewrite add_app_In, T2. split.
      * intros [->|(e & Hin & Hs & Hu & Ha)].
        -- exists e0. repeat split; [left; reflexivity|assumption|unfold e0; rewrite under_mk; assumption].
        -- exists e. repeat split; try assumption. right. assumption.
      * intros (e & [<-|Hin] & Hs & Hu & Ha); [left; symmetry; exact Ha|right; exists e; repeat split; assumption].
    + rewrite T2. split; intros (e & Hin & Hs & Hu & Ha).
      * exists e. repeat split; try assumption. right. assumption.
      * destruct Hin as [<-|Hin]; [unfold e0 in Hu; rewrite under_mk, Ep in Hu; discriminate|].
        exists e. repeat split; assumption.
  - intros names. rewrite increase_araw. destruct (is_prefix names tl); [|apply T3].
    unfold inc_usage. specialize (T3 names). destruct (araw q names) as [us|]; cbn [AddTo oprune]; unfold owf; cbn [oget];
      apply Prune_wf; unfold addTo; apply (fold_upd_wf addVal); [exact T3|apply wf_nil].
  - intros names. rewrite increase_araw, increase_aapps. destruct (is_prefix names tl); [|apply T4].
    intros _. unfold inc_usage. destruct (araw q names); discriminate.
Qed.

(* ---- decrease ---- *)
Lemma dec_usage_getz r us k : wf us -> wf r ->
  getz (oget (dec_usage (Some r) (Some us))) k =
  match get r k with Some y => subVal (getz us k) y | None => getz us k end.
Proof.
  intros Wu Wr. unfold dec_usage. cbn [SubFrom oprune oget]. rewrite Prune_getz.
  - rewrite !getz_get, (subFrom_get us r k Wr). destruct (get r k); reflexivity.
  - unfold subFrom. apply (fold_upd_wf subVal). assumption.
Qed.
Lemma dec_usage_wf r old : owf old -> owf (dec_usage (Some r) old).
Proof.
  intros W. unfold dec_usage. destruct old as [us|]; cbn [SubFrom oprune]; [|apply wf_nil].
  unfold owf. cbn [oget]. apply Prune_wf. unfold subFrom. apply (fold_upd_wf subVal). exact W.
Qed.

(* the value read after a decrease, whether the tracker was kept or removed *)
Lemma dec_read q' names X k :
  araw q' names = X \/ (sub_at names q' = None /\ IsZero X = true) -> getz (oget (araw q' names)) k = getz (oget X) k.
Proof.
  intros [->|(Hn & Hz)]; [reflexivity|]. unfold araw. rewrite Hn. cbn. symmetry. apply IsZero_getz. assumption.
Qed.

Section Decrease.
Variables (q : qt) (sel : lentry -> bool) (L : ledger) (a : app) (u : uname) (x : qname) (tl : list qname) (r : res).
Hypothesis (Hinv : TInv q sel L) (Wr : wf r) (Rr : res_in_range r).
Hypothesis Hentry : exists e, In e L /\ sel e = true /\ le_app e = a /\ le_path e = x :: tl.

Lemma dec_app_running names : is_prefix names tl = true -> In a (aapps q names).
Proof.
  intros Ep. destruct Hentry as (e & Hin & Hs & Ha & Hp). apply (ti_apps q sel L Hinv).
  exists e. repeat split; try assumption. unfold under. rewrite Hp. assumption.
Qed.
Lemma dec_full_path : exists m, sub_at tl q = Some m.
Proof.
  apply aapps_nonempty_sub. intros H. pose proof (dec_app_running tl (is_prefix_refl tl)) as Hin. rewrite H in Hin. contradiction.
Qed.
Lemma dec_usage_some names : is_prefix names tl = true -> exists us, araw q names = Some us.
Proof.
  intros Ep. destruct (araw q names) as [us|] eqn:E; [eauto|]. exfalso.
  apply (ti_some q sel L Hinv names); [|assumption]. intros H. pose proof (dec_app_running names Ep) as Hin. rewrite H in Hin. contradiction.
Qed.

(* decrease that keeps the application *)
Lemma TInv_decrease_keep q' b :
  sel (mkLE a u (x :: tl) (neg_res r)) = true ->
  bounded L -> bounded (mkLE a u (x :: tl) (neg_res r) :: L) ->
  decrease (x :: tl) a (Some r) false q = (q', b) ->
  TInv q' sel (mkLE a u (x :: tl) (neg_res r) :: L) /\ b = removable q'.
Proof.
  intros Hsel B B' Hd. destruct (decrease_spec a (Some r) false tl x q q' b Hd dec_full_path) as (Hb & Hpu & Hpa & _).
  split; [|assumption]. destruct Hinv as [T1 T2 T3 T4]. set (e0 := mkLE a u (x :: tl) (neg_res r)) in *. constructor.
  - intros names k. specialize (Hpu names). rewrite lsum_cons, Hsel. cbn [andb]. unfold e0 at 1. rewrite under_mk.
    destruct (is_prefix names tl) eqn:Ep; [|rewrite Hpu, T1; lia].
    rewrite (dec_read q' names _ k Hpu). destruct (dec_usage_some names Ep) as (us & Eus). rewrite Eus.
    assert (Wus : wf us) by (specialize (T3 names); rewrite Eus in T3; exact T3).
    rewrite (dec_usage_getz r us k Wus Wr). specialize (T1 names k). rewrite Eus in T1. cbn [oget] in T1. rewrite T1.
    cbn [le_res e0]. rewrite getz_neg_res.
    pose proof (B' sel names k) as Hbd. rewrite lsum_cons, Hsel in Hbd. cbn [andb] in Hbd. unfold e0 at 1 in Hbd.
    rewrite under_mk, Ep in Hbd. cbn [le_res e0] in Hbd. rewrite getz_neg_res in Hbd.
    rewrite (getz_get r k) in *. destruct (get r k) as [y|] eqn:Er; cbn [oz] in *; [|lia].
    rewrite subVal_exact; [lia|apply B|apply (get_in_range r k y Rr Er)|].
    replace (lsum sel L names k - y)%Z with (- y + lsum sel L names k)%Z by lia. exact Hbd.
  - intros names b0. rewrite Hpa. assert (E : (if is_prefix names tl then dec_apps a false (aapps q names) else aapps q names) = aapps q names)
      by (destruct (is_prefix names tl); reflexivity). rewrite E, T2. split.
    + intros (e & Hin & Hs & Hu & Ha). exists e. repeat split; try assumption. right. assumption.
    + intros (e & [<-|Hin] & Hs & Hu & Ha); [|exists e; repeat split; assumption].
      unfold e0 in Hu. rewrite under_mk in Hu. cbn [le_app e0] in Ha. subst b0.
      apply T2. exact (dec_app_running names Hu).
  - intros names. specialize (Hpu names). destruct (is_prefix names tl).
    + destruct Hpu as [->|(Hn & _)]; [apply dec_usage_wf; apply T3|unfold araw; rewrite Hn; apply wf_nil].
    + rewrite Hpu. apply T3.
  - intros names Hne0. pose proof Hne0 as Hne. specialize (Hpu names). rewrite Hpa in Hne. destruct (is_prefix names tl) eqn:Ep.
    + destruct (dec_usage_some names Ep) as (us & Eus). rewrite Eus in Hpu.
      destruct Hpu as [->|(Hn & _)]; [discriminate|].
      exfalso. apply Hne0. unfold aapps. rewrite Hn. reflexivity.
    + rewrite Hpu. apply T4. assumption.
Qed.

(* decrease that removes the application: it releases everything the application holds *)
Lemma TInv_decrease_remove q' b :
  (forall e, In e L -> sel e = true -> le_app e = a -> le_path e = x :: tl) ->
  (forall k, getz r k = asum sel a L k) ->
  bounded L -> bounded (filter (fun e => negb (le_app e =? a)) L) ->
  decrease (x :: tl) a (Some r) true q = (q', b) ->
  TInv q' sel (filter (fun e => negb (le_app e =? a)) L) /\ b = removable q'.
Proof.
  intros Hpath Hsum B B' Hd. destruct (decrease_spec a (Some r) true tl x q q' b Hd dec_full_path) as (Hb & Hpu & Hpa & _).
  split; [|assumption]. destruct Hinv as [T1 T2 T3 T4]. set (L' := filter (fun e => negb (le_app e =? a)) L). constructor.
  - intros names k. specialize (Hpu names). unfold L'. rewrite (lsum_filter_app sel a x tl L names k Hpath).
    destruct (is_prefix names tl) eqn:Ep; [|rewrite Hpu, T1; lia].
    rewrite (dec_read q' names _ k Hpu). destruct (dec_usage_some names Ep) as (us & Eus). rewrite Eus.
    assert (Wus : wf us) by (specialize (T3 names); rewrite Eus in T3; exact T3).
    rewrite (dec_usage_getz r us k Wus Wr). specialize (T1 names k). rewrite Eus in T1. cbn [oget] in T1. rewrite T1.
    pose proof (B' sel names k) as Hbd. fold L' in Hbd. unfold L' in Hbd. rewrite (lsum_filter_app sel a x tl L names k Hpath), Ep in Hbd.
    rewrite <- Hsum in *. rewrite (getz_get r k) in *. destruct (get r k) as [y|] eqn:Er; cbn [oz] in *; [|lia].
    rewrite subVal_exact; [lia|apply B|apply (get_in_range r k y Rr Er)|exact Hbd].
  - intros names b0. rewrite Hpa. unfold L'. destruct (is_prefix names tl) eqn:Ep.
    + cbn [dec_apps]. rewrite del_app_In, T2. split.
      * intros (Hne & e & Hin & Hs & Hu & Ha). exists e. repeat split; try assumption. apply filter_In. split; [assumption|].
        rewrite Ha. destruct (N.eqb_spec b0 a); [contradiction|reflexivity].
      * intros (e & Hin & Hs & Hu & Ha). apply filter_In in Hin. destruct Hin as (Hin & Hf). split.
        -- intros ->. rewrite Ha, N.eqb_refl in Hf. discriminate.
        -- exists e. repeat split; assumption.
    + rewrite T2. split.
      * intros (e & Hin & Hs & Hu & Ha). exists e. repeat split; try assumption. apply filter_In. split; [assumption|].
        destruct (N.eqb_spec (le_app e) a) as [Ea|]; [|reflexivity]. exfalso.
        unfold under in Hu. rewrite (Hpath e Hin Hs Ea), Ep in Hu. discriminate.
      * intros (e & Hin & Hs & Hu & Ha). apply filter_In in Hin. exists e. repeat split; try assumption. apply Hin.
  - intros names. specialize (Hpu names). destruct (is_prefix names tl).
    + destruct Hpu as [->|(Hn & _)]; [apply dec_usage_wf; apply T3|unfold araw; rewrite Hn; apply wf_nil].
    + rewrite Hpu. apply T3.
  - intros names Hne0. pose proof Hne0 as Hne. specialize (Hpu names). rewrite Hpa in Hne. destruct (is_prefix names tl) eqn:Ep.
    + destruct (dec_usage_some names Ep) as (us & Eus). rewrite Eus in Hpu.
      destruct Hpu as [->|(Hn & _)]; [discriminate|].
      exfalso. apply Hne0. unfold aapps. rewrite Hn. reflexivity.
    + rewrite Hpu. apply T4. assumption.
Qed.
End Decrease.
