(* C05, enforcement: an Increase that the scheduler decided (the ask fits Manager.Headroom, the
   application passed Manager.CanRunApp) keeps usage <= limit and running applications <= max
   applications on every queue of the path, for the user and for the group the application is
   charged to.  Proofs only. *)
From Coq Require Import List NArith ZArith Bool Lia.
From YK Require Import Base.Int64 Base.Res Base.ResSpec Base.ResLemmas Base.ResLaws Base.ResLaws2 Base.ResLawsPred
     Base.Int64Laws Ugm.Tracker Ugm.Manager Ugm.UgmSpec Ugm.TrackerFacts.
Import ListNotations.
Open Scope N_scope.

(* ------------------------------------------------------------------ arithmetic *)
Lemma clamp_le_of_le z m : (z <= m)%Z -> in_range m -> (clamp z <= m)%Z.
Proof. unfold clamp, in_range, MIN, MAX. intros. destruct (Z.ltb_spec z (- 2 ^ 63)); [lia|]. destruct (Z.ltb_spec (2 ^ 63 - 1) z); lia. Qed.

Lemma enforce_arith u m r v :
  in_range u -> in_range m -> in_range r ->
  (u <= m)%Z -> (r <= Z.max 0 v)%Z -> (v <= clamp (m - u))%Z -> (addVal u r <= m)%Z.
Proof.
  intros Hu Hm Hr Hum Hrv Hv. rewrite (addVal_clamp u r Hu Hr). apply clamp_le_of_le; [|assumption].
  revert Hv. unfold clamp, in_range, MIN, MAX in *.
  destruct (Z.ltb_spec (m - u) (- 2 ^ 63)); [lia|]. destruct (Z.ltb_spec (2 ^ 63 - 1) (m - u)); lia.
Qed.

(* ------------------------------------------------------------------ one tracker *)
Lemma getz_after_inc us r k : wf us -> wf r ->
  getz (Prune (addTo us r)) k = match get r k with Some y => addVal (getz us k) y | None => getz us k end.
Proof.
  intros Hu Hr. rewrite Prune_getz.
  - rewrite !getz_get, (addTo_get us r k Hr). destruct (get r k); reflexivity.
  - unfold addTo. apply (fold_upd_wf addVal). assumption.
Qed.

Lemma res_ok_inc a r hr n n' :
  node_wf n -> covers hr n -> wf r -> res_in_range r -> FitInMaxUndef hr (Some r) = true ->
  incd a (Some r) n n' -> res_ok n = true -> res_ok n' = true.
Proof.
  intros (Wm & Rm & Ru & Wu) Hcov Wr Rr Hfit (Eu & _ & Em & _) Hok.
  unfold res_ok in *. rewrite Em. destruct (IsZero (q_max n)) eqn:Ez; [reflexivity|]. cbn [orb] in *.
  apply forallb_forall. intros [k m] Hin. cbn [fst snd].
  rewrite forallb_forall in Hok. specialize (Hok (k, m) Hin). cbn [fst snd] in Hok. apply Z.leb_le in Hok. apply Z.leb_le.
  assert (Hk : get (oget (q_max n)) k = Some m) by (apply in_get; assumption).
  assert (Hm : in_range m) by (apply (get_in_range (oget (q_max n)) k m Rm Hk)).
  rewrite Eu. clear Eu.
  assert (Hus : exists us, oprune (AddTo (match q_usage n with None => Some [] | x => x end) (Some r)) = Some (Prune (addTo us r)) /\
                           us = oget (q_usage n)).
  { destruct (q_usage n) as [ul|]; eexists; split; reflexivity. }
  destruct Hus as (us & -> & Eus). cbn [oget]. rewrite <- Eus in Hok.
  assert (Wus : wf us) by (rewrite Eus; exact Wu).
  assert (Rus : res_in_range us) by (rewrite Eus; exact Ru).
  rewrite (getz_after_inc us r k Wus Wr).
  destruct (get r k) as [y|] eqn:Er; [|assumption].
  destruct (Hcov Ez k m Hk) as (v & Hv & Hle).
  pose proof (proj1 (FitInMaxUndef_spec hr (Some r) Wr) Hfit k y v Er Hv) as Hy.
  apply (enforce_arith (getz us k) m y v); try assumption.
  - apply getz_in_range. assumption.
  - apply (get_in_range r k y Rr Er).
  - rewrite Eus. exact Hle.
Qed.

Lemma apps_ok_inc a u n n' : canrun_here a n = true -> incd a u n n' -> apps_ok n = true -> apps_ok n' = true.
Proof.
  intros Hc (_ & Ea & _ & Ema) Hok. unfold apps_ok in *. rewrite Ema, Ea. unfold canrun_here in Hc.
  destruct (mem a (q_apps n)) eqn:Em.
  - rewrite (add_app_mem_length a _ Em). assumption.
  - destruct (N.eqb_spec (q_maxApps n) 0) as [->|Hne]; [reflexivity|]. cbn [orb negb andb] in *.
    destruct (Z.ltb_spec (int_of_u64 (q_maxApps n)) (Z.of_nat (length (q_apps n)) + 1)); [discriminate|].
    apply N.leb_le. pose proof (add_app_length a (q_apps n)).
    assert (int_of_u64 (q_maxApps n) <= Z.of_N (q_maxApps n))%Z.
    { unfold int_of_u64, wrap64. pose proof (Z.mod_pos_bound (Z.of_N (q_maxApps n) + 2 ^ 63) (2 ^ 64) eq_refl).
      pose proof (Z.mod_le (Z.of_N (q_maxApps n) + 2 ^ 63) (2 ^ 64)). lia. }
    lia.
Qed.

(* ------------------------------------------------------------------ the manager *)
Lemma getUserTracker_spec s u s' ut : getUserTracker s u = (s', ut) ->
  nlookup (users s') u = Some ut /\ groups s' = groups s /\ userWild s' = userWild s.
Proof.
  unfold getUserTracker. destruct (nlookup (users s) u) as [ut0|] eqn:E; intros H; injection H as <- <-.
  - repeat split. assumption.
  - cbn. rewrite nlookup_nset_same. repeat split.
Qed.
Lemma getUserTracker_found s u ut : nlookup (users s) u = Some ut -> getUserTracker s u = (s, ut).
Proof. unfold getUserTracker. intros ->. reflexivity. Qed.

Lemma hasGroup_nset a l links q : hasGroupForApp (mkUT (nset a l links) q) a = true.
Proof. unfold hasGroupForApp. cbn. rewrite nlookup_nset_same. reflexivity. Qed.

Lemma ensure_link_spec s p a (user : ugi) ut : nlookup (users s) (fst user) = Some ut ->
  exists links', nlookup (users (ensure_link s p a user)) (fst user) = Some (mkUT links' (ut_qt ut)) /\
                 hasGroupForApp (mkUT links' (ut_qt ut)) a = true /\
                 userWild (ensure_link s p a user) = userWild s.
Proof.
  intros Hu. unfold ensure_link. rewrite Hu. destruct (hasGroupForApp ut a) eqn:Eh.
  - exists (ut_links ut). split; [rewrite Hu; destruct ut; reflexivity|]. split; [destruct ut; exact Eh|reflexivity].
  - unfold ensureGroupTrackerForApp. rewrite Hu, Eh.
    eexists. cbn [users set_users]. rewrite nlookup_nset_same. split; [reflexivity|]. split; [apply hasGroup_nset|].
    destruct (ensureGroup s user p =? EMPTY); [reflexivity|].
    destruct (nlookup (groups s) (ensureGroup s user p)); reflexivity.
Qed.
Lemma ensure_link_idem s p a (user : ugi) ut : nlookup (users s) (fst user) = Some ut -> hasGroupForApp ut a = true ->
  ensure_link s p a user = s.
Proof. intros Hu Hh. unfold ensure_link. rewrite Hu, Hh. reflexivity. Qed.

(* what Headroom leaves behind: the user tracker (and the group tracker the application is charged
   to) are the trackers a headroom computation returned, the group is resolved, and the answer is
   the user headroom or its component-wise minimum with the group headroom *)
Lemma ugm_headroom_post s p a (user : ugi) s1 hr : ugm_headroom s p a user = (s1, hr) ->
  exists ut1 wc q0 uh,
    nlookup (users s1) (fst user) = Some ut1 /\ headroom wc TUser p q0 = (ut_qt ut1, uh) /\
    hasGroupForApp ut1 a = true /\
    ((getGroupForApp ut1 a =? EMPTY) = true /\ hr = uh \/
     (getGroupForApp ut1 a =? EMPTY) = false /\ nlookup (groups s1) (getGroupForApp ut1 a) = None /\ hr = uh \/
     exists gt1 gq0 gh, (getGroupForApp ut1 a =? EMPTY) = false /\
        nlookup (groups s1) (getGroupForApp ut1 a) = Some gt1 /\
        headroom [] TGroup p gq0 = (gt_qt gt1, gh) /\ hr = ComponentWiseMin uh gh).
Proof.
  unfold ugm_headroom. destruct (getUserTracker s (fst user)) as [s1' ut] eqn:Eg.
  destruct (headroom (userWild s1') TUser p (ut_qt ut)) as [uq' uh] eqn:Eh.
  set (s2 := set_users s1' (nset (fst user) (mkUT (ut_links ut) uq') (users s1'))).
  assert (H2 : nlookup (users s2) (fst user) = Some (mkUT (ut_links ut) uq')) by (cbn; apply nlookup_nset_same).
  destruct (ensure_link_spec s2 p a user _ H2) as (links' & Hl & Hhas & _). cbn [ut_qt] in Hl, Hhas.
  rewrite Hl. set (ut3 := mkUT links' uq') in *.
  destruct (getGroupForApp ut3 a =? EMPTY) eqn:Ee.
  - intros H. injection H as <- <-. exists ut3, (userWild s1'), (ut_qt ut), uh. repeat split; try assumption. left. split; [assumption|reflexivity].
  - destruct (nlookup (groups (ensure_link s2 p a user)) (getGroupForApp ut3 a)) as [gt|] eqn:Egt.
    + destruct (headroom [] TGroup p (gt_qt gt)) as [gq' gh] eqn:Egh.
      intros H. injection H as <- <-. exists ut3, (userWild s1'), (ut_qt ut), uh. cbn [users set_groups].
      repeat split; try assumption. right. right. exists (mkGT (gt_apps gt) gq'), (gt_qt gt), gh.
      cbn [groups set_groups gt_qt]. rewrite nlookup_nset_same. repeat split; try assumption; reflexivity.
    + intros H. injection H as <- <-. exists ut3, (userWild s1'), (ut_qt ut), uh. repeat split; try assumption.
      right. left. repeat split; assumption.
Qed.

(* the same for CanRunApp *)
Lemma ugm_can_run_app_post s p a (user : ugi) s1 : ugm_can_run_app s p a user = (s1, true) ->
  exists ut1 wc q0,
    nlookup (users s1) (fst user) = Some ut1 /\ canRunApp wc TUser p a q0 = (ut_qt ut1, true) /\
    hasGroupForApp ut1 a = true /\
    ((getGroupForApp ut1 a =? EMPTY) = true \/
     (getGroupForApp ut1 a =? EMPTY) = false /\ nlookup (groups s1) (getGroupForApp ut1 a) = None \/
     exists gt1 gq0, (getGroupForApp ut1 a =? EMPTY) = false /\
        nlookup (groups s1) (getGroupForApp ut1 a) = Some gt1 /\
        canRunApp [] TGroup p a gq0 = (gt_qt gt1, true)).
Proof.
  unfold ugm_can_run_app. destruct (getUserTracker s (fst user)) as [s1' ut] eqn:Eg.
  destruct (canRunApp (userWild s1') TUser p a (ut_qt ut)) as [uq' uok] eqn:Eh.
  set (s2 := set_users s1' (nset (fst user) (mkUT (ut_links ut) uq') (users s1'))).
  assert (H2 : nlookup (users s2) (fst user) = Some (mkUT (ut_links ut) uq')) by (cbn; apply nlookup_nset_same).
  destruct (ensure_link_spec s2 p a user _ H2) as (links' & Hl & Hhas & _). cbn [ut_qt] in Hl, Hhas.
  rewrite Hl. set (ut3 := mkUT links' uq') in *.
  destruct (getGroupForApp ut3 a =? EMPTY) eqn:Ee.
  - intros H. injection H as <- ->. exists ut3, (userWild s1'), (ut_qt ut). repeat split; try assumption. left. assumption.
  - destruct (nlookup (groups (ensure_link s2 p a user)) (getGroupForApp ut3 a)) as [gt|] eqn:Egt.
    + destruct (canRunApp [] TGroup p a (gt_qt gt)) as [gq' gok] eqn:Egh.
      intros H. injection H as <- H. apply andb_true_iff in H. destruct H as [-> ->].
      exists ut3, (userWild s1'), (ut_qt ut). cbn [users set_groups].
      repeat split; try assumption. right. right. exists (mkGT (gt_apps gt) gq'), (gt_qt gt).
      cbn [groups set_groups gt_qt]. rewrite nlookup_nset_same. repeat split; try assumption; reflexivity.
    + intros H. injection H as <- ->. exists ut3, (userWild s1'), (ut_qt ut). repeat split; try assumption.
      right. left. split; assumption.
Qed.

(* Increase when the user tracker exists and the group is resolved *)
Lemma ugm_increase_resolved s x tl a r (user : ugi) ut :
  (a =? EMPTY) = false -> (fst user =? EMPTY) = false ->
  nlookup (users s) (fst user) = Some ut -> hasGroupForApp ut a = true ->
  ugm_increase s (x :: tl) a (Some r) user =
    let ut' := mkUT (ut_links ut) (increase (userWild s) TUser (x :: tl) a (Some r) (ut_qt ut)) in
    let s3 := set_users s (nset (fst user) ut' (users s)) in
    let g := getGroupForApp ut a in
    if g =? EMPTY then s3 else
    match nlookup (groups s) g with
    | None => s3
    | Some gt => set_groups s3 (nset g (mkGT (nset a (fst user) (gt_apps gt)) (increase [] TGroup (x :: tl) a (Some r) (gt_qt gt))) (groups s))
    end.
Proof.
  intros Ha Hu Hl Hh. unfold ugm_increase. rewrite Ha, Hu. cbn [is_nil orb].
  rewrite (getUserTracker_found s (fst user) ut Hl). rewrite (ensure_link_idem s (x :: tl) a user ut Hl Hh). rewrite Hl.
  reflexivity.
Qed.

Lemma kept_refl ok s w p : kept ok s s w p = true.
Proof.
  unfold kept. apply forallb_forall. intros h _. destruct (node s w h) as [q|]; [|reflexivity].
  destruct (ok q); reflexivity.
Qed.
Lemma step_keeps_refl ok s u a p : step_keeps ok s s u a p = true.
Proof. unfold step_keeps. rewrite kept_refl. destruct (link s u a); [apply kept_refl|reflexivity]. Qed.

(* [kept] from a tracker-level statement *)
Lemma kept_of_trees ok b a w x tl qb qa :
  who_root b w = Some qb -> who_root a w = Some qa ->
  (forall n1 n2 nb na, tl = n1 ++ n2 -> sub_at n1 qb = Some nb -> sub_at n1 qa = Some na -> ok nb = true -> ok na = true) ->
  (forall n1 n2 na, tl = n1 ++ n2 -> sub_at n1 qa = Some na -> exists nb, sub_at n1 qb = Some nb) ->
  kept ok b a w (x :: tl) = true.
Proof.
  intros Hb Ha Hok Hex. unfold kept. apply forallb_forall. intros h Hin.
  apply prefixes_in in Hin. destruct Hin as (n1 & n2 & -> & E).
  unfold node. rewrite Ha, Hb, !qt_at_sub.
  destruct (sub_at n1 qa) as [na|] eqn:Ea; [|reflexivity].
  destruct (Hex n1 n2 na E Ea) as (nb & Enb). rewrite Enb.
  destruct (ok nb) eqn:Eok; [|reflexivity]. cbn. exact (Hok n1 n2 nb na E Enb Ea Eok).
Qed.
Lemma kept_same_root ok b a w p : who_root a w = who_root b w -> kept ok b a w p = true.
Proof.
  intros E. unfold kept. apply forallb_forall. intros h _. unfold node. rewrite E.
  destruct (who_root b w) as [q|]; [|reflexivity]. destruct (qt_at h q) as [n|]; [|reflexivity].
  destruct (ok n); reflexivity.
Qed.

(* well-formedness of the trackers on the path (values within int64, no duplicate types) *)
Definition path_wf (s : ugm_state) (w : who) (p : path) : Prop :=
  forall h n, In h (prefixes p) -> node s w h = Some n -> node_wf n.

Lemma path_wf_sub s w x tl q : who_root s w = Some q -> path_wf s w (x :: tl) ->
  forall n1 n2 n, tl = n1 ++ n2 -> sub_at n1 q = Some n -> node_wf n.
Proof.
  intros Hr Hwf n1 n2 n E Hn. apply (Hwf (x :: n1) n).
  - apply prefixes_in. exists n1, n2. split; [reflexivity|assumption].
  - unfold node. rewrite Hr, qt_at_sub. assumption.
Qed.

(* one tracker tree: the increase keeps res_ok on the path when the ask fits a headroom that
   covers the path *)
Lemma tree_res_ok_kept wc tt x tl a r q hr :
  (exists m, sub_at tl q = Some m) ->
  (forall n1 n2 n, tl = n1 ++ n2 -> sub_at n1 q = Some n -> node_wf n /\ covers hr n) ->
  wf r -> res_in_range r -> FitInMaxUndef hr (Some r) = true ->
  (forall n1 n2 nb na, tl = n1 ++ n2 -> sub_at n1 q = Some nb ->
     sub_at n1 (increase wc tt (x :: tl) a (Some r) q) = Some na -> res_ok nb = true -> res_ok na = true) /\
  (forall n1 n2 na, tl = n1 ++ n2 -> sub_at n1 (increase wc tt (x :: tl) a (Some r) q) = Some na ->
     exists nb, sub_at n1 q = Some nb).
Proof.
  intros (m & Hm) Hall Wr Rr Hfit. split.
  - intros n1 n2 nb na E Hb Ha Hok.
    destruct (increase_at wc tt a (Some r) tl x q m Hm n1 n2 E) as (n & n' & Hn & Hn' & Hinc).
    rewrite Hb in Hn. injection Hn as <-. rewrite Ha in Hn'. injection Hn' as <-.
    destruct (Hall n1 n2 nb E Hb) as (Hwf & Hcov).
    exact (res_ok_inc a r hr nb na Hwf Hcov Wr Rr Hfit Hinc Hok).
  - intros n1 n2 na E _. destruct (increase_at wc tt a (Some r) tl x q m Hm n1 n2 E) as (n & _ & Hn & _). eauto.
Qed.
Lemma tree_apps_ok_kept wc tt x tl a u q :
  (exists m, sub_at tl q = Some m) ->
  (forall n1 n2 n, tl = n1 ++ n2 -> sub_at n1 q = Some n -> canrun_here a n = true) ->
  (forall n1 n2 nb na, tl = n1 ++ n2 -> sub_at n1 q = Some nb ->
     sub_at n1 (increase wc tt (x :: tl) a u q) = Some na -> apps_ok nb = true -> apps_ok na = true) /\
  (forall n1 n2 na, tl = n1 ++ n2 -> sub_at n1 (increase wc tt (x :: tl) a u q) = Some na ->
     exists nb, sub_at n1 q = Some nb).
Proof.
  intros (m & Hm) Hall. split.
  - intros n1 n2 nb na E Hb Ha Hok.
    destruct (increase_at wc tt a u tl x q m Hm n1 n2 E) as (n & n' & Hn & Hn' & Hinc).
    rewrite Hb in Hn. injection Hn as <-. rewrite Ha in Hn'. injection Hn' as <-.
    exact (apps_ok_inc a u nb na (Hall n1 n2 nb E Hb) Hinc Hok).
  - intros n1 n2 na E _. destruct (increase_at wc tt a u tl x q m Hm n1 n2 E) as (n & _ & Hn & _). eauto.
Qed.

Lemma link_of_getGroup s u a ut : nlookup (users s) u = Some ut -> (getGroupForApp ut a =? EMPTY) = false ->
  link s u a = Some (getGroupForApp ut a).
Proof.
  unfold link, getGroupForApp. intros -> H. destruct (nlookup (ut_links ut) a) as [[g|]|]; try reflexivity; discriminate.
Qed.
Lemma link_same_links s s' u a ut ut' :
  nlookup (users s) u = Some ut -> nlookup (users s') u = Some ut' -> ut_links ut' = ut_links ut -> link s' u a = link s u a.
Proof. unfold link. intros -> -> ->. reflexivity. Qed.

Lemma ugm_increase_guard s p a u (user : ugi) :
  (a =? EMPTY) = true \/ (fst user =? EMPTY) = true \/ u = None -> ugm_increase s p a u user = s.
Proof.
  intros H. unfold ugm_increase.
  destruct p, (a =? EMPTY), u, (fst user =? EMPTY); cbn [orb is_nil]; try reflexivity;
    destruct H as [H|[H|H]]; discriminate.
Qed.

Lemma headroom_sound_lemma s p a r (user : ugi) s1 hr :
  ugm_headroom s p a user = (s1, hr) ->
  wf r -> res_in_range r ->
  path_wf s1 (User (fst user)) p ->
  (forall g, link s1 (fst user) a = Some g -> path_wf s1 (Group g) p) ->
  FitInMaxUndef hr (Some r) = true ->
  enforce_step s1 (ugm_increase s1 p a (Some r) user) (fst user) a p = true.
Proof.
  intros Hhead Wr Rr Hwfu Hwfg Hfit.
  destruct p as [|x tl].
  { unfold enforce_step, step_keeps, kept. cbn [prefixes forallb andb]. destruct (link _ _ _); reflexivity. }
  destruct (a =? EMPTY) eqn:Ha.
  { rewrite ugm_increase_guard by (left; assumption). apply step_keeps_refl. }
  destruct (fst user =? EMPTY) eqn:Hue.
  { rewrite ugm_increase_guard by (right; left; assumption). apply step_keeps_refl. }
  destruct (ugm_headroom_post s (x :: tl) a user s1 hr Hhead) as (ut1 & wc & q0 & uh & Hu & Hh & Hhas & Hcases).
  rewrite (ugm_increase_resolved s1 x tl a r user ut1 Ha Hue Hu Hhas). cbv zeta.
  assert (Hru : who_root s1 (User (fst user)) = Some (ut_qt ut1)) by (cbn; rewrite Hu; reflexivity).
  destruct (headroom_at wc TUser tl x q0 (ut_qt ut1) uh Hh (path_wf_sub s1 _ x tl _ Hru Hwfu)) as (Hfull & Wuh & Hcovu).
  set (ut' := mkUT (ut_links ut1) (increase (userWild s1) TUser (x :: tl) a (Some r) (ut_qt ut1))).
  set (s3 := set_users s1 (nset (fst user) ut' (users s1))).
  assert (Hu3 : nlookup (users s3) (fst user) = Some ut') by (cbn; apply nlookup_nset_same).
  (* the user part, for a headroom hr' that is covered on the user's path *)
  assert (Huser : forall s2, nlookup (users s2) (fst user) = Some ut' ->
            (forall n1 n2 n, tl = n1 ++ n2 -> sub_at n1 (ut_qt ut1) = Some n -> covers hr n) ->
            kept res_ok s1 s2 (User (fst user)) (x :: tl) = true).
  { intros s2 H2 Hcov.
    destruct (tree_res_ok_kept (userWild s1) TUser x tl a r (ut_qt ut1) hr Hfull) as (K1 & K2); try assumption.
    - intros n1 n2 n E Hn. split; [exact (path_wf_sub s1 _ x tl _ Hru Hwfu n1 n2 n E Hn)|exact (Hcov n1 n2 n E Hn)].
    - apply (kept_of_trees res_ok s1 s2 (User (fst user)) x tl (ut_qt ut1) (ut_qt ut')); try assumption.
      cbn. rewrite H2. reflexivity. }
  unfold enforce_step, step_keeps.
  destruct Hcases as [(Ee & ->)|[(Ee & Eg & ->)|(gt1 & gq0 & gh & Ee & Eg & Hgh & ->)]].
  - rewrite Ee. rewrite (Huser s3 Hu3 Hcovu). cbn [andb].
    destruct (link s3 (fst user) a) as [g|]; [|reflexivity]. apply kept_same_root. reflexivity.
  - rewrite Ee, Eg. rewrite (Huser s3 Hu3 Hcovu). cbn [andb].
    destruct (link s3 (fst user) a) as [g|]; [|reflexivity]. apply kept_same_root. reflexivity.
  - rewrite Ee, Eg. set (g := getGroupForApp ut1 a) in *.
    set (gt' := mkGT (nset a (fst user) (gt_apps gt1)) (increase [] TGroup (x :: tl) a (Some r) (gt_qt gt1))).
    set (s2 := set_groups s3 (nset g gt' (groups s1))).
    assert (Hlink1 : link s1 (fst user) a = Some g) by (apply link_of_getGroup; assumption).
    assert (Hrg : who_root s1 (Group g) = Some (gt_qt gt1)) by (cbn; rewrite Eg; reflexivity).
    destruct (headroom_at [] TGroup tl x gq0 (gt_qt gt1) gh Hgh (path_wf_sub s1 _ x tl _ Hrg (Hwfg g Hlink1))) as (Hfullg & Wgh & Hcovg).
    assert (Hu2 : nlookup (users s2) (fst user) = Some ut') by exact Hu3.
    rewrite (Huser s2 Hu2).
    2:{ intros n1 n2 n E Hn. apply covers_cwmin_l; [assumption|assumption|]. exact (Hcovu n1 n2 n E Hn). }
    cbn [andb].
    rewrite (link_same_links s1 s2 (fst user) a ut1 ut' Hu Hu2 eq_refl), Hlink1.
    destruct (tree_res_ok_kept [] TGroup x tl a r (gt_qt gt1) (ComponentWiseMin uh gh) Hfullg) as (K1 & K2); try assumption.
    + intros n1 n2 n E Hn. split; [exact (path_wf_sub s1 _ x tl _ Hrg (Hwfg g Hlink1) n1 n2 n E Hn)|].
      apply covers_cwmin_r; [assumption|assumption|]. exact (Hcovg n1 n2 n E Hn).
    + apply (kept_of_trees res_ok s1 s2 (Group g) x tl (gt_qt gt1) (gt_qt gt')); try assumption.
      cbn. rewrite nlookup_nset_same. reflexivity.
Qed.

Lemma canrun_sound_lemma s p a u (user : ugi) s1 :
  ugm_can_run_app s p a user = (s1, true) ->
  canrun_step s1 (ugm_increase s1 p a u user) (fst user) a p = true.
Proof.
  intros Hcan.
  destruct p as [|x tl].
  { unfold canrun_step, step_keeps, kept. cbn [prefixes forallb andb]. destruct (link _ _ _); reflexivity. }
  destruct u as [r|].
  2:{ rewrite ugm_increase_guard by (right; right; reflexivity). apply step_keeps_refl. }
  destruct (a =? EMPTY) eqn:Ha.
  { rewrite ugm_increase_guard by (left; assumption). apply step_keeps_refl. }
  destruct (fst user =? EMPTY) eqn:Hue.
  { rewrite ugm_increase_guard by (right; left; assumption). apply step_keeps_refl. }
  destruct (ugm_can_run_app_post s (x :: tl) a user s1 Hcan) as (ut1 & wc & q0 & Hu & Hh & Hhas & Hcases).
  rewrite (ugm_increase_resolved s1 x tl a r user ut1 Ha Hue Hu Hhas). cbv zeta.
  assert (Hru : who_root s1 (User (fst user)) = Some (ut_qt ut1)) by (cbn; rewrite Hu; reflexivity).
  destruct (canRunApp_at wc TUser a tl x q0 (ut_qt ut1) Hh) as (Hfull & Hallu).
  set (ut' := mkUT (ut_links ut1) (increase (userWild s1) TUser (x :: tl) a (Some r) (ut_qt ut1))).
  set (s3 := set_users s1 (nset (fst user) ut' (users s1))).
  assert (Hu3 : nlookup (users s3) (fst user) = Some ut') by (cbn; apply nlookup_nset_same).
  assert (Huser : forall s2, nlookup (users s2) (fst user) = Some ut' ->
            kept apps_ok s1 s2 (User (fst user)) (x :: tl) = true).
  { intros s2 H2.
    destruct (tree_apps_ok_kept (userWild s1) TUser x tl a (Some r) (ut_qt ut1) Hfull Hallu) as (K1 & K2).
    apply (kept_of_trees apps_ok s1 s2 (User (fst user)) x tl (ut_qt ut1) (ut_qt ut')); try assumption.
    cbn. rewrite H2. reflexivity. }
  unfold canrun_step, step_keeps.
  destruct Hcases as [Ee|[(Ee & Eg)|(gt1 & gq0 & Ee & Eg & Hgh)]].
  - rewrite Ee. rewrite (Huser s3 Hu3). cbn [andb].
    destruct (link s3 (fst user) a) as [g|]; [|reflexivity]. apply kept_same_root. reflexivity.
  - rewrite Ee, Eg. rewrite (Huser s3 Hu3). cbn [andb].
    destruct (link s3 (fst user) a) as [g|]; [|reflexivity]. apply kept_same_root. reflexivity.
  - rewrite Ee, Eg. set (g := getGroupForApp ut1 a) in *.
    set (gt' := mkGT (nset a (fst user) (gt_apps gt1)) (increase [] TGroup (x :: tl) a (Some r) (gt_qt gt1))).
    set (s2 := set_groups s3 (nset g gt' (groups s1))).
    assert (Hlink1 : link s1 (fst user) a = Some g) by (apply link_of_getGroup; assumption).
    assert (Hu2 : nlookup (users s2) (fst user) = Some ut') by exact Hu3.
    rewrite (Huser s2 Hu2). cbn [andb].
    rewrite (link_same_links s1 s2 (fst user) a ut1 ut' Hu Hu2 eq_refl), Hlink1.
    destruct (canRunApp_at [] TGroup a tl x gq0 (gt_qt gt1) Hgh) as (Hfullg & Hallg).
    destruct (tree_apps_ok_kept [] TGroup x tl a (Some r) (gt_qt gt1) Hfullg Hallg) as (K1 & K2).
    apply (kept_of_trees apps_ok s1 s2 (Group g) x tl (gt_qt gt1) (gt_qt gt')); try assumption.
    + cbn. rewrite Eg. reflexivity.
    + cbn. rewrite nlookup_nset_same. reflexivity.
Qed.
