(* C05, configuration clause: witnesses (run in the model by vm_compute; each is also a pinned
   history in corpus/ugm.json that is replayed against the implementation on every run) showing
   that "limits in force = limits of the latest configuration" and "usage = sum of live
   allocations" do not survive particular reloads, and that the result of a reload depends on
   the iteration order of Go maps.  Proofs only. *)
From Coq Require Import List NArith ZArith Bool.
From YK Require Import Base.Int64 Base.Res Ugm.Tracker Ugm.Manager Ugm.UgmSpec Ugm.Conserve Ugm.ConserveM Oracles.UgmCheck.
Import ListNotations.
Open Scope N_scope.

Definition no_config (ops : list op) : Prop := forall o, In o ops -> match o with OConfig _ _ => False | _ => True end.
Fixpoint last_conf (ops : list op) (acc : option qconf) : option qconf :=
  match ops with
  | [] => acc
  | OConfig c _ :: t => last_conf t (Some c)
  | _ :: t => last_conf t acc
  end.

(* user u1 = 2, queues root = 0, a = 1, c = 3, resource type memory = 0 *)
Definition lim_u1 (v : N) : limit := mkLim [2] [] (Some (R [(0, v)])) 0.
(* root.a: u1 <= 10, root.a.c: u1 <= 5 *)
Definition conf_lost_1 : qconf := QConf 0 [] [QConf 1 [lim_u1 10] [QConf 3 [lim_u1 5] []]].
(* the limit on root.a is dropped, the one on root.a.c stays *)
Definition conf_lost_2 : qconf := QConf 0 [] [QConf 1 [] [QConf 3 [lim_u1 5] []]].

(* FULL STATEMENT (false):  forall hist s conf, run ugm_init hist = Some s -> last_conf hist None = Some conf ->
     forall w h, limit_exact s conf w h = true.   Refuted by finding C05-lost-named-limit: *)
Theorem reload_exact_refuted_lemma :
  exists hist s conf w h,
    run ugm_init hist = Some s /\ last_conf hist None = Some conf /\ limit_exact s conf w h = false.
Proof.
  exists [OConfig conf_lost_1 0; OConfig conf_lost_2 0].
  eexists. exists conf_lost_2, (User 2), [0; 1; 3].
  split; [vm_compute; reflexivity|]. split; [reflexivity|]. vm_compute. reflexivity.
Qed.

(* group g1 = 2 has limits on root.a and root.b; user u1 (groups [g1]) runs app1 in root.a (3) and
   app2 in root.b (4); the reload drops the limit on root.a: usage of g1 on root is wiped although
   app2 still holds 4 *)
Definition lim_g1 (v : N) : limit := mkLim [] [2] (Some (R [(0, v)])) 0.
Definition conf_grp_1 : qconf := QConf 0 [] [QConf 1 [lim_g1 10] []; QConf 2 [lim_g1 10] []].
Definition conf_grp_2 : qconf := QConf 0 [] [QConf 1 [] []; QConf 2 [lim_g1 10] []].
Definition hist_grp : list op :=
  [OConfig conf_grp_1 0;
   OInc [0; 1] 1 (Some (R [(0, 3)])) (2, [2]) false;
   OInc [0; 2] 2 (Some (R [(0, 4)])) (2, [2]) false;
   OConfig conf_grp_2 0].
Definition ledger_hist (ops : list op) : ledger := fold_left ledger_step ops [].

(* FULL STATEMENT with reloads inside the history (false): usage_exact after every paired history.
   Refuted by finding C05-group-reset-usage: *)
Theorem usage_with_reload_refuted_lemma :
  exists hist s w h k, run ugm_init hist = Some s /\ usage_exact s (ledger_hist hist) w h k = false.
Proof.
  exists hist_grp. eexists. exists (Group 2), [0], 0.
  split; [vm_compute; reflexivity|]. vm_compute. reflexivity.
Qed.

(* limits of g1 on root and on root.a dropped together: the two extreme iteration orders of the
   reset phase give different states (finding C05-reload-order) *)
Definition conf_ord_1 : qconf := QConf 0 [lim_g1 20] [QConf 1 [lim_g1 10] []; QConf 2 [] []].
Definition conf_ord_2 : qconf := QConf 0 [] [QConf 1 [] []; QConf 2 [] []].
Definition hist_ord : list op :=
  [OConfig conf_ord_1 0;
   OInc [0; 1] 1 (Some (R [(0, 3)])) (2, [2]) false;
   OInc [0; 2] 2 (Some (R [(0, 4)])) (2, [2]) false].
Theorem reload_order_refuted_lemma :
  exists hist s c rn s1 s2,
    run ugm_init hist = Some s /\
    update_config_gen true (fun l => l) false s c rn = UOk s1 /\
    update_config_gen true (@rev _) true s c rn = UOk s2 /\
    state_eqb s1 s2 = false.
Proof.
  exists hist_ord. eexists. exists conf_ord_2, 0. eexists. eexists.
  split; [vm_compute; reflexivity|]. split; [vm_compute; reflexivity|]. split; [vm_compute; reflexivity|].
  vm_compute. reflexivity.
Qed.
